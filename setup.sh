#!/bin/sh
# Offline setup: tool sanity (a must-pass and a must-fail Verus file) and the replay crate.
set -e
cd "$(dirname "$0")"
export CARGO_NET_OFFLINE=true
./check --selfcheck
if [ -f replay/Cargo.toml ]; then
  (cd replay && CARGO_TARGET_DIR=/verif/target/replay cargo build --release --offline -q) || echo "replay crate did not build (witness search unavailable)"
fi
echo setup ok
