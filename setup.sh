#!/bin/sh
# Offline setup: tool sanity (a must-pass and a must-fail Verus file) and the replay crate.
set -e
cd "$(dirname "$0")"
export CARGO_NET_OFFLINE=true
./check --selfcheck
if [ -f replay/Cargo.toml.in ]; then
  python3 -c "import sys; sys.path.insert(0, \".\"); from vf import replay; print(replay.build_driver())"
fi
echo setup ok
