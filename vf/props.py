"""Per-property metadata and the evidence writer."""
import json
import os

from . import gen

# id -> (title, what contracts do not decide for this property (DESIGN section 4))
PROPS = {
    "C01": {}, "C02": {}, "C03": {}, "C04": {}, "C05": {}, "C06": {}, "C07": {}, "C08": {},
    "C09": {}, "C10": {}, "C11": {}, "C12": {}, "C13": {}, "C14": {}, "C15": {}, "C16": {},
    "C17": {}, "C18": {}, "C19": {}, "C20": {},
}

COMMON_ASSUMPTIONS = [
    "verified text is extracted from /repo on every run and rewritten only by the logged dialect rules (DESIGN 3.3); rustc and Verus agree on the semantics of the remaining Rust",
    "stand-in contracts for std/vob/sparsevec/regex/HashMap operations (every #[verifier::external_body] item of the generated file; counted in trust_scan)",
    "usize is 64-bit; machine integers are machine integers (overflow is an obligation, not assumed away)",
    "Verus 0.2026.09.13 + Z3 are sound",
]


def load_notes(prop):
    p = os.path.join(gen.ROOT, "propnotes", prop + ".json")
    if os.path.exists(p):
        return json.load(open(p))
    return {}


def evidence(prop, tier, seed, results, violations, known_hits, undecided, bounded, wall, replay_paths):
    obligations = 0
    discharged = 0
    known_obl = 0
    samples = []
    units = []
    fns_under_contract = set()
    smt_ms = 0.0
    trust = {}
    assumed_ctx = []
    pinned = set()
    not_decided = []
    known_tags = set((k["unit"], f["tag"]) for k, f in known_hits)
    for r in results:
        failed_tags = set(f["tag"] for f in r["failures"])
        unit_obl = []
        for tag, clause in r.get("tags", []):
            if not tag.startswith(prop + "."):
                continue
            unit_obl.append((tag, clause))
        # one implicit-safety obligation per extracted body (index bounds, overflow,
        # unwrap, callee preconditions, unreachable panics inside that body)
        for s in r.get("sources", []):
            unit_obl.append(("%s.%s.safety[%s::%s]" % (r["props"][0] if r.get("props") else prop, r["unit"], s["file"], s["fn"]), "all implicit no-panic/no-overflow conditions of the extracted body"))
            fns_under_contract.add("%s::%s%s" % (s["file"], s["fn"], (" block `%s`" % s["block"]) if s.get("block") else ""))
        def in_src(f, s):
            st = f.get("site")
            return bool(st) and st.get("file") == s["file"] and s["first_line"] <= (st.get("line") or -1) <= s["last_line"]
        untagged = [f for f in r["failures"] if (".safety." in f["tag"] or "@" in f["tag"] or ".proof." in f["tag"] or ".unlocated." in f["tag"])]
        for tag, clause in unit_obl:
            if ".safety[" in tag:
                src = next(s for s in r.get("sources", []) if tag.endswith("[%s::%s]" % (s["file"], s["fn"])))
                mine = [f for f in untagged if in_src(f, src)] + [f for f in untagged if not any(in_src(f, s2) for s2 in r.get("sources", []))]
                bad = bool(mine)
                is_known = bad and all((r["unit"], f["tag"]) in known_tags for f in mine)
            else:
                bad = tag in failed_tags
                is_known = (r["unit"], tag) in known_tags
            if is_known:
                known_obl += 1
                continue
            obligations += 1
            if not bad and r["status"] != "undecided":
                discharged += 1
            if len(samples) < 12:
                samples.append({"obligation": tag, "clause": clause[:200], "unit": r["unit"], "width": r["width"],
                                "verdict": "failed" if bad else ("undecided" if r["status"] == "undecided" else "discharged")})
        for f in r.get("functions", []):
            smt_ms += f.get("smt_ms") or 0
        for k, v in (r.get("trust_scan") or {}).items():
            trust[k] = max(trust.get(k, 0), v)
        assumed_ctx.extend(r.get("ctx", []))
        for pin in r.get("pins") or []:
            pinned.add("%s::%s" % (pin["file"], pin["fn"]))
        not_decided.extend(r.get("clauses_not_decided", []))
        units.append({
            "unit": r["unit"], "width": r["width"], "status": r["status"], "template": r.get("tpl"),
            "sources": r.get("sources"), "dialect_rules_applied": r.get("rules"), "dropped": r.get("dropped"),
            "functions": [f for f in r.get("functions", []) if (f.get("smt_ms") or 0) > 1.0 or not f.get("success")],
            "verus_verified_fns": r.get("verus_verified"), "verus_failed_fns": r.get("verus_errors"),
            "vacuity_probes": r.get("probes"), "vacuity_probes_failed_as_required": r.get("probes_failed_as_required"),
            "back_end": "verus/z3", "wall_s": r.get("wall_s"), "checker_cmd": r.get("checker_cmd"),
            "trust_scan": r.get("trust_scan"),
            "failed_obligations": [f["tag"] for f in r["failures"]],
            "undecided": r["undecided"],
        })
    notes = load_notes(prop)
    ev = {
        "property_id": prop,
        "tier": tier,
        "seed": seed,
        "level": "proof",
        "coverage": {
            "obligations": obligations,
            "discharged": discharged,
            "known_finding_obligations_excluded": known_obl,
            "checker_cmd": "verus <generated unit file> --error-format=json --multiple-errors 64 --output-json --time --rlimit N (one run per unit and width; files under /verif/build, regenerated from /repo on this run)",
            "trusted_base": sorted(set(COMMON_ASSUMPTIONS + notes.get("trusted_base", []))),
            "functions_under_contract": len(fns_under_contract),
            "functions": sorted(fns_under_contract),
            "samples": samples,
            "units": units,
            "solver_time_ms": round(smt_ms, 1),
            "trust_scan_max_per_file": trust,
            "assumed_context": sorted(set(assumed_ctx)),
            "clauses_not_decided": sorted(set(not_decided + notes.get("clauses_not_decided", []))),
            "not_built": notes.get("not_built", []),
            "pinned_not_under_contract": sorted(pinned),
            "pinned_explanation": "functions the property depends on that have no contract: their code is pinned by hash; when one changes its unit becomes undecided and the bounded sweep of the real code (replay driver, stated bounds) decides; never counted as proved",
            "bounded": bounded,
            "known_findings_reported": [{"unit": k["unit"], "tag": k["tag"], "what": k["what"]} for k, f in known_hits],
            "undecided": undecided,
            "replays": replay_paths,
            "explanation": "Each obligation is a tagged contract clause (ensures / invariant / decreases / assert) or the implicit safety conditions of one body extracted from /repo; 'discharged' means Verus proved it on the text extracted on this run. Kani results are listed under 'bounded' and are never counted here.",
        },
        "assumptions": sorted(set(COMMON_ASSUMPTIONS + notes.get("assumptions", []))),
        "wall_s": round(wall, 2),
        "violations": len(set((v["unit"], v["tag"]) for v in violations)),
    }
    return ev
