"""Replay of a failed obligation against the real code (DESIGN 3.6).

Verus yields no model.  For a failed obligation we (1) look for a witness by running the
replay crate's driver for that unit -- it enumerates small inputs through the public API
of the real crates built from /repo's working tree and compares with the executable
transcription of the spec -- and (2) always write a replay file naming the obligation
and carrying the verifier's output."""
import json
import os
import re
import subprocess
import time

from . import gen

ROOT = gen.ROOT
REPLAYS = os.path.join(ROOT, "replays")
CRATE = os.path.join(ROOT, "replay")


def build_driver():
    tin = os.path.join(CRATE, "Cargo.toml.in")
    if not os.path.exists(tin):
        return None, "no replay crate"
    repo = os.path.abspath(gen.REPO)
    toml = open(tin).read().replace("@REPO@", repo)
    cur = os.path.join(CRATE, "Cargo.toml")
    if not os.path.exists(cur) or open(cur).read() != toml:
        open(cur, "w").write(toml)
    lock = os.path.join(repo, "Cargo.lock")
    if os.path.exists(lock) and not os.path.exists(os.path.join(CRATE, "Cargo.lock")):
        import shutil
        shutil.copy(lock, os.path.join(CRATE, "Cargo.lock"))
    tdir = os.path.join(ROOT, "target", "replay" if repo == "/repo" else "replay_scratch")
    env = dict(os.environ, CARGO_NET_OFFLINE="true", CARGO_TARGET_DIR=tdir)
    p = subprocess.run(["cargo", "build", "--release", "--offline", "-q"], cwd=CRATE, env=env,
                       capture_output=True, text=True)
    if p.returncode != 0:
        return None, "replay crate does not build against the working tree: " + p.stderr[-600:]
    return os.path.join(tdir, "release", "replay"), None


_MEMO = {}


def search(unit, tag, tier):
    """Witness search of the replay crate for (unit, obligation tag).  The crate chooses its sweep from the unit, the
    property prefix of the tag and a few words in it (replay/src/main.rs `search`, c12.rs `search`); searches that would
    run the same sweep are run once per check."""
    if not unit.startswith(("c02_", "c04_", "c05_", "c06_", "c07_", "c16_", "c17_")):
        return _search(unit, tag, tier)      # (the other sweeps look at further words of the tag)
    key = (unit, tag[:3], tier)
    if key not in _MEMO:
        _MEMO[key] = _search(unit, tag, tier)
    return _MEMO[key]


def _search(unit, tag, tier):
    exe, err = build_driver()
    if exe is None:
        return None, err
    casefile = os.path.join(ROOT, "build", "case_%d.json" % os.getpid())
    os.makedirs(os.path.dirname(casefile), exist_ok=True)
    if os.path.exists(casefile):
        os.remove(casefile)
    try:
        p = subprocess.run([exe, unit, tag, tier], capture_output=True, text=True, timeout=900, env=dict(os.environ, REPLAY_CASEFILE=casefile))
    except subprocess.TimeoutExpired:
        return None, "witness search timed out"
    if p.returncode < 0 or "has overflowed its stack" in p.stderr:
        # the sweep died (a stack overflow or another abort in the code under test kills the process it happens in): the
        # drivers note the case they are about to run, so the case that killed it is known; it is confirmed on its own
        w = died_on_case(exe, casefile, p)
        if w is not None:
            return w, None
        return None, "the sweep process died (%s) and the case it died on could not be confirmed: %s" % (p.returncode, p.stderr[-300:].strip())
    for ln in p.stdout.splitlines():
        if ln.startswith("WITNESS "):
            try:
                return json.loads(ln[len("WITNESS "):]), None
            except Exception:
                return {"raw": ln}, None
    return None, (p.stdout[-300:] + p.stderr[-300:]).strip() or "driver found no failing input within its bounds"


def died_on_case(exe, casefile, p):
    try:
        case = json.load(open(casefile))
    except Exception:
        return None
    finally:
        if os.path.exists(casefile):
            os.remove(casefile)
    why = [l for l in p.stderr.splitlines() if "overflow" in l or "fatal" in l or "abort" in l.lower()]
    q = subprocess.run([exe, "--witness", json.dumps(case)], capture_output=True, text=True, timeout=300)
    if q.returncode < 0 or "has overflowed its stack" in q.stderr or "STILL-FAILS" in q.stdout:
        case["observed"] = "the process running this case died (%s)" % ("; ".join(why)[:200] or "signal %d" % -p.returncode)
        case["expected"] = "a result"
        return case
    return None


def make_replay(prop, f, tier):
    os.makedirs(REPLAYS, exist_ok=True)
    safe = re.sub(r"[^A-Za-z0-9_.-]+", "_", f["tag"])[:80]
    path = os.path.join(REPLAYS, "%s.%s.%s.json" % (prop, f["unit"], safe))
    witness, note = (None, None)
    if f.get("kani_playback"):
        witness, note = f["kani_playback"], "kani concrete playback"
    elif f.get("found_witness") is not None:
        witness, note = f["found_witness"], "bounded sweep of the real code (unit undecided on this tree)"
    else:
        witness, note = search(f["unit"], f["tag"], tier)
    doc = {
        "property": prop, "unit": f["unit"], "width": f["width"], "obligation": f["tag"], "kind": f["kind"],
        "verifier_message": f["message"], "verifier_output": f.get("rendered"),
        "source": f.get("site"), "sources": f.get("sources"), "generated_file": f.get("gen_file"),
        "checker_cmd": f.get("checker_cmd"),
        "witness": witness, "witness_note": note,
        "rerun": "./check %s --replay %s" % (prop, os.path.relpath(path, ROOT)),
        "written_at": time.strftime("%Y-%m-%dT%H:%M:%S"),
    }
    json.dump(doc, open(path, "w"), indent=1)
    return path, witness is not None


def rerun(path):
    doc = json.load(open(path))
    print("replay of %s / %s" % (doc["property"], doc["obligation"]))
    if doc.get("witness") is None:
        print("no failing input was recorded; verifier output follows")
        print(doc.get("verifier_output") or doc.get("verifier_message"))
        return 1
    exe, err = build_driver()
    if exe is None:
        print(err)
        return 2
    p = subprocess.run([exe, "--witness", json.dumps(doc["witness"])], capture_output=True, text=True, timeout=300)
    print(p.stdout, end="")
    if p.returncode < 0 or "has overflowed its stack" in p.stderr:
        print("STILL-FAILS observed=the process running this case died (%s)" % (p.stderr.strip().splitlines() or ["signal %d" % -p.returncode])[-1])
        return 1
    return 1 if "STILL-FAILS" in p.stdout else 0
