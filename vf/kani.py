"""Bounded stand-ins (Kani), thorough tier only. Filled in by kani/<name>/harness.toml."""
import glob
import json
import os
import re
import shutil
import subprocess
import time

from . import gen

ROOT = gen.ROOT


def harnesses(prop):
    out = []
    for p in sorted(glob.glob(os.path.join(ROOT, "kani", "*", "harness.json"))):
        h = json.load(open(p))
        if prop in h.get("props", []):
            h["dir"] = os.path.dirname(p)
            out.append(h)
    return out


def do_extract(h):
    """Cut the blocks a harness verifies out of /repo (same extractor as the Verus units)."""
    from . import rustlex
    for ex in h.get("extract", []):
        path = os.path.join(gen.REPO, ex["file"])
        text = open(path, encoding="utf-8").read()
        masked = rustlex.mask(text)
        m = re.search(r"\bfn\s+%s\b" % re.escape(ex["fn"]), masked)
        if not m:
            raise gen.LostAnchor("fn %s not found in %s" % (ex["fn"], ex["file"]))
        ob = masked.find("{", m.start())
        cb = rustlex.match_brace(masked, ob)
        inner = (ob + 1, cb)
        ms = re.compile(ex["block"], re.M).search(masked, inner[0], inner[1])
        if not ms:
            raise gen.LostAnchor("block anchor `%s` not found in fn %s" % (ex["block"], ex["fn"]))
        a = masked.rfind("\n", 0, ms.start()) + 1
        me = re.compile(ex["through_stmt"], re.M).search(masked, ms.end(), inner[1])
        if not me:
            raise gen.LostAnchor("anchor `%s` not found after `%s`" % (ex["through_stmt"], ex["block"]))
        ob2 = masked.find("{", me.start())
        cb2 = rustlex.match_brace(masked, ob2)
        seg = rustlex.strip_comments(text[a:cb2 + 1])
        for rx, rp in ex.get("rules", []):
            seg = re.sub(rx, rp, seg, flags=re.M)
        open(os.path.join(h["dir"], ex["out"]), "w").write("{\n" + seg + "\n}\n")


def run_for(prop):
    res = []
    for h in harnesses(prop):
        d = h["dir"]
        try:
            do_extract(h)
        except gen.LostAnchor as e:
            res.append({"harness": os.path.basename(d), "crate": os.path.relpath(d, ROOT), "status": "undecided", "message": "lost anchor: %s" % e,
                        "bound": None, "back_end": "kani/cbmc", "label": "bounded", "tag": "%s.kani.%s" % (prop, os.path.basename(d)), "cmd": "", "wall_s": 0, "output": ""})
            continue
        lock = os.path.join(gen.REPO, "Cargo.lock")
        if os.path.exists(lock):
            shutil.copy(lock, os.path.join(d, "Cargo.lock"))
        for hn in h["harnesses"]:
            cmd = ["cargo", "kani", "--harness", hn["name"]] + hn.get("args", [])
            env = dict(os.environ, CARGO_NET_OFFLINE="true", CARGO_TARGET_DIR=os.path.join(ROOT, "target", "kani"))
            t0 = time.time()
            try:
                p = subprocess.run(cmd, cwd=d, env=env, capture_output=True, text=True, timeout=hn.get("timeout", 1800))
                out = p.stdout + p.stderr
                if "VERIFICATION:- SUCCESSFUL" in out:
                    st, msg = "ok", "VERIFICATION SUCCESSFUL"
                elif "VERIFICATION:- FAILED" in out:
                    st = "fail"
                    fl = re.findall(r"Failed Checks: (.*)", out)
                    msg = "; ".join(fl[:5]) or "VERIFICATION FAILED"
                    if "unwinding assertion" in msg and not any("unwinding" not in x for x in fl):
                        st, msg = "undecided", "unwinding bound too small: " + msg
                else:
                    st, msg = "undecided", "kani did not finish (rc=%s): %s" % (p.returncode, out[-300:])
            except subprocess.TimeoutExpired:
                out, st, msg = "", "undecided", "kani timed out"
            res.append({"harness": hn["name"], "crate": os.path.relpath(d, ROOT), "status": st, "message": msg,
                        "bound": hn.get("bound"), "back_end": "kani/cbmc", "label": "bounded" if not hn.get("complete") else "complete (loop-free, full domain)",
                        "tag": hn.get("tag", "%s.kani.%s" % (prop, hn["name"])), "cmd": "CARGO_NET_OFFLINE=true " + " ".join(cmd),
                        "wall_s": round(time.time() - t0, 1), "output": out if st == "fail" else ""})
    return res
