"""Bounded stand-ins (Kani), thorough tier only. Filled in by kani/<name>/harness.toml."""
import glob
import json
import os
import re
import shutil
import subprocess
import time

from . import gen

ROOT = gen.ROOT


def harnesses(prop):
    out = []
    for p in sorted(glob.glob(os.path.join(ROOT, "kani", "*", "harness.json"))):
        h = json.load(open(p))
        if prop in h.get("props", []):
            h["dir"] = os.path.dirname(p)
            out.append(h)
    return out


def run_for(prop):
    res = []
    for h in harnesses(prop):
        d = h["dir"]
        lock = os.path.join(gen.REPO, "Cargo.lock")
        if os.path.exists(lock):
            shutil.copy(lock, os.path.join(d, "Cargo.lock"))
        for hn in h["harnesses"]:
            cmd = ["cargo", "kani", "--harness", hn["name"]] + hn.get("args", [])
            env = dict(os.environ, CARGO_NET_OFFLINE="true", CARGO_TARGET_DIR=os.path.join(ROOT, "target", "kani"))
            t0 = time.time()
            try:
                p = subprocess.run(cmd, cwd=d, env=env, capture_output=True, text=True, timeout=hn.get("timeout", 1800))
                out = p.stdout + p.stderr
                if "VERIFICATION:- SUCCESSFUL" in out:
                    st, msg = "ok", "VERIFICATION SUCCESSFUL"
                elif "VERIFICATION:- FAILED" in out:
                    st = "fail"
                    fl = re.findall(r"Failed Checks: (.*)", out)
                    msg = "; ".join(fl[:5]) or "VERIFICATION FAILED"
                    if "unwinding assertion" in msg and not any("unwinding" not in x for x in fl):
                        st, msg = "undecided", "unwinding bound too small: " + msg
                else:
                    st, msg = "undecided", "kani did not finish (rc=%s): %s" % (p.returncode, out[-300:])
            except subprocess.TimeoutExpired:
                out, st, msg = "", "undecided", "kani timed out"
            res.append({"harness": hn["name"], "crate": os.path.relpath(d, ROOT), "status": st, "message": msg,
                        "bound": hn.get("bound"), "back_end": "kani/cbmc", "label": "bounded" if not hn.get("complete") else "complete (loop-free, full domain)",
                        "tag": hn.get("tag", "%s.kani.%s" % (prop, hn["name"])), "cmd": "CARGO_NET_OFFLINE=true " + " ".join(cmd),
                        "wall_s": round(time.time() - t0, 1), "output": out if st == "fail" else ""})
    return res
