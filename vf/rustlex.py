"""Minimal Rust lexical helpers: mask comments/strings so that brace matching and regex
anchors only ever see code."""
import re


def mask(text, keep_comments=False):
    """Return a string of the same length as `text` in which the *contents* of string
    literals, char literals and (unless keep_comments) comments are replaced by spaces
    (newlines preserved). Offsets are therefore interchangeable between the two."""
    out = list(text)
    n = len(text)
    i = 0

    def blank(a, b):
        for k in range(a, b):
            if out[k] != "\n":
                out[k] = " "

    while i < n:
        c = text[i]
        if text.startswith("//", i):
            j = text.find("\n", i)
            if j < 0:
                j = n
            if not keep_comments:
                blank(i, j)
            i = j
        elif text.startswith("/*", i):
            depth, j = 1, i + 2
            while j < n and depth:
                if text.startswith("/*", j):
                    depth += 1
                    j += 2
                elif text.startswith("*/", j):
                    depth -= 1
                    j += 2
                else:
                    j += 1
            if not keep_comments:
                blank(i, j)
            i = j
        elif c == '"' or (c in "br" and re.match(r'(b?r#*"|b")', text[i:i + 8]) and (i == 0 or not (text[i - 1].isalnum() or text[i - 1] == "_"))):
            m = re.match(r'b?r(#*)"', text[i:])
            if m:
                close = '"' + m.group(1)
                s = i + m.end()
                j = text.find(close, s)
                j = n if j < 0 else j
                blank(s, j)
                i = j + len(close)
            else:
                s = i + (2 if c == "b" else 1)
                j = s
                while j < n and text[j] != '"':
                    j += 2 if text[j] == "\\" else 1
                blank(s, min(j, n))
                i = j + 1
        elif c == "'":
            if i + 1 < n and text[i + 1] == "\\":
                j = i + 2
                # escaped char: find closing quote
                j = text.find("'", j + 1) if text[j] != "'" else text.find("'", j + 1)
                if text[i + 2] == "'":  # '\''
                    j = i + 3
                j = n if j < 0 else j
                blank(i + 1, j)
                i = j + 1
            elif i + 2 < n and text[i + 2] == "'":
                blank(i + 1, i + 2)
                i += 3
            else:
                i += 1  # lifetime
        else:
            i += 1
    return "".join(out)


def match_brace(masked, open_pos):
    """masked[open_pos] must be '{' (or '(' / '['); returns index of the matching closer."""
    pairs = {"{": "}", "(": ")", "[": "]"}
    o = masked[open_pos]
    c = pairs[o]
    depth = 0
    for k in range(open_pos, len(masked)):
        ch = masked[k]
        if ch == o:
            depth += 1
        elif ch == c:
            depth -= 1
            if depth == 0:
                return k
    raise ValueError("unbalanced %s at %d" % (o, open_pos))


def strip_comments(text):
    """Remove comments (keeping newlines, so line numbers are unchanged)."""
    m = mask(text, keep_comments=True)   # strings blanked, comments kept
    m2 = mask(text, keep_comments=False)  # both blanked
    out = []
    for a, b, c in zip(text, m, m2):
        # inside a comment: m keeps char (b == a, non-space) while m2 blanks it
        if b != c:
            out.append(" " if a != "\n" else "\n")
        else:
            out.append(a)
    return "".join(out)
