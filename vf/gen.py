"""Unit template -> generated Verus file.

A unit template (units/<name>.rs) is Verus text with directive comments:

  //@unit <id> props=C03,C16 widths=u32[,u8,u16]
  //@use prelude/<file>.rs                 textual include
  //@body file=<repo path> fn=<name> [nth=<k>] [block=`re`] [bnth=<k>] [end=`re`|through=brace] [keep_comments]
  //@rule n=<count> `regex` => `replacement`         unit dialect rule (single line)
  //@rule n=<count> `regex` =>>                      multi-line replacement follows ...
  //@rule first `regex` => ..                        rewrite only the first occurrence
  //@atend [n=] [nth=] `regex` =>>                   insert text just before the closing brace of the brace-delimited statement starting at the match
  ...replacement text...
  //@end
  //@endbody
  //@probe                                 vacuity probe position (template or replacement text)
  //@ctx <text>                            an assumed-context statement, copied to evidence
  //@undecided <text>                      a clause this unit does not decide, copied to evidence
  //@pinfile file= sha=<16 hex>            a whole source file (test modules, comments, layout apart) pinned by hash: covers everything
                                           in it that is neither under contract nor pinned by name
  //@pin file= fn= [nth=] sha=<16 hex>     a function NOT under contract, pinned by the hash of its code (comments and
                                           layout ignored): a change makes the unit undecided -> bounded sweep; tools/repin.py

Between //@body and //@endbody only //@rule directives are allowed; the directive pair is
replaced by the *text taken from /repo* after the dialect map.  `$T`, `$TMAX`, `$TBITS`
are replaced per storage width.  The generator never edits the extracted text except
through logged rules.
"""
import difflib
import hashlib
import os
import re

from . import rustlex

REPO = os.environ.get("VERIF_REPO", "/repo")
ROOT = os.path.dirname(os.path.dirname(os.path.abspath(__file__)))


class LostAnchor(Exception):
    """Extraction or a counted rule did not find what it needs: verdict 'undecided'."""


# ---------------------------------------------------------------------------
# global dialect rules: applied, in order, to every extracted body before the unit's own
# rules.  (name, regex, replacement).  Every application is counted and reported.
GLOBAL_RULES = [
    # rule 4: documented refusals are allowed divergence (must precede monomorphisation)
    ("refuse.storaget", r"\bpanic!\(\s*\"StorageT is not big enough[^\"]*\"\s*\);?", r"refuse();"),
    # rule 2: monomorphisation of the index storage type
    ("mono.max_value", r"\bStorageT::max_value\(\)", r"$TMAX"),
    ("mono.one", r"\bStorageT::one\(\)", r"(1 as $T)"),
    ("mono.zero", r"\bStorageT::zero\(\)", r"(0 as $T)"),
    ("mono.type", r"\bStorageT\b", r"$T"),
    # rule 3: narrowing casts become obligations
    ("builtin:narrow", "narrow", None),
    ("builtin:letchain", "letchain", None),
    ("mono.cast_unwrap", r"\bnum_traits::cast\(([^()]*)\)\.unwrap\(\)", r"(\1 as usize)"),
    # rule 4: documented refusals are allowed divergence
    # rule 4: panics are obligations
    ("panic.assert_stmt", r"^(\s*)(?:debug_)?assert!\((.*)\);[ \t]*$", r"\1{ let assert_cond_ = \2; assert(assert_cond_); }"),
    ("panic.assert", r"\b(?:debug_)?assert!\(", r"assert("),
    ("panic.unreachable", r"\bunreachable!\(\)", r"vpanic()"),
    ("panic.panic_stmt", r"\bpanic!\((\"[^\"]*\")\);", r"vpanic::<()>();"),
    ("panic.panic", r"\bpanic!\((\"[^\"]*\")\)", r"vpanic()"),
]


def _parse_kv(s):
    """key=value pairs; values may be `backticked`."""
    out = {}
    for m in re.finditer(r"(\w+)=(`[^`]*`|\S+)", s):
        v = m.group(2)
        out[m.group(1)] = v[1:-1] if v.startswith("`") else v
    for flag in re.findall(r"(?:^|\s)(\w+)(?=\s|$)", re.sub(r"(\w+)=(`[^`]*`|\S+)", "", s)):
        out[flag] = True
    return out


def extract(relpath, fn, nth=1, block=None, bnth=1, end=None, through=None, endx=None):
    """Return (text, first_line_no (1-based), sha256, fn_span) for the requested range."""
    path = os.path.join(REPO, relpath)
    if not os.path.exists(path):
        raise LostAnchor("source file %s not found" % relpath)
    text = open(path, encoding="utf-8").read()
    masked = rustlex.mask(text)
    hits = [m for m in re.finditer(r"\bfn\s+%s\b" % re.escape(fn), masked)]
    if len(hits) < nth:
        raise LostAnchor("fn %s (occurrence %d) not found in %s" % (fn, nth, relpath))
    pos = hits[nth - 1].start()
    ob = masked.find("{", pos)
    semi = masked.find(";", pos)
    if ob < 0 or (0 <= semi < ob):
        raise LostAnchor("fn %s in %s has no body" % (fn, relpath))
    cb = rustlex.match_brace(masked, ob)
    a, b = ob + 1, cb  # inner text
    if block:
        inner_m = masked[a:b]
        # anchors are matched against masked, per line
        lines = inner_m.split("\n")
        offs = []
        o = a
        for ln in lines:
            offs.append(o)
            o += len(ln) + 1
        starts = [i for i, ln in enumerate(lines) if re.search(block, ln)]
        if len(starts) < bnth:
            raise LostAnchor("block anchor `%s` (#%d) not found in fn %s of %s" % (block, bnth, fn, relpath))
        si = starts[bnth - 1]
        sa = offs[si]
        if through == "brace":
            ob2 = masked.find("{", sa)
            if ob2 < 0 or ob2 >= b:
                raise LostAnchor("no `{` after block anchor `%s` in fn %s" % (block, fn))
            cb2 = rustlex.match_brace(masked, ob2)
            eb = masked.find("\n", cb2)
            eb = b if eb < 0 or eb > b else eb
        elif endx:
            ends = [i for i, ln in enumerate(lines) if i > si and re.search(endx, ln)]
            if not ends:
                raise LostAnchor("end anchor `%s` not found after `%s` in fn %s" % (endx, block, fn))
            ei = ends[0] - 1
            eb = offs[ei] + len(lines[ei])
        elif end:
            ends = [i for i, ln in enumerate(lines) if i >= si and re.search(end, ln)]
            if not ends:
                raise LostAnchor("end anchor `%s` not found after `%s` in fn %s" % (end, block, fn))
            ei = ends[0]
            eb = offs[ei] + len(lines[ei])
        else:
            eb = offs[si] + len(lines[si])
        a, b = sa, eb
    seg = text[a:b]
    first_line = text.count("\n", 0, a) + 1
    sha = hashlib.sha256(seg.encode()).hexdigest()
    return seg, first_line, sha


def pin_hash(relpath, fn, nth=1):
    """sha256[:16] of a function's code (signature to closing brace) with comments blanked and white space
    collapsed, so that comment and layout edits do not change it."""
    path = os.path.join(REPO, relpath)
    if not os.path.exists(path):
        raise LostAnchor("source file %s not found" % relpath)
    text = open(path, encoding="utf-8").read()
    masked = rustlex.mask(text)
    hits = []
    for m in re.finditer(r"\bfn\s+%s\b" % re.escape(fn), masked):
        ob_, semi_ = masked.find("{", m.start()), masked.find(";", m.start())
        if ob_ >= 0 and (semi_ < 0 or ob_ < semi_):   # definitions only: a trait's declaration has no body
            hits.append(m)
    if len(hits) < nth:
        raise LostAnchor("pinned fn %s (definition %d) not found in %s" % (fn, nth, relpath))
    pos = hits[nth - 1].start()
    ob = masked.find("{", pos)
    cb = rustlex.match_brace(masked, ob)
    # comments blanked (masked), but string literals kept: take code from `text` where masked is not blank,
    # except inside comments; simplest faithful choice: strip comments with the lexer's comment mask
    code = rustlex.strip_comments(text[pos:cb + 1]) if hasattr(rustlex, "strip_comments") else masked[pos:cb + 1]
    code = re.sub(r"\s+", " ", code).strip()
    return hashlib.sha256(code.encode()).hexdigest()[:16]


def file_hash(relpath):
    """sha256[:16] of a whole source file with its test modules (`#[cfg(test)] mod .. { .. }`) removed, comments blanked and
    white space collapsed."""
    path = os.path.join(REPO, relpath)
    if not os.path.exists(path):
        raise LostAnchor("source file %s not found" % relpath)
    text = open(path, encoding="utf-8").read()
    while True:
        masked = rustlex.mask(text)
        m = re.search(r"#\[cfg\(test\)\]\s*(?:pub\s+)?mod\s+\w+\s*\{", masked)
        if not m:
            break
        cb = rustlex.match_brace(masked, m.end() - 1)
        text = text[:m.start()] + text[cb + 1:]
    code = rustlex.strip_comments(text) if hasattr(rustlex, "strip_comments") else rustlex.mask(text)
    code = re.sub(r"\s+", " ", code).strip()
    return hashlib.sha256(code.encode()).hexdigest()[:16]


def _unescape_len(body):
    """UTF-8 byte length of a (non-raw) Rust string literal body."""
    n, i = 0, 0
    while i < len(body):
        c = body[i]
        if c == "\\":
            d = body[i + 1]
            if d == "x":
                n += 1
                i += 4
            elif d == "u":
                j = body.index("}", i)
                n += len(chr(int(body[i + 3:j], 16)).encode())
                i = j + 1
            elif d == "\n":  # line continuation: skips following whitespace
                i += 2
                while i < len(body) and body[i] in " \t\n\r":
                    i += 1
            else:
                n += 1
                i += 2
        else:
            n += len(c.encode())
            i += 1
    return n


def builtin_strlit(seg, log, where):
    """dialect rule `strlit`: "text" -> lit("text", N), N = byte length (computed here)."""
    masked = rustlex.mask(seg)
    out, pos, k = [], 0, 0
    i = 0
    while True:
        a = masked.find('"', i)
        if a < 0:
            break
        b = masked.find('"', a + 1)
        if b < 0:
            raise LostAnchor("unterminated string literal in %s" % where)
        pre = seg[max(0, a - 4):a]
        if re.search(r"(r#*|b)$", pre):
            raise LostAnchor("raw/byte string literal in %s not supported by rule strlit" % where)
        body = seg[a + 1:b]
        out.append(seg[pos:a])
        out.append('lit("%s", %d)' % (body, _unescape_len(body)))
        pos = b + 1
        i = b + 1
        k += 1
    out.append(seg[pos:])
    if k:
        log.append({"rule": "builtin:strlit", "matches": k, "where": where})
    return "".join(out)


def _receiver_start(text, masked, p):
    """p = index of the '.' of a method call; return start index of its receiver expression."""
    i = p
    while True:
        j = i - 1
        while j >= 0 and masked[j] in " \t\n":
            j -= 1
        if j < 0:
            return i
        c = masked[j]
        if c in ")]":
            opener = {")": "(", "]": "["}[c]
            depth = 0
            k = j
            while k >= 0:
                if masked[k] == c:
                    depth += 1
                elif masked[k] == opener:
                    depth -= 1
                    if depth == 0:
                        break
                k -= 1
            if k < 0:
                raise LostAnchor("unbalanced receiver before .as_()")
            i = k
            # a call/index: something (identifier / closing bracket) may precede the opener
            j2 = k - 1
            if j2 >= 0 and (masked[j2].isalnum() or masked[j2] in "_)]"):
                continue
            return i
        elif c.isalnum() or c == "_":
            k = j
            while k >= 0 and (masked[k].isalnum() or masked[k] == "_"):
                k -= 1
            i = k + 1
            # path or field/method chain continues?
            j2 = k
            while j2 >= 0 and masked[j2] in " \t\n":
                j2 -= 1
            if j2 >= 0 and masked[j2] == ".":
                i = j2
                continue
            if j2 >= 1 and masked[j2 - 1:j2 + 1] == "::":
                i = j2 - 1
                continue
            if j2 >= 0 and masked[j2] in "*&" :
                return i
            return i
        elif c == "?":
            i = j
            continue
        else:
            return i


def builtin_narrow(seg, log, where):
    """dialect rule 3: `E.as_()` -> narrow_$T(E); the receiver E is found by bracket matching."""
    k = 0
    while True:
        masked = rustlex.mask(seg)
        p = masked.find(".as_()")
        if p < 0:
            break
        st = _receiver_start(seg, masked, p)
        recv = seg[st:p]
        seg = seg[:st] + "narrow_$T(" + recv.strip() + ")" + seg[p + len(".as_()"):]
        k += 1
    if k:
        log.append({"rule": "builtin:narrow", "matches": k, "where": where})
    return seg


def builtin_letchain(seg, log, where):
    """`if A && let P = E { B }` (no else) -> `if A { if let P = E { B } }`: Verus has no
    let-chains; without an else branch nesting is the same program."""
    k = 0
    pos = 0
    while True:
        masked = rustlex.mask(seg)
        m = re.compile(r"\bif\b").search(masked, pos)
        if not m:
            break
        # find the `{` opening the body: first `{` at (), [] depth 0
        i, depth = m.end(), 0
        while i < len(masked):
            c = masked[i]
            if c in "([":
                depth += 1
            elif c in ")]":
                depth -= 1
            elif c == "{" and depth == 0:
                break
            elif c == ";" and depth == 0:
                i = -1
                break
            i += 1
        if i < 0 or i >= len(masked):
            pos = m.end()
            continue
        cond_a, cond_b = m.end(), i
        # split at top-level &&
        parts, depth, last = [], 0, cond_a
        j = cond_a
        while j < cond_b:
            c = masked[j]
            if c in "([":
                depth += 1
            elif c in ")]":
                depth -= 1
            elif depth == 0 and masked.startswith("&&", j):
                parts.append(seg[last:j])
                last = j + 2
                j += 1
            j += 1
        parts.append(seg[last:cond_b])
        if len(parts) < 2 or not any(re.match(r"\s*let\b", x) for x in parts):
            pos = m.end()
            continue
        close = rustlex.match_brace(masked, cond_b)
        after = masked[close + 1:close + 40].lstrip()
        if after.startswith("else"):
            # with an else branch the chain cannot be nested; the one form that is supported is
            #   if let Some(x) = <path> && C { A } else ..   (x bound by copy, <path> a plain place expression):
            #   if (match <path> { Some(x) => C, None => false }) { let x = <path>.unwrap(); A } else ..
            m2 = re.match(r"\s*let Some\((\w+)\) = ([\w.]+)\s*$", parts[0]) if len(parts) == 2 else None
            if not m2:
                raise LostAnchor("let-chain with an else branch in %s is outside the dialect" % where)
            x, e = m2.group(1), m2.group(2)
            head = "if (match %s { Some(%s) => %s, None => false })" % (e, x, parts[1].strip())
            body = seg[cond_b:close + 1]
            body = body[:1] + " let %s = %s.unwrap();" % (x, e) + body[1:]
            seg = seg[:m.start()] + head + " " + body + seg[close + 1:]
            k += 1
            pos = m.start() + 2
            continue
        head = " { ".join("if " + x.strip() for x in parts)
        body = seg[cond_b:close + 1]
        seg = seg[:m.start()] + head + " " + body + " }" * (len(parts) - 1) + seg[close + 1:]
        k += 1
        pos = m.start() + 2
    if k:
        log.append({"rule": "builtin:letchain", "matches": k, "where": where})
    return seg


def builtin_lastmut(seg, log, where):
    """dialect rule 9: `let H = V.last_mut();` with arms `Some((a, b)) [if G] => BODY` matching on
    H.  Verus rejects `&mut` bindings under match guards, so H becomes the *index* of the last
    element and, inside guard and body of those arms, `*a` is V[hi_].0, `b` is V[hi_].1 and
    `*a += k` / `*a -= k` become Vec::set of the tuple with the first field changed."""
    m = re.search(r"let (\w+) = (\w+)\.last_mut\(\);", seg)
    if not m:
        return seg
    H, V = m.group(1), m.group(2)
    seg = seg[:m.start()] + "let %s = if %s.len() > 0 { Some(%s.len() - 1) } else { None };" % (H, V, V) + seg[m.end():]
    k = 1
    pos = 0
    arm = re.compile(r"Some\(\((\w+), (\w+)\)\)(\s+if\s+)?")
    while True:
        masked = rustlex.mask(seg)
        a = arm.search(masked, pos)
        if not a:
            break
        p0, p1 = a.group(1), a.group(2)
        if a.start() < m.start() or (not a.group(3) and not masked[a.end():].lstrip().startswith("=>")):
            pos = a.end()   # not a match arm on H (e.g. an `if let`)
            continue
        arrow = masked.find("=>", a.end())
        if arrow < 0:
            raise LostAnchor("rule lastmut in %s: arm without `=>`" % where)
        j = arrow + 2
        while masked[j] in " \t\n":
            j += 1
        if masked[j] == "{":
            end = rustlex.match_brace(masked, j) + 1
        else:
            depth, end = 0, j
            while end < len(masked):
                c = masked[end]
                if c in "([{":
                    depth += 1
                elif c in ")]}":
                    if depth == 0:
                        break
                    depth -= 1
                elif c == "," and depth == 0:
                    break
                end += 1
        guard_body = seg[a.end():end]
        if p0 != "_":
            guard_body = re.sub(r"\*%s\s*\+=\s*(\w+)" % re.escape(p0), r"{ let c_ = %s[hi_].0; let s_ = %s[hi_].1; %s.set(hi_, (c_ + \1, s_)); }" % (V, V, V), guard_body)
            guard_body = re.sub(r"\*%s\s*-=\s*(\w+);?" % re.escape(p0), r"{ let c_ = %s[hi_].0; let s_ = %s[hi_].1; %s.set(hi_, (c_ - \1, s_)); }" % (V, V, V), guard_body)
            guard_body = re.sub(r"\*%s\b" % re.escape(p0), "%s[hi_].0" % V, guard_body)
        if p1 != "_" and not p1.startswith("_"):
            guard_body = re.sub(r"\b%s\b" % re.escape(p1), "%s[hi_].1" % V, guard_body)
        head = "Some(hi_)" + (a.group(3) or "")
        seg = seg[:a.start()] + head + guard_body + seg[end:]
        pos = a.start() + len(head) + len(guard_body)
        k += 1
    log.append({"rule": "builtin:lastmut", "matches": k, "where": where})
    return seg


BUILTINS = {"strlit": builtin_strlit, "narrow": builtin_narrow, "letchain": builtin_letchain, "lastmut": builtin_lastmut}


def apply_rules(seg, rules, log, where):
    for name, rx, repl, need in rules:
        if name.startswith("builtin:"):
            seg = BUILTINS[rx](seg, log, where)
            continue
        if name.startswith("cut:"):
            # replace the whole brace-delimited statement that starts at each match (the text cut
            # out is reported as dropped; what stands in for it is the replacement)
            k, pos = 0, 0
            while True:
                masked = rustlex.mask(seg)
                m = re.compile(rx, re.M).search(masked, pos)
                if not m:
                    break
                ob = m.end() - 1 if masked[m.end() - 1] in "{(" else masked.find("{", m.start())
                if ob < 0:
                    raise LostAnchor("rule %s in %s: no `{` after `%s`" % (name, where, rx))
                cb = rustlex.match_brace(masked, ob)
                endp = cb + 1
                seg = seg[:m.start()] + repl + seg[endp:]
                pos = m.start() + len(repl)
                k += 1
            if need is not None and k != need:
                raise LostAnchor("rule %s in %s matched %d time(s), needs %d: `%s`" % (name, where, k, need, rx))
            if k:
                log.append({"rule": name, "matches": k, "where": where, "cut": True})
            continue
        if name.startswith("after:") or name.startswith("atend:"):
            # after: insert `repl` after the brace-delimited statement that starts at each match
            # atend: insert it just before that statement's closing brace (the end of a loop body / block)
            k, pos, seen = 0, 0, 0
            only = int(name.split(":")[2])
            while True:
                masked = rustlex.mask(seg)
                m = re.compile(rx, re.M).search(masked, pos)
                if not m:
                    break
                seen += 1
                if only and seen != only:
                    pos = m.end()
                    continue
                ob = m.end() - 1 if masked[m.end() - 1] in "{(" else masked.find("{", m.start())
                if ob < 0:
                    raise LostAnchor("rule %s in %s: no `{` after `%s`" % (name, where, rx))
                cb = rustlex.match_brace(masked, ob)
                if name.startswith("atend:"):
                    seg = seg[:cb] + "\n" + repl + "\n" + seg[cb:]
                    pos = m.end()
                    k += 1
                    continue
                endp = cb + 1
                if masked[endp:endp + 1] == ";":
                    endp += 1
                seg = seg[:endp] + "\n" + repl + seg[endp:]
                pos = endp + len(repl)
                k += 1
            if need is not None and k != need:
                raise LostAnchor("rule %s in %s matched %d time(s), needs %d: `%s`" % (name, where, k, need, rx))
            if k:
                log.append({"rule": name, "matches": k, "where": where})
            continue
        try:
            seg, k = re.subn(rx, repl, seg, count=(1 if name.startswith("unitfirst:") else 0), flags=re.M)
        except re.error as e:
            raise LostAnchor("bad rule %s in %s: %s" % (name, where, e))
        if need is not None and k != need:
            raise LostAnchor("rule %s in %s matched %d time(s), needs %d: `%s`" % (name, where, k, need, rx))
        if k:
            log.append({"rule": name, "matches": k, "where": where})
    return seg


class Generated:
    def __init__(self):
        self.text = ""
        self.linemap = []      # per generated line: ("tpl", tpl_file, lineno) | ("src", file, lineno, src_text)
        self.rules_log = []
        self.sources = []      # {file, fn, first_line, last_line, sha256}
        self.ctx = []
        self.undecided = []
        self.props = []
        self.unit = None
        self.widths = ["u32"]
        self.nprobes = 0
        self.dropped = set()
        self.expects = []
        self.pins = []


WIDTH = {
    "u8": ("u8", "0xffu8", "8"),
    "u16": ("u16", "0xffffu16", "16"),
    "u32": ("u32", "0xffff_ffffu32", "32"),
}


def generate(tpl_path, width="u32", vacuity=False):
    g = Generated()
    out = []      # list of (text_line, origin)
    tpl_lines = []

    def load(path, stack=()):
        if path in stack:
            raise LostAnchor("recursive //@use %s" % path)
        res = []
        for no, ln in enumerate(open(path, encoding="utf-8").read().split("\n"), 1):
            m = re.match(r"\s*//@use\s+(\S+)", ln)
            if m:
                res.extend(load(os.path.join(ROOT, m.group(1)), stack + (path,)))
            else:
                res.append((ln, ("tpl", os.path.relpath(path, ROOT), no)))
        return res

    tpl_lines = load(tpl_path)
    i = 0
    nprobe = 0

    def probe_line(origin):
        nonlocal nprobe
        nprobe += 1
        if vacuity:
            out.append(("if vprobe() { assert(false); } // VACUITY-PROBE %d" % nprobe, origin))

    while i < len(tpl_lines):
        ln, origin = tpl_lines[i]
        s = ln.strip()
        if s.startswith("//@unit"):
            parts = s.split(None, 2)
            g.unit = parts[1]
            kv = _parse_kv(parts[2] if len(parts) > 2 else "")
            g.props = kv.get("props", "").split(",")
            g.widths = kv.get("widths", "u32").split(",")
            i += 1
        elif s.startswith("//@ctx"):
            g.ctx.append(s[len("//@ctx"):].strip())
            i += 1
        elif s.startswith("//@undecided"):
            g.undecided.append(s[len("//@undecided"):].strip())
            i += 1
        elif s.startswith("//@probe"):
            probe_line(origin)
            i += 1
        elif s.startswith("//@expect"):
            kv = _parse_kv(s[len("//@expect"):])
            path = os.path.join(REPO, kv["file"])
            if not os.path.exists(path):
                raise LostAnchor("source file %s not found" % kv["file"])
            txt = open(path, encoding="utf-8").read()
            if not re.search(kv["re"], txt, re.M):
                raise LostAnchor("expected text `%s` no longer present in %s (a stand-in's stated facts depend on it)" % (kv["re"], kv["file"]))
            g.expects.append({"file": kv["file"], "re": kv["re"]})
            i += 1
        elif s.startswith("//@pinfile"):
            # a whole source file of the property's anchors (test modules, comments and layout apart): whatever in it is
            # neither under contract nor pinned by name is covered by this; a change makes the unit undecided
            kv = _parse_kv(s[len("//@pinfile"):])
            h = file_hash(kv["file"])
            if h != kv.get("sha"):
                raise LostAnchor("source file %s changed (code hash %s, pinned %s): what is not under contract in it is judged by the bounded sweep" % (kv["file"], h, kv.get("sha")))
            g.pins.append({"file": kv["file"], "fn": "*", "sha": h})
            i += 1
        elif s.startswith("//@pin"):
            # a function the property depends on that is NOT under contract: its code is pinned by hash, a change
            # makes the unit undecided, which sends the check to the bounded sweep of the real code
            kv = _parse_kv(s[len("//@pin"):])
            h = pin_hash(kv["file"], kv["fn"], int(kv.get("nth", 1)))
            if h != kv.get("sha"):
                raise LostAnchor("pinned function %s in %s changed (code hash %s, pinned %s): it is not under contract, only the bounded sweep can judge it" % (kv["fn"], kv["file"], h, kv.get("sha")))
            g.pins.append({"file": kv["file"], "fn": kv["fn"], "sha": h})
            i += 1
        elif s.startswith("//@body"):
            kv = _parse_kv(s[len("//@body"):])
            rules = []
            i += 1
            while True:
                if i >= len(tpl_lines):
                    raise LostAnchor("//@body without //@endbody in %s" % tpl_path)
                l2 = tpl_lines[i][0].strip()
                if l2.startswith("//@endbody"):
                    i += 1
                    break
                mb = re.match(r"//@builtin\s+(\w+)", l2)
                if mb:
                    if mb.group(1) not in BUILTINS:
                        raise LostAnchor("unknown builtin rule %s" % mb.group(1))
                    rules.append(("builtin:" + mb.group(1), mb.group(1), None, None))
                    i += 1
                    continue
                mc = re.match(r"//@cut\s+(?:n=(\d+|\*)\s+)?`(.*)`\s+=>>\s*$", l2)
                if mc:
                    rep = []
                    i += 1
                    while tpl_lines[i][0].strip() != "//@end":
                        rep.append(tpl_lines[i][0])
                        i += 1
                    need = None if mc.group(1) in (None, "*") else int(mc.group(1))
                    rules.append(("cut:%d" % (len(rules) + 1), mc.group(2), "\n".join(rep), need))
                    i += 1
                    continue
                ma = re.match(r"//@(?:after|atend)\s+(?:n=(\d+|\*)\s+)?(?:nth=(\d+)\s+)?`(.*)`\s+=>>\s*$", l2)
                atend = l2.startswith("//@atend")
                if ma:
                    rep = []
                    i += 1
                    while tpl_lines[i][0].strip() != "//@end":
                        rep.append(tpl_lines[i][0])
                        i += 1
                    need = None if ma.group(1) in (None, "*") else int(ma.group(1))
                    rules.append((("atend:%d:%s" if atend else "after:%d:%s") % (len(rules) + 1, ma.group(2) or "0"), ma.group(3), "\n".join(rep), need))
                    i += 1
                    continue
                first = False
                mf = re.match(r"//@rule\s+first\s+(.*)$", l2)
                if mf:     # `//@rule first `re` => ..`: only the first occurrence is rewritten (later ones are left for later rules)
                    first = True
                    l2 = "//@rule n=1 " + mf.group(1)
                m = re.match(r"//@rule\s+(?:n=(\d+|\*)\s+)?`(.*)`\s+=>(>)?\s*(?:`(.*)`)?\s*$", l2)
                if not m:
                    if l2 == "" or (l2.startswith("//") and not l2.startswith("//@")):
                        i += 1
                        continue
                    raise LostAnchor("unexpected line inside //@body in %s: %s" % (tpl_path, l2))
                need = None if m.group(1) in (None, "*") else int(m.group(1))
                if m.group(3):
                    rep = []
                    i += 1
                    while tpl_lines[i][0].strip() != "//@end":
                        rep.append(tpl_lines[i][0])
                        i += 1
                    repl = "\n".join(rep)
                    # multi-line replacement text is literal except for \1..\9 group refs
                    repl = repl.replace("\\", "\\\\")
                    repl = re.sub(r"\\\\(\d)", r"\\\1", repl)
                else:
                    repl = m.group(4) or ""
                rules.append((("unitfirst:%d" if first else "unit:%d") % (len(rules) + 1), m.group(2), repl, need))
                i += 1
            seg, first_line, sha = extract(
                kv["file"], kv["fn"], int(kv.get("nth", 1)), kv.get("block"),
                int(kv.get("bnth", 1)), kv.get("end"), kv.get("through"), kv.get("endx"))
            where = "%s::%s" % (kv["file"], kv["fn"])
            src_lines = seg.split("\n")
            g.sources.append({"file": kv["file"], "fn": kv["fn"], "block": kv.get("block"),
                              "first_line": first_line, "last_line": first_line + len(src_lines) - 1,
                              "sha256": sha})
            body = seg if kv.get("keep_comments") else rustlex.strip_comments(seg)
            if not kv.get("keep_comments"):
                g.dropped.add("comments")
            body = apply_rules(body, [(n, r, p, None) for (n, r, p) in GLOBAL_RULES], g.rules_log, where)
            body = apply_rules(body, rules, g.rules_log, where)
            gen_lines = body.split("\n")
            # line map by alignment of stripped lines
            a = [x.strip() for x in rustlex.strip_comments(seg).split("\n")]
            b = [x.strip() for x in gen_lines]
            sm = difflib.SequenceMatcher(None, a, b, autojunk=False)
            back = [None] * len(b)
            for tag, i1, i2, j1, j2 in sm.get_opcodes():
                for j in range(j1, j2):
                    if tag == "equal":
                        back[j] = i1 + (j - j1)
                    else:
                        back[j] = min(i1 + (j - j1), max(i1, i2 - 1)) if i2 > i1 else max(0, i1 - 1)
            for j, gl in enumerate(gen_lines):
                si = back[j] if back[j] is not None else 0
                if gl.strip().startswith("//@probe"):
                    probe_line(("src", kv["file"], first_line + si, src_lines[si].strip()))
                    continue
                out.append((gl, ("src", kv["file"], first_line + si, src_lines[si].strip())))
        else:
            out.append((ln, origin))
            i += 1
    t, tmax, tbits = WIDTH[width]
    lines = []
    for ln, origin in out:
        ln = ln.replace("$TMAX", tmax).replace("$TBITS", tbits).replace("$T", t)
        lines.append(ln)
        g.linemap.append(origin)
    g.text = "\n".join(lines) + "\n"
    g.nprobes = nprobe
    return g
