"""Run Verus on generated unit files and turn diagnostics into obligation verdicts."""
import json
import os
import re
import subprocess
import time

from . import gen

ROOT = gen.ROOT
BUILD = os.path.join(ROOT, "build")

VERIF_FAIL = re.compile(
    r"^(postcondition not satisfied|precondition not satisfied|assertion failed|"
    r"invariant not satisfied|loop invariant not (preserved|satisfied)|"
    r"possible arithmetic underflow/overflow|possible division by zero|"
    r"decreases not satisfied|could not prove termination|"
    r"possible bit shift underflow/overflow|unreachable\(\) is reachable|"
    r"cannot show invariant holds|invariant does not hold|"
    r"failed to show that the loop terminates|"
    r"could not show termination)", re.I)
RLIMIT = re.compile(r"(rlimit|resource limit|timed? ?out)", re.I)

KIND = [
    ("postcondition", "post"), ("precondition", "pre"), ("assertion", "assert"),
    ("invariant", "inv"), ("arithmetic", "arith"), ("division", "div"),
    ("decreases", "dec"), ("terminat", "dec"), ("shift", "shift"),
]

OBL_RE = re.compile(r"//\s*OBL:\s*([A-Za-z0-9_.\-]+(?:\s+C\d+\.[A-Za-z0-9_.\-]+)*)")
OBLG_RE = re.compile(r"//\s*OBLG:\s*([A-Za-z0-9_.\-]+)")


def norm_src(s):
    return re.sub(r"\s+", " ", s.strip())


def verus_cmd(path, rlimit):
    return ["verus", path, "--edition=2024", "--error-format=json", "--multiple-errors", "64",
            "--output-json", "--time", "--rlimit", str(rlimit)]


def run_verus(path, rlimit=30, timeout=300):
    t0 = time.time()
    import signal
    proc = subprocess.Popen(verus_cmd(path, rlimit), stdout=subprocess.PIPE, stderr=subprocess.PIPE, text=True,
                            cwd=os.path.dirname(path), start_new_session=True)
    try:
        out, err = proc.communicate(timeout=timeout)
    except subprocess.TimeoutExpired:
        try:
            os.killpg(proc.pid, signal.SIGKILL)
        except Exception:
            pass
        proc.communicate()
        return {"crash": "verus timed out after %ds" % timeout, "wall_s": time.time() - t0}

    class _P:
        pass
    p = _P()
    p.returncode, p.stdout, p.stderr = proc.returncode, out, err
    wall = time.time() - t0
    res = {"rc": p.returncode, "wall_s": wall, "diags": [], "out": None}
    try:
        res["out"] = json.loads(p.stdout)
    except Exception:
        res["out"] = None
    for ln in p.stderr.splitlines():
        ln = ln.strip()
        if ln.startswith("{"):
            try:
                d = json.loads(ln)
            except Exception:
                continue
            if d.get("$message_type", "diagnostic") == "diagnostic":
                res["diags"].append(d)
    if res["out"] is None and not res["diags"]:
        res["crash"] = "verus produced no parsable output (rc=%s): %s" % (p.returncode, p.stderr[-400:])
    return res


def classify(g, gen_file, res, unit_prop):
    """-> (failures, undecided_reasons).  failures: list of dicts with tag/prop/kind/..."""
    failures, undecided = [], []
    base = os.path.basename(gen_file)
    gl = g.text.split("\n")
    for d in res.get("diags", []):
        lvl = d.get("level")
        msg = d.get("message", "")
        if lvl != "error":
            continue
        if msg.startswith("aborting due to") or msg.startswith("could not compile"):
            continue
        if RLIMIT.search(msg):
            undecided.append("solver resource limit: " + msg)
            continue
        if not VERIF_FAIL.search(msg):
            sp = [s for s in d.get("spans", []) if s.get("is_primary")]
            loc = ""
            if sp and os.path.basename(sp[0]["file_name"]) == base:
                o = g.linemap[sp[0]["line_start"] - 1]
                loc = " at %s" % (":".join(str(x) for x in o[1:3]))
            undecided.append("front-end error%s: %s" % (loc, msg))
            continue
        kind = next((k for pat, k in KIND if pat in msg.lower()), "other")
        spans = [s for s in d.get("spans", []) if os.path.basename(s["file_name"]) == base]
        prim = next((s for s in spans if s.get("is_primary")), spans[0] if spans else None)
        tag = None
        generic = None
        order = sorted(spans, key=lambda s: 0 if (s.get("label") or "").startswith("failed") else 1)
        for s in order:
            for L in range(s["line_start"], s["line_end"] + 1):
                m = OBL_RE.search(gl[L - 1])
                if m:
                    tag = m.group(1)
                    break
                m = OBLG_RE.search(gl[L - 1])
                if m and generic is None:
                    generic = m.group(1)
            if tag:
                break
        if tag is None and kind == "dec" and prim is not None:
            L0 = prim["line_start"]
            if "end of loop" in msg or "loop" in msg.lower():
                for L in range(L0, min(L0 + 40, len(gl) + 1)):
                    m = re.search(r"decreases\b.*//\s*OBL:\s*([A-Za-z0-9_.\-]+)", gl[L - 1])
                    if m:
                        tag = m.group(1)
                        break
                    if L > L0 and re.match(r"\s*(loop|while|for)\b", gl[L - 1]):
                        break
            else:
                # recursion: the enclosing function's decreases clause
                for L in range(L0, 0, -1):
                    if re.match(r"\s*(pub\s+)?(proof\s+|exec\s+)?fn\s", gl[L - 1]):
                        for L2 in range(L, min(L + 60, len(gl) + 1)):
                            m = re.search(r"decreases\b.*//\s*OBL:\s*([A-Za-z0-9_.\-]+)", gl[L2 - 1])
                            if m:
                                tag = m.group(1)
                                break
                            if gl[L2 - 1].strip() == "{":
                                break
                        break
        # the call-site / statement line in the real source
        site = None
        cand = [s for s in spans if not (s.get("label") or "").startswith("failed")] or spans
        csite = next((s for s in cand if s.get("is_primary")), cand[0] if cand else None)
        if csite is not None:
            o = g.linemap[csite["line_start"] - 1]
            site = o
        if tag is None:
            # safety obligations (panic freedom, preconditions of stand-ins, proof glue) belong to the code, not to
            # one clause: they count for every property the unit serves
            props_ = list(getattr(g, "props", None) or [unit_prop])
            tags_ = []
            for pr_ in props_:
                if site is not None and site[0] == "src":
                    where = norm_src(site[3])
                    gen_ = re.sub(r"^C\d+\.", "", generic) if generic else None
                    name = ("%s.%s" % (pr_, gen_)) if gen_ else "%s.%s.safety.%s" % (pr_, g.unit, kind)
                    tags_.append("%s@%s" % (name, where))
                elif generic:
                    tags_.append("%s.%s" % (pr_, re.sub(r"^C\d+\.", "", generic)))
                elif site is not None:
                    tags_.append("%s.%s.proof.%s@%s:%d" % (pr_, g.unit, kind, site[1], site[2]))
                else:
                    tags_.append("%s.%s.unlocated.%s" % (pr_, g.unit, kind))
            for one in tags_:
                failures.append({
                    "tag": one, "property": one.split(".", 1)[0], "kind": kind, "message": msg,
                    "site": ({"file": site[1], "line": site[2], "text": site[3] if len(site) > 3 else None}
                             if site else None),
                    "rendered": d.get("rendered", ""),
                })
            continue
        for one in (tag.split() if re.match(r"C\d+\.\S+(\s+C\d+\.\S+)+$", tag) else [tag]):
            prop = one.split(".", 1)[0] if re.match(r"C\d+\.", one) else unit_prop
            failures.append({
                "tag": one, "property": prop, "kind": kind, "message": msg,
                "site": ({"file": site[1], "line": site[2], "text": site[3] if len(site) > 3 else None}
                         if site else None),
                "rendered": d.get("rendered", ""),
            })
    if "crash" in res:
        undecided.append(res["crash"])
    out = res.get("out") or {}
    vr = out.get("verification-results", {})
    if vr.get("encountered-vir-error"):
        undecided.append("Verus front end rejected the generated file (VIR error)")
    if not failures and not undecided and res.get("out") is not None and not vr.get("success", False):
        undecided.append("Verus reported failure without a classifiable diagnostic")
    # dedupe identical tags (several paths to the same obligation)
    seen, uniq = set(), []
    for f in failures:
        if f["tag"] not in seen:
            seen.add(f["tag"])
            uniq.append(f)
    return uniq, undecided


def fn_stats(res):
    out = res.get("out") or {}
    fns = []
    try:
        for mod in out["times-ms"]["smt"]["smt-run-module-times"]:
            for f in mod.get("function-breakdown", []):
                fns.append({"function": f["function"].split("::", 1)[-1], "mode": f.get("mode:", f.get("mode")),
                            "smt_ms": f.get("time-micros", 0) / 1000.0, "rlimit": f.get("rlimit"),
                            "success": f.get("success")})
    except Exception:
        pass
    return fns


def tags_in(g):
    tags = []
    for ln in g.text.split("\n"):
        for m in OBL_RE.finditer(ln):
            for one in m.group(1).split():
                tags.append((one, ln.split("//")[0].strip()))
    return tags


def scan_trust(g):
    """Mechanical scan for every assumption-bearing construct in the generated text."""
    found = {}
    for key, rx in [("external_body", r"#\[verifier::external_body\]"), ("assume", r"\bassume\("),
                    ("admit", r"\badmit\("), ("assume_specification", r"assume_specification"),
                    ("axiom", r"\baxiom fn\b"), ("uninterp", r"\buninterp spec fn\b"),
                    ("refuse", r"\brefuse\(\)"),
                    ("exec_allows_no_decreases_clause", r"exec_allows_no_decreases_clause")]:
        n = len(re.findall(rx, g.text))
        if n:
            found[key] = n
    return found


def run_unit(tpl_path, width, rlimit=30):
    """Generate + verify + vacuity-probe one unit at one width."""
    os.makedirs(BUILD, exist_ok=True)
    name = os.path.splitext(os.path.basename(tpl_path))[0]
    r = {"unit": name, "width": width, "status": None, "failures": [], "undecided": [],
         "tpl": os.path.relpath(tpl_path, ROOT)}
    try:
        g = gen.generate(tpl_path, width, vacuity=False)
        gv = gen.generate(tpl_path, width, vacuity=True)
    except gen.LostAnchor as e:
        r["status"] = "undecided"
        r["undecided"] = ["lost anchor: %s" % e]
        return r
    except Exception as e:  # generator bug: never an alarm
        r["status"] = "undecided"
        r["undecided"] = ["generator error: %r" % e]
        return r
    r["unit"] = g.unit or name
    r["props"] = g.props
    unit_prop = g.props[0] if g.props else "C00"
    f = os.path.join(BUILD, "%s_%s.rs" % (name, width))
    fv = os.path.join(BUILD, "%s_%s_vac.rs" % (name, width))
    open(f, "w").write(g.text)
    open(fv, "w").write(gv.text)
    res = run_verus(f, rlimit)
    failures, undecided = classify(g, f, res, unit_prop)
    r["failures"] = failures
    r["undecided"] = undecided
    r["functions"] = fn_stats(res)
    r["wall_s"] = res.get("wall_s")
    r["tags"] = tags_in(g)
    r["sources"] = g.sources
    r["rules"] = g.rules_log
    r["ctx"] = g.ctx
    r["pins"] = g.pins
    r["clauses_not_decided"] = g.undecided
    r["trust_scan"] = scan_trust(g)
    r["dropped"] = sorted(g.dropped)
    r["gen_file"] = os.path.relpath(f, ROOT)
    r["checker_cmd"] = " ".join(verus_cmd(os.path.relpath(f, ROOT), rlimit))
    vr = (res.get("out") or {}).get("verification-results", {})
    r["verus_verified"] = vr.get("verified")
    r["verus_errors"] = vr.get("errors")
    # vacuity: every probe must fail
    r["probes"] = gv.nprobes
    if not undecided and gv.nprobes:
        resv = run_verus(fv, rlimit)
        glv = gv.text.split("\n")
        hit = set()
        for d in resv.get("diags", []):
            if d.get("level") == "error" and d.get("message", "").startswith("assertion failed"):
                for s in d.get("spans", []):
                    if os.path.basename(s["file_name"]) == os.path.basename(fv):
                        m = re.search(r"VACUITY-PROBE (\d+)", glv[s["line_start"] - 1])
                        if m:
                            hit.add(int(m.group(1)))
        r["probes_failed_as_required"] = len(hit)
        missing = [k for k in range(1, gv.nprobes + 1) if k not in hit]
        vac_rlimit = any(d.get("level") == "error" and RLIMIT.search(d.get("message", "")) for d in resv.get("diags", []))
        if "crash" in resv and "timed out" in resv["crash"]:
            # the probe file is the same text with `assert(false)` added at the probe points; running out of time on
            # it says nothing about the context being contradictory
            r["probes_inconclusive"] = "vacuity run " + resv["crash"]
        elif "crash" in resv:
            r["undecided"].append("vacuity run: " + resv["crash"])
        elif missing and vac_rlimit:
            # the solver could not prove `false` at these points within its budget: not vacuous as far as it can tell
            r["probes_inconclusive"] = missing
        elif missing:
            r["undecided"].append(
                "vacuity: probe(s) %s were proved, i.e. the context there is contradictory" % missing)
    if r["undecided"]:
        r["status"] = "undecided"
    elif failures:
        r["status"] = "fail"
    else:
        r["status"] = "ok"
    return r
