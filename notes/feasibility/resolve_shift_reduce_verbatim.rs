use vstd::prelude::*;
use std::cmp::Ordering;
verus! {

#[derive(Clone, Copy, PartialEq, Eq)] pub struct PIdx(pub u32);
#[derive(Clone, Copy, PartialEq, Eq)] pub struct TIdx(pub u32);
#[derive(Clone, Copy, PartialEq, Eq)] pub struct StIdx(pub u32);
#[derive(Clone, Copy, PartialEq, Eq)] pub enum AssocKind { Left, Right, Nonassoc }
#[derive(Clone, Copy, PartialEq, Eq)] pub struct Precedence { pub level: u64, pub kind: AssocKind }
pub enum Action { Shift(StIdx), Reduce(PIdx), Accept, Error }

#[verifier::external_body]
pub struct YaccGrammar { x: usize }
impl YaccGrammar {
    pub uninterp spec fn tprec(&self, t: TIdx) -> Option<Precedence>;
    pub uninterp spec fn pprec(&self, p: PIdx) -> Option<Precedence>;
    #[verifier::external_body]
    pub fn token_precedence(&self, t: TIdx) -> (r: Option<Precedence>) ensures r == self.tprec(t) { unimplemented!() }
    #[verifier::external_body]
    pub fn prod_precedence(&self, p: PIdx) -> (r: Option<Precedence>) ensures r == self.pprec(p) { unimplemented!() }
}

pub open spec fn enc(a: Action) -> usize {
    match a {
        Action::Shift(s) => 1usize | ((s.0 as usize) << 2),
        Action::Reduce(p) => 2usize | ((p.0 as usize) << 2),
        Action::Accept => 3,
        Action::Error => 0,
    }
}
pub struct StateTable {}
impl StateTable {
fn encode(action: Action) -> (r: usize) ensures r == enc(action) {
    match action {
        Action::Shift(stidx) => 1 | ((stidx.0 as usize) << 2),
        Action::Reduce(ridx) => 2 | ((ridx.0 as usize) << 2),
        Action::Accept => 3,
        Action::Error => 0,
    }
}
}

pub enum Res { KeepReduce, Shift, Error }
pub open spec fn yacc_sr(t: Option<Precedence>, p: Option<Precedence>) -> (Res, bool) {
    if t is None || p is None { (Res::Shift, true) }
    else if t.unwrap().level > p.unwrap().level { (Res::Shift, false) }
    else if t.unwrap().level < p.unwrap().level { (Res::KeepReduce, false) }
    else { match t.unwrap().kind { AssocKind::Left => (Res::KeepReduce, false), AssocKind::Right => (Res::Shift, false), AssocKind::Nonassoc => (Res::Error, false) } }
}

fn resolve_shift_reduce(
    grm: &YaccGrammar,
    actions: &mut Vec<usize>,
    off: usize,
    tidx: TIdx,
    pidx: PIdx,
    stidx: StIdx, // State we want to shift to
    shift_reduce: &mut Vec<(TIdx, PIdx, StIdx)>,
    conflict_stidx: StIdx, // State in which the conflict occured
) 
  requires off < old(actions)@.len(), old(actions)@[off as int] == enc(Action::Reduce(pidx)),
     grm.tprec(tidx) is Some && grm.pprec(pidx) is Some && grm.tprec(tidx).unwrap().level == grm.pprec(pidx).unwrap().level ==> grm.tprec(tidx).unwrap().kind == grm.pprec(pidx).unwrap().kind,
  ensures 
     final(actions)@.len() == old(actions)@.len(),
     forall|i: int| 0 <= i < old(actions)@.len() && i != off ==> final(actions)@[i] == old(actions)@[i],
     final(actions)@[off as int] == (match yacc_sr(grm.tprec(tidx), grm.pprec(pidx)).0 { Res::KeepReduce => enc(Action::Reduce(pidx)), Res::Shift => enc(Action::Shift(stidx)), Res::Error => enc(Action::Error) }),
     final(shift_reduce)@ == (if yacc_sr(grm.tprec(tidx), grm.pprec(pidx)).1 { old(shift_reduce)@.push((tidx, pidx, conflict_stidx)) } else { old(shift_reduce)@ }),
     final(actions)@[off as int] != 0usize, // C16
{
    let tidx_prec = grm.token_precedence(tidx);
    let pidx_prec = grm.prod_precedence(pidx);
    match (tidx_prec, pidx_prec) {
        (_, None) | (None, _) => {
            // If the token and production don't both have precedences, we use Yacc's default
            // resolution, which is in favour of the shift.
            actions[off] = StateTable::encode(Action::Shift(stidx));
            shift_reduce.push((tidx, pidx, conflict_stidx));
        }
        (Some(token_prec), Some(prod_prec)) => {
            match token_prec.level.cmp(&prod_prec.level) {
                Ordering::Equal => {
                    // Both token and production have the same level precedence, so we need to look
                    // at the precedence kind.
                    match (token_prec.kind, prod_prec.kind) {
                        (AssocKind::Left, AssocKind::Left) => {
                            // Left associativity is resolved in favour of the reduce (i.e. leave
                            // as-is).
                        }
                        (AssocKind::Right, AssocKind::Right) => {
                            // Right associativity is resolved in favour of the shift.
                            actions[off] = StateTable::encode(Action::Shift(stidx));
                        }
                        (AssocKind::Nonassoc, AssocKind::Nonassoc) => {
                            // Nonassociativity leads to a run-time parsing error, so we need to
                            // remove the action entirely.
                            actions[off] = StateTable::encode(Action::Error);
                        }
                        (_, _) => {
                            assert(false); // panic!("Not supported.");
                        }
                    }
                }
                Ordering::Greater => {
                    // The token has higher level precedence, so resolve in favour of shift.
                    actions[off] = StateTable::encode(Action::Shift(stidx));
                }
                Ordering::Less => {
                    // If token_lev < prod_lev, then the production has higher level precedence and
                    // we keep the reduce as-is.
                }
            }
        }
    }
}
}
fn main() {}
