use vstd::prelude::*;
use vstd::std_specs::hash::*;
use std::collections::HashMap;
verus! {

// ---- stand-ins for dependencies (assumed contracts) ----
#[derive(Clone, Copy, PartialEq, Eq, Hash)]
pub struct RIdx(pub u32);
#[derive(Clone, Copy, PartialEq, Eq, Hash)]
pub struct PIdx(pub u32);
#[derive(Clone, Copy, PartialEq, Eq, Hash)]
pub struct TIdx(pub u32);
#[derive(Clone, Copy, PartialEq, Eq, Hash)]
pub struct StIdx(pub u32);

#[verifier::external_body]
pub struct Vob { v: Vec<bool> }
impl Vob {
    pub uninterp spec fn view(&self) -> Seq<bool>;
    #[verifier::external_body]
    pub fn from_elem(b: bool, n: usize) -> (r: Vob)
        ensures r@.len() == n, forall|i: int| 0 <= i < n ==> r@[i] == b
    { unimplemented!() }
    #[verifier::external_body]
    pub fn set(&mut self, i: usize, b: bool) -> (changed: bool)
        requires i < old(self)@.len()
        ensures final(self)@ == old(self)@.update(i as int, b), changed == (old(self)@[i as int] != b)
    { unimplemented!() }
}

pub enum Action { Shift(StIdx), Reduce(PIdx), Accept, Error }

pub open spec fn spec_decode(bits: usize) -> Action {
    let tag = bits & 3;
    let val = bits >> 2;
    if tag == 1 { Action::Shift(StIdx(val as u32)) }
    else if tag == 2 { Action::Reduce(PIdx(val as u32)) }
    else if tag == 3 { Action::Accept }
    else { Action::Error }
}

fn decode(bits: usize) -> (r: Action)
    ensures r == spec_decode(bits)
{
    let action = bits & 0b11;
    let val = bits >> 2;
    assert(action == 0 || action == 1 || action == 2 || action == 3) by(bit_vector) requires action == bits & 0b11;
    match action {
        1 => Action::Shift(StIdx(val as u32)),
        2 => Action::Reduce(PIdx(val as u32)),
        3 => Action::Accept,
        0 => Action::Error,
        _ => { assert(false); Action::Error }
    }
}

fn shifts_row(actions: &Vec<usize>, state_shifts: &mut Vob, st: usize, ntok: usize)
    requires ntok > 0, (st + 1) * ntok <= actions@.len(), actions@.len() == old(state_shifts)@.len(), actions@.len() < 0x1000_0000,
    ensures forall|t: int| 0 <= t < ntok ==> (#[trigger] final(state_shifts)@[st * ntok + t]) == (old(state_shifts)@[st*ntok + t] || spec_decode(actions@[st * ntok + t]) is Shift),
         final(state_shifts)@.len() == old(state_shifts)@.len(),
{
    assert(st * ntok + ntok == (st + 1) * ntok) by(nonlinear_arith);
    for tidx in 0..ntok
        invariant
          st * ntok + ntok <= actions@.len(), actions@.len() == state_shifts@.len(),
          state_shifts@.len() == old(state_shifts)@.len(),
          forall|t: int| 0 <= t < tidx ==> (#[trigger] state_shifts@[st * ntok + t]) == (old(state_shifts)@[st*ntok+t] || spec_decode(actions@[st * ntok + t]) is Shift),
          forall|t: int| tidx <= t < ntok ==> (#[trigger] state_shifts@[st * ntok + t]) == old(state_shifts)@[st*ntok+t],
    {
        let off = st * ntok + tidx;
        match decode(actions[off]) {
            Action::Shift(_) => { state_shifts.set(off, true); }
            _ => (),
        }
    }
}
}
fn main() {}
