use vstd::prelude::*;
use vstd::std_specs::hash::*;
use std::collections::HashMap;
verus! {
#[derive(Clone, Copy, PartialEq, Eq, Hash)] pub struct RIdx(pub u32);
#[derive(Clone, Copy, PartialEq, Eq, Hash)] pub struct PIdx(pub u32);

// assumed: derived Hash/Eq on these keys are deterministic and agree with structural equality
pub axiom fn key_model() ensures obeys_key_model::<(RIdx, usize)>();

#[verifier::external_body]
fn hm_values(m: &HashMap<(RIdx, usize), PIdx>) -> (r: Vec<PIdx>)
    ensures r@.to_set() == m@.values(), r@.len() == m@.len()
{ m.values().cloned().collect() }

fn f(a: RIdx, b: RIdx, p: PIdx, q: PIdx) -> (n: usize)
    ensures a != b ==> n == 2, a == b ==> n == 1
{
    proof { key_model(); }
    let mut nt_depth: HashMap<(RIdx, usize), PIdx> = HashMap::new();
    nt_depth.clear();
    nt_depth.insert((a, 1), p);
    nt_depth.insert((b, 1), q);
    assert(nt_depth@.dom() =~= set![(a, 1usize), (b, 1usize)]);
    let vs = hm_values(&nt_depth);
    proof {
        if a != b { assert(nt_depth@.len() == 2) by { assert((a,1usize) != (b,1usize)); } }
        else { assert(nt_depth@.dom() =~= set![(a, 1usize)]); }
    }
    vs.len()
}
}
fn main() {}
