use vstd::prelude::*;
verus! {
pub struct Span { start: usize, end: usize }
impl Span {
    pub closed spec fn s(&self) -> int { self.start as int }
    pub closed spec fn e(&self) -> int { self.end as int }
    pub fn start(&self) -> (r: usize) ensures r == self.s() { self.start }
    pub fn end(&self) -> (r: usize) ensures r == self.e() { self.end }
}
pub struct NewlineCache { newlines: Vec<usize>, trailing_bytes: usize }

pub open spec fn sorted(s: Seq<usize>) -> bool { forall|i: int, j: int| 0 <= i < j < s.len() ==> s[i] < s[j] }

// assumed contract of <[usize]>::binary_search on a strictly sorted slice, restricted to v[from..]
#[verifier::external_body]
fn bsearch_from(v: &Vec<usize>, from: usize, x: usize) -> (r: Result<usize, usize>)
    requires from <= v@.len(), sorted(v@)
    ensures match r {
        Ok(j) => from + j < v@.len() && v@[from + j] == x,
        Err(j) => from + j <= v@.len() && (forall|k: int| from <= k < from + j ==> v@[k] < x) && (forall|k: int| from + j <= k < v@.len() ==> v@[k] > x),
    }
{ unimplemented!() }

// line index (0-based) containing byte position p
pub open spec fn line_of(nl: Seq<usize>, p: int, k: int) -> bool {
    0 <= k < nl.len() && nl[k] <= p && (k + 1 < nl.len() ==> p < nl[k + 1])
}
pub open spec fn line_end(nl: Seq<usize>, total: int, k: int) -> int {
    if k + 1 < nl.len() { nl[k + 1] - 1 } else { total }
}

impl NewlineCache {
    pub closed spec fn wf(&self) -> bool {
        self.newlines@.len() > 0 && self.newlines@[0] == 0 && sorted(self.newlines@)
        && self.newlines@.last() + self.trailing_bytes <= usize::MAX
    }
    pub closed spec fn total(&self) -> int { self.newlines@.last() + self.trailing_bytes }
    pub closed spec fn nl(&self) -> Seq<usize> { self.newlines@ }

    pub fn span_line_bytes(&self, span: Span) -> (r: (usize, usize))
        requires self.wf(), span.s() <= span.e() <= self.total()
        ensures
            exists|k: int| line_of(self.nl(), span.s(), k) && r.0 == self.nl()[k],   // OBL start
            exists|k: int| line_of(self.nl(), span.e(), k) && r.1 == line_end(self.nl(), self.total(), k), // OBL end
    {
        let (st, st_line) = match bsearch_from(&self.newlines, 0, span.start()) {
            Ok(j) => (self.newlines[j], j + 1),
            Err(j) => (self.newlines[j - 1], j),
        };
        let en = match bsearch_from(&self.newlines, st_line, span.end()) {
            Ok(j) if st_line + j == self.newlines.len() - st_line => {
                self.newlines.last().unwrap() + self.trailing_bytes
            }
            Ok(j) => self.newlines[st_line + j + 1] - 1,
            Err(j) if st_line + j == self.newlines.len() => {
                self.newlines.last().unwrap() + self.trailing_bytes
            }
            Err(j) => self.newlines[st_line + j] - 1,
        };
        (st, en)
    }
}
}
fn main() {}
