use vstd::prelude::*;
verus! {
#[verifier::external_body]
pub struct Src { s: String }
impl Src {
    pub uninterp spec fn len(&self) -> nat;
    pub uninterp spec fn is_boundary(&self, i: int) -> bool;
    #[verifier::external_body]
    pub fn len_x(&self) -> (r: usize) ensures r == self.len() { unimplemented!() }
}
pub struct P { pub src: Src }
pub enum Setting { Num(u64), Array(Vec<Setting>) }
pub struct HeaderError { at: usize }

impl P {
    pub open spec fn ok(&self, i: int) -> bool { 0 <= i <= self.src.len() && self.src.is_boundary(i) }

    #[verifier::external_body]
    fn parse_ws(&self, i: usize) -> (j: usize) requires self.ok(i as int) ensures i <= j, self.ok(j as int) { unimplemented!() }
    #[verifier::external_body]
    fn lookahead_is(&self, s: &'static str, i: usize) -> (r: Option<usize>) requires self.ok(i as int)
        ensures r matches Some(j) ==> i < j && self.ok(j as int) { unimplemented!() }
    #[verifier::external_body]
    fn parse_num(&self, i: usize) -> (r: Option<(u64, usize)>) requires self.ok(i as int)
        ensures r matches Some((_, j)) ==> i < j && self.ok(j as int) { unimplemented!() }

    fn parse_setting(&self, mut i: usize) -> (r: Result<(Setting, usize), HeaderError>)
        requires self.ok(i as int)
        ensures r matches Ok((_, j)) ==> i < j && self.ok(j as int)
        decreases self.src.len() - i
    {
        i = self.parse_ws(i);
        match self.parse_num(i) {
            Some((n, j)) => Ok((Setting::Num(n), self.parse_ws(j))),
            None => {
                if let Some(mut j) = self.lookahead_is("[", i) {
                    let mut vals = Vec::new();
                    loop
                        invariant self.ok(j as int), i < j,
                        decreases self.src.len() - j
                    {
                        j = self.parse_ws(j);
                        if let Some(end_pos) = self.lookahead_is("]", j) {
                            return Ok((Setting::Array(vals), end_pos));
                        }
                        if let Ok((val, k)) = self.parse_setting(j) {
                            vals.push(val);
                            j = self.parse_ws(k);
                        }
                        if let Some(k) = self.lookahead_is(",", j) {
                            j = k
                        }
                    }
                } else {
                    Err(HeaderError { at: i })
                }
            }
        }
    }
}
}
fn main() {}
