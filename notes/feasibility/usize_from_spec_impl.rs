use vstd::prelude::*;
use vstd::std_specs::convert::*;
verus! {
#[derive(Clone, Copy, PartialEq, Eq)] pub struct StIdx<T>(pub T);
const SHIFT: usize = 1;

impl FromSpecImpl<StIdx<u32>> for usize {
    open spec fn obeys_from_spec() -> bool { true }
    open spec fn from_spec(s: StIdx<u32>) -> usize { s.0 as usize }
}
impl From<StIdx<u32>> for usize {
    fn from(s: StIdx<u32>) -> (r: usize) { s.0 as usize }
}

fn f(actions: &mut [usize], off: usize, stidx: StIdx<u32>)
  requires off < old(actions)@.len()
  ensures final(actions)@[off as int] == (1usize | ((stidx.0 as usize) << 2))
{
    actions[off] = SHIFT | (usize::from(stidx) << 2);
}
}
fn main() {}
