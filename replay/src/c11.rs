//! C11 (and the lexing half of C09): a lexer definition is a faithful image of its .l source.
//! Specifications are *generated* from a structured description (declared start states with
//! their kind, rules with restriction / regex / name / target operation, optional %grmtools
//! section, varying separators and quoting); the description is the independent model that
//! the parsed definition and its lexing behaviour are compared with.
use crate::{witness, Outcome};
use lrlex::{DefaultLexerTypes, LRNonStreamingLexerDef, LexerDef, StartStateOperation};
use lrpar::{LexError, Lexeme, Lexer, NonStreamingLexer};
use serde_json::{json, Value};
use std::panic::{catch_unwind, AssertUnwindSafe};

// ---------------------------------------------------------------- spans only (any source text)
fn check_spans(src: &str) -> Result<(), String> {
    let def = match LRNonStreamingLexerDef::<DefaultLexerTypes<u32>>::from_str(src) { Ok(d) => d, Err(errs) => {
        for e in &errs {
            for sp in cfgrammar::Spanned::spans(e) {
                if !(sp.start() <= sp.end() && sp.end() <= src.len() && src.is_char_boundary(sp.start()) && src.is_char_boundary(sp.end())) {
                    return Err(format!("error span {}..{} does not index the text", sp.start(), sp.end()));
                }
            }
        }
        return Ok(());
    } };
    for r in def.iter_rules() {
        if let Some(n) = r.name() {
            let sp = r.name_span();
            let got = src.get(sp.start()..sp.end());
            if got != Some(n) { return Err(format!("rule name {:?} has span {}..{} which reads {:?} in the source", n, sp.start(), sp.end(), got)); }
        }
    }
    for st in def.iter_start_states() {
        let sp = st.name_span();
        if sp.start() == 0 && sp.end() == 0 { continue; } // the built-in INITIAL state
        let got = src.get(sp.start()..sp.end());
        if got != Some(st.name()) { return Err(format!("start state {:?} has span {}..{} which reads {:?} in the source", st.name(), sp.start(), sp.end(), got)); }
    }
    Ok(())
}

// ---------------------------------------------------------------- structured description
#[derive(Clone, Debug)]
struct Decl { word: &'static str, names: Vec<&'static str>, sep: &'static str, exclusive: bool }
#[derive(Clone, Debug)]
enum Pat { Lit(String), Star(char), Plus(Vec<char>), Opt(char, char), Esc(&'static str, &'static str), Class(&'static str, &'static str) }   // Class(written regex `[..]+`, the characters of the class)
//   // Esc(written regex, the one string it matches)
impl Pat {
    fn render(&self) -> String {
        match self {
            Pat::Lit(s) => s.clone(),
            Pat::Star(c) => format!("{}*", c),
            Pat::Plus(cs) => format!("[{}]+", cs.iter().collect::<String>()),
            Pat::Opt(x, y) => format!("{}?{}", x, y),
            Pat::Esc(w, _) => w.to_string(),
            Pat::Class(w, _) => w.to_string(),
        }
    }
    /// length of the match at the start of `s`, if any (all forms are greedy: leftmost-first = longest)
    fn mlen(&self, s: &str) -> Option<usize> {
        match self {
            Pat::Lit(l) => if s.starts_with(l.as_str()) { Some(l.len()) } else { None },
            Pat::Star(c) => Some(s.chars().take_while(|x| x == c).count()),
            Pat::Plus(cs) => { let n = s.chars().take_while(|x| cs.contains(x)).count(); if n > 0 { Some(n) } else { None } }
            Pat::Opt(x, y) => {
                let mut it = s.chars();
                match it.next() { Some(a) if a == *x => if it.next() == Some(*y) { Some(2) } else { None }, Some(a) if a == *y => Some(1), _ => None }
            }
            Pat::Esc(_, m) => if s.starts_with(m) { Some(m.len()) } else { None },
            Pat::Class(_, cs) => { let n: usize = s.chars().take_while(|x| cs.contains(*x)).map(|x| x.len_utf8()).sum(); if n > 0 { Some(n) } else { None } }
        }
    }
}
#[derive(Clone, Debug)]
struct RuleD { restrict: Vec<usize>, pat: Pat, name: Option<(String, char)>, target: Option<(usize, u8)>, sep: &'static str }
#[derive(Clone, Debug)]
struct Desc { header: &'static str, decls: Vec<Decl>, rules: Vec<RuleD> }

struct Lcg(u64);
impl Lcg {
    fn next(&mut self, n: usize) -> usize {
        self.0 = self.0.wrapping_mul(6364136223846793005).wrapping_add(1442695040888963407);
        ((self.0 >> 33) as usize) % n
    }
}

const HEADERS: &[&str] = &["", "", "%grmtools{!octal}\n", "%grmtools {dot_matches_new_line}\n\n"];
const NAMES: &[&str] = &["AA", "BB", "CC", "DD"];
const INCL: &[&str] = &["%s", "%S", "%start", "%Sx"];
const EXCL: &[&str] = &["%x", "%X", "%xstate", "%Xs"];

fn states_of(d: &Desc) -> Vec<(&'static str, bool)> {
    let mut v = vec![("INITIAL", false)];
    for dl in &d.decls { for n in &dl.names { v.push((n, dl.exclusive)); } }
    v
}

fn gen_desc(rng: &mut Lcg) -> Desc {
    let header = HEADERS[rng.next(HEADERS.len())];
    let mut decls = Vec::new();
    let mut pool: Vec<&'static str> = NAMES.to_vec();
    let nd = rng.next(3);
    for _ in 0..nd {
        if pool.is_empty() { break; }
        let exclusive = rng.next(2) == 1;
        let word = if exclusive { EXCL[rng.next(EXCL.len())] } else { INCL[rng.next(INCL.len())] };
        let k = 1 + rng.next(2.min(pool.len()));
        let names: Vec<&'static str> = pool.drain(..k).collect();
        decls.push(Decl { word, names, sep: [" ", "\t", "  ", "\t ", " \t\t"][rng.next(5)], exclusive });   // (runs of blanks separate names as one blank does)
    }
    let mut d = Desc { header, decls, rules: Vec::new() };
    let nst = states_of(&d).len();
    let nr = 2 + rng.next(4);
    for k in 0..nr {
        let abc = ['a', 'b', 'c'];
        // escapes: a backslash before a character that is special neither to lex nor to the regex engine stands for that
        // character; \\x.. / \\u.... are handed to the regex engine
        const ESCS: &[(&str, &str)] = &[("\\c", "c"), ("\\x61", "a"), ("\\xe9", "é"), ("\\u00e9", "é"), ("\\xE9", "é"), ("\\x63\\x62", "cb"),
            // x / u / U are only hex escapes when a hex digit follows: otherwise the backslash stands before a plain letter
            ("a\\Bb", "ab"), ("\\xg", "xg"), ("\\u~", "u~"), ("\\Uz", "Uz"), ("c\\x", "cx"), ("\\x61\\xs", "axs")];
        // a backslash before a character that is special to the regex engine is kept (also inside a class, where `\-` is a
        // literal dash and `-` would make a range)
        const CLASSES: &[(&str, &str)] = &[("[a\\-c]+", "a-c"), ("[\\-a]+", "-a"), ("[c\\#\\&]+", "c#&"), ("[a\\~\\.]+", "a~.")];
        let pat = if rng.next(5) == 0 { let e = ESCS[rng.next(ESCS.len())]; Pat::Esc(e.0, e.1) } else if rng.next(6) == 0 { let c = CLASSES[rng.next(CLASSES.len())]; Pat::Class(c.0, c.1) } else { match rng.next(6) {
            0 => Pat::Star(abc[rng.next(3)]),
            1 => { let a = abc[rng.next(3)]; let b = abc[rng.next(3)]; Pat::Plus(if a == b { vec![a] } else { vec![a, b] }) }
            2 => { let a = abc[rng.next(3)]; let b = abc[(rng.next(2) + 1 + abc.iter().position(|c| *c == a).unwrap()) % 3]; Pat::Opt(a, b) }
            3 => Pat::Lit(format!("{}{}", abc[rng.next(3)], abc[rng.next(3)])),
            _ => Pat::Lit(abc[rng.next(3)].to_string()),
        } };
        let mut restrict = Vec::new();
        for _ in 0..rng.next(3) { let s = rng.next(nst); if !restrict.contains(&s) { restrict.push(s); } }
        let name = match rng.next(4) { 0 => None, 1 => Some((format!("T{}", k), '"')), _ => Some((format!("T{}", k), '\'')) };
        let target = if rng.next(2) == 0 { None } else { Some((rng.next(nst), rng.next(3) as u8)) };
        d.rules.push(RuleD { restrict, pat, name, target, sep: [" ", "\t", "  "][rng.next(3)] });
    }
    d
}

fn render(d: &Desc) -> String {
    let st = states_of(d);
    let mut s = String::from(d.header);
    for dl in &d.decls {
        s.push_str(dl.word);
        for n in &dl.names { s.push_str(dl.sep); s.push_str(n); }
        s.push('\n');
    }
    s.push_str("%%\n");
    for r in &d.rules {
        if !r.restrict.is_empty() {
            s.push('<');
            s.push_str(&r.restrict.iter().map(|&i| st[i].0).collect::<Vec<_>>().join(","));
            s.push('>');
        }
        s.push_str(&r.pat.render());
        s.push_str(r.sep);
        if let Some((t, op)) = r.target {
            s.push('<');
            match op { 1 => s.push('+'), 2 => s.push('-'), _ => {} }
            s.push_str(st[t].0);
            s.push('>');
        }
        match &r.name { None => s.push(';'), Some((n, q)) => { s.push(*q); s.push_str(n); s.push(*q); } }
        s.push('\n');
    }
    s
}

/// what the description says lexing `input` yields: (token name, start, len) ... and where it stops
fn model_lex(d: &Desc, input: &str) -> (Vec<(String, usize, usize)>, Option<usize>) {
    let st = states_of(d);
    let mut stack = vec![0usize];
    let mut out = Vec::new();
    let mut i = 0;
    while i < input.len() {
        let cur = *stack.last().unwrap();
        // longest non-empty match among the active rules, the earliest rule on ties
        let mut best: Option<(usize, usize)> = None;
        for (k, r) in d.rules.iter().enumerate() {
            let active = if r.restrict.is_empty() { !st[cur].1 } else { r.restrict.contains(&cur) };
            if !active { continue; }
            if let Some(l) = r.pat.mlen(&input[i..]) { if l > 0 && best.map(|b| l > b.0).unwrap_or(true) { best = Some((l, k)); } }
        }
        match best {
            None => return (out, Some(i)),
            Some((l, k)) => {
                let r = &d.rules[k];
                if let Some((n, _)) = &r.name { out.push((n.clone(), i, l)); }
                if let Some((t, op)) = r.target {
                    match op {
                        0 => { stack.clear(); stack.push(t); }
                        1 => stack.push(t),
                        _ => { stack.pop(); if stack.is_empty() { stack.push(0); } }
                    }
                }
                i += l;
            }
        }
    }
    (out, None)
}

fn check_desc(d: &Desc, src: &str, inputs: &[String]) -> Result<(), String> {
    check_spans(src)?;
    let def = LRNonStreamingLexerDef::<DefaultLexerTypes<u32>>::from_str(src).map_err(|e| format!("a well-formed specification was rejected: {:?}", e.iter().map(|x| x.to_string()).collect::<Vec<_>>()))?;
    let st = states_of(d);
    let got_st: Vec<String> = def.iter_start_states().map(|s| s.name().to_string()).collect();
    let exp_st: Vec<String> = st.iter().map(|s| s.0.to_string()).collect();
    if got_st != exp_st { return Err(format!("declared start states {:?}, written {:?}", got_st, exp_st)); }
    let rules: Vec<_> = def.iter_rules().collect();
    if rules.len() != d.rules.len() { return Err(format!("{} rules, written {}", rules.len(), d.rules.len())); }
    for (k, (r, rd)) in rules.iter().zip(d.rules.iter()).enumerate() {
        if r.name() != rd.name.as_ref().map(|x| x.0.as_str()) { return Err(format!("rule {}: name {:?}, written {:?}", k, r.name(), rd.name)); }
        if !matches!(rd.pat, Pat::Esc(..) | Pat::Class(..)) && r.re_str() != rd.pat.render() { return Err(format!("rule {}: regex {:?}, written {:?}", k, r.re_str(), rd.pat.render())); }
        if r.start_states() != rd.restrict.as_slice() { return Err(format!("rule {}: restricted to states {:?}, written {:?}", k, r.start_states(), rd.restrict)); }
        let exp_t = rd.target.map(|(t, op)| (t, match op { 0 => StartStateOperation::ReplaceStack, 1 => StartStateOperation::Push, _ => StartStateOperation::Pop }));
        if r.target_state() != exp_t { return Err(format!("rule {}: target {:?}, written {:?}", k, r.target_state(), exp_t)); }
    }
    for input in inputs {
        let lexer = def.lexer(input);
        let mut got = Vec::new();
        let mut got_err = None;
        for l in lexer.iter() {
            match l {
                Ok(l) => got.push((def.get_rule_by_id(l.tok_id()).name().unwrap_or("").to_string(), l.span().start(), l.span().len())),
                Err(e) => { got_err = Some(e.span().start()); break; }
            }
        }
        let (exp, exp_err) = model_lex(d, input);
        if got != exp || got_err != exp_err {
            return Err(format!("lexing {:?}: lexemes {:?} stop {:?}; the specification says {:?} stop {:?}", input, got, got_err, exp, exp_err));
        }
    }
    Ok(())
}

fn inputs_for(d: &Desc, rng: &mut Lcg) -> Vec<String> {
    let n = d.rules.len();
    let _ = n;
    (0..8).map(|_| { let l = 1 + rng.next(6); (0..l).map(|_| ['a', 'b', 'c', 'é', '-', '#', '~', '.'][rng.next(8)]).collect() }).collect()
}

pub fn run(src: &str) -> Outcome {
    crate::note_case("c11_spans", json!({"source": src}));
    let expected = "every name span reads the name in the text the user wrote".to_string();
    match catch_unwind(AssertUnwindSafe(|| check_spans(src))) {
        Err(_) => Outcome { fails: true, observed: "panic".into(), expected },
        Ok(Ok(())) => Outcome { fails: false, observed: "ok".into(), expected },
        Ok(Err(e)) => Outcome { fails: true, observed: e, expected },
    }
}

/// re-run of a generated case: the description is regenerated from its seed
pub fn run_gen(seed: u64) -> Outcome {
    let expected = "the parsed definition and its lexing behaviour are those of the written specification".to_string();
    let (tx, rx) = std::sync::mpsc::channel();
    std::thread::spawn(move || {
        let mut rng = Lcg(seed);
        let d = gen_desc(&mut rng);
        let src = render(&d);
        let inputs = inputs_for(&d, &mut rng);
        let r = match catch_unwind(AssertUnwindSafe(|| check_desc(&d, &src, &inputs))) {
            Err(_) => Err(format!("panic on {:?}", src)),
            Ok(Ok(())) => Ok(()),
            Ok(Err(e)) => Err(format!("{} [source {:?}]", e, src)),
        };
        let _ = tx.send(r);
    });
    match rx.recv_timeout(crate::tmo(3000)) {
        Ok(Ok(())) => Outcome { fails: false, observed: "ok".into(), expected },
        Ok(Err(e)) => Outcome { fails: true, observed: e, expected },
        Err(_) => {
            let mut rng = Lcg(seed);
            let d = gen_desc(&mut rng);
            Outcome { fails: true, observed: format!("no result after 3 s (hang) on a specification / input pair [source {:?}]", render(&d)), expected }
        }
    }
}

const SRCS: &[&str] = &[
    "%%\n[0-9]+ 'int'\n[ ]+ ;\n",
    "%grmtools{!octal}\n%%\n[0-9]+ 'int'\n",
    "%s AA BB\n%x CC\n%%\n<AA>a 'a'\n<CC>c <+BB>'c'\nb 'b'\n",
    "%grmtools{case_insensitive}\n%s AA\n%%\n<AA>a 'a'\n",
    "%s AA\u{200E}BB CC\n%%\na 'a'\n",
    "%s AA  BB\n%%\na 'a'\n",
    "%s  AA\tBB \n%%\na 'a'\n",
    "%%\na <+INITIAL>'x'\n",
];

/// the rendered specification of a generated case
fn gen_src(seed: u64) -> String { let mut rng = Lcg(seed); let d = gen_desc(&mut rng); render(&d) }

/// A rule whose regex is one escape form: the specification is accepted and the rule lexes `text` as one lexeme (the
/// written regex denotes that text).
pub fn run_escape(re: &str, text: &str) -> Outcome {
    use lrlex::{DefaultLexerTypes, LRNonStreamingLexerDef, LexerDef};
    use lrpar::{Lexeme, NonStreamingLexer};
    crate::note_case("c11_escape", json!({"re": re, "text": text}));
    let src = format!("%%\n{} 'T'\n", re);
    let expected = format!("accepted; {:?} lexes as one lexeme of {} byte(s)", text, text.len());
    let t = text.to_string();
    let r = std::panic::catch_unwind(std::panic::AssertUnwindSafe(move || {
        match LRNonStreamingLexerDef::<DefaultLexerTypes<u32>>::from_str(&src) {
            Err(es) => format!("refused: {}", es.iter().map(|e| e.to_string()).collect::<Vec<_>>().join("; ")),
            Ok(mut d) => {
                let mut m = std::collections::HashMap::new();
                m.insert("T", 0u32);
                let _ = d.set_rule_ids(&m);
                let lx = d.lexer(&t);
                let v: Vec<String> = lx.iter().map(|l| match l { Ok(l) => format!("({}, {})", l.span().start(), l.span().len()), Err(_) => "error".to_string() }).collect();
                if v.len() == 1 && v[0] == format!("(0, {})", t.len()) { format!("accepted; {:?} lexes as one lexeme of {} byte(s)", t, t.len()) } else { format!("accepted; {:?} lexes as [{}] (regex in force: {})", t, v.join(", "), d.iter_rules().next().map(|r| r.re_str().to_string()).unwrap_or_default()) }
            }
        }
    }));
    let observed = match r { Ok(s) => s, Err(_) => "panic".to_string() };
    Outcome { fails: observed != expected, observed, expected }
}
const ESCAPE_FORMS: &[(&str, &str)] = &[("\\x{61}", "a"), ("\\x{e9}", "é"), ("\\u{e9}", "é"), ("\\U{1F600}", "\u{1F600}"), ("[\\x{61}-\\x{63}]+", "abc"), ("\\x61", "a"), ("\\u00e9", "é"), ("\\U0001F600", "\u{1F600}"), ("\\xg", "xg"),
    // x mode switched on in the text itself: a comment at the end must not swallow the anchoring group's `)`
    ("(?x)a#b", "a"), ("(?x)a b # c", "ab"), ("(?x)a", "a")];

/// One flag of the %grmtools section, written with one value, judged by what the lexer then does on one input: the
/// flag in force is the one written (and no other flag changes with it).
const FLAG_CASES: &[(&str, &str, &str, &str)] = &[
    // (section, regex, input, expected first lexeme length | "none" (no rule matches at 0) | "refused")
    ("multi_line", "a$", "a\nb", "1"), ("!multi_line", "a$", "a\nb", "none"),
    ("dot_matches_new_line", "a.", "a\n", "2"), ("!dot_matches_new_line", "a.", "a\n", "none"),
    ("case_insensitive", "a", "A", "1"), ("!case_insensitive", "a", "A", "none"),
    ("swap_greed", "a+", "aaa", "1"), ("!swap_greed", "a+", "aaa", "3"),
    ("ignore_whitespace", "a b", "ab", "2"), ("!ignore_whitespace", "a b", "ab", "none"),
    ("unicode", "\\w", "\u{e9}", "2"), ("!unicode", "\\w", "\u{e9}", "none"),
    ("octal", "\\101", "A", "1"), ("!octal", "\\101", "A", "refused"),
    ("posix_escapes", "\\b", "\u{8}", "1"), ("!posix_escapes", "\\b", "\u{8}", "none"),
    ("dfa_size_limit: 10", "[a-zA-Z_][a-zA-Z0-9_]*", "ab", "2"), ("size_limit: 10", "[a-zA-Z_][a-zA-Z0-9_]*", "ab", "refused"),
    ("size_limit: 1000000, dfa_size_limit: 10", "[a-zA-Z_][a-zA-Z0-9_]*", "ab", "2"),
    ("nest_limit: 1", "((a))", "a", "refused"), ("nest_limit: 5", "((a))", "a", "1"),
];
pub fn run_flagforce(section: &str, re: &str, input: &str) -> Outcome {
    use lrlex::{DefaultLexerTypes, LRNonStreamingLexerDef, LexerDef};
    use lrpar::{Lexeme, NonStreamingLexer};
    crate::note_case("c11_flagforce", json!({"section": section, "re": re, "input": input}));
    let expected = FLAG_CASES.iter().find(|c| c.0 == section && c.1 == re && c.2 == input).map(|c| c.3.to_string()).unwrap_or_else(|| "?".to_string());
    let src = format!("%grmtools{{{}}}\n%%\n{} 'T'\n", section, re);
    let t = input.to_string();
    let r = std::panic::catch_unwind(std::panic::AssertUnwindSafe(move || {
        match LRNonStreamingLexerDef::<DefaultLexerTypes<u32>>::from_str(&src) {
            Err(_) => "refused".to_string(),
            Ok(mut d) => {
                let mut m = std::collections::HashMap::new();
                m.insert("T", 0u32);
                let _ = d.set_rule_ids(&m);
                let lx = d.lexer(&t);
                let first = lx.iter().next();
                let res = match first { Some(Ok(l)) if l.span().start() == 0 => l.span().len().to_string(), _ => "none".to_string() };
                res
            }
        }
    }));
    let observed = match r { Ok(s) => s, Err(_) => "panic".to_string() };
    Outcome { fails: expected != "?" && observed != expected, observed: format!("%grmtools{{{}}}, rule {}, input {:?}: {}", section, re, input, observed), expected }
}

pub fn search(tag: &str, tier: &str) -> Option<Value> {
    let want_header = tag.contains("whole_text");
    let mut other = None;
    // text before the specification proper (a byte order mark, blank lines, spaces): whatever the parser makes of it,
    // every span it reports must index the text as it was handed in
    for pre in ["\u{feff}", "\u{feff}\n", "\n", " \n", "\t"] {
        for s in SRCS.iter().map(|s| s.to_string()).chain((1..=40u64).map(gen_src)) {
            let t = format!("{}{}", pre, s);
            let o = run(&t);
            if o.fails { return Some(witness("c11_spans", json!({"source": t}), &o)); }
        }
    }
    for s in SRCS {
        let o = run(s);
        if o.fails {
            let w = witness("c11_spans", json!({"source": s}), &o);
            if s.starts_with("%grmtools") == want_header { return Some(w); }
            if other.is_none() { other = Some(w); }
        }
    }
    if other.is_some() { return other; }
    for (section, re, input, _) in FLAG_CASES {
        let o = run_flagforce(section, re, input);
        if o.fails { return Some(witness("c11_flagforce", json!({"section": section, "re": re, "input": input}), &o)); }
    }
    for (re, text) in ESCAPE_FORMS {
        let o = run_escape(re, text);
        if o.fails { return Some(witness("c11_escape", json!({"re": re, "text": text}), &o)); }
    }
    for key in ["nest_limit", "size_limit", "dfa_size_limit"] {
        for n in [0u64, 1, 250, u32::MAX as u64 - 1, u32::MAX as u64, u32::MAX as u64 + 1, (u32::MAX as u64 + 1) * 3 + 7, u64::MAX - 1, u64::MAX] {
            let o = run_numflag(key, n);
            if o.fails { return Some(witness("c11_numflag", json!({"key": key, "n": n}), &o)); }
        }
    }
    let n = if tier == "thorough" { 120000 } else { 20000 };   // (twenty thousand generated specifications take about ten seconds)
    for seed in 1..=n {
        let o = run_gen(seed);
        if o.fails { return Some(witness("c11_gen", json!({"seed": seed}), &o)); }
    }
    None
}


/// A numeric flag of the %grmtools section is in force with the value written, or the section is refused: never another
/// number.
pub fn run_numflag(key: &str, n: u64) -> Outcome {
    use cfgrammar::header::GrmtoolsSectionParser;
    use lrlex::LexFlags;
    let expected = format!("{} in force as {}, or an error", key, n);
    let src = format!("%grmtools{{{}: {}}}\n%%\n", key, n);
    let r = std::panic::catch_unwind(|| {
        let (mut header, _) = GrmtoolsSectionParser::new(&src, false).parse().ok()?;
        Some(LexFlags::try_from(&mut header).map(|f| (f.nest_limit.map(|x| x as u64), f.size_limit.map(|x| x as u64), f.dfa_size_limit.map(|x| x as u64))).map_err(|_| ()))
    });
    match r {
        Err(_) => Outcome { fails: true, observed: "panic".into(), expected },
        Ok(None) => Outcome { fails: false, observed: "section refused by the header parser".into(), expected },
        Ok(Some(Err(()))) => Outcome { fails: false, observed: "refused".into(), expected },
        Ok(Some(Ok((nl, sl, dl)))) => {
            let got = match key { "nest_limit" => nl, "size_limit" => sl, _ => dl };
            Outcome { fails: got != Some(n), observed: format!("{} in force as {:?}", key, got), expected }
        }
    }
}
