//! C11: every span of a lexer definition indexes the text the user wrote.
use crate::{witness, Outcome};
use lrlex::{DefaultLexerTypes, LRNonStreamingLexerDef, LexerDef};
use serde_json::{json, Value};
use std::panic::{catch_unwind, AssertUnwindSafe};

fn check(src: &str) -> Result<(), String> {
    let def = match LRNonStreamingLexerDef::<DefaultLexerTypes<u32>>::from_str(src) { Ok(d) => d, Err(errs) => {
        for e in &errs {
            for sp in cfgrammar::Spanned::spans(e) {
                if !(sp.start() <= sp.end() && sp.end() <= src.len() && src.is_char_boundary(sp.start()) && src.is_char_boundary(sp.end())) {
                    return Err(format!("error span {}..{} does not index the text", sp.start(), sp.end()));
                }
            }
        }
        return Ok(());
    } };
    for r in def.iter_rules() {
        if let Some(n) = r.name() {
            let sp = r.name_span();
            let got = src.get(sp.start()..sp.end());
            if got != Some(n) { return Err(format!("rule name {:?} has span {}..{} which reads {:?} in the source", n, sp.start(), sp.end(), got)); }
        }
    }
    for st in def.iter_start_states() {
        let sp = st.name_span();
        if sp.start() == 0 && sp.end() == 0 { continue; } // the built-in INITIAL state
        let got = src.get(sp.start()..sp.end());
        if got != Some(st.name()) { return Err(format!("start state {:?} has span {}..{} which reads {:?} in the source", st.name(), sp.start(), sp.end(), got)); }
    }
    Ok(())
}

pub fn run(src: &str) -> Outcome {
    let expected = "every name span reads the name in the text the user wrote".to_string();
    match catch_unwind(AssertUnwindSafe(|| check(src))) {
        Err(_) => Outcome { fails: true, observed: "panic".into(), expected },
        Ok(Ok(())) => Outcome { fails: false, observed: "ok".into(), expected },
        Ok(Err(e)) => Outcome { fails: true, observed: e, expected },
    }
}

const SRCS: &[&str] = &[
    "%%\n[0-9]+ 'int'\n[ ]+ ;\n",
    "%grmtools{!octal}\n%%\n[0-9]+ 'int'\n",
    "%s AA BB\n%x CC\n%%\n<AA>a 'a'\n<CC>c <+BB>'c'\nb 'b'\n",
    "%grmtools{case_insensitive}\n%s AA\n%%\n<AA>a 'a'\n",
    "%s AA\u{200E}BB CC\n%%\na 'a'\n",
    "%%\na <+INITIAL>'x'\n",
];

pub fn search(tag: &str, _tier: &str) -> Option<Value> {
    let want_header = tag.contains("header") || tag.contains("base");
    let mut other = None;
    for s in SRCS {
        let o = run(s);
        if o.fails {
            let w = witness("c11_spans", json!({"source": s}), &o);
            if s.starts_with("%grmtools") == want_header { return Some(w); }
            if other.is_none() { other = Some(w); }
        }
    }
    other
}
