//! C19: NewlineCache queries against a naive reference taken from the property text.
use crate::{witness, Outcome};
use cfgrammar::{NewlineCache, Span};
use serde_json::{json, Value};
use std::panic::{catch_unwind, AssertUnwindSafe};
use std::str::FromStr;

fn line_start(t: &str, p: usize) -> usize {
    t.as_bytes()[..p].iter().rposition(|&b| b == b'\n').map(|i| i + 1).unwrap_or(0)
}
fn line_end(t: &str, p: usize) -> usize {
    t.as_bytes()[p..].iter().position(|&b| b == b'\n').map(|i| p + i).unwrap_or(t.len())
}

pub fn run_span(t: &str, s: usize, e: usize) -> Outcome {
    let nlc = NewlineCache::from_str(t).unwrap();
    let exp_st = line_start(t, s);
    // pinned reading: the line of offset `e`; if the last byte of the span is a newline the
    // line of that byte is accepted too
    let exp_en1 = line_end(t, e);
    let exp_en2 = if e > s && t.as_bytes()[e - 1] == b'\n' { Some(e - 1) } else { None };
    let r = catch_unwind(AssertUnwindSafe(|| nlc.span_line_bytes(Span::new(s, e))));
    let expected = format!("({},{}{})", exp_st, exp_en1, exp_en2.map(|x| format!(" or {}", x)).unwrap_or_default());
    match r {
        Err(_) => Outcome { fails: true, observed: "panic".into(), expected },
        Ok((a, b)) => Outcome {
            fails: !(a == exp_st && (b == exp_en1 || Some(b) == exp_en2)),
            observed: format!("({},{})", a, b),
            expected,
        },
    }
}

pub fn run_line(t: &str, b: usize) -> Outcome {
    let nlc = NewlineCache::from_str(t).unwrap();
    let exp = if b > t.len() { None } else { Some(1 + t.as_bytes()[..b].iter().filter(|&&c| c == b'\n').count()) };
    let expb = exp.map(|_| line_start(t, b));
    let r = catch_unwind(AssertUnwindSafe(|| (nlc.byte_to_line_num(b), nlc.byte_to_line_byte(b))));
    let expected = format!("{:?}", (exp, expb));
    match r {
        Err(_) => Outcome { fails: true, observed: "panic".into(), expected },
        Ok(o) => Outcome { fails: o != (exp, expb), observed: format!("{:?}", o), expected },
    }
}

/// column of a char-boundary offset: the property's reading (CR LF counts once; at the end of
/// the text one plus the characters of the last line)
pub fn run_col(t: &str, b: usize) -> Outcome {
    let nlc = NewlineCache::from_str(t).unwrap();
    let exp = if b > t.len() {
        None
    } else {
        let ls = line_start(t, b);
        let line = 1 + t.as_bytes()[..b].iter().filter(|&&c| c == b'\n').count();
        let col = if b == t.len() {
            1 + t[ls..].chars().count()
        } else {
            let mut n = 0;
            let mut prev = None;
            for (off, c) in t[ls..].char_indices() {
                if !(c == '\n' && prev == Some('\r')) { n += 1; }
                prev = Some(c);
                if ls + off == b { break; }
            }
            n
        };
        Some((line, col))
    };
    let r = catch_unwind(AssertUnwindSafe(|| nlc.byte_to_line_num_and_col_num(t, b)));
    let expected = format!("{:?}", exp);
    match r {
        Err(_) => Outcome { fails: true, observed: "panic".into(), expected },
        Ok(o) => Outcome { fails: o != exp, observed: format!("{:?}", o), expected },
    }
}

/// lrlex's line_col on a span: the positions of both ends, as the newline cache gives them
pub fn run_wrap(t: &str, s: usize, e: usize) -> Outcome {
    use lrlex::{DefaultLexerTypes, LRNonStreamingLexer};
    use lrpar::NonStreamingLexer;
    let nlc = NewlineCache::from_str(t).unwrap();
    let lexer: LRNonStreamingLexer<DefaultLexerTypes<u32>> = LRNonStreamingLexer::new(t, vec![], NewlineCache::from_str(t).unwrap());
    let exp = (nlc.byte_to_line_num_and_col_num(t, s), nlc.byte_to_line_num_and_col_num(t, e));
    let r = catch_unwind(AssertUnwindSafe(|| lexer.line_col(Span::new(s, e))));
    let expected = format!("{:?}", exp);
    match r {
        Err(_) => Outcome { fails: true, observed: "panic".into(), expected },
        Ok(o) => Outcome { fails: (Some(o.0), Some(o.1)) != exp, observed: format!("{:?}", o), expected },
    }
}

/// Error pretty-printing (lrpar::diagnostics): the lines printed for a span are, in order, "<line number>| <line text>" for
/// every line from the one holding the span's first byte to the one holding its last, numbered as the property says
/// (one plus the number of newlines before the line), and the message is printed.
pub fn run_diag(t: &str, s: usize, e: usize) -> Outcome {
    use lrpar::diagnostics::SpannedDiagnosticFormatter;
    let path = std::path::Path::new("f");
    // "msg at path:line:col": the position of the span's first byte as the line table gives it
    {
        let nlc = NewlineCache::from_str(t).unwrap();
        if let Some((l, c)) = nlc.byte_to_line_num_and_col_num(t, s) {
            let want = format!("M at f:{}:{}", l, c);
            match catch_unwind(AssertUnwindSafe(|| SpannedDiagnosticFormatter::new(t, path).file_location_msg("M", Some(Span::new(s, e))))) {
                Err(_) => return Outcome { fails: true, observed: "panic in file_location_msg".into(), expected: want },
                Ok(got) => if got != want { return Outcome { fails: true, observed: got, expected: want }; }
            }
        }
    }
    let r = catch_unwind(AssertUnwindSafe(|| SpannedDiagnosticFormatter::new(t, path).underline_span_with_text(Span::new(s, e), "MSG".to_string(), '^')));
    // reference: line starts
    let mut starts = vec![0usize];
    for (i, b) in t.bytes().enumerate() { if b == b'\n' { starts.push(i + 1); } }
    let line_of = |off: usize| -> usize { match starts.binary_search(&off) { Ok(k) => k, Err(k) => k - 1 } };
    let first = line_of(s);
    // the line holding the last byte of the span (for an empty span: the line of its start)
    let last = if e > s { line_of(e - 1) } else { first };
    let render = |last: usize| -> Vec<String> {
        let mut exp: Vec<String> = Vec::new();
        for l in first..=last {
            let st = starts[l];
            let en = if l + 1 < starts.len() { starts[l + 1] - 1 } else { t.len() };
            let mut text = &t[st..en];
            if l + 1 < starts.len() && text.ends_with('\r') { text = &text[..text.len() - 1]; }   // (CR LF is one line terminator)
            exp.push(format!("{}| {}", l + 1, text));
        }
        exp
    };
    let exp = render(last);
    // where the span's last byte is itself a newline (its end is a line start) the line that starts there may be shown
    // too (the reading span_line_bytes takes, fixed by the repository's test spanlines_str)
    let exp2 = if e > s && starts.binary_search(&e).is_ok() { Some(render(line_of(e))) } else { None };
    let expected = format!("lines {:?} and the message", exp);
    match r {
        Err(_) => Outcome { fails: true, observed: "panic".into(), expected },
        Ok(o) => {
            let got: Vec<String> = o.split('\n').filter(|l| l.split_once("| ").map_or(false, |(n, _)| !n.is_empty() && n.bytes().all(|c| c.is_ascii_digit()))).map(|l| l.to_string()).collect();
            Outcome { fails: (got != exp && Some(&got) != exp2.as_ref()) || !o.contains("MSG"), observed: format!("{:?}", o), expected }
        }
    }
}

fn texts(maxlen: usize) -> Vec<String> {
    let alpha = ['a', '\n', '\r', 'é'];
    let mut out = vec![String::new()];
    let mut frontier = vec![String::new()];
    for _ in 0..maxlen {
        let mut next = Vec::new();
        for t in &frontier {
            for c in alpha {
                let mut u = t.clone();
                u.push(c);
                next.push(u);
            }
        }
        out.extend(next.iter().cloned());
        frontier = next;
    }
    out
}

pub fn search(tag: &str, tier: &str) -> Option<Value> {
    if tag.contains(".diag.") {
        for t in texts(if tier == "thorough" { 6 } else { 5 }) {
            let bs: Vec<usize> = (0..=t.len()).filter(|i| t.is_char_boundary(*i)).collect();
            for &a in &bs { for &b in &bs { if a <= b {
                let o = run_diag(&t, a, b);
                if o.fails { return Some(witness("c19_diag", json!({"text": t, "start": a, "end": b}), &o)); }
            } } }
        }
        return None;
    }
    let maxlen = if tier == "thorough" { 7 } else { 6 };
    let span_q = tag.contains("span") || tag.contains("st_line") || tag.contains("bsearch") || tag.contains("newlines[");
    let col_q = tag.contains(".col.") || tag.contains("slice_start");
    if tag.contains(".wrap.") {
        for t in texts(maxlen.min(5)) {
            for s in 0..=t.len() { for e in s..=t.len() {
                if !t.is_char_boundary(s) || !t.is_char_boundary(e) { continue; }
                let o = run_wrap(&t, s, e);
                if o.fails { return Some(witness("c19_wrap", json!({"text": t, "start": s, "end": e}), &o)); }
            } }
        }
        return None;
    }
    for t in texts(maxlen) {
        if col_q {
            for b in 0..=t.len() + 1 {
                if b <= t.len() && !t.is_char_boundary(b) { continue; }
                let o = run_col(&t, b);
                if o.fails {
                    return Some(witness("c19_col", json!({"text": t, "byte": b}), &o));
                }
            }
        } else if span_q {
            for s in 0..=t.len() {
                for e in s..=t.len() {
                    if !t.is_char_boundary(s) || !t.is_char_boundary(e) { continue; }
                    let o = run_span(&t, s, e);
                    if o.fails {
                        return Some(witness("c19_span", json!({"text": t, "start": s, "end": e}), &o));
                    }
                }
            }
        } else {
            for b in 0..=t.len() + 1 {
                let o = run_line(&t, b);
                if o.fails {
                    return Some(witness("c19_line", json!({"text": t, "byte": b}), &o));
                }
            }
        }
    }
    None
}
