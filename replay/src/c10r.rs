//! C10: abstract grammars x concrete renderings.  A small abstract grammar (rules, productions, tokens declared or
//! quoted, precedence lines, %prec, %epp, %avoid_insert, %expect, actions, action types) is generated from a seed and
//! rendered in several layouts (white space, comments, quoting style, kind); every rendering must build a grammar with
//! exactly the model's content, and every span must read the text that defines the thing.
use crate::grms::Rng;
use crate::{witness, Outcome};
use cfgrammar::yacc::{AssocKind, YaccGrammar, YaccKind, YaccOriginalActionKind};
use cfgrammar::{PIdx, RIdx, Symbol, TIdx};
use serde_json::{json, Value};
use std::panic::{catch_unwind, AssertUnwindSafe};

#[derive(Clone, Debug)]
enum Sym { Rule(usize), Tok(usize) }
#[derive(Clone, Debug)]
struct Prod { syms: Vec<Sym>, prec: Option<usize>, action: Option<String> }
#[derive(Clone, Debug)]
struct Model {
    rules: Vec<(String, Vec<Prod>)>,       // in source order; rule 0 is the start rule
    toks: Vec<(String, bool)>,             // name, declared with %token (else always written quoted)
    precs: Vec<(u8, Vec<usize>)>,          // lines: 0 left, 1 right, 2 nonassoc
    avoid: Vec<usize>,
    epp: Vec<(usize, String)>,
    expect: Option<usize>,
    expectrr: Option<usize>,
}

fn model(seed: u64) -> Model {
    let mut r = Rng(seed.wrapping_mul(0x9E3779B97F4A7C15) | 1);
    let rnames = ["Expr", "T_1", "fx2", "_r", "Stmt"];   // (no dots: RE_NAME allows them in a rule head, RE_TOKEN not in a body)
    let tnames = ["PLUS", "x", "INT", "lp", "Z_9"];
    let nr = 1 + r.below(3);
    let nt = 2 + r.below(3);
    let toks: Vec<(String, bool)> = (0..nt).map(|t| (tnames[t].to_string(), r.below(3) == 0)).collect();
    let mut precs = Vec::new();
    let mut free: Vec<usize> = (0..nt).collect();
    for _ in 0..r.below(3) {
        if free.is_empty() { break; }
        let mut line = Vec::new();
        for _ in 0..1 + r.below(2) { if free.is_empty() { break; } line.push(free.remove(r.below(free.len()))); }
        precs.push((r.below(3) as u8, line));
    }
    let mut rules = Vec::new();
    for ri in 0..nr {
        let np = 1 + r.below(3);
        let mut prods = Vec::new();
        for _ in 0..np {
            let ns = r.below(4);
            let mut syms = Vec::new();
            for _ in 0..ns { if r.below(3) == 0 { syms.push(Sym::Rule(r.below(nr))); } else { syms.push(Sym::Tok(r.below(nt))); } }
            let with_prec: Vec<usize> = precs.iter().flat_map(|(_, l): &(u8, Vec<usize>)| l.iter().cloned()).collect();
            let prec = if r.below(4) == 0 && !with_prec.is_empty() { Some(with_prec[r.below(with_prec.len())]) } else { None };   // a %prec token must have a precedence
            let action = if r.below(3) == 0 { Some(["1", "$1 + $2", "vec![]", "{ let a = 1; a }"][r.below(4)].to_string()) } else { None };
            prods.push(Prod { syms, prec, action });
        }
        rules.push((rnames[ri].to_string(), prods));
    }
    // every rule other than the start rule is used once, every token is used once (no unused-symbol warnings as errors)
    for ri in 1..nr { rules[0].1[0].syms.push(Sym::Rule(ri)); }
    for t in 0..nt { rules[nr - 1].1[0].syms.push(Sym::Tok(t)); }
    let avoid = if r.below(3) == 0 { vec![r.below(nt)] } else { vec![] };
    let epp = if r.below(3) == 0 { vec![(r.below(nt), ["plus sign", "an \\\"x\\\"", "é"][r.below(3)].to_string())] } else { vec![] };
    Model { rules, toks, precs, avoid, epp, expect: if r.below(4) == 0 { Some(r.below(3)) } else { None }, expectrr: if r.below(5) == 0 { Some(r.below(2)) } else { None } }
}

struct Layout { sep: &'static str, tight: bool, dq: bool, comments: bool, cmt: &'static str, kind: u8 }   // kind 0 Original/NoAction-style, 1 Original UserAction, 2 Grmtools, 3 Eco

fn render(m: &Model, l: &Layout) -> String {
    let q = if l.dq { '"' } else { '\'' };
    let tok = |t: usize| -> String { if m.toks[t].1 { m.toks[t].0.clone() } else { format!("{}{}{}", q, m.toks[t].0, q) } };
    let ws = |s: &mut String| { s.push_str(l.sep); if l.comments { s.push_str(l.cmt); s.push_str(l.sep); } };
    let mut s = String::new();
    if l.comments { s.push_str("// a grammar\n"); }
    s.push_str("%start "); s.push_str(&m.rules[0].0); s.push('\n');
    let declared: Vec<String> = m.toks.iter().filter(|t| t.1).map(|t| t.0.clone()).collect();
    if !declared.is_empty() { s.push_str("%token"); for d in &declared { s.push(' '); s.push_str(d); } s.push('\n'); }
    for (k, line) in &m.precs { s.push_str(["%left", "%right", "%nonassoc"][*k as usize]); for t in line { s.push(' '); s.push_str(&tok(*t)); } s.push('\n'); }
    for t in &m.avoid { s.push_str(&format!("%avoid_insert {}\n", tok(*t))); }
    for (t, e) in &m.epp { s.push_str(&format!("%epp {} \"{}\"\n", tok(*t), e)); }
    if let Some(n) = m.expect { s.push_str(&format!("%expect {}\n", n)); }
    if let Some(n) = m.expectrr { s.push_str(&format!("%expect-rr {}\n", n)); }
    if l.comments { s.push_str("// rules\n"); }
    s.push_str("%%\n");
    for (name, prods) in &m.rules {
        s.push_str(name);
        if l.kind == 2 { if !l.tight { s.push(' '); } s.push_str("->"); if !l.tight { s.push(' '); } s.push_str("Result<u64, ()>"); }
        // (no comment between an action type and the colon: the type is free text up to the colon)
        if !l.tight { if l.kind == 2 { s.push(' '); } else { ws(&mut s); } }
        s.push(':');
        for (pi, p) in prods.iter().enumerate() {
            if pi > 0 { if !l.tight { ws(&mut s); } s.push('|'); }
            if !l.tight { ws(&mut s); }
            for (si, sy) in p.syms.iter().enumerate() {
                let txt = match sy { Sym::Rule(r) => m.rules[*r].0.clone(), Sym::Tok(t) => tok(*t) };
                // two bare names need a separator whatever the layout
                if si > 0 { let prev_bare = match &p.syms[si - 1] { Sym::Rule(_) => true, Sym::Tok(t) => m.toks[*t].1 }; let this_bare = !txt.starts_with(q); if !l.tight || (prev_bare && this_bare) { ws(&mut s); } }
                s.push_str(&txt);
            }
            if let Some(t) = p.prec { s.push(' '); s.push_str("%prec "); s.push_str(&tok(t)); }
            if l.kind == 1 || l.kind == 2 { if let Some(a) = &p.action { if !l.tight { s.push(' '); } s.push('{'); s.push_str(l.sep); s.push_str(a); s.push_str(l.sep); s.push('}'); } }
        }
        if !l.tight { ws(&mut s); }
        s.push(';');
        s.push('\n');
    }
    s
}

fn check(m: &Model, l: &Layout) -> Result<(), String> {
    let src = render(m, l);
    let yk = match l.kind { 0 => YaccKind::Original(YaccOriginalActionKind::NoAction), 1 => YaccKind::Original(YaccOriginalActionKind::UserAction), 2 => YaccKind::Grmtools, _ => YaccKind::Eco };
    let g = match YaccGrammar::<u32>::new_with_storaget(yk, &src) {
        Ok(g) => g,
        Err(es) => return Err(format!("rejected: {}", es.iter().map(|e| e.to_string()).collect::<Vec<_>>().join("; "))),
    };
    let nr = m.rules.len();
    let implicit = if l.kind == 3 { 0 } else { 0 };
    if usize::from(g.rules_len()) != nr + 1 + implicit { return Err(format!("{} rules for {} in the source (plus the added start rule)", usize::from(g.rules_len()), nr)); }
    // the user's rules, by name, in source order (the added start rule may come first or last: look rules up by name)
    let mut next_p_of_rule: Vec<Vec<PIdx<u32>>> = Vec::new();
    for (name, prods) in &m.rules {
        let ridx = g.rule_idx(name).ok_or(format!("rule {} is missing", name))?;
        if g.rule_name_str(ridx) != name { return Err(format!("rule_name_str of {} is {}", name, g.rule_name_str(ridx))); }
        let sp = g.rule_name_span(ridx);
        if src.get(sp.start()..sp.end()) != Some(name.as_str()) { return Err(format!("rule_name_span of {} reads {:?}", name, src.get(sp.start()..sp.end()))); }
        let ps = g.rule_to_prods(ridx).to_vec();
        if ps.len() != prods.len() { return Err(format!("rule {} has {} productions, the source {}", name, ps.len(), prods.len())); }
        next_p_of_rule.push(ps);
    }
    if g.rule_name_str(g.start_rule_idx()) == m.rules[0].0 { return Err("start_rule_idx is the user's start rule, not the added one".into()); }
    let sp0 = g.prod(g.start_prod());
    if sp0.len() != 1 || sp0[0] != Symbol::Rule(g.rule_idx(&m.rules[0].0).unwrap()) { return Err("the added start rule does not derive exactly the user's start rule".into()); }
    // tokens
    if usize::from(g.tokens_len()) != m.toks.len() + 1 { return Err(format!("{} tokens for {} in the source (plus end of input)", usize::from(g.tokens_len()), m.toks.len())); }
    if g.token_name(g.eof_token_idx()).is_some() { return Err("the end-of-input token has a name".into()); }
    let tidx_of = |t: usize| -> Result<TIdx<u32>, String> { g.token_idx(&m.toks[t].0).ok_or(format!("token {} is missing", m.toks[t].0)) };
    for (t, (name, _)) in m.toks.iter().enumerate() {
        let tidx = tidx_of(t)?;
        if let Some(sp) = g.token_span(tidx) { if src.get(sp.start()..sp.end()) != Some(name.as_str()) { return Err(format!("token_span of {} reads {:?}", name, src.get(sp.start()..sp.end()))); } }
        else { return Err(format!("token {} has no span", name)); }
        let want_prec = m.precs.iter().enumerate().find(|(_, (_, line))| line.contains(&t)).map(|(lvl, (k, _))| (lvl as u64, *k));
        let got = g.token_precedence(tidx).map(|p| (p.level, match p.kind { AssocKind::Left => 0u8, AssocKind::Right => 1, AssocKind::Nonassoc => 2 }));
        if got != want_prec { return Err(format!("token {} has precedence {:?}, the source gives {:?}", name, got, want_prec)); }
        if g.avoid_insert(tidx) != m.avoid.contains(&t) { return Err(format!("avoid_insert({}) is {}", name, g.avoid_insert(tidx))); }
        let want_epp = m.epp.iter().find(|(tt, _)| *tt == t).map(|(_, e)| e.replace("\\\"", "\""));
        if g.token_epp(tidx).map(|x| x.to_string()) != Some(want_epp.clone().unwrap_or(name.clone())) && !(want_epp.is_none() && g.token_epp(tidx).is_none()) {
            return Err(format!("token_epp({}) is {:?}, the source gives {:?}", name, g.token_epp(tidx), want_epp));
        }
    }
    // productions in source order with their symbols, %prec and actions
    for (ri, (name, prods)) in m.rules.iter().enumerate() {
        for (pi, p) in prods.iter().enumerate() {
            let pidx = next_p_of_rule[ri][pi];
            let got = g.prod(pidx);
            let mut want = Vec::new();
            for sy in &p.syms { want.push(match sy { Sym::Rule(r) => Symbol::Rule(g.rule_idx(&m.rules[*r].0).unwrap()), Sym::Tok(t) => Symbol::Token(tidx_of(*t)?) }); }
            if got != &want[..] { return Err(format!("production {} of {} is `{}`, the source has {:?}", pi, name, g.pp_prod(pidx), p.syms)); }
            // precedence: %prec token, else the last token of the production
            let ptok = p.prec.or_else(|| p.syms.iter().rev().find_map(|s| if let Sym::Tok(t) = s { Some(*t) } else { None }));
            let want_prec = ptok.and_then(|t| g.token_precedence(tidx_of(t).unwrap()));
            if g.prod_precedence(pidx) != want_prec { return Err(format!("production {} of {} has precedence {:?}, the source gives {:?}", pi, name, g.prod_precedence(pidx), want_prec)); }
            if l.kind == 1 || l.kind == 2 {
                if g.action(pidx).as_deref() != p.action.as_deref() { return Err(format!("action of production {} of {} is {:?}, the source has {:?}", pi, name, g.action(pidx), p.action)); }
            }
            let sp = g.prod_span(pidx);
            if src.get(sp.start()..sp.end()).is_none() { return Err(format!("prod_span of production {} of {} cannot be rendered", pi, name)); }
        }
        if l.kind == 2 {
            let ridx = g.rule_idx(name).unwrap();
            if g.actiontype(ridx).as_deref() != Some("Result<u64, ()>") { return Err(format!("actiontype of {} is {:?}", name, g.actiontype(ridx))); }
        }
    }
    if g.expect() != m.expect || g.expectrr() != m.expectrr { return Err(format!("%expect {:?} / %expect-rr {:?}, the source gives {:?} / {:?}", g.expect(), g.expectrr(), m.expect, m.expectrr)); }
    Ok(())
}

// (the last layout: a block comment that runs over several lines, one of which starts with a slash, and holds a star)
const LAYOUTS: &[(&str, bool, bool, bool, &str)] = &[(" ", false, false, false, ""), ("\n", false, true, false, ""), (" ", true, false, false, ""), ("\t", false, false, true, "/* c */"), ("\n  ", true, true, false, ""), (" ", false, true, true, "/* c */"), (" ", false, false, true, "/* c\n/ d *\n/ e\n*/")];

pub fn run(seed: u64, layout: usize, kind: u8) -> Outcome {
    let expected = "every rendering of the abstract grammar builds exactly that grammar, with spans that read the defining text".to_string();
    let m = model(seed);
    let (sep, tight, dq, comments, cmt) = LAYOUTS[layout % LAYOUTS.len()];
    let l = Layout { sep, tight, dq, comments, cmt, kind };
    match catch_unwind(AssertUnwindSafe(|| check(&m, &l))) {
        Err(_) => Outcome { fails: true, observed: format!("panic on {:?}", render(&m, &l)), expected },
        Ok(Ok(())) => Outcome { fails: false, observed: "as the model".into(), expected },
        Ok(Err(e)) => Outcome { fails: true, observed: format!("{} -- source {:?}", e, render(&m, &l)), expected },
    }
}

pub fn search(tier: &str) -> Option<Value> {
    let n = if tier == "thorough" { 3000 } else { 400 };
    for seed in 1..=n {
        for layout in 0..LAYOUTS.len() {
            for kind in 0..4u8 {
                let o = run(seed, layout, kind);
                if o.fails { return Some(witness("c10_render", json!({"seed": seed, "layout": layout, "kind": kind}), &o)); }
            }
        }
    }
    None
}
