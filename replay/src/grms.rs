//! Small grammar generator shared by the lrtable/lrpar drivers.
pub struct Rng(pub u64);
impl Rng {
    pub fn next(&mut self) -> u64 {
        self.0 ^= self.0 << 13;
        self.0 ^= self.0 >> 7;
        self.0 ^= self.0 << 17;
        self.0
    }
    pub fn below(&mut self, n: usize) -> usize { (self.next() % (n as u64)) as usize }
}

pub const FIXED: &[&str] = &[
    "%start S\n%%\nS: 'a';",
    "%start S\n%%\nS: A 'x' | 'b';\nA: S;",
    "%start E\n%left '+'\n%left '*'\n%%\nE: E '+' E | E '*' E | 'n';",
    "%start E\n%right '='\n%left '+'\n%%\nE: E '=' E | E '+' E | 'n';",
    "%start E\n%nonassoc '='\n%%\nE: E '=' E | 'n';",
    "%start E\n%nonassoc '<'\n%left '+'\n%%\nE: E '<' E | E '+' E | 'n';",
    "%start E\n%%\nE: E '+' E | 'n';",
    "%start S\n%%\nS: A | B;\nA: 'a';\nB: 'a';",
    "%start S\n%%\nS: A 'c' | B 'd';\nA: 'a';\nB: 'a';",
    "%start S\n%%\nS: 'x' A;\nA: E 'y';\nE: ;",
    "%start S\n%%\nS: A B C;\nA: 'a' | ;\nB: 'b' | ;\nC: 'c' | ;",
    "%start S\n%%\nS: 'i' S 'e' S | 'i' S | 'o';",
    "%start S\n%left 'e'\n%%\nS: 'i' S 'e' S | 'i' S %prec 'e' | 'o';",
    "%start E\n%left '+'\n%right '?'\n%%\nE: E '?' E ':' E | E '+' E | 'n';",
    "%start S\n%%\nS: L '=' R | R;\nL: '*' R | 'i';\nR: L;",
];

/// a random small Yacc grammar (Original yacc kind, no actions)
pub fn random(seed: u64) -> String {
    let mut r = Rng(seed.wrapping_mul(0x9E3779B97F4A7C15) | 1);
    let nrules = 1 + r.below(3);
    let toks = ["'a'", "'b'", "'c'"];
    let mut s = String::from("%start R0\n");
    let kinds = ["%left", "%right", "%nonassoc"];
    let nprec = r.below(3);
    let mut used = vec![false; 3];
    for _ in 0..nprec {
        let t = r.below(3);
        if used[t] { continue; }
        used[t] = true;
        s.push_str(&format!("{} {}\n", kinds[r.below(3)], toks[t]));
    }
    s.push_str("%%\n");
    for i in 0..nrules {
        s.push_str(&format!("R{}: ", i));
        let np = 1 + r.below(3);
        for p in 0..np {
            if p > 0 { s.push_str(" | "); }
            let len = r.below(4);
            for _ in 0..len {
                if r.below(2) == 0 { s.push_str(toks[r.below(3)]); } else { s.push_str(&format!("R{}", r.below(nrules))); }
                s.push(' ');
            }
        }
        s.push_str(";\n");
    }
    s
}

/// a random grammar with more rules / longer productions (merging and re-processing of states needs them)
pub fn random_larger(seed: u64) -> String {
    let mut r = Rng(seed.wrapping_mul(0xD1B54A32D192ED03) | 1);
    let nrules = 2 + r.below(4);
    let toks = ["'a'", "'b'", "'c'", "'d'"];
    let mut s = String::from("%start R0\n%%\n");
    for i in 0..nrules {
        s.push_str(&format!("R{}: ", i));
        let np = 1 + r.below(4);
        for p in 0..np {
            if p > 0 { s.push_str(" | "); }
            let len = r.below(5);
            for _ in 0..len {
                if r.below(5) < 3 { s.push_str(toks[r.below(4)]); } else { s.push_str(&format!("R{}", r.below(nrules))); }
                s.push(' ');
            }
        }
        s.push_str(";\n");
    }
    s
}

/// operator grammars: an expression rule with binary operators under precedence declarations, and wrapper rules in which
/// the same operators follow an expression in other contexts (the same shift/reduce conflict then arises in several states)
pub fn ops(seed: u64) -> String {
    let mut r = Rng(seed.wrapping_mul(0xC2B2AE3D27D4EB4F) | 1);
    let ops = ["'+'", "'*'", "'='"];
    let nops = 2 + r.below(2);
    let kinds = ["%left", "%right", "%nonassoc"];
    let mut s = String::from("%start S\n");
    for o in 0..nops { if r.below(4) != 0 { s.push_str(&format!("{} {}\n", kinds[r.below(3)], ops[o])); } }
    s.push_str("%%\nS: E");
    let nwrap = 1 + r.below(2);
    for w in 0..nwrap { if r.below(2) == 0 { s.push_str(&format!(" | 'x' G{}", w)); } else { s.push_str(&format!(" | G{} 'y'", w)); } }
    s.push_str(";\n");
    for w in 0..nwrap {
        s.push_str(&format!("G{}: E", w));
        for _ in 0..1 + r.below(2) { s.push_str(&format!(" {} E", ops[r.below(nops)])); }
        s.push_str(&format!(" {} 'b';\n", ops[r.below(nops)]));
    }
    s.push_str("E: ");
    for o in 0..nops { s.push_str(&format!("E {} E | ", ops[o])); }
    s.push_str("'a';\n");
    s
}
