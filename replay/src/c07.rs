//! C07: a parse with error recovery always returns, and the error list matches the outcome.
//! Inputs: small grammars, token strings with garbage runs of various lengths, token-cost functions.
use crate::{witness, Outcome};
use cfgrammar::yacc::{YaccGrammar, YaccKind, YaccOriginalActionKind};
use cfgrammar::TIdx;
use lrlex::{DefaultLexerTypes, LRNonStreamingLexerDef, LexerDef};
use lrpar::{LexParseError, Lexeme, Lexer, NonStreamingLexer, RTParserBuilder, RecoveryKind};
use lrtable::{from_yacc, Minimiser};
use serde_json::{json, Value};
use std::panic::{catch_unwind, AssertUnwindSafe};
use std::sync::mpsc;
use std::time::Duration;

const LEX: &str = "%%\na 'a'\nb 'b'\nc 'c'\n[ \\t\\n]+ ;\n";
type LT = DefaultLexerTypes<u32>;

/// can some rule derive just itself (A =>+ A)?
pub fn cyclic(grm: &YaccGrammar<u32>) -> bool {
    use cfgrammar::{RIdx, Symbol};
    let firsts = grm.firsts();
    let n = usize::from(grm.rules_len());
    let mut reach = vec![vec![false; n]; n];
    for p in grm.iter_pidxs() {
        let a = usize::from(grm.prod_to_rule(p));
        let prod = grm.prod(p);
        for (i, sym) in prod.iter().enumerate() {
            if let Symbol::Rule(b) = sym {
                let others_nullable = prod.iter().enumerate().all(|(j, s)| j == i || matches!(s, Symbol::Rule(r) if firsts.is_epsilon_set(*r)));
                if others_nullable { reach[a][usize::from(*b)] = true; }
            }
        }
    }
    for k in 0..n { for i in 0..n { for j in 0..n { if reach[i][k] && reach[k][j] { reach[i][j] = true; } } } }
    let _ = RIdx(0u32);
    (0..n).any(|i| reach[i][i])
}

fn once(gsrc: String, input: String, cost: u8) -> Result<String, String> {
    let grm = YaccGrammar::<u32>::new_with_storaget(YaccKind::Original(YaccOriginalActionKind::GenericParseTree), &gsrc).map_err(|_| "grammar".to_string())?;
    if cyclic(&grm) { return Err("grammar".into()); } // the property excludes grammars in which a rule can derive just itself
    let (_, stable) = from_yacc(&grm, Minimiser::Pager).map_err(|_| "table".to_string())?;
    // with conflicts settled by the default rules plain LR parsing itself can loop (hidden left recursion, e.g.
    // S: | A A 'b'; A: S S | ..): outside what this sweep judges
    // (the recorded finding C07.lr.every_parse_returns).  Without a rule that derives the empty string consecutive reductions
    // shrink the stack or run along unit productions, which `cyclic` has excluded: such grammars are judged with their conflicts.
    if stable.conflicts().is_some() {
        let firsts = grm.firsts();
        if grm.iter_rules().any(|r| firsts.is_epsilon_set(r)) { return Err("grammar".into()); }
    }
    let mut lexerdef = LRNonStreamingLexerDef::<LT>::from_str(LEX).map_err(|_| "lexer".to_string())?;
    let ids: std::collections::HashMap<&str, u32> = grm.tokens_map().into_iter().map(|(k, v)| (k, u32::from(v))).collect();
    lexerdef.set_rule_ids(&ids);
    let lexer = lexerdef.lexer(&input);
    let starts: Vec<usize> = lexer.iter().filter_map(|l| l.ok()).map(|l| l.span().start()).collect();
    let nlex = starts.len();
    // C04: without recovery the one error sits at the first lexeme the table rejects (end of input: the end-of-input lexeme)
    if lexer.iter().all(|l| l.is_ok()) {
        use lrtable::Action;
        let toks: Vec<TIdx<u32>> = lexer.iter().filter_map(|l| l.ok()).map(|l| TIdx(l.tok_id())).collect();
        let mut stack = vec![stable.start_state()];
        let mut i = 0;
        let mut fuel = 100000;
        let rejected_at: Option<usize> = loop {
            fuel -= 1;
            if fuel == 0 { break None; }
            let la = if i < toks.len() { toks[i] } else { grm.eof_token_idx() };
            match stable.action(*stack.last().unwrap(), la) {
                Action::Shift(st) => { stack.push(st); i += 1; }
                Action::Reduce(p) => { let n = grm.prod(p).len(); let l = stack.len(); stack.truncate(l - n); match stable.goto(*stack.last().unwrap(), grm.prod_to_rule(p)) { Some(st) => stack.push(st), None => break Some(i) } }
                Action::Accept => break None,
                Action::Error => break Some(i),
            }
        };
        let pb0 = RTParserBuilder::new(&grm, &stable).recoverer(RecoveryKind::None);
        #[allow(deprecated)]
        let r0 = catch_unwind(AssertUnwindSafe(|| pb0.parse_generictree(&lexer)));
        match r0 {
            Err(_) => return Err("panic inside parse (no recovery)".into()),
            Ok((tree0, errs0)) => {
                match rejected_at {
                    None => if !errs0.is_empty() || tree0.is_none() { if fuel > 0 { return Err(format!("the table accepts the input but the parser (no recovery) reports {} error(s), value: {}", errs0.len(), tree0.is_some())); } }
                    Some(i) => {
                        if tree0.is_some() { return Err("the table rejects the input but the parser (no recovery) returns a value".into()); }
                        if errs0.len() != 1 { return Err(format!("the table rejects the input; without recovery exactly one error is expected, {} reported", errs0.len())); }
                        if let LexParseError::ParseError(pe) = &errs0[0] {
                            // the end-of-input lexeme is zero-length and sits where the last real lexeme ends
                            let last_end = lexer.iter().filter_map(|l| l.ok()).last().map(|l| l.span().end()).unwrap_or(0);
                            let want = if i < starts.len() { starts[i] } else { last_end };
                            let want_len_zero = i >= starts.len();
                            if pe.lexeme().span().start() != want || (want_len_zero && pe.lexeme().span().len() != 0) {
                                return Err(format!("without recovery the error is reported at byte {} (len {}), the table rejects lexeme {} at byte {}{}", pe.lexeme().span().start(), pe.lexeme().span().len(), i, want, if want_len_zero { " (end of input)" } else { "" }));
                            }
                        }
                    }
                }
            }
        }
    }
    let costf = move |_: TIdx<u32>| cost;
    let pb = RTParserBuilder::new(&grm, &stable).recoverer(RecoveryKind::CPCTPlus).term_costs(&costf);
    #[allow(deprecated)]
    let r = catch_unwind(AssertUnwindSafe(|| pb.parse_generictree(&lexer)));
    match r {
        Err(_) => Err("panic inside parse".into()),
        Ok((tree, errs)) => {
            // errors in strictly increasing position; all but the last carry repairs; value iff all carry repairs
            let mut last: Option<usize> = None;
            let mut all_rep = true;
            let n = errs.len();
            for (k, e) in errs.iter().enumerate() {
                match e {
                    LexParseError::LexError(_) => return Ok("lex error".into()),
                    LexParseError::ParseError(pe) => {
                        let pos = pe.lexeme().span().start();
                        if let Some(l) = last {
                            if pos <= l {
                                let all: Vec<String> = errs.iter().map(|e| match e { LexParseError::ParseError(pe) => format!("byte {} len {} state {} repairs {:?}", pe.lexeme().span().start(), pe.lexeme().span().len(), usize::from(pe.stidx()), pe.repairs().iter().map(|r| r.iter().map(|x| match x { lrpar::ParseRepair::Insert(t) => format!("Ins {}", grm.token_name(*t).unwrap_or("?")), lrpar::ParseRepair::Delete(l) => format!("Del@{}", l.span().start()), lrpar::ParseRepair::Shift(l) => format!("Sh@{}", l.span().start()) }).collect::<Vec<_>>().join(",")).collect::<Vec<_>>()), _ => "lex".into() }).take(4).collect();
                                return Err(format!("error {} at byte {} does not lie after the previous one at byte {} [{}]", k, pos, l, all.join("; ")));
                            }
                            // at least three real lexemes (or the rest of the input) beyond the previous error
                            let li = starts.iter().position(|&s| s == l).unwrap_or(nlex);
                            let pi = starts.iter().position(|&s| s == pos).unwrap_or(nlex);
                            if pi < li + 3 && pi < nlex { return Err(format!("error {} is at lexeme {}, fewer than three lexemes after the previous error at lexeme {}", k, pi, li)); }
                        }
                        last = Some(pos);
                        if pe.repairs().is_empty() { all_rep = false; if k + 1 != n { return Err(format!("error {} of {} has no repair sequence but is not the last", k, n)); } }
                    }
                }
            }
            if n > nlex + 1 { return Err(format!("{} errors for {} lexemes", n, nlex)); }
            if tree.is_some() != all_rep { return Err(format!("value returned: {}, every error has repairs: {}", tree.is_some(), all_rep)); }
            Ok(format!("{} errors", n))
        }
    }
}

/// C07's first clause on its own: for a grammar in which no rule derives just itself, the parse returns (whatever
/// conflicts the table construction settled).  Used to replay the recorded finding about hidden left recursion.
pub fn run_returns(g: &str, input: &str) -> Outcome {
    crate::note_case("c07_returns", json!({"grammar": g, "input": input}));
    let expected = "the parse returns".to_string();
    let grm = match YaccGrammar::<u32>::new_with_storaget(YaccKind::Original(YaccOriginalActionKind::GenericParseTree), g) { Ok(x) => x, Err(_) => return Outcome { fails: false, observed: "not a grammar".into(), expected } };
    if cyclic(&grm) { return Outcome { fails: false, observed: "a rule derives just itself: outside the property".into(), expected }; }
    let (tx, rx) = mpsc::channel();
    let (g2, i2) = (g.to_string(), input.to_string());
    std::thread::spawn(move || {
        let grm = YaccGrammar::<u32>::new_with_storaget(YaccKind::Original(YaccOriginalActionKind::GenericParseTree), &g2).unwrap();
        let (_, stable) = match from_yacc(&grm, Minimiser::Pager) { Ok(x) => x, Err(_) => { let _ = tx.send(()); return; } };
        let mut lexerdef = LRNonStreamingLexerDef::<LT>::from_str(LEX).unwrap();
        let ids: std::collections::HashMap<&str, u32> = grm.tokens_map().into_iter().map(|(k, v)| (k, u32::from(v))).collect();
        lexerdef.set_rule_ids(&ids);
        let lexer = lexerdef.lexer(&i2);
        let pb = RTParserBuilder::new(&grm, &stable).recoverer(RecoveryKind::None);
        #[allow(deprecated)]
        let _ = catch_unwind(AssertUnwindSafe(|| pb.parse_generictree(&lexer)));
        let _ = tx.send(());
    });
    match rx.recv_timeout(crate::tmo(2000)) {
        Ok(()) => Outcome { fails: false, observed: "returned".into(), expected },
        Err(_) => Outcome { fails: true, observed: "no result after 2 s, without error recovery (the parser keeps reducing)".into(), expected },
    }
}

pub fn run(g: &str, input: &str, cost: u8) -> Outcome {
    crate::note_case("c07_recover", json!({"grammar": g, "input": input, "cost": cost}));
    let (tx, rx) = mpsc::channel();
    let (g2, i2) = (g.to_string(), input.to_string());
    std::thread::spawn(move || { let _ = tx.send(once(g2, i2, cost)); });
    let expected = "parse returns; errors in increasing position, all but the last with repairs; value iff all repaired".to_string();
    match rx.recv_timeout(crate::tmo(8000)) {
        Ok(Ok(d)) => Outcome { fails: false, observed: d, expected },
        Ok(Err(d)) => Outcome { fails: d != "grammar" && d != "table" && d != "lexer", observed: d, expected },
        Err(_) => Outcome { fails: true, observed: "no result after 8 s (the recovery budget is 0.5 s per error)".into(), expected },
    }
}

const GRMS: &[&str] = &[
    "%start S\n%%\nS: 'a';",
    "%start S\n%%\nS: 'a' S | 'b';",
    "%start S\n%%\nS: 'a' S 'b' | 'c';",
    "%start S\n%%\nS: S 'a' | ;",
];

/// grammars without empty productions whose conflicts the default rules settle (dangling-else shapes, shared prefixes)
fn conflict_family(seed: u64) -> String {
    let mut r = crate::grms::Rng(seed.wrapping_mul(0x94D049BB133111EB) | 1);
    let toks = ["'a'", "'b'", "'c'"];
    let nr = 2 + r.below(3);
    let mut s = String::from("%start R0\n%%\n");
    for i in 0..nr {
        s.push_str(&format!("R{}: ", i));
        let np = 1 + r.below(3);
        for p in 0..np {
            if p > 0 { s.push_str(" | "); }
            let len = 1 + r.below(4);       // never empty
            for k in 0..len {
                // the first symbol is a token, so that no rule is left recursive through a unit chain
                if k == 0 || r.below(2) == 0 { s.push_str(toks[r.below(3)]); } else { s.push_str(&format!("R{}", r.below(nr))); }
                s.push(' ');
            }
        }
        s.push_str(";\n");
    }
    s
}

pub fn search(_tag: &str, tier: &str) -> Option<Value> {
    let lens: &[usize] = if tier == "thorough" { &[0, 1, 2, 3, 5, 9, 40, 130, 260, 300, 600] } else { &[0, 1, 2, 3, 5, 9, 40, 260, 300] };
    for g in GRMS {
        for &cost in &[1u8, 3, 255] {
            for &n in lens {
                for tail in ["", "a", "b", "a b", "c"] {
                    let mut input = String::new();
                    for _ in 0..n { input.push_str("c b "); }
                    input.push_str(tail);
                    let o = run(g, &input, cost);
                    if o.fails { return Some(witness("c07_recover", json!({"grammar": g, "input": input, "cost": cost}), &o)); }
                }
            }
        }
    }
    // random small grammars over a, b, c (with %avoid_insert / precedence-free) and random token strings
    let n = if tier == "thorough" { 3000 } else { 300 };
    let mut r = crate::grms::Rng(0x2545F4914F6CDD1D);
    for seed in 1..=n {
        let mut g = crate::grms::random(seed);
        if g.contains("%left") || g.contains("%right") || g.contains("%nonassoc") { continue; }
        if r.below(3) == 0 { g = g.replacen("%%", &format!("%avoid_insert '{}'\n%%", ["a", "b", "c"][r.below(3)]), 1); }
        for _ in 0..6 {
            let l = 1 + r.below(7);
            let input: String = (0..l).map(|_| ["a ", "b ", "c "][r.below(3)]).collect();
            let o = run(&g, &input, 1);
            if o.fails { return Some(witness("c07_recover", json!({"grammar": g, "input": input, "cost": 1}), &o)); }
        }
    }
    // grammars without empty productions, conflicts included
    let n2 = if tier == "thorough" { 4000 } else { 500 };
    for seed in 1..=n2 {
        let g = conflict_family(seed);
        for _ in 0..6 {
            let l = r.below(6);
            let input: String = (0..l).map(|_| ["a ", "b ", "c "][r.below(3)]).collect();
            let o = run(&g, &input, 1);
            if o.fails { return Some(witness("c07_recover", json!({"grammar": g, "input": input, "cost": 1}), &o)); }
        }
    }
    None
}
