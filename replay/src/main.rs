//! Witness search against the real crates (DESIGN 3.6).
//! usage: replay <unit> <obligation-tag> <tier>     -> prints `WITNESS <json>` or nothing
//!        replay --witness <json>                   -> prints STILL-FAILS or NOW-PASSES
use serde_json::{json, Value};
use std::panic;

mod c02;
mod c03;
mod c03r;
mod c04;
mod c06;
mod c07;
mod c08;
mod c09;
mod c10;
mod c10r;
mod c11;
mod c12;
mod c15;
mod c16;
mod c17;
mod grms;
mod known;
mod c19;
mod c20;

/// watchdog durations: scaled up when a hang witness is re-examined, so that a loaded machine is not mistaken for a hang
pub static TMO_SCALE: std::sync::atomic::AtomicU64 = std::sync::atomic::AtomicU64::new(1);
pub fn tmo(ms: u64) -> std::time::Duration { std::time::Duration::from_millis(ms * TMO_SCALE.load(std::sync::atomic::Ordering::SeqCst)) }

/// The case a driver is about to run, written to the file named by REPLAY_CASEFILE: when the code under test kills the
/// process (a stack overflow cannot be caught), the check reads the file to learn which case it died on.
pub fn note_case(driver: &str, input: Value) {
    use std::io::{Seek, SeekFrom, Write};
    static F: std::sync::OnceLock<Option<std::sync::Mutex<std::fs::File>>> = std::sync::OnceLock::new();
    let f = F.get_or_init(|| std::env::var_os("REPLAY_CASEFILE").and_then(|p| std::fs::File::create(p).ok()).map(std::sync::Mutex::new));
    if let Some(m) = f {
        if let Ok(mut fh) = m.lock() {
            let data = json!({"driver": driver, "input": input}).to_string();
            let _ = fh.seek(SeekFrom::Start(0));
            let _ = fh.write_all(data.as_bytes());
            let _ = fh.set_len(data.len() as u64);
        }
    }
}

pub struct Outcome {
    pub fails: bool,
    pub observed: String,
    pub expected: String,
}

fn rerun(w: &Value) -> Option<Outcome> {
    match w["driver"].as_str()? {
        "c19_span" => Some(c19::run_span(w["input"]["text"].as_str()?, w["input"]["start"].as_u64()? as usize, w["input"]["end"].as_u64()? as usize)),
        "c02_lr1" => Some(c02::run(w["input"]["grammar"].as_str()?)),
        "c07_returns" => Some(c07::run_returns(w["input"]["grammar"].as_str()?, w["input"]["input"].as_str()?)),
        "c07_recover" => Some(c07::run(w["input"]["grammar"].as_str()?, w["input"]["input"].as_str()?, w["input"]["cost"].as_u64()? as u8)),
        "c03_cells" => Some(c03r::run_seed(w["input"]["seed"].as_u64()?)),
        "c06_repairs" => { let costs: Vec<u8> = w["input"]["costs"].as_array().map(|a| a.iter().map(|x| x.as_u64().unwrap_or(1) as u8).collect()).unwrap_or_else(|| vec![1]); Some(c06::run_costs(w["input"]["grammar"].as_str()?, w["input"]["input"].as_str()?, &costs)) }
        "c04_graph" => Some(c04::run(w["input"]["grammar"].as_str()?)),
        "c12_header" => Some(c12::run_header(w["input"]["text"].as_str()?)),
        "c12_header_deep" => Some(c12::run_header_deep(w["input"]["nested"].as_u64()? as usize)),
        "c12_yacc" => Some(c12::run_yacc(w["input"]["text"].as_str()?)),
        "c12_span" => Some(c12::run_span(w["input"]["start"].as_u64()? as usize, w["input"]["end"].as_u64()? as usize)),
        "c12_dupocc" => Some(c12::run_dupocc(w["input"]["which"].as_str()?, &w["input"]["pattern"].as_array()?.iter().filter_map(|x| x.as_u64().map(|y| y as usize)).collect::<Vec<_>>())),
        "c12_lex" => Some(c12::run_lex(w["input"]["text"].as_str()?)),
        "c09_ids" => Some(c09::run(w["input"]["spec"].as_str()?, &w["input"]["map"].as_array()?.iter().map(|x| (x[0].as_str().unwrap_or("").to_string(), x[1].as_u64().unwrap_or(0) as u32)).collect::<Vec<_>>())),
        "c10_render" => Some(c10r::run(w["input"]["seed"].as_u64()?, w["input"]["layout"].as_u64()? as usize, w["input"]["kind"].as_u64()? as u8)),
        "c20_u8_table" => Some(c20::run_u8_table(w["input"]["kind"].as_str()?, w["input"]["n"].as_u64()? as usize)),
        "c11_flagforce" => Some(c11::run_flagforce(w["input"]["section"].as_str()?, w["input"]["re"].as_str()?, w["input"]["input"].as_str()?)),
        "c11_escape" => Some(c11::run_escape(w["input"]["re"].as_str()?, w["input"]["text"].as_str()?)),
        "c11_numflag" => Some(c11::run_numflag(w["input"]["key"].as_str()?, w["input"]["n"].as_u64()?)),
        "known" => known::run(w["input"]["case"].as_str()?),
        "c09_lexeme" => Some(c09::run_lexeme(w["input"]["tok_id"].as_u64()? as u32, w["input"]["start"].as_u64()? as usize, w["input"]["len"].as_u64()? as usize, w["input"]["faulty"].as_bool()?)),
        "c09_stack" => Some(c09::run_stack(w["input"]["input"].as_str()?)),
        "c09_anchor" => Some(c09::run_anchor(w["input"]["text"].as_str()?)),
        "c20_numbering" => Some(c20::run_numbering(w["input"]["grammar"].as_str()?)),
        "c20_u8" => Some(c20::run_u8(w["input"]["kind"].as_str()?, w["input"]["n"].as_u64()? as usize)),
        "c03_expect" => Some(c03::run(w["input"]["body"].as_str()?, w["input"]["expect"].as_u64().map(|x| x as usize), w["input"]["expectrr"].as_u64().map(|x| x as usize))),
        "c10_order" => { let d: Vec<String> = w["input"]["decls"].as_array()?.iter().filter_map(|x| x.as_str().map(|y| y.to_string())).collect(); let pm: Vec<usize> = w["input"]["perm"].as_array()?.iter().filter_map(|x| x.as_u64().map(|y| y as usize)).collect(); Some(c10::run_order(&d, w["input"]["body"].as_str()?, &pm)) }
        "c10_api" => Some(c10::run(w["input"]["kind"].as_str()?, w["input"]["grammar"].as_str()?)),
        "c15_codegen" => Some(c15::run_codegen(w["input"]["grammar"].as_str()?, 12)),
        "c15_tables" => Some(c15::run_tables(w["input"]["grammar"].as_str()?, 40)),
        "c15_numbering" => Some(c15::run(w["input"]["grammar"].as_str()?, 200)),
        "c11_gen" => Some(c11::run_gen(w["input"]["seed"].as_u64()?)),
        "c11_spans" => Some(c11::run(w["input"]["source"].as_str()?)),
        "c08_span" => Some(c08::run(w["input"]["grammar"].as_str()?, w["input"]["input"].as_str()?)),
        "c17_costs" => Some(c17::run_costs(w["input"]["grammar"].as_str()?, &w["input"]["costs"].as_array()?.iter().map(|x| x.as_u64().unwrap_or(1) as u8).collect::<Vec<u8>>())),
        "c17_sets" => Some(c17::run(w["input"]["grammar"].as_str()?, w["input"]["what"].as_str()?)),
        "c16_table" => Some(c16::run(w["input"]["grammar"].as_str()?)),
        "c19_diag" => Some(c19::run_diag(w["input"]["text"].as_str()?, w["input"]["start"].as_u64()? as usize, w["input"]["end"].as_u64()? as usize)),
        "c19_wrap" => Some(c19::run_wrap(w["input"]["text"].as_str()?, w["input"]["start"].as_u64()? as usize, w["input"]["end"].as_u64()? as usize)),
        "c19_col" => Some(c19::run_col(w["input"]["text"].as_str()?, w["input"]["byte"].as_u64()? as usize)),
        "c19_line" => Some(c19::run_line(w["input"]["text"].as_str()?, w["input"]["byte"].as_u64()? as usize)),
        _ => None,
    }
}

fn search(unit: &str, tag: &str, tier: &str) -> Option<Value> {
    match unit {
        // whole-file pins: the property's general sweeps
        "c02_files" => c02::search(tag, tier),
        "c03_files" => c03::search(tag, tier).or_else(|| c03r::search(tag, tier)),
        "c04_files" => c04::search(tag, tier).or_else(|| c07::search(tag, tier)),
        "c05_files" | "c06_files" => c06::search(tag, tier).or_else(|| c07::search(tag, tier)),
        "c07_files" => c07::search(tag, tier).or_else(|| c06::search(tag, tier)),
        "c08_files" => c08::search(tag, tier),
        "c09_files" => c09::search_stack(tier).or_else(|| c11::search(tag, tier)).or_else(|| c09::search(tier)),
        "c10_files" => c10::search(tag, tier).or_else(|| c10r::search(tier)),
        "c11_files" => c11::search(tag, tier),
        "c12_files" => c12::search("C12.header", tier).or_else(|| c12::search_lex(tier)).or_else(|| c12::search_yacc(tier)),
        "c15_files" => c15::search(tag, tier).or_else(|| c15::search_tables(tier)).or_else(|| c15::search_codegen(tier)),
        "c16_files" => c16::search(tag, tier),
        "c17_files" => c17::search("all", tag, tier).or_else(|| c17::search_costs(tier)),
        "c19_files" => c19::search("C19.span", tier).or_else(|| c19::search("C19.col.", tier)).or_else(|| c19::search("C19.wrap.", tier)).or_else(|| c19::search("C19.diag.", tier)),
        "c20_files" => c20::search("C20.guard", tier).or_else(|| c20::search("C20.state", tier)),
        "c19_diag" => c19::search("C19.diag.pinned", tier),
        "c19_queries" | "c19_cols" | "c19_wrap" | "c19_feed" => c19::search(tag, tier),
        "c09_ids" => c09::search(tier),
        "c09_lexeme" => c09::search_lexeme(),
        "c02_weakly" | "c02_merge" => c02::search(tag, tier),
        "c04_pager" | "c02_itemset" | "c02_add" => if tag.starts_with("C15") { c15::search(tag, tier) } else if tag.starts_with("C16") { c16::search(tag, tier).or_else(|| c04::search(tag, tier)) } else { c04::search(tag, tier).or_else(|| c02::search(tag, tier)) },
        "c16_gc" | "c20_states" if tag.starts_with("C16") => c16::search(tag, tier),
        "c16_gc" if tag.starts_with("C15") => c15::search_tables(tier),
        "c16_gc" => c02::search(tag, tier).or_else(|| c16::search(tag, tier)),
        "c07_lr" | "c04_next" => c07::search(tag, tier),
        "c06_moves" | "c06_dijkstra" | "c06_cpct" | "c06_rank" | "c05_apply" | "c05_cactus" | "c05_traverse" | "c05_error" => if tag.starts_with("C07") { c07::search(tag, tier).or_else(|| c06::search(tag, tier)) } else { c06::search(tag, tier).or_else(|| c07::search(tag, tier)) },
        "c12_header" => c12::search(tag, tier),
        "c12_span" => c12::search_span(),
        "c12_dupocc" => c12::search_dupocc(tag, tier).or_else(|| c11::search(tag, tier)),
        "c12_flags" if tag.starts_with("C11") => c11::search(tag, tier),
        "c12_lex" | "c12_flags" | "c12_unescape" | "c12_lexdef" => c12::search_lex(tier),
        "c12_yacc" | "c12_yacc2" | "c12_yacc3" => c12::search_yacc(tier),
        "c10_decls" => if tag.starts_with("C12") { c12::search_yacc(tier) } else { c10::search(tag, tier).or_else(|| c10r::search(tier)) },
        "c11_decl" if tag.starts_with("C12") => c12::search_lex(tier),
        "c08_entry" if tag.starts_with("C07") || tag.starts_with("C04") => c07::search(tag, tier),
        "c08_reduce" | "c08_tree" | "c08_entry" => c08::search(tag, tier),
        "c11_flags" if tag.starts_with("C12") => c12::search_lex(tier),
        "c09_lexer" => c09::search_stack(tier).or_else(|| c11::search(tag, tier)),
        "c11_decl" | "c11_lex" | "c11_flags" | "c11_access" => c11::search(tag, tier),
        "c15_cache" => c15::search_codegen(tier),
        "c10_grammar" | "c10_validate" | "c10_prods" | "c10_rule" | "c10_ast" | "c10_access" => if tag.starts_with("C15") { c15::search(tag, tier) } else { c10::search(tag, tier).or_else(|| c10r::search(tier)) },
        "c03_expect" => c03::search(tag, tier),
        "c16_graph" => if tag.starts_with("C03") { c03::search(tag, tier) } else { c16::search(tag, tier) },
        "c03_resolve" | "c03_prodprec" => c03r::search(tag, tier),
        "c03_preclines" => c10r::search(tier).or_else(|| c03r::search(tag, tier)),
        "c17_firsts" | "c17_follows" | "c17_haspath" | "c17_costs" | "c17_maxcost" | "c17_sentence" => c17::search(unit, tag, tier),
        "c16_new" | "c16_codec" | "c16_queries" => c16::search(tag, tier),
        "c20_grammar" | "c20_states" => c20::search(tag, tier),
        _ => None,
    }
}

fn main() {
    if std::env::var_os("REPLAY_SHOW_PANICS").is_none() { panic::set_hook(Box::new(|_| {})); }
    let args: Vec<String> = std::env::args().collect();
    if args.len() >= 3 && args[1] == "--witness" {
        let w: Value = serde_json::from_str(&args[2]).expect("witness json");
        match rerun(&w) {
            Some(o) if o.fails => println!("STILL-FAILS observed={} expected={}", o.observed, o.expected),
            Some(o) => println!("NOW-PASSES observed={}", o.observed),
            None => println!("UNKNOWN-DRIVER"),
        }
        return;
    }
    if args.len() >= 4 && args[1] == "--trace" { println!("{}", c06::trace(&args[2].replace("\\n", "\n"), &args[3])); return; }
    if args.len() < 3 {
        eprintln!("usage: replay <unit> <tag> [tier]");
        std::process::exit(2);
    }
    let tier = args.get(3).map(|s| s.as_str()).unwrap_or("quick");
    if let Some(w) = search(&args[1], &args[2], tier) {
        // a witness that says "no result after .." is only believed if the same input still gives no result with six times
        // the time (a loaded machine makes watchdogs fire on correct code)
        let observed = w["observed"].as_str().unwrap_or("").to_string();
        if observed.contains("no result after") {
            TMO_SCALE.store(6, std::sync::atomic::Ordering::SeqCst);
            match rerun(&w) {
                Some(o) if o.fails => println!("WITNESS {}", w),
                _ => eprintln!("a watchdog fired but the input returns when given more time: not a witness"),
            }
        } else {
            println!("WITNESS {}", w);
        }
    }
}

pub fn witness(driver: &str, input: Value, o: &Outcome) -> Value {
    json!({"driver": driver, "input": input, "observed": o.observed, "expected": o.expected})
}
