//! C08: every action invocation gets the span of the lexemes its production derived
//! (zero-length when none), one call per reduction in postfix order of the final tree.
use crate::{witness, Outcome};
use cfgrammar::yacc::{YaccGrammar, YaccKind, YaccOriginalActionKind};
use cfgrammar::{RIdx, Span};
use lrlex::{DefaultLexerTypes, LRNonStreamingLexerDef, LexerDef};
use lrpar::parser::AStackType;
use lrpar::{Lexeme, Node, NonStreamingLexer, RTParserBuilder, RecoveryKind};
use lrtable::{from_yacc, Minimiser};
use serde_json::{json, Value};
use std::cell::RefCell;
#[allow(deprecated)]
use std::panic::{catch_unwind, AssertUnwindSafe};

const LEX: &str = "%%\nx 'x'\ny 'y'\no 'o'\n[ \\t\\n]+ ;\n";
pub const GRMS: &[&str] = &[
    "%start S\n%%\nS: 'x' A;\nA: E 'y';\nE: ;",
    "%start S\n%%\nS: A 'y';\nA: ;",
    "%start S\n%%\nS: 'x' E;\nE: ;",
    "%start S\n%%\nS: E;\nE: ;",
    "%start S\n%%\nS: 'x' O 'y' O;\nO: 'o' | ;",
    "%start S\n%%\nS: O O 'x';\nO: 'o' | ;",
    "%start S\n%%\nS: S 'x' | ;",
    "%start S\n%%\nS: 'x' S 'y' | 'o';",
    "%start S\n%%\nS: A 'y';\nA: 'x' E;\nE: ;",
    "%start S\n%%\nS: A 'y' A;\nA: 'x' O;\nO: 'o' | ;",
];

type LT = DefaultLexerTypes<u32>;

/// postfix list of (ridx, nchildren, derived span or None) of the generic tree
fn postfix(n: &Node<lrlex::DefaultLexeme<u32>, u32>, out: &mut Vec<(u32, usize, Option<(usize, usize)>)>) -> Option<(usize, usize)> {
    match n {
        Node::Term { lexeme } => Some((lexeme.span().start(), lexeme.span().end())),
        Node::Nonterm { ridx, nodes } => {
            let mut d: Option<(usize, usize)> = None;
            for c in nodes {
                if let Some((a, b)) = postfix(c, out) {
                    d = Some(match d { None => (a, b), Some((a0, _)) => (a0, b) });
                }
            }
            out.push((u32::from(*ridx), nodes.len(), d));
            d
        }
    }
}

fn check(gsrc: &str, input: &str) -> Result<bool, String> {
    let grm = YaccGrammar::<u32>::new_with_storaget(YaccKind::Original(YaccOriginalActionKind::NoAction), gsrc).map_err(|_| "grammar".to_string())?;
    let (_, stable) = from_yacc(&grm, Minimiser::Pager).map_err(|_| "table".to_string())?;
    let mut lexerdef = LRNonStreamingLexerDef::<LT>::from_str(LEX).map_err(|_| "lexer".to_string())?;
    let ids: std::collections::HashMap<&str, u32> = grm.tokens_map().into_iter().map(|(k, v)| (k, u32::from(v))).collect();
    lexerdef.set_rule_ids(&ids);
    let lexer = lexerdef.lexer(input);
    let pb0 = RTParserBuilder::new(&grm, &stable).recoverer(RecoveryKind::None);
    let (tree0, errs0) = pb0.parse_generictree(&lexer);
    // a rejected input is parsed again with error recovery; it is only judged when every error has exactly one
    // repair sequence (otherwise which one gets applied is not determined and two parses need not agree)
    let with_recovery = !errs0.is_empty() || tree0.is_none();
    let pb = if with_recovery { RTParserBuilder::new(&grm, &stable).recoverer(RecoveryKind::CPCTPlus) } else { pb0 };
    let (tree, errs) = if with_recovery { let l = lexerdef.lexer(input); pb.parse_generictree(&l) } else { (tree0, errs0) };
    if with_recovery {
        if tree.is_none() { return Ok(false); }
        for e in &errs { match e { lrpar::LexParseError::ParseError(pe) if pe.repairs().len() == 1 => (), _ => return Ok(false) } }
    }
    let mut expect = Vec::new();
    postfix(tree.as_ref().unwrap(), &mut expect);
    // one recording action per production
    let calls: RefCell<Vec<(u32, usize, (usize, usize))>> = RefCell::new(Vec::new());
    let f = |ridx: RIdx<u32>, _l: &dyn NonStreamingLexer<LT>, span: Span, args: std::vec::Drain<AStackType<lrlex::DefaultLexeme<u32>, ()>>, _p: ()| {
        calls.borrow_mut().push((u32::from(ridx), args.count(), (span.start(), span.end())));
    };
    let fr: &dyn Fn(RIdx<u32>, &dyn NonStreamingLexer<LT>, Span, std::vec::Drain<AStackType<lrlex::DefaultLexeme<u32>, ()>>, ()) = &f;
    let actions = vec![fr; usize::from(grm.prods_len())];
    let lexer2 = lexerdef.lexer(input);
    let (_v, errs2) = pb.parse_actions(&lexer2, &actions, ());
    if errs2.len() != errs.len() { return Err("parse_actions and parse_generictree report different numbers of errors".into()); }
    let got = calls.borrow().clone();
    if got.len() != expect.len() { return Err(format!("{} action calls for {} reductions", got.len(), expect.len())); }
    for (i, ((r, n, sp), (er, en, ed))) in got.iter().zip(expect.iter()).enumerate() {
        if r != er || n != en { return Err(format!("call {}: rule {} with {} args, tree has rule {} with {} children", i, r, n, er, en)); }
        match ed {
            Some((a, b)) => if sp != &(*a, *b) { return Err(format!("call {} (rule {}): span {}..{} but its lexemes span {}..{}", i, r, sp.0, sp.1, a, b)); },
            None => if sp.0 != sp.1 { return Err(format!("call {} (rule {}): derived no lexeme but got span {}..{}", i, r, sp.0, sp.1)); },
        }
    }
    Ok(true)
}

pub fn run(g: &str, input: &str) -> Outcome {
    crate::note_case("c08_span", json!({"grammar": g, "input": input}));
    let expected = "one action per reduction in postfix order, span = first lexeme start .. last lexeme end, zero-length if none".to_string();
    match catch_unwind(AssertUnwindSafe(|| check(g, input))) {
        Err(_) => Outcome { fails: true, observed: "panic".into(), expected },
        Ok(Ok(_)) => Outcome { fails: false, observed: "as expected".into(), expected },
        Ok(Err(e)) => Outcome { fails: true, observed: e, expected },
    }
}

fn inputs(maxlen: usize) -> Vec<String> {
    let toks = ["x", "y", "o"];
    let seps = ["", " ", "   "];
    let mut out = vec![String::new(), " ".to_string()];
    let mut frontier = vec![String::new()];
    for _ in 0..maxlen {
        let mut next = Vec::new();
        for p in &frontier {
            for t in toks { for s in seps { next.push(format!("{}{}{}", p, s, t)); } }
        }
        out.extend(next.iter().cloned());
        frontier = next;
    }
    out
}

/// the recorded finding (a production whose leading children derive nothing gets a span that starts where the
/// previous symbol ended): span start before the first lexeme, end as expected
fn is_leading_class(observed: &str) -> bool {
    let nums: Vec<usize> = observed.split(|c: char| !c.is_ascii_digit()).filter(|x| !x.is_empty()).filter_map(|x| x.parse().ok()).collect();
    // "call K (rule R): span A..B but its lexemes span C..D"
    observed.contains("but its lexemes span") && nums.len() >= 6 && nums[2] < nums[4] && nums[3] == nums[5]
}

pub fn search(tag: &str, tier: &str) -> Option<Value> {
    let maxlen = if tier == "thorough" { 5 } else { 4 };
    // the recorded finding has its own obligations: witnesses of that kind are only returned for them
    let want_leading = tag.contains("leading_empty");
    for g in GRMS {
        for i in inputs(maxlen) {
            let o = run(g, &i);
            if o.fails && is_leading_class(&o.observed) == want_leading {
                return Some(witness("c08_span", json!({"grammar": g, "input": i}), &o));
            }
        }
    }
    None
}
