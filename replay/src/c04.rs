//! C04 / C02 (pager): the state graph built by the real lrtable is closed under LR(1) closure
//! and transition, with subsumption: the invariant unit c04_pager proves, unrolled with the
//! textbook definitions of closure and goto.
use crate::grms;
use crate::{witness, Outcome};
use cfgrammar::yacc::{YaccGrammar, YaccKind, YaccOriginalActionKind};
use cfgrammar::{SIdx, Symbol, TIdx};
use lrtable::{from_yacc, Minimiser, StIdx};
use serde_json::{json, Value};
use std::panic::{catch_unwind, AssertUnwindSafe};

fn check(src: &str) -> Result<(), String> {
    let grm = match YaccGrammar::<u32>::new_with_storaget(YaccKind::Original(YaccOriginalActionKind::NoAction), src) {
        Ok(g) => g,
        Err(_) => return Ok(()),
    };
    let (sg, _st) = match from_yacc(&grm, Minimiser::Pager) { Ok(x) => x, Err(_) => return Ok(()) };
    let firsts = grm.firsts();
    let nt = usize::from(grm.tokens_len());
    let n = usize::from(sg.all_states_len());
    // FIRST(beta la): tokens that can start beta followed by a lookahead from `la`
    let first_of = |beta: &[Symbol<u32>], la: &vob::Vob| -> Vec<bool> {
        let mut out = vec![false; nt];
        let mut nullable = true;
        for sym in beta {
            match sym {
                Symbol::Token(t) => { out[usize::from(*t)] = true; nullable = false; break; }
                Symbol::Rule(r) => {
                    for t in 0..nt { if firsts.is_set(*r, TIdx(t as u32)) { out[t] = true; } }
                    if !firsts.is_epsilon_set(*r) { nullable = false; break; }
                }
            }
        }
        if nullable { for t in 0..nt { if la[t] { out[t] = true; } } }
        out
    };
    for s in 0..n {
        let stidx = StIdx(s as u32);
        let core = sg.core_state(stidx);
        let closed = sg.closed_state(stidx);
        for (k, la) in core.items.iter() {
            match closed.items.get(k) {
                None => return Err(format!("state {}: core item {:?} missing from the closed state", s, (usize::from(k.0), usize::from(k.1)))),
                Some(cla) => for t in 0..nt { if la[t] && !cla[t] { return Err(format!("state {}: closed state lost lookahead {} of core item {:?}", s, t, (usize::from(k.0), usize::from(k.1)))); } }
            }
        }
        for (&(pidx, dot), la) in closed.items.iter() {
            let prod = grm.prod(pidx);
            let d = usize::from(dot);
            if d >= prod.len() { continue; }
            let sym = prod[d];
            // closure
            if let Symbol::Rule(r) = sym {
                let f = first_of(&prod[d + 1..], la);
                for q in grm.rule_to_prods(r) {
                    match closed.items.get(&(*q, SIdx(0))) {
                        None => return Err(format!("state {}: closure item ({}, 0) missing", s, usize::from(*q))),
                        Some(qla) => for t in 0..nt { if f[t] && !qla[t] { return Err(format!("state {}: closure item ({}, 0) lacks lookahead {}", s, usize::from(*q), t)); } }
                    }
                }
            }
            // transition
            match sg.edge(stidx, sym) {
                None => return Err(format!("state {}: no edge on the symbol after the dot of item ({}, {})", s, usize::from(pidx), d)),
                Some(t) => {
                    if usize::from(t) >= n { return Err(format!("state {}: edge to a state that does not exist", s)); }
                    match sg.core_state(t).items.get(&(pidx, SIdx((d + 1) as u32))) {
                        None => return Err(format!("state {}: the edge on the symbol after the dot of item ({}, {}) leads to state {} whose core lacks the advanced item", s, usize::from(pidx), d, usize::from(t))),
                        Some(tla) => for tok in 0..nt { if la[tok] && !tla[tok] {
                            return Err(format!("state {}: item ({}, {}) has lookahead {} but the state {} reached over its edge does not carry it", s, usize::from(pidx), d, tok, usize::from(t)));
                        } }
                    }
                }
            }
        }
    }
    Ok(())
}

pub fn run(src: &str) -> Outcome {
    crate::note_case("c04_graph", json!({"grammar": src}));
    let expected = "every state is closed, and every edge leads to a state subsuming the transition".to_string();
    match catch_unwind(AssertUnwindSafe(|| check(src))) {
        Err(_) => Outcome { fails: true, observed: "panic".into(), expected },
        Ok(Ok(())) => Outcome { fails: false, observed: "closed".into(), expected },
        Ok(Err(e)) => Outcome { fails: true, observed: e, expected },
    }
}

pub fn search(_tag: &str, tier: &str) -> Option<Value> {
    for g in grms::FIXED {
        let o = run(g);
        if o.fails { return Some(witness("c04_graph", json!({"grammar": g}), &o)); }
    }
    // the construction iterates hash maps: repeat each grammar a few times
    let n = if tier == "thorough" { 30000 } else { 4000 };
    for seed in 1..=n {
        let g = grms::random_larger(seed);
        for _ in 0..3 {
            let o = run(&g);
            if o.fails { return Some(witness("c04_graph", json!({"grammar": g}), &o)); }
        }
    }
    None
}
