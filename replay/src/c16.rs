//! C16: table queries agree with each other and with the graph (brute-force reference
//! over the public API of the real lrtable).
use crate::grms;
use crate::{witness, Outcome};
use cfgrammar::yacc::{YaccGrammar, YaccKind, YaccOriginalActionKind};
use cfgrammar::{PIdx, RIdx, Symbol, TIdx};
use lrtable::{from_yacc, Action, Minimiser, StIdx};
use serde_json::{json, Value};
use std::collections::{BTreeMap, BTreeSet};
use std::panic::{catch_unwind, AssertUnwindSafe};

fn check(src: &str) -> Result<(), String> {
    let grm = match YaccGrammar::<u32>::new_with_storaget(YaccKind::Original(YaccOriginalActionKind::NoAction), src) {
        Ok(g) => g,
        Err(_) => return Ok(()), // not a grammar: nothing to check
    };
    let (sg, st) = match from_yacc(&grm, Minimiser::Pager) { Ok(x) => x, Err(_) => return Ok(()) };
    let nt = usize::from(grm.tokens_len());
    for s in 0..usize::from(sg.all_states_len()) {
        let stidx = StIdx(s as u32);
        let mut nonerr = BTreeSet::new();
        let mut shifts = BTreeSet::new();
        let mut keys: BTreeMap<(usize, usize), BTreeSet<usize>> = BTreeMap::new();
        let mut only_reduces = true;
        for t in 0..nt {
            let tidx = TIdx(t as u32);
            match st.action(stidx, tidx) {
                Action::Error => (),
                Action::Shift(tgt) => {
                    nonerr.insert(t); shifts.insert(t); only_reduces = false;
                    if sg.edge(stidx, Symbol::Token(tidx)) != Some(tgt) { return Err(format!("state {} token {}: shift target differs from the graph edge", s, t)); }
                }
                Action::Reduce(p) => {
                    nonerr.insert(t);
                    keys.entry((usize::from(grm.prod_to_rule(p)), grm.prod(p).len())).or_default().insert(usize::from(p));
                }
                Action::Accept => { nonerr.insert(t); only_reduces = false; }
            }
        }
        let listed: BTreeSet<usize> = st.state_actions(stidx).map(usize::from).collect();
        if listed != nonerr { return Err(format!("state {}: state_actions lists {:?} but the non-error actions are on {:?}", s, listed, nonerr)); }
        let listed_sh: BTreeSet<usize> = st.state_shifts(stidx).map(usize::from).collect();
        if listed_sh != shifts { return Err(format!("state {}: state_shifts lists {:?} but the shift actions are on {:?}", s, listed_sh, shifts)); }
        let core: Vec<PIdx<u32>> = st.core_reduces(stidx).collect();
        let mut seen = BTreeSet::new();
        for p in &core {
            let k = (usize::from(grm.prod_to_rule(*p)), grm.prod(*p).len());
            if !keys.get(&k).map(|ps| ps.contains(&usize::from(*p))).unwrap_or(false) { return Err(format!("state {}: core reduce {} is not one of the state's reductions", s, usize::from(*p))); }
            if !seen.insert(k) { return Err(format!("state {}: two core reduces for the same (rule, length) {:?}", s, k)); }
        }
        if seen.len() != keys.len() { return Err(format!("state {}: core reduces cover {} of {} (rule, length) pairs", s, seen.len(), keys.len())); }
        let flag = st.reduce_only_state(stidx);
        let expect = only_reduces && keys.len() == 1;
        if flag != expect { return Err(format!("state {}: reduce_only_state is {} but should be {}", s, flag, expect)); }
        for r in 0..usize::from(grm.rules_len()) {
            let ridx = RIdx(r as u32);
            if st.goto(stidx, ridx) != sg.edge(stidx, Symbol::Rule(ridx)) { return Err(format!("state {} rule {}: goto differs from the graph edge", s, r)); }
        }
    }
    // every state of the final graph is reachable from the start state
    let ns = usize::from(sg.all_states_len());
    let mut seen = vec![false; ns];
    let mut todo = vec![usize::from(sg.start_state())];
    seen[todo[0]] = true;
    while let Some(s) = todo.pop() {
        for (_, tgt) in sg.edges(StIdx(s as u32)).iter() {
            let t = usize::from(*tgt);
            if !seen[t] { seen[t] = true; todo.push(t); }
        }
    }
    if let Some(u) = seen.iter().position(|x| !*x) { return Err(format!("state {} of {} cannot be reached from the start state", u, ns)); }
    Ok(())
}

pub fn run(src: &str) -> Outcome {
    crate::note_case("c16_table", json!({"grammar": src}));
    let expected = "all table views agree with the action/goto cells and the graph".to_string();
    match catch_unwind(AssertUnwindSafe(|| check(src))) {
        Err(_) => Outcome { fails: true, observed: "panic".into(), expected },
        Ok(Ok(())) => Outcome { fails: false, observed: "agree".into(), expected },
        Ok(Err(e)) => Outcome { fails: true, observed: e, expected },
    }
}

pub fn search(_tag: &str, tier: &str) -> Option<Value> {
    for g in grms::FIXED {
        let o = run(g);
        if o.fails { return Some(witness("c16_table", json!({"grammar": g}), &o)); }
    }
    // operator grammars under precedence declarations (the same conflict in several states)
    for seed in 1..=(if tier == "thorough" { 4000 } else { 600 }) {
        let g = grms::ops(seed);
        let o = run(&g);
        if o.fails { return Some(witness("c16_table", json!({"grammar": g}), &o)); }
    }
    let n = if tier == "thorough" { 40000 } else { 20000 };   // (a table check takes well under a millisecond)
    for seed in 1..=n {
        let g = grms::random(seed);
        let o = run(&g);
        if o.fails { return Some(witness("c16_table", json!({"grammar": g}), &o)); }
    }
    // larger grammars (merging, re-pointed edges, states that become unreachable before the collection)
    for seed in 1..=(if tier == "thorough" { 40000 } else { 12000 }) {
        let g = grms::random_larger(seed);
        let o = run(&g);
        if o.fails { return Some(witness("c16_table", json!({"grammar": g}), &o)); }
    }
    None
}
