//! C03: the table holds, in every cell, the action Yacc prescribes (independent re-resolution over
//! the real state graph), the production precedences are those of the source (%prec token, else the
//! last token), and the reported conflict counts are the cells settled by the two default rules.
use crate::grms::Rng;
use crate::{witness, Outcome};
use cfgrammar::yacc::{AssocKind, Precedence, YaccGrammar, YaccKind, YaccOriginalActionKind};
use cfgrammar::{PIdx, Symbol, TIdx};
use lrtable::{from_yacc, Action, Minimiser, StIdx};
use serde_json::{json, Value};
use std::panic::{catch_unwind, AssertUnwindSafe};

/// a generated grammar: the text and, per production (in source order), its symbols' token names and %prec token
struct Gen { src: String, prods: Vec<(Vec<String>, Option<String>)> }

fn gen(seed: u64) -> Gen {
    let mut r = Rng(seed.wrapping_mul(0x9E3779B97F4A7C15) | 1);
    let toks = ["a", "b", "c", "d"];
    let kinds = ["%left", "%right", "%nonassoc"];
    let mut src = String::from("%start E\n");
    let mut pool: Vec<&str> = toks.to_vec();
    for _ in 0..r.below(4) {
        if pool.is_empty() { break; }
        src.push_str(kinds[r.below(3)]);
        for _ in 0..1 + r.below(2) { if pool.is_empty() { break; } let t = pool.remove(r.below(pool.len())); src.push_str(&format!(" '{}'", t)); }
        src.push('\n');
    }
    src.push_str("%%\n");
    let mut prods = Vec::new();
    let nrules = 1 + r.below(2);
    for ri in 0..nrules {
        let name = if ri == 0 { "E" } else { "F" };
        src.push_str(name); src.push_str(": ");
        let np = 2 + r.below(3);
        for p in 0..np {
            if p > 0 { src.push_str(" | "); }
            let mut tnames = Vec::new();
            let len = if p == np - 1 { 1 } else { 1 + r.below(4) };
            for k in 0..len {
                if p == np - 1 || (k % 2 == 1) { let t = toks[r.below(4)]; src.push_str(&format!("'{}' ", t)); tnames.push(t.to_string()); }
                else { src.push_str(if r.below(3) == 0 && nrules == 2 { "F " } else { "E " }); }
            }
            let prec = if r.below(4) == 0 { let t = toks[r.below(4)]; src.push_str(&format!("%prec '{}' ", t)); Some(t.to_string()) } else { None };
            prods.push((tnames, prec));
        }
        src.push_str(";\n");
    }
    Gen { src, prods }
}

fn check(g: &Gen) -> Result<(), String> {
    let grm = match YaccGrammar::<u32>::new_with_storaget(YaccKind::Original(YaccOriginalActionKind::NoAction), &g.src) { Ok(x) => x, Err(_) => return Ok(()) };
    let (sg, st) = match from_yacc(&grm, Minimiser::Pager) { Ok(x) => x, Err(_) => return Ok(()) };
    let nt = usize::from(grm.tokens_len());
    // 1. production precedence: %prec token, else the last token of the production
    // (user productions come first, in source order; the start production the grammar adds is last)
    for (k, (tnames, prec)) in g.prods.iter().enumerate() {
        let pidx = PIdx(k as u32);
        let exp = match prec {
            Some(t) => grm.token_idx(t).and_then(|t| grm.token_precedence(t)),
            None => tnames.last().and_then(|t| grm.token_idx(t)).and_then(|t| grm.token_precedence(t)),
        };
        if prec.is_some() && exp.is_none() { return Ok(()); } // %prec on a token without precedence: rejected or undefined here
        if grm.prod_precedence(pidx) != exp { return Err(format!("production {} ({}) has precedence {:?}, the source says {:?}", k, grm.pp_prod(pidx), grm.prod_precedence(pidx), exp)); }
    }
    // 2. every cell holds what Yacc prescribes, and the conflict counts are the defaulted cells
    let (mut sr, mut rr) = (0usize, 0usize);
    for s in 0..usize::from(sg.all_states_len()) {
        let stidx = StIdx(s as u32);
        let closed = sg.closed_state(stidx);
        for t in 0..nt {
            let tidx = TIdx(t as u32);
            let mut shift = false;
            let mut reduces: Vec<usize> = Vec::new();
            let mut accept = false;
            for (&(pidx, dot), la) in closed.items.iter() {
                let prod = grm.prod(pidx);
                let d = usize::from(dot);
                if d < prod.len() { if prod[d] == Symbol::Token(tidx) { shift = true; } }
                else if la[t] { if pidx == grm.start_prod() { accept = true; } else { reduces.push(usize::from(pidx)); } }
            }
            reduces.sort(); reduces.dedup();
            if accept { continue; } // accept cells are not subject to the rules checked here
            let got = st.action(stidx, tidx);
            // between reductions: the production declared earlier
            let red = reduces.first().cloned();
            if reduces.len() > 1 { rr += reduces.len() - 1; }
            let exp: Action<u32> = match (shift, red) {
                (false, None) => Action::Error,
                (true, None) => Action::Shift(sg.edge(stidx, Symbol::Token(tidx)).ok_or("missing edge")?),
                (false, Some(p)) => Action::Reduce(PIdx(p as u32)),
                (true, Some(p)) => {
                    let sh = Action::Shift(sg.edge(stidx, Symbol::Token(tidx)).ok_or("missing edge")?);
                    match (grm.token_precedence(tidx), grm.prod_precedence(PIdx(p as u32))) {
                        (Some(Precedence { level: tl, kind: tk }), Some(Precedence { level: pl, kind: _ })) => {
                            if tl > pl { sh } else if tl < pl { Action::Reduce(PIdx(p as u32)) } else {
                                match tk { AssocKind::Left => Action::Reduce(PIdx(p as u32)), AssocKind::Right => sh, AssocKind::Nonassoc => Action::Error }
                            }
                        }
                        _ => { sr += 1; sh }
                    }
                }
            };
            if got != exp { return Err(format!("state {} token {:?}: the table holds {:?}, Yacc's rules give {:?}", s, grm.token_name(tidx), got, exp)); }
        }
    }
    let (gsr, grr) = st.conflicts().map(|c| (c.sr_len(), c.rr_len())).unwrap_or((0, 0));
    if gsr != sr { return Err(format!("{} shift/reduce conflicts reported, {} cells were settled by the default rule", gsr, sr)); }
    if grr != rr { return Err(format!("{} reduce/reduce conflicts reported, {} were settled by the default rule", grr, rr)); }
    Ok(())
}

pub fn run_seed(seed: u64) -> Outcome {
    let expected = "every cell holds the action Yacc prescribes; production precedences and conflict counts as documented".to_string();
    let g = gen(seed);
    match catch_unwind(AssertUnwindSafe(|| check(&g))) {
        Err(_) => Outcome { fails: true, observed: format!("panic on {:?}", g.src), expected },
        Ok(Ok(())) => Outcome { fails: false, observed: "ok".into(), expected },
        Ok(Err(e)) => Outcome { fails: true, observed: format!("{} [grammar {:?}]", e, g.src), expected },
    }
}

pub fn search(_tag: &str, tier: &str) -> Option<Value> {
    let n = if tier == "thorough" { 30000 } else { 4000 };
    for seed in 1..=n {
        let o = run_seed(seed);
        if o.fails { return Some(witness("c03_cells", json!({"seed": seed}), &o)); }
    }
    None
}
