//! C20: grammars whose sizes sit at the edge of the index storage type.
use crate::{witness, Outcome};
use cfgrammar::yacc::{YaccGrammar, YaccKind, YaccOriginalActionKind};
use serde_json::{json, Value};
use std::panic::{catch_unwind, AssertUnwindSafe};

/// `nr` user rules, `nt` distinct tokens, `np` productions in total (np >= nr)
pub fn grammar_text(nr: usize, nt: usize, np: usize) -> String {
    let mut s = String::from("%start R0\n%%\n");
    let mut extra = np - nr;
    for r in 0..nr {
        s.push_str(&format!("R{}: 't{}'", r, r % nt.max(1)));
        if r == 0 {
            // make sure every token is used, and spend surplus productions here
            for t in 0..nt { s.push_str(&format!(" | 't{}' 't{}'", t, t)); if extra > 0 { extra -= 1; } else if t + 1 < nt { /* still need the token */ } }
        }
        if r + 1 < nr { s.push_str(&format!(" | R{}", r + 1)); }
        s.push_str(";\n");
    }
    s
}

fn simple(nr: usize) -> String {
    // nr rules, 1 token, nr*2-1 productions
    let mut s = String::from("%start R0\n%%\n");
    for r in 0..nr {
        s.push_str(&format!("R{}: 't'", r));
        if r + 1 < nr { s.push_str(&format!(" | R{}", r + 1)); }
        s.push_str(";\n");
    }
    s
}
fn one_prod_rules(nr: usize) -> String {
    // nr rules with one production each, chained so that all are reachable
    let mut s = String::from("%start R0\n%%\n");
    for r in 0..nr {
        if r + 1 < nr { s.push_str(&format!("R{}: R{};\n", r, r + 1)); } else { s.push_str(&format!("R{}: 't';\n", r)); }
    }
    s
}
fn tokens_one_prod(nt: usize) -> String {
    // nt tokens in a few productions (so that the production count stays small)
    let mut s = String::from("%start R\n%%\nR: ");
    for t in 0..nt { if t > 0 && t % 200 == 0 { s.push_str(" | "); } s.push_str(&format!("'t{}' ", t)); }
    s.push_str(";\n");
    s
}
fn eco(np: usize) -> String {
    // Eco grammar with one implicit token and np user productions
    let mut s = String::from("%start R\n%implicit_tokens ws\n%%\nR: ");
    for p in 0..np { if p > 0 { s.push_str(" | "); } s.push_str(&format!("'a' {}", "'b' ".repeat(p % 7))); if p >= 7 { s.push_str(&format!("'c{}'", p % 5)); for _ in 0..(p / 35) { s.push_str(" 'd'"); } } }
    s.push_str(";\n");
    s
}
fn eco_long(n: usize) -> String {
    // Eco grammar with implicit tokens and one production of n tokens (which the constructor stores as 2n symbols: the
    // implicit rule follows every token)
    format!("%start R\n%implicit_tokens ws\n%%\nR: {};\n", "'a' ".repeat(n))
}
fn many_tokens(nt: usize) -> String {
    let mut s = String::from("%start R\n%%\nR: ");
    for t in 0..nt { if t > 0 { s.push_str(" | "); } s.push_str(&format!("'t{}'", t)); }
    s.push_str(";\n");
    s
}

pub fn run_u8(kind: &str, n: usize) -> Outcome {
    let src = match kind { "prods" => simple(n), "rules" => one_prod_rules(n), "tokens1" => tokens_one_prod(n), "eco" => eco(n), "eco_symbols" => eco_long(n), _ => many_tokens(n) };
    let yk = if kind == "eco" || kind == "eco_symbols" { YaccKind::Eco } else { YaccKind::Original(YaccOriginalActionKind::NoAction) };
    // reference sizes from the u32 build
    let g32 = YaccGrammar::<u32>::new_with_storaget(yk, &src).expect("u32 grammar");
    // (the last component: the reported length of every production, summed)
    let lens32: usize = (0..usize::from(g32.prods_len())).map(|p| usize::from(g32.prod_len(cfgrammar::PIdx(p as u32)))).sum();
    let exp = (usize::from(g32.rules_len()), usize::from(g32.tokens_len()), usize::from(g32.prods_len()), lens32);
    let r = catch_unwind(AssertUnwindSafe(|| {
        let g = YaccGrammar::<u8>::new_with_storaget(yk, &src).expect("u8 grammar");
        let lens: usize = (0..usize::from(g.prods_len())).map(|p| usize::from(g.prod_len(cfgrammar::PIdx(p as u8)))).sum();
        (usize::from(g.rules_len()), usize::from(g.tokens_len()), usize::from(g.prods_len()), usize::from(g.eof_token_idx()), lens)
    }));
    let expected = format!("sizes {:?} (as with u32) or the documented 'not big enough' refusal", exp);
    match r {
        Err(e) => {
            let msg = e.downcast_ref::<String>().cloned().or_else(|| e.downcast_ref::<&str>().map(|s| s.to_string())).unwrap_or_default();
            let documented = msg.contains("StorageT is not big enough");
            Outcome { fails: !documented, observed: format!("panic: {}", msg), expected }
        }
        Ok((a, b, c, eof, l)) => Outcome { fails: (a, b, c, l) != exp || eof + 1 != exp.1, observed: format!("sizes ({},{},{}), eof idx {}, production lengths add up to {}", a, b, c, eof, l), expected },
    }
}

/// state-count boundary: `S: 't0' | ... | 't{n-1}'` has n + 2 states (start, accept-side state, one per token)
pub fn run_u8_table(kind: &str, n: usize) -> Outcome {
    use lrtable::{from_yacc, Minimiser};
    let src = match kind { "states_chain" => one_prod_rules(n), _ => many_tokens(n) };
    let yk = YaccKind::Original(YaccOriginalActionKind::NoAction);
    let g32 = YaccGrammar::<u32>::new_with_storaget(yk, &src).expect("u32 grammar");
    let (sg32, st32) = from_yacc(&g32, Minimiser::Pager).expect("u32 table");
    let ns = usize::from(sg32.all_states_len());
    let expected = format!("{} states and the same cells as with u32, or the documented 'not big enough' refusal", ns);
    let r = catch_unwind(AssertUnwindSafe(|| {
        let g = YaccGrammar::<u8>::new_with_storaget(yk, &src).expect("u8 grammar");
        let (sg, st) = from_yacc(&g, Minimiser::Pager).expect("u8 table");
        // state numbers depend on hash-map iteration order (C15 territory): rows are compared with the
        // state targets erased, as multisets
        let mut same = usize::from(sg.all_states_len()) == ns;
        if same {
            let erase = |a: String| if a.starts_with("Shift") { "Shift".to_string() } else { a };
            let mut rows8: Vec<Vec<String>> = Vec::new();
            let mut rows32: Vec<Vec<String>> = Vec::new();
            for s in 0..ns {
                let mut r8 = Vec::new();
                let mut r32 = Vec::new();
                for t in 0..usize::from(g.tokens_len()) {
                    r8.push(erase(format!("{:?}", st.action(lrtable::StIdx(s as u8), cfgrammar::TIdx(t as u8)))));
                    r32.push(erase(format!("{:?}", st32.action(lrtable::StIdx(s as u32), cfgrammar::TIdx(t as u32)))));
                }
                for r in 0..usize::from(g.rules_len()) {
                    r8.push(format!("{}", st.goto(lrtable::StIdx(s as u8), cfgrammar::RIdx(r as u8)).is_some()));
                    r32.push(format!("{}", st32.goto(lrtable::StIdx(s as u32), cfgrammar::RIdx(r as u32)).is_some()));
                }
                rows8.push(r8);
                rows32.push(r32);
            }
            rows8.sort();
            rows32.sort();
            same = rows8 == rows32;
        }
        (usize::from(sg.all_states_len()), same)
    }));
    match r {
        Err(e) => {
            let msg = e.downcast_ref::<String>().cloned().or_else(|| e.downcast_ref::<&str>().map(|s| s.to_string())).unwrap_or_default();
            let documented = msg.contains("StorageT is not big enough");
            Outcome { fails: !documented, observed: format!("panic: {}", msg), expected }
        }
        Ok((n8, same)) => Outcome { fails: n8 != ns || !same, observed: format!("{} states, cells {}", n8, if same { "agree" } else { "differ" }), expected },
    }
}

/// "the same numbering, table contents ... in all widths that accept it", read literally: the printed core states (state
/// numbers included) of the u8, u16 and u32 builds are the same text.
pub fn run_numbering(src: &str) -> Outcome {
    use lrtable::{from_yacc, Minimiser};
    let yk = YaccKind::Original(YaccOriginalActionKind::NoAction);
    let expected = "the same state numbering (printed core states) with u8, u16 and u32 storage".to_string();
    let r = catch_unwind(AssertUnwindSafe(|| {
        let g8 = YaccGrammar::<u8>::new_with_storaget(yk, src).ok()?;
        let g16 = YaccGrammar::<u16>::new_with_storaget(yk, src).ok()?;
        let g32 = YaccGrammar::<u32>::new_with_storaget(yk, src).ok()?;
        let (s8, _) = from_yacc(&g8, Minimiser::Pager).ok()?;
        let (s16, _) = from_yacc(&g16, Minimiser::Pager).ok()?;
        let (s32, _) = from_yacc(&g32, Minimiser::Pager).ok()?;
        Some((s8.pp_core_states(&g8), s16.pp_core_states(&g16), s32.pp_core_states(&g32), usize::from(s32.all_states_len())))
    }));
    match r {
        Ok(Some((a, b, c, n))) => {
            if a == b && b == c { Outcome { fails: false, observed: format!("{} states, numbered alike", n), expected } }
            else { Outcome { fails: true, observed: format!("{} states in every width, but numbered differently (u8 vs u16: {}, u16 vs u32: {})", n, if a == b { "same" } else { "different" }, if b == c { "same" } else { "different" }), expected } }
        }
        _ => Outcome { fails: false, observed: "not built in every width".into(), expected },
    }
}

pub fn search(tag: &str, _tier: &str) -> Option<Value> {
    if tag.contains("numbering") {
        for g in crate::grms::FIXED {
            let o = run_numbering(g);
            if o.fails { return Some(witness("c20_numbering", json!({"grammar": g}), &o)); }
        }
        for seed in 1..=400u64 {
            let g = crate::grms::random_larger(seed);
            let o = run_numbering(&g);
            if o.fails { return Some(witness("c20_numbering", json!({"grammar": g}), &o)); }
        }
        return None;
    }
    if tag.contains("state") || tag.contains("table") {
        for kind in ["states", "states_chain"] {
            for n in 200..=256usize {
                let o = run_u8_table(kind, n);
                if o.fails { return Some(witness("c20_u8_table", json!({"kind": kind, "n": n, "storage": "u8"}), &o)); }
            }
        }
        return None;
    }
    let order: [&str; 5] = if tag.contains("token") { ["tokens1", "tokens", "rules", "prods", "eco"] } else if tag.contains("production") || tag.contains("prods") { ["prods", "eco", "rules", "tokens", "tokens1"] } else { ["rules", "prods", "tokens", "tokens1", "eco"] };
    for kind in order.iter().copied().chain(["eco_symbols"]) {
        for n in 120..=258usize {
            let o = run_u8(kind, n);
            if o.fails {
                return Some(witness("c20_u8", json!({"kind": kind, "n": n, "storage": "u8"}), &o));
            }
        }
    }
    None
}
