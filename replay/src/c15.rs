//! C15: building from the same source twice gives the same numbering.
use crate::{witness, Outcome};
use cfgrammar::yacc::{YaccGrammar, YaccKind};
use cfgrammar::PIdx;
use serde_json::{json, Value};

fn signature(g: &YaccGrammar<u32>) -> Vec<String> {
    let mut v: Vec<String> = Vec::new();
    for t in g.iter_tidxs() {
        v.push(format!("token {} = {:?} prec {:?} epp {:?} avoid {}", usize::from(t), g.token_name(t), g.token_precedence(t), g.token_epp(t), g.avoid_insert(t)));
    }
    for r in g.iter_rules() { v.push(format!("rule {} = {} prods {:?}", usize::from(r), g.rule_name_str(r), g.rule_to_prods(r).iter().map(|p| usize::from(*p)).collect::<Vec<_>>())); }
    for p in 0..usize::from(g.prods_len()) { v.push(format!("prod {} = {} prec {:?}", p, g.pp_prod(PIdx(p as u32)), g.prod_precedence(PIdx(p as u32)))); }
    v.push(format!("implicit rule {:?}", g.implicit_rule().map(usize::from)));
    v
}

pub fn run_kind(kind: YaccKind, src: &str, times: usize) -> Outcome {
    let expected = "identical numbering of tokens, rules and productions on every build".to_string();
    let first = match YaccGrammar::<u32>::new_with_storaget(kind.clone(), src) { Ok(g) => signature(&g), Err(_) => return Outcome { fails: false, observed: "not a grammar".into(), expected } };
    for k in 1..times {
        let g = YaccGrammar::<u32>::new_with_storaget(kind.clone(), src).unwrap();
        let s = signature(&g);
        if s != first {
            let d = (0..s.len().min(first.len())).find(|&i| s[i] != first[i]).unwrap_or(0);
            return Outcome { fails: true, observed: format!("build {}: `{}`, in the first build `{}`", k, s.get(d).cloned().unwrap_or_default(), first.get(d).cloned().unwrap_or_default()), expected };
        }
    }
    Outcome { fails: false, observed: format!("{} identical builds", times), expected }
}

pub fn run(src: &str, times: usize) -> Outcome {
    let o = run_kind(YaccKind::Eco, src, times);
    if o.fails { return o; }
    run_kind(YaccKind::Original(cfgrammar::yacc::YaccOriginalActionKind::NoAction), src, times)
}

/// a grammar with a random selection of declarations (used and unused tokens in each of them)
fn random_decls(seed: u64) -> String {
    let mut r = crate::grms::Rng(seed.wrapping_mul(0x9E3779B97F4A7C15) | 1);
    let names = ["'a'", "'b'", "'c'", "'d'", "'e'", "'f'", "'g'", "'h'"];
    let plain = ["a", "b", "c", "d", "e", "f", "g", "h"];
    let mut s = String::from("%start S\n");
    if r.below(2) == 0 { s.push_str("%token"); for _ in 0..1 + r.below(3) { s.push(' '); s.push_str(names[r.below(8)]); } s.push('\n'); }
    let kinds = ["%left", "%right", "%nonassoc"];
    for _ in 0..r.below(4) { s.push_str(kinds[r.below(3)]); for _ in 0..1 + r.below(3) { s.push(' '); s.push_str(names[r.below(8)]); } s.push('\n'); }
    if r.below(3) == 0 { s.push_str("%avoid_insert"); for _ in 0..1 + r.below(3) { s.push(' '); s.push_str(names[r.below(8)]); } s.push('\n'); }
    if r.below(3) == 0 { s.push_str("%implicit_tokens"); for _ in 0..1 + r.below(3) { s.push_str(" i"); s.push_str(plain[r.below(8)]); } s.push('\n'); }
    if r.below(3) == 0 { s.push_str(&format!("%epp {} \"x\"\n", plain[r.below(4)])); }
    s.push_str("%%\nS: ");
    for p in 0..1 + r.below(3) { if p > 0 { s.push_str(" | "); } for _ in 0..r.below(4) { if r.below(4) == 0 { s.push_str("S "); } else { s.push_str(names[r.below(4)]); s.push(' '); } } }
    s.push_str(";\n");
    s
}


// ---------------------------------------------------------------- tables: the same grammar gives the same automaton and table every time
fn table_signature(src: &str) -> Option<Vec<String>> {
    use cfgrammar::yacc::YaccOriginalActionKind;
    use lrtable::{from_yacc, Minimiser, StIdx};
    let grm = YaccGrammar::<u32>::new_with_storaget(YaccKind::Original(YaccOriginalActionKind::NoAction), src).ok()?;
    let (sg, st) = from_yacc(&grm, Minimiser::Pager).ok()?;
    let mut v = Vec::new();
    for s in 0..usize::from(sg.all_states_len()) {
        let stidx = StIdx(s as u32);
        let mut row = String::new();
        for t in grm.iter_tidxs() { row.push_str(&format!("{:?};", st.action(stidx, t))); }
        for r in grm.iter_rules() { row.push_str(&format!("{:?};", st.goto(stidx, r))); }
        v.push(row);
    }
    Some(v)
}

pub fn run_tables(src: &str, times: usize) -> Outcome {
    let expected = "the same state numbering, actions and gotos on every build".to_string();
    let first = match table_signature(src) { Some(x) => x, None => return Outcome { fails: false, observed: "no table".into(), expected } };
    for k in 1..times {
        if let Some(s) = table_signature(src) {
            if s != first { return Outcome { fails: true, observed: format!("build {} differs from the first build ({} vs {} states)", k, s.len(), first.len()), expected }; }
        }
    }
    Outcome { fails: false, observed: format!("{} identical builds", times), expected }
}

/// non-LALR(1) grammars with recursion through several contexts: several states are re-queued at once when lookaheads are merged
fn nested_family(seed: u64) -> String {
    let mut r = crate::grms::Rng(seed.wrapping_mul(0xD6E8FEB86659FD93) | 1);
    let t = ["'a'", "'b'", "'c'", "'d'"];
    let nrules = 4 + r.below(2);
    let mut s = String::from("%start R0\n%%\n");
    for i in 0..nrules {
        s.push_str(&format!("R{}: ", i));
        let np = 2 + r.below(3);
        for p in 0..np {
            if p > 0 { s.push_str(" | "); }
            let len = if p == np - 1 && r.below(2) == 0 { 0 } else { 1 + r.below(4) };
            for _ in 0..len { if r.below(2) == 0 { s.push_str(t[r.below(4)]); } else { s.push_str(&format!("R{}", r.below(nrules))); } s.push(' '); }
        }
        s.push_str(";\n");
    }
    s
}

/// grammars for which the pager leaves unreachable states behind, so that its garbage collection renumbers states
const GC_GRMS: &[&str] = &[
    "%start S\n%%\nS: 'a' 'a' A | A 'b' | ;\nA: 'a' S 'a' | 'a' 'b';",
    "%start S\n%%\nS: A 'a' | B 'a' 'b' | 'c' B;\nA: 'c' S 'd' | A | A;\nB: A | 'd' 'b' B;",
    "%start S\n%%\nS: 'a' B A | 'a' 'b' 'b' | B S;\nA: ;\nB: 'a' S 'd' | | A;",
];

pub fn search_tables(tier: &str) -> Option<Value> {
    for g in GC_GRMS {
        let o = run_tables(g, 40);
        if o.fails { return Some(witness("c15_tables", json!({"grammar": g}), &o)); }
    }
    let n = if tier == "thorough" { 20000 } else { 1500 };
    for seed in 1..=n {
        for g in [crate::grms::random_larger(seed), crate::c02::crossed_family(seed), nested_family(seed)] {
            let o = run_tables(&g, 6);
            if std::env::var_os("REPLAY_STATS").is_some() && o.observed == "no table" { eprintln!("no table: {:?}", g); }
            if o.fails { return Some(witness("c15_tables", json!({"grammar": g}), &o)); }
        }
    }
    None
}

// ---------------------------------------------------------------- generated code: byte-identical for identical settings
pub fn run_codegen(src: &str, times: usize) -> Outcome {
    use lrlex::DefaultLexerTypes;
    use lrpar::CTParserBuilder;
    let expected = "byte-identical generated parser modules for identical sources and settings".to_string();
    static N: std::sync::atomic::AtomicUsize = std::sync::atomic::AtomicUsize::new(0);
    let dir = std::env::temp_dir().join(format!("verif_c15_{}_{}", std::process::id(), N.fetch_add(1, std::sync::atomic::Ordering::SeqCst)));
    let _ = std::fs::create_dir_all(&dir);
    let gp = dir.join("grm.y");
    std::fs::write(&gp, src).unwrap();
    let mut first: Option<Vec<u8>> = None;
    let mut res = Outcome { fails: false, observed: format!("{} identical generations", times), expected: expected.clone() };
    for k in 0..times {
        let out = dir.join(format!("out{}.rs", k));
        let r = std::panic::catch_unwind(std::panic::AssertUnwindSafe(|| {
            CTParserBuilder::<DefaultLexerTypes<u32>>::new()
                .yacckind(YaccKind::Original(cfgrammar::yacc::YaccOriginalActionKind::GenericParseTree))
                .mod_name("g_y")
                .grammar_path(gp.to_str().unwrap())
                .output_path(&out)
                .build()
                .is_ok()
        }));
        if !matches!(r, Ok(true)) { res.observed = "not generated".into(); break; }
        let bytes = std::fs::read(&out).unwrap_or_default();
        match &first {
            None => first = Some(bytes),
            Some(f) => if *f != bytes { res = Outcome { fails: true, observed: format!("generation {} differs from the first one ({} vs {} bytes)", k, bytes.len(), f.len()), expected: expected.clone() }; break; }
        }
    }
    let _ = std::fs::remove_dir_all(&dir);
    res
}

pub fn search_codegen(tier: &str) -> Option<Value> {
    // grammars whose conflicts are accepted by %expect: the conflict lists are part of the serialised table
    for g in ["%start E\n%expect 4\n%%\nE: E '+' E | E '*' E | 'a';", "%start E\n%expect 9\n%%\nE: E '+' E | E '*' E | E '-' E | 'a';", "%start S\n%expect 1\n%expect-rr 1\n%%\nS: A 'x' | B 'x' | 'i' S | 'i' S 'e' S;\nA: 'a';\nB: 'a';"] {
        let o = run_codegen(g, 12);
        if o.fails { return Some(witness("c15_codegen", json!({"grammar": g}), &o)); }
    }
    let n = if tier == "thorough" { 40 } else { 6 };
    for seed in 1..=n {
        let mut g = String::from("%start S\n%%\nS: ");
        let k = 3 + (seed as usize % 9);
        for i in 0..k { if i > 0 { g.push_str(" | "); } g.push_str(&format!("'t{}' 'u{}'", i, (i * 7 + seed as usize) % 11)); }
        g.push_str(";\n");
        let o = run_codegen(&g, 8);
        if o.fails { return Some(witness("c15_codegen", json!({"grammar": g}), &o)); }
    }
    None
}

pub fn search(tag: &str, tier: &str) -> Option<Value> {
    if tag.contains("cache_lists") { return search_codegen(tier); }
    if tag.contains(".pager.") { return search_tables(tier); }
    for g in ["%start S\n%implicit_tokens ws nl tab cr\n%%\nS: 'x' 'y';", "%start S\n%implicit_tokens a b\n%%\nS: 'x';"] {
        let o = run(g, 200);
        if o.fails { return Some(witness("c15_numbering", json!({"grammar": g}), &o)); }
    }
    let n = if tier == "thorough" { 6000 } else { 600 };
    for seed in 1..=n {
        let g = random_decls(seed);
        let o = run(&g, 24);
        if o.fails { return Some(witness("c15_numbering", json!({"grammar": g}), &o)); }
    }
    None
}
