//! C15: building from the same source twice gives the same numbering.
use crate::{witness, Outcome};
use cfgrammar::yacc::{YaccGrammar, YaccKind};
use cfgrammar::PIdx;
use serde_json::{json, Value};

pub fn run(src: &str, times: usize) -> Outcome {
    let expected = "identical production numbering on every build".to_string();
    let sig = |g: &YaccGrammar<u32>| -> Vec<String> {
        (0..usize::from(g.prods_len())).map(|p| g.pp_prod(PIdx(p as u32))).collect()
    };
    let first = match YaccGrammar::<u32>::new_with_storaget(YaccKind::Eco, src) { Ok(g) => sig(&g), Err(_) => return Outcome { fails: false, observed: "not a grammar".into(), expected } };
    for k in 1..times {
        let g = YaccGrammar::<u32>::new_with_storaget(YaccKind::Eco, src).unwrap();
        let s = sig(&g);
        if s != first {
            let d = (0..s.len()).find(|&i| s[i] != first[i]).unwrap();
            return Outcome { fails: true, observed: format!("build {}: production {} is `{}`, in the first build it was `{}`", k, d, s[d], first[d]), expected };
        }
    }
    Outcome { fails: false, observed: format!("{} identical builds", times), expected }
}

pub fn search(_tag: &str, _tier: &str) -> Option<Value> {
    for g in ["%start S\n%implicit_tokens ws nl tab cr\n%%\nS: 'x' 'y';", "%start S\n%implicit_tokens a b\n%%\nS: 'x';"] {
        let o = run(g, 200);
        if o.fails { return Some(witness("c15_numbering", json!({"grammar": g}), &o)); }
    }
    None
}
