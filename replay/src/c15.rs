//! C15: building from the same source twice gives the same numbering.
use crate::{witness, Outcome};
use cfgrammar::yacc::{YaccGrammar, YaccKind};
use cfgrammar::PIdx;
use serde_json::{json, Value};

fn signature(g: &YaccGrammar<u32>) -> Vec<String> {
    let mut v: Vec<String> = Vec::new();
    for t in g.iter_tidxs() {
        v.push(format!("token {} = {:?} prec {:?} epp {:?} avoid {}", usize::from(t), g.token_name(t), g.token_precedence(t), g.token_epp(t), g.avoid_insert(t)));
    }
    for r in g.iter_rules() { v.push(format!("rule {} = {} prods {:?}", usize::from(r), g.rule_name_str(r), g.rule_to_prods(r).iter().map(|p| usize::from(*p)).collect::<Vec<_>>())); }
    for p in 0..usize::from(g.prods_len()) { v.push(format!("prod {} = {} prec {:?}", p, g.pp_prod(PIdx(p as u32)), g.prod_precedence(PIdx(p as u32)))); }
    v.push(format!("implicit rule {:?}", g.implicit_rule().map(usize::from)));
    v
}

pub fn run_kind(kind: YaccKind, src: &str, times: usize) -> Outcome {
    let expected = "identical numbering of tokens, rules and productions on every build".to_string();
    let first = match YaccGrammar::<u32>::new_with_storaget(kind.clone(), src) { Ok(g) => signature(&g), Err(_) => return Outcome { fails: false, observed: "not a grammar".into(), expected } };
    for k in 1..times {
        let g = YaccGrammar::<u32>::new_with_storaget(kind.clone(), src).unwrap();
        let s = signature(&g);
        if s != first {
            let d = (0..s.len().min(first.len())).find(|&i| s[i] != first[i]).unwrap_or(0);
            return Outcome { fails: true, observed: format!("build {}: `{}`, in the first build `{}`", k, s.get(d).cloned().unwrap_or_default(), first.get(d).cloned().unwrap_or_default()), expected };
        }
    }
    Outcome { fails: false, observed: format!("{} identical builds", times), expected }
}

pub fn run(src: &str, times: usize) -> Outcome {
    let o = run_kind(YaccKind::Eco, src, times);
    if o.fails { return o; }
    run_kind(YaccKind::Original(cfgrammar::yacc::YaccOriginalActionKind::NoAction), src, times)
}

/// a grammar with a random selection of declarations (used and unused tokens in each of them)
fn random_decls(seed: u64) -> String {
    let mut r = crate::grms::Rng(seed.wrapping_mul(0x9E3779B97F4A7C15) | 1);
    let names = ["'a'", "'b'", "'c'", "'d'", "'e'", "'f'", "'g'", "'h'"];
    let plain = ["a", "b", "c", "d", "e", "f", "g", "h"];
    let mut s = String::from("%start S\n");
    if r.below(2) == 0 { s.push_str("%token"); for _ in 0..1 + r.below(3) { s.push(' '); s.push_str(names[r.below(8)]); } s.push('\n'); }
    let kinds = ["%left", "%right", "%nonassoc"];
    for _ in 0..r.below(4) { s.push_str(kinds[r.below(3)]); for _ in 0..1 + r.below(3) { s.push(' '); s.push_str(names[r.below(8)]); } s.push('\n'); }
    if r.below(3) == 0 { s.push_str("%avoid_insert"); for _ in 0..1 + r.below(3) { s.push(' '); s.push_str(names[r.below(8)]); } s.push('\n'); }
    if r.below(3) == 0 { s.push_str("%implicit_tokens"); for _ in 0..1 + r.below(3) { s.push_str(" i"); s.push_str(plain[r.below(8)]); } s.push('\n'); }
    if r.below(3) == 0 { s.push_str(&format!("%epp {} \"x\"\n", plain[r.below(4)])); }
    s.push_str("%%\nS: ");
    for p in 0..1 + r.below(3) { if p > 0 { s.push_str(" | "); } for _ in 0..r.below(4) { if r.below(4) == 0 { s.push_str("S "); } else { s.push_str(names[r.below(4)]); s.push(' '); } } }
    s.push_str(";\n");
    s
}

pub fn search(_tag: &str, tier: &str) -> Option<Value> {
    for g in ["%start S\n%implicit_tokens ws nl tab cr\n%%\nS: 'x' 'y';", "%start S\n%implicit_tokens a b\n%%\nS: 'x';"] {
        let o = run(g, 200);
        if o.fails { return Some(witness("c15_numbering", json!({"grammar": g}), &o)); }
    }
    let n = if tier == "thorough" { 6000 } else { 600 };
    for seed in 1..=n {
        let g = random_decls(seed);
        let o = run(&g, 24);
        if o.fails { return Some(witness("c15_numbering", json!({"grammar": g}), &o)); }
    }
    None
}
