//! C09: syncing token ids with a parser reports exactly the names missing on either side, named rules get the
//! parser's id, unnamed rules are left alone.
use crate::grms::Rng;
use crate::{witness, Outcome};
use lrlex::{DefaultLexerTypes, LRNonStreamingLexerDef, LexerDef};
use serde_json::{json, Value};
use std::collections::{HashMap, HashSet};
use std::panic::{catch_unwind, AssertUnwindSafe};

type LT = DefaultLexerTypes<u32>;

fn check(spec: &str, map: &[(String, u32)]) -> Result<(), String> {
    let mut def = match LRNonStreamingLexerDef::<LT>::from_str(spec) { Ok(d) => d, Err(_) => return Ok(()) };
    let names: Vec<Option<String>> = def.iter_rules().map(|r| r.name().map(|s| s.to_string())).collect();
    let before: Vec<Option<u32>> = def.iter_rules().map(|r| r.tok_id()).collect();
    let m: HashMap<&str, u32> = map.iter().map(|(k, v)| (k.as_str(), *v)).collect();
    let defined: HashSet<&str> = names.iter().filter_map(|n| n.as_deref()).collect();
    let want_lexer: HashSet<&str> = m.keys().filter(|k| !defined.contains(*k)).cloned().collect();
    let want_parser: HashSet<&str> = defined.iter().filter(|k| !m.contains_key(*k)).cloned().collect();
    let (got_lexer, got_parser) = {
        let (a, b) = def.set_rule_ids(&m);
        (a.map(|s| s.iter().map(|x| x.to_string()).collect::<HashSet<String>>()).unwrap_or_default(), b.map(|s| s.iter().map(|x| x.to_string()).collect::<HashSet<String>>()).unwrap_or_default())
    };
    let wl: HashSet<String> = want_lexer.iter().map(|x| x.to_string()).collect();
    let wp: HashSet<String> = want_parser.iter().map(|x| x.to_string()).collect();
    if got_lexer != wl { return Err(format!("names reported missing from the lexer {:?}, the parser's names the lexer does not define are {:?}", got_lexer, wl)); }
    if got_parser != wp { return Err(format!("names reported missing from the parser {:?}, the lexer's names the parser does not know are {:?}", got_parser, wp)); }
    for (k, r) in def.iter_rules().enumerate() {
        match &names[k] {
            Some(n) => { let want = m.get(n.as_str()).cloned(); if r.tok_id() != want { return Err(format!("rule {} ({}) has id {:?}, the parser gives {:?}", k, n, r.tok_id(), want)); } }
            None => if r.tok_id() != before[k] { return Err(format!("unnamed rule {} changed its id from {:?} to {:?}", k, before[k], r.tok_id())); }
        }
    }
    Ok(())
}

pub fn run(spec: &str, map: &[(String, u32)]) -> Outcome {
    let expected = "exactly the names missing on either side are reported; named rules get the parser's id, unnamed ones keep theirs".to_string();
    match catch_unwind(AssertUnwindSafe(|| check(spec, map))) {
        Err(_) => Outcome { fails: true, observed: "panic".into(), expected },
        Ok(Ok(())) => Outcome { fails: false, observed: "as expected".into(), expected },
        Ok(Err(e)) => Outcome { fails: true, observed: e, expected },
    }
}

pub fn search(tier: &str) -> Option<Value> {
    let n = if tier == "thorough" { 20000 } else { 3000 };
    let mut r = Rng(0xA0761D6478BD642F);
    let names = ["ID", "INT", "PLUS", "WS", "X"];
    for _ in 0..n {
        // a lexer with some named and some unnamed rules (distinct names), and a parser map over an overlapping set of names
        let mut spec = String::from("%%\n");
        let mut pool: Vec<&str> = names.to_vec();
        let nr = 1 + r.below(4);
        for k in 0..nr {
            let re = ["[a-z]+", "[0-9]+", "\\+", "[ \\n]", "x"][k % 5];
            if r.below(3) == 0 || pool.is_empty() { spec.push_str(&format!("{} ;\n", re)); } else { let nm = pool.remove(r.below(pool.len())); spec.push_str(&format!("{} '{}'\n", re, nm)); }
        }
        let mut map: Vec<(String, u32)> = Vec::new();
        let mut ids: Vec<u32> = (0..6).collect();
        for nm in names { if r.below(2) == 0 { let id = ids.remove(r.below(ids.len())); map.push((nm.to_string(), id)); } }
        let o = run(&spec, &map);
        if o.fails { return Some(witness("c09_ids", json!({"spec": spec, "map": map}), &o)); }
    }
    None
}


/// Line anchors: the specification `^a 'A'`, `b 'B'`, `\n ;` lexes a text over {a, b, newline}.  By the property a rule is
/// chosen when its regex matches *at that position of the input*: `^a` matches an `a` only at the start of the input or
/// directly after a newline; an `a` anywhere else matches no rule and is the (single, final) lexing error.
pub fn run_anchor(input: &str) -> Outcome {
    use lrlex::{DefaultLexerTypes, LRNonStreamingLexerDef, LexerDef};
    use lrpar::{Lexeme, Lexer};
    let expected = "`^a` matches only at the start of a line".to_string();
    let spec = "%%\n^a 'A'\nb 'B'\n\\n ;\n";
    let r = catch_unwind(AssertUnwindSafe(|| {
        let mut def = LRNonStreamingLexerDef::<DefaultLexerTypes<u32>>::from_str(spec).ok()?;
        let ids: std::collections::HashMap<&str, u32> = [("A", 0u32), ("B", 1u32)].into_iter().collect();
        def.set_rule_ids(&ids);
        let lexer = def.lexer(input);
        let mut got: Vec<(u32, usize)> = Vec::new();
        let mut err = None;
        for l in lexer.iter() { match l { Ok(l) => got.push((l.tok_id(), l.span().start())), Err(e) => { err = Some(lrpar::LexError::span(&e).start()); break; } } }
        Some((got, err))
    }));
    let (got, err) = match r { Ok(Some(x)) => x, Ok(None) => return Outcome { fails: false, observed: "specification rejected".into(), expected }, Err(_) => return Outcome { fails: true, observed: "panic".into(), expected } };
    let b = input.as_bytes();
    let mut exp: Vec<(u32, usize)> = Vec::new();
    let mut exp_err = None;
    for (i, c) in b.iter().enumerate() {
        match c {
            b'a' => if i == 0 || b[i - 1] == b'\n' { exp.push((0, i)); } else { exp_err = Some(i); break; },
            b'b' => exp.push((1, i)),
            b'\n' => (),
            _ => { exp_err = Some(i); break; }
        }
    }
    if got == exp && err == exp_err { Outcome { fails: false, observed: "agree".into(), expected } }
    else { Outcome { fails: true, observed: format!("lexing {:?} gives lexemes (token, byte) {:?}, error {:?}; with `^` meaning start of line: {:?}, error {:?}", input, got, err, exp, exp_err), expected } }
}

// ---------------------------------------------------------------- DefaultLexeme (unit c09_lexeme)
/// A lexeme made from (tok_id, start, len), plain or faulty, read back through the Lexeme trait.
pub fn run_lexeme(tok_id: u32, start: usize, len: usize, faulty: bool) -> Outcome {
    use lrpar::Lexeme;
    crate::note_case("c09_lexeme", json!({"tok_id": tok_id, "start": start, "len": len, "faulty": faulty}));
    let expected = format!("tok_id {} span {}..{} faulty {}", tok_id, start, start + len, faulty);
    let r = catch_unwind(AssertUnwindSafe(|| {
        let l = if faulty { lrlex::DefaultLexeme::<u32>::new_faulty(tok_id, start, len) } else { lrlex::DefaultLexeme::<u32>::new(tok_id, start, len) };
        format!("tok_id {} span {}..{} faulty {}", l.tok_id(), l.span().start(), l.span().end(), l.faulty())
    }));
    let observed = match r { Ok(s) => s, Err(_) => "panic".to_string() };
    Outcome { fails: observed != expected, observed, expected }
}
pub fn search_lexeme() -> Option<Value> {
    for t in [0u32, 1, 7, u32::MAX] { for s in [0usize, 1, 5, 1 << 40] { for l in [0usize, 1, 3, 1 << 20] { for f in [false, true] {
        let o = run_lexeme(t, s, l, f);
        if o.fails { return Some(witness("c09_lexeme", json!({"tok_id": t, "start": s, "len": l, "faulty": f}), &o)); }
    } } } }
    None
}

// ---------------------------------------------------------------- the start-state stack (unit c09_lexer)
const STACK_SPEC: &str = "%s A B\n%%\n<A>q 'QA'\n<B>q 'QB'\nq 'Q0'\na <+A>'PA'\nb <+B>'PB'\ni <+INITIAL>'PI'\nA <A>'RA'\nB <B>'RB'\nI <INITIAL>'RI'\np <-A>'POP'\n";
/// Every letter of `input` is one lexeme of the fixed specification above: a / b / i push A / B / INITIAL, A / B / I
/// replace the whole stack by that state, p pops (an emptied stack is INITIAL again), q is named after the state on top.
pub fn run_stack(input: &str) -> Outcome {
    use lrpar::{LexError, Lexeme, Lexer};
    crate::note_case("c09_stack", json!({"input": input}));
    let mut stack: Vec<usize> = vec![0];
    let mut want: Vec<String> = Vec::new();
    for c in input.chars() {
        match c {
            'q' => want.push(["Q0", "QA", "QB"][*stack.last().unwrap()].to_string()),
            'a' => { want.push("PA".into()); stack.push(1); }
            'b' => { want.push("PB".into()); stack.push(2); }
            'i' => { want.push("PI".into()); stack.push(0); }
            'A' => { want.push("RA".into()); stack.clear(); stack.push(1); }
            'B' => { want.push("RB".into()); stack.clear(); stack.push(2); }
            'I' => { want.push("RI".into()); stack.clear(); stack.push(0); }
            _ => { want.push("POP".into()); stack.pop(); if stack.is_empty() { stack.push(0); } }
        }
    }
    let expected = format!("{:?}", want);
    let r = catch_unwind(AssertUnwindSafe(|| {
        let mut def = LRNonStreamingLexerDef::<LT>::from_str(STACK_SPEC).map_err(|e| format!("the fixed specification was refused: {:?}", e.iter().map(|x| x.to_string()).collect::<Vec<_>>()))?;
        let names: Vec<String> = def.iter_rules().filter_map(|r| r.name().map(|s| s.to_string())).collect();
        let m: HashMap<&str, u32> = names.iter().enumerate().map(|(k, n)| (n.as_str(), k as u32)).collect();
        let _ = def.set_rule_ids(&m);
        let lexer = def.lexer(input);
        let mut got: Vec<String> = Vec::new();
        for l in lexer.iter() { match l { Ok(l) => got.push(names[l.tok_id() as usize].clone()), Err(e) => { got.push(format!("error at {}", e.span().start())); break; } } }
        Ok::<_, String>(got)
    }));
    match r {
        Err(_) => Outcome { fails: true, observed: "panic".into(), expected },
        Ok(Err(e)) => Outcome { fails: true, observed: e, expected },
        Ok(Ok(got)) => Outcome { fails: got != want, observed: format!("{:?}", got), expected },
    }
}
pub fn search_stack(tier: &str) -> Option<Value> {
    let letters = ['a', 'b', 'i', 'A', 'B', 'I', 'p', 'q'];
    let maxlen = if tier == "thorough" { 6 } else { 5 };
    for len in 1..=maxlen {
        let mut idx = vec![0usize; len];
        loop {
            let s: String = idx.iter().map(|&k| letters[k]).collect();
            let o = run_stack(&s);
            if o.fails { return Some(witness("c09_stack", json!({"input": s}), &o)); }
            let mut p = len;
            loop { if p == 0 { break; } p -= 1; if idx[p] + 1 < letters.len() { idx[p] += 1; break; } else { idx[p] = 0; if p == 0 { p = usize::MAX; break; } } }
            if p == usize::MAX { break; }
        }
    }
    None
}
