//! C12: specification parsers are total. Inputs are token sequences from a mutation
//! alphabet; each run is under a watchdog so that a hang is a witness.
use crate::{witness, Outcome};
use cfgrammar::header::GrmtoolsSectionParser;
use cfgrammar::Span;
use serde_json::{json, Value};
use std::panic::{catch_unwind, AssertUnwindSafe};
use std::sync::mpsc;
use std::time::Duration;

fn span_ok(s: &str, sp: &Span) -> bool {
    sp.start() <= sp.end() && sp.end() <= s.len() && s.is_char_boundary(sp.start()) && s.is_char_boundary(sp.end())
}

/// Ok(description) or Err(what went wrong)
fn header_once(src: String) -> Result<String, String> {
    let r = catch_unwind(AssertUnwindSafe(|| GrmtoolsSectionParser::new(&src, false).parse()));
    match r {
        Err(_) => Err("panic".into()),
        Ok(Ok((_, i))) => {
            if i <= src.len() && src.is_char_boundary(i) { Ok(format!("Ok(_, {})", i)) } else { Err(format!("Ok with cursor {} outside the text / off a boundary", i)) }
        }
        Ok(Err(errs)) => {
            if errs.is_empty() { return Err("Err with an empty error list".into()); }
            for e in &errs {
                if e.locations.is_empty() { return Err("error without a span".into()); }
                for sp in &e.locations {
                    if !span_ok(&src, sp) { return Err(format!("error span {}..{} cannot be rendered", sp.start(), sp.end())); }
                }
            }
            Ok(format!("Err({} error(s))", errs.len()))
        }
    }
}

pub fn run_header(src: &str) -> Outcome {
    crate::note_case("c12_header", json!({"text": src}));
    let (tx, rx) = mpsc::channel();
    let s = src.to_string();
    std::thread::spawn(move || { let _ = tx.send(header_once(s)); });
    let expected = "a value or a non-empty list of renderable errors, promptly".to_string();
    match rx.recv_timeout(crate::tmo(1500)) {
        Ok(Ok(d)) => Outcome { fails: false, observed: d, expected },
        Ok(Err(d)) => Outcome { fails: true, observed: d, expected },
        Err(_) => Outcome { fails: true, observed: "no result after 1.5 s (hang)".into(), expected },
    }
}

/// A %grmtools value of `n` nested `[`: run in a child process (the replay binary on the plain header driver), because
/// the failure looked for is a stack overflow, which aborts the process it happens in.
pub fn run_header_deep(n: usize) -> Outcome {
    let expected = "a value or a non-empty list of renderable errors, promptly".to_string();
    let text = format!("%grmtools{{a: {}", "[".repeat(n));
    let w = json!({"driver": "c12_header", "input": {"text": text}}).to_string();
    let exe = match std::env::current_exe() { Ok(e) => e, Err(_) => return Outcome { fails: false, observed: "cannot find the replay binary".into(), expected } };
    match std::process::Command::new(exe).arg("--witness").arg(&w).output() {
        Err(e) => Outcome { fails: false, observed: format!("cannot start the child process: {}", e), expected },
        Ok(out) => {
            let so = String::from_utf8_lossy(&out.stdout).to_string();
            if out.status.success() && so.contains("NOW-PASSES") { Outcome { fails: false, observed: so.trim().to_string(), expected } }
            else if so.contains("STILL-FAILS") { Outcome { fails: true, observed: so.trim().to_string(), expected } }
            else { Outcome { fails: true, observed: format!("the process parsing {} nested '[' died ({}): {}", n, out.status, String::from_utf8_lossy(&out.stderr).lines().filter(|l| l.contains("overflow")).next().unwrap_or("")), expected } }
        }
    }
}

const TOKS: &[&str] = &["a", ":", ",", "[", "]", "1", "99999999999999999999999", "\"s\"", "!", "::", "(", ")", "*", " ", "é", "}", "{", "\"", "\\", "\u{2028}", "\u{85}"];

// ---------------------------------------------------------------- lex specifications
fn lex_judge<T>(src: &str, r: std::thread::Result<Result<T, Vec<lrlex::LexBuildError>>>, entry: &str) -> Result<String, String> {
    match r {
        Err(_) => Err(format!("panic in {}", entry)),
        Ok(Ok(_)) => Ok("Ok".into()),
        Ok(Err(errs)) => {
            if errs.is_empty() { return Err(format!("{}: Err with an empty error list", entry)); }
            for e in &errs {
                let sps = cfgrammar::Spanned::spans(e);
                if sps.is_empty() { return Err(format!("{}: error without a span", entry)); }
                for sp in sps {
                    if !span_ok(src, sp) { return Err(format!("{}: error span {}..{} cannot be rendered", entry, sp.start(), sp.end())); }
                }
            }
            Ok(format!("Err({} error(s))", errs.len()))
        }
    }
}
// both ways of parsing a lex specification: with the flags of its %grmtools section (from_str) and with flags handed in
// (new_with_options)
fn lex_once(src: String) -> Result<String, String> {
    use lrlex::{DefaultLexerTypes, LRNonStreamingLexerDef, LexerDef, DEFAULT_LEX_FLAGS};
    let r = catch_unwind(AssertUnwindSafe(|| LRNonStreamingLexerDef::<DefaultLexerTypes<u32>>::from_str(&src)));
    let a = lex_judge(&src, r, "from_str")?;
    let r = catch_unwind(AssertUnwindSafe(|| LRNonStreamingLexerDef::<DefaultLexerTypes<u32>>::new_with_options(&src, DEFAULT_LEX_FLAGS)));
    let b = lex_judge(&src, r, "new_with_options")?;
    Ok(format!("{} / {}", a, b))
}

pub fn run_lex(src: &str) -> Outcome {
    crate::note_case("c12_lex", json!({"text": src}));
    let (tx, rx) = mpsc::channel();
    let s = src.to_string();
    std::thread::spawn(move || { let _ = tx.send(lex_once(s)); });
    let expected = "a value or a non-empty list of renderable errors, promptly".to_string();
    match rx.recv_timeout(crate::tmo(1500)) {
        Ok(Ok(d)) => Outcome { fails: false, observed: d, expected },
        Ok(Err(d)) => Outcome { fails: true, observed: d, expected },
        Err(_) => Outcome { fails: true, observed: "no result after 1.5 s (hang)".into(), expected },
    }
}

const LEXTOKS: &[&str] = &["%%", "\n", "\n", " ", "\t", "a", "'a'", "\"b\"", ";", "<", ">", "+", "AA", "%s", "%x", ",", "\\", "\u{0085}", "\u{200E}", "\u{2028}", "//", "é", "[", "*", "\r", "%grmtools{nest_limit: 4294967296}\n", "%grmtools{size_limit: 18446744073709551615, dfa_size_limit: 5}\n", "%grmtools{!octal, nest_limit: 3}\n", "%grmtools{", "%grmtools", "%grmtools{a:}\n", "%grmtools{nest_limit: }", "%grmtools{nest_limit: 3,,}\n"];

pub fn search_lex(tier: &str) -> Option<Value> {
    // a small exhaustive grid first: rule lines whose regex ends in backslashes and white space of every class
    let wss = ["", " ", "\t", "\u{0085}", "\u{200E}", "\u{200F}", "\u{2028}", "\u{000B}", "\r"];
    for pre in ["%%\n", "%x AA\n%%\n<AA>", "%%\n<INITIAL>"] {
        for re_ in ["a", "a\\", "a\\\\", "a\\\\\\", "\\", "[a-z]+\\", "é\\"] {
            for w1 in wss { for w2 in wss { for name in ["'A'", "\"b\"", ";", "", "<AA>", "'é'", "<>'A'", "<é>'A'", "<+AA>'A'", "<-AA>;", "<+>'A'", "<+é>;"] { for tail in ["\n", "", " \n", "\u{2028}"] {
                let s = format!("{}{}{}{}{}{}", pre, re_, w1, w2, name, tail);
                let o = run_lex(&s);
                if o.fails { return Some(witness("c12_lex", json!({"text": s}), &o)); }
            } } } }
        }
    }
    // start-state declarations: names of every class separated by white space of every class (one or more bytes wide),
    // with duplicate and ill-formed names after the first
    for d in ["%s", "%x", "%S", "%X"] { for w0 in [" ", "\t", "\u{0085}"] { for n1 in ["AA", "é", "1A", "A_1"] {
        for sep in [" ", "\t", "\u{0085}", "\u{200E}", "\u{200F}", "\u{2028}", "  ", "\u{000B}", "\u{0085}\u{0085}"] { for n2 in ["AA", "BB", "1A", "é", ""] { for tail in ["\n%%\na 'a'\n", "\n", "", " AA\n%%\n"] {
            let s = format!("{}{}{}{}{}{}", d, w0, n1, sep, n2, tail);
            let o = run_lex(&s);
            if o.fails { return Some(witness("c12_lex", json!({"text": s}), &o)); }
        } } }
    } } }
    let n = if tier == "thorough" { 400_000 } else { 40_000 };
    let mut st: u64 = 0x9E3779B97F4A7C15;
    let mut next = |m: usize| { st = st.wrapping_mul(6364136223846793005).wrapping_add(1442695040888963407); ((st >> 33) as usize) % m };
    for _ in 0..n {
        let mut s = String::new();
        match next(5) {
            0 => s.push_str("%%\n"),
            1 => s.push_str("%s AA\n%%\n"),
            2 => { s.push_str(["%grmtools{nest_limit: 4294967296}\n", "%grmtools{size_limit: 18446744073709551615}\n", "%grmtools{dfa_size_limit: 99999999999999999999}\n", "%grmtools{nest_limit: 5, !octal}\n"][next(4)]); s.push_str("%%\n"); }
            _ => {}
        }
        let l = 1 + next(9);
        for _ in 0..l { s.push_str(LEXTOKS[next(LEXTOKS.len())]); }
        let o = run_lex(&s);
        if o.fails { return Some(witness("c12_lex", json!({"text": s}), &o)); }
    }
    None
}

// ---------------------------------------------------------------- yacc grammars
fn yacc_once(src: String) -> Result<String, String> {
    use cfgrammar::yacc::{ast::ASTWithValidityInfo, YaccKind, YaccOriginalActionKind};
    for kind in [YaccKind::Original(YaccOriginalActionKind::GenericParseTree), YaccKind::Grmtools, YaccKind::Eco] {
        let r = catch_unwind(AssertUnwindSafe(|| ASTWithValidityInfo::new(kind.clone(), &src)));
        match r {
            Err(_) => return Err(format!("panic ({:?})", kind)),
            Ok(info) => {
                if !info.is_valid() && info.errors().is_empty() { return Err("invalid AST without any error".into()); }
                for e in info.errors() {
                    let sps = cfgrammar::Spanned::spans(e);
                    if sps.is_empty() { return Err("error without a span".into()); }
                    for sp in sps { if !span_ok(&src, sp) { return Err(format!("error span {}..{} cannot be rendered", sp.start(), sp.end())); } }
                }
                // .. and the warnings (unused rules and tokens), whose spans are looked up in the AST's span table
                let ws = match catch_unwind(AssertUnwindSafe(|| info.ast().warnings())) { Ok(w) => w, Err(_) => return Err(format!("panic in warnings() ({:?})", kind)) };
                for w in &ws {
                    let sps = cfgrammar::Spanned::spans(w);
                    if sps.is_empty() { return Err("warning without a span".into()); }
                    for sp in sps { if !span_ok(&src, sp) { return Err(format!("warning span {}..{} cannot be rendered", sp.start(), sp.end())); } }
                }
            }
        }
    }
    Ok("ok".into())
}

pub fn run_yacc(src: &str) -> Outcome {
    crate::note_case("c12_yacc", json!({"text": src}));
    let (tx, rx) = mpsc::channel();
    let s = src.to_string();
    std::thread::spawn(move || { let _ = tx.send(yacc_once(s)); });
    let expected = "a value or a non-empty list of renderable errors, promptly".to_string();
    match rx.recv_timeout(crate::tmo(1500)) {
        Ok(Ok(d)) => Outcome { fails: false, observed: d, expected },
        Ok(Err(d)) => Outcome { fails: true, observed: d, expected },
        Err(_) => Outcome { fails: true, observed: "no result after 1.5 s (hang)".into(), expected },
    }
}

const YTOKS: &[&str] = &["%%", "\n", "\n", " ", "\t", "a", "B", "'x'", "\"y\"", ";", ":", "|", "%token", "%left", "%start", "%prec", "%epp", "%expect", "%avoid_insert", "%implicit_tokens", "%parse-param", "%actiontype", "{", "}", "/*", "*/", "//", "/", "*", "\\", "'", "\"", "é", "1", "::", "\r", "->", "<", ">", "%expect-unused", "%grmtools{yacckind: Grmtools}"];

pub fn search_yacc(tier: &str) -> Option<Value> {
    // declarations with arguments of every class: ASCII and non-ASCII digits, numerics that are not digits, too-large
    // numbers, names, quoted strings, nothing at all; separated by white space of every class
    for pre in ["", "%start a\n"] { for decl in ["%expect", "%expect-rr", "%token", "%left", "%right", "%nonassoc", "%start", "%epp", "%avoid_insert", "%implicit_tokens", "%parse-param", "%actiontype"] {
        for sep in [" ", "\t", "\u{0085}", "\u{2028}", ""] { for arg in ["1", "\u{0661}", "\u{00BD}", "\u{FF11}", "\u{2163}", "1\u{0661}", "\u{0661}1", "", "99999999999999999999", "a", "'x'", "\"y\"", "é", "-1", "+1", "1a", "a \u{0661}", "x: u8", "a \"é", "X \"\\é\"", "X '\\\u{1F600}'", "X \"\\\"", "\"\\é"] {
            for tail in ["\n%%\na: ;", "\n", "", " 2\n%%\na: 'x';\n"] {
                let s = format!("{}{}{}{}{}", pre, decl, sep, arg, tail);
                let o = run_yacc(&s);
                if o.fails { return Some(witness("c12_yacc", json!({"text": s}), &o)); }
            }
        } }
    } }
    // tokens whose first mention is a %prec, a %left .. line, %avoid_insert, %implicit_tokens or %epp (every way into the token table)
    for decl in ["", "%left 'x'\n", "%token x\n", "%avoid_insert 'x'\n", "%epp x \"X\"\n", "%left 'x' 'y'\n%right 'z'\n"] { for body in ["A: 'a' %prec 'x';", "A: 'a' %prec x;", "A: %prec 'x' 'a';", "A: 'a' %prec 'x' | 'b' %prec 'y'; B: 'z';", "A: B %prec 'q'; B: ;"] {
        let s = format!("{}%%\n{}", decl, body);
        let o = run_yacc(&s);
        if o.fails { return Some(witness("c12_yacc", json!({"text": s}), &o)); }
    } }
    let n = if tier == "thorough" { 300_000 } else { 30_000 };
    let mut st: u64 = 0xD1B54A32D192ED03;
    let mut next = |m: usize| { st = st.wrapping_mul(6364136223846793005).wrapping_add(1442695040888963407); ((st >> 33) as usize) % m };
    for _ in 0..n {
        let mut s = String::new();
        match next(3) { 0 => s.push_str("%start a\n%%\na: "), 1 => s.push_str("%token x\n"), _ => {} }
        let l = 1 + next(10);
        for _ in 0..l { s.push_str(YTOKS[next(YTOKS.len())]); if next(3) == 0 { s.push(' '); } }
        let o = run_yacc(&s);
        if o.fails { return Some(witness("c12_yacc", json!({"text": s}), &o)); }
    }
    None
}

pub fn search(tag: &str, tier: &str) -> Option<Value> {
    if tag.contains(".yacc.") { return search_yacc(tier); }
    if tag.contains(".lex.") { return search_lex(tier); }
    // nesting as deep as a 100 KB line allows
    for n in [1_000usize, 30_000, 100_000] {
        let o = run_header_deep(n);
        if o.fails { return Some(witness("c12_header_deep", json!({"nested": n}), &o)); }
    }
    let depth = if tier == "thorough" { 5 } else { 4 };
    // the witness should be of the kind the failed obligation is about
    let want_hang = tag.contains("terminates") || tag.contains(".dec");
    let mut other: Option<Value> = None;
    let mut idx: Vec<usize> = Vec::new();
    for d in 0..=depth {
        idx.clear();
        idx.resize(d, 0);
        'seqs: loop {
            let mut s = String::from("%grmtools{");
            for &k in &idx { s.push_str(TOKS[k]); }
            let o = run_header(&s);
            if o.fails {
                let is_hang = o.observed.contains("hang");
                let w = witness("c12_header", json!({"text": s}), &o);
                if is_hang == want_hang { return Some(w); }
                if other.is_none() { other = Some(w); }
                if is_hang { // every extension of a hanging prefix may hang too: skip them cheaply
                }
            }
            let mut p = d;
            loop {
                if p == 0 { break 'seqs; }
                p -= 1;
                idx[p] += 1;
                if idx[p] < TOKS.len() { break; }
                idx[p] = 0;
            }
        }
    }
    other
}

// ---------------------------------------------------------------- duplicate occurrences (unit c12_dupocc)
/// `pattern` is a list of name numbers in the order the names are written (e.g. [0,1,0,0,1]: na nb na na nb), declared as
/// start states of a lex specification (`which` = "lex"), as %left tokens of a grammar ("yacc") or as keys of a %grmtools
/// section ("header").  Expected: one duplicate error per name written more than once, in the order of their second
/// occurrences, each with the spans of all the occurrences of its name in the order written.
pub fn run_dupocc(which: &str, pattern: &[usize]) -> Outcome {
    crate::note_case("c12_dupocc", json!({"which": which, "pattern": pattern}));
    let (mut src, sep, tail) = match which {
        "lex" => (String::from("%s "), " ", "\n%%\na 'a'\n"),
        "yacc" => (String::from("%start a\n%left "), " ", "\n%%\na: ;\n"),
        _ => (String::from("%grmtools{"), ", ", "}\n%%\n"),
    };
    let mut occ: Vec<(usize, (usize, usize))> = Vec::new();
    for (k, &n) in pattern.iter().enumerate() {
        if k > 0 { src.push_str(sep); }
        let name = format!("n{}", (b'a' + (n % 26) as u8) as char);
        occ.push((n, (src.len(), src.len() + name.len())));
        src.push_str(&name);
    }
    src.push_str(tail);
    // the reference: errors in the order of the second occurrences
    let mut want: Vec<Vec<(usize, usize)>> = Vec::new();
    let mut slot: std::collections::BTreeMap<usize, usize> = std::collections::BTreeMap::new();
    for (k, (n, sp)) in occ.iter().enumerate() {
        let before: Vec<(usize, usize)> = occ[..k].iter().filter(|(m, _)| m == n).map(|(_, s)| *s).collect();
        if before.len() == 1 { slot.insert(*n, want.len()); want.push(vec![before[0], *sp]); }
        else if before.len() > 1 { want[slot[n]].push(*sp); }
    }
    let expected = format!("{:?}", want);
    let s2 = src.clone();
    let w = which.to_string();
    let r = catch_unwind(AssertUnwindSafe(move || -> Vec<Vec<(usize, usize)>> {
        let sp = |v: &[Span]| v.iter().map(|s| (s.start(), s.end())).collect::<Vec<_>>();
        match w.as_str() {
            "lex" => {
                use lrlex::{DefaultLexerTypes, LRNonStreamingLexerDef, LexerDef};
                match LRNonStreamingLexerDef::<DefaultLexerTypes<u32>>::from_str(&s2) {
                    Ok(_) => vec![],
                    Err(es) => es.iter().filter(|e| matches!(cfgrammar::Spanned::spanskind(*e), cfgrammar::yacc::parser::SpansKind::DuplicationError)).map(|e| sp(cfgrammar::Spanned::spans(e))).collect(),
                }
            }
            "yacc" => {
                use cfgrammar::yacc::{ast::ASTWithValidityInfo, YaccKind};
                let info = ASTWithValidityInfo::new(YaccKind::Grmtools, &s2);
                info.errors().iter().filter(|e| matches!(cfgrammar::Spanned::spanskind(*e), cfgrammar::yacc::parser::SpansKind::DuplicationError)).map(|e| sp(cfgrammar::Spanned::spans(e))).collect()
            }
            _ => match GrmtoolsSectionParser::new(&s2, false).parse() {
                Ok(_) => vec![],
                Err(es) => es.iter().filter(|e| matches!(e.kind, cfgrammar::header::HeaderErrorKind::DuplicateEntry)).map(|e| sp(&e.locations)).collect(),
            },
        }
    }));
    match r {
        Err(_) => Outcome { fails: true, observed: format!("panic on {:?}", src), expected },
        Ok(got) => Outcome { fails: got != want, observed: format!("{:?} for {:?}", got, src), expected },
    }
}

pub fn search_dupocc(tag: &str, tier: &str) -> Option<Value> {
    let whiches: &[&str] = if tag.contains("lex_") { &["lex"] } else if tag.contains("yacc_") { &["yacc"] } else if tag.contains("header_") { &["header"] } else { &["lex", "yacc", "header"] };
    let (maxlen, names) = if tier == "thorough" { (7usize, 3usize) } else { (6, 3) };
    for which in whiches {
        for len in 1..=maxlen {
            let mut p = vec![0usize; len];
            loop {
                let o = run_dupocc(which, &p);
                if o.fails { return Some(witness("c12_dupocc", json!({"which": which, "pattern": p}), &o)); }
                let mut i = len;
                loop {
                    if i == 0 { break; }
                    i -= 1;
                    if p[i] + 1 < names { p[i] += 1; break; } else { p[i] = 0; if i == 0 { i = usize::MAX; break; } }
                }
                if i == usize::MAX { break; }
            }
        }
    }
    None
}

// ---------------------------------------------------------------- Span (unit c12_span)
/// Span::new(start, end) and the look-ups on the result, against the documented behaviour.
pub fn run_span(start: usize, end: usize) -> Outcome {
    crate::note_case("c12_span", json!({"start": start, "end": end}));
    let expected = if end < start { "Span::new refuses (panics)".to_string() } else { format!("start {} end {} len {} is_empty {}", start, end, end - start, start == end) };
    let r = catch_unwind(AssertUnwindSafe(|| { let s = Span::new(start, end); format!("start {} end {} len {} is_empty {}", s.start(), s.end(), s.len(), s.is_empty()) }));
    let observed = match r { Ok(s) => s, Err(_) => "Span::new refuses (panics)".to_string() };
    Outcome { fails: observed != expected, observed, expected }
}
pub fn search_span() -> Option<Value> {
    for s in [0usize, 1, 2, 7, usize::MAX - 1, usize::MAX] { for e in [0usize, 1, 2, 7, usize::MAX - 1, usize::MAX] {
        let o = run_span(s, e);
        if o.fails { return Some(witness("c12_span", json!({"start": s, "end": e}), &o)); }
    } }
    None
}
