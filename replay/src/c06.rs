//! C06 / C05: the repair sequences reported for the first error are exactly the minimum-cost ones
//! (found here by exhaustive search over insert / delete / shift moves with the public table, without
//! any merging), each of them repairs (three shifts or acceptance), none ends in a shift, none twice.
use crate::grms::Rng;
use crate::{witness, Outcome};
use cfgrammar::yacc::{YaccGrammar, YaccKind, YaccOriginalActionKind};
use cfgrammar::TIdx;
use lrlex::{DefaultLexerTypes, LRNonStreamingLexerDef, LexerDef};
use lrpar::{LexParseError, Lexeme, Lexer, ParseRepair, RTParserBuilder, RecoveryKind};
use lrtable::{from_yacc, Action, Minimiser, StIdx, StateTable};
use serde_json::{json, Value};
use std::collections::BTreeSet;
use std::panic::{catch_unwind, AssertUnwindSafe};
use std::sync::mpsc;
use std::time::Duration;

const LEX: &str = "%%\na 'a'\nb 'b'\nc 'c'\n[ \\t\\n]+ ;\n";
type LT = DefaultLexerTypes<u32>;
#[derive(Clone, Copy, PartialEq, Eq, PartialOrd, Ord, Debug)]
enum R { Ins(u32), Del(usize), Shift(usize) }   // Del / Shift carry the index of the lexeme
type Stack = Vec<StIdx<u32>>;

struct Sim<'a> { grm: &'a YaccGrammar<u32>, st: &'a StateTable<u32>, toks: Vec<TIdx<u32>> }
impl Sim<'_> {
    fn tok(&self, pos: usize) -> TIdx<u32> { if pos < self.toks.len() { self.toks[pos] } else { self.grm.eof_token_idx() } }
    /// LR moves on lookahead `t` until it is shifted (true) or the parser stops (false: error / accept)
    fn feed(&self, stack: &mut Stack, t: TIdx<u32>) -> bool {
        let mut fuel = 10_000;
        loop {
            fuel -= 1; if fuel == 0 { return false; }
            match self.st.action(*stack.last().unwrap(), t) {
                Action::Reduce(p) => {
                    let n = self.grm.prod(p).len();
                    stack.truncate(stack.len() - n);
                    let g = self.st.goto(*stack.last().unwrap(), self.grm.prod_to_rule(p)).unwrap();
                    stack.push(g);
                }
                Action::Shift(s) => { stack.push(s); return true; }
                Action::Accept | Action::Error => return false,
            }
        }
    }
    fn accept(&self, stack: &Stack, pos: usize) -> bool { matches!(self.st.action(*stack.last().unwrap(), self.tok(pos)), Action::Accept) }
    /// how far plain parsing gets from (stack, pos)
    /// (candidates are compared over the same window: plain parsing is not taken beyond `limit`, which is
    /// TRY_PARSE_AT_MOST lexemes after the error)
    fn reach(&self, mut stack: Stack, mut pos: usize, limit: usize) -> usize {
        if pos >= limit { return limit; }   // a repair that itself ends beyond the window has got as far as the window reaches
        while pos < self.toks.len() && pos < limit { if !self.feed(&mut stack, self.toks[pos]) { break; } pos += 1; }
        if pos == self.toks.len() { let mut s = stack.clone(); let _ = self.feed(&mut s, self.grm.eof_token_idx()); }
        pos
    }
}

fn trailing_shifts(seq: &[R]) -> usize { seq.iter().rev().take_while(|r| matches!(r, R::Shift(_))).count() }

/// the minimum-cost success sequences from (stack, pos) under the token costs `tc` (by token index); None if none within `max_cost`
fn oracle(sim: &Sim, stack0: &Stack, pos0: usize, max_cost: usize, tc: &dyn Fn(TIdx<u32>) -> usize) -> Option<Vec<(Vec<R>, Stack, usize)>> {
    let mut levels: Vec<Vec<(Stack, usize, Vec<R>)>> = vec![Vec::new(); max_cost + 1];
    levels[0].push((stack0.clone(), pos0, vec![]));
    for cost in 0..=max_cost {
        // closure of this cost level under the zero-cost move, success nodes are not expanded
        let mut seen: BTreeSet<(Vec<u32>, usize, Vec<R>)> = BTreeSet::new();
        let mut work = std::mem::take(&mut levels[cost]);
        let mut nodes = Vec::new();
        let mut succ = Vec::new();
        while let Some((stack, pos, seq)) = work.pop() {
            let key = (stack.iter().map(|s| u32::from(*s)).collect::<Vec<_>>(), pos, seq.clone());
            if !seen.insert(key) { continue; }
            // success: three trailing shifts, or plain parsing from here accepts (reductions under the real lookahead, then Accept)
            let mut s2 = stack.clone();
            let shifted = sim.feed(&mut s2, sim.tok(pos));
            if trailing_shifts(&seq) >= 3 || (!shifted && sim.accept(&s2, pos)) { succ.push((seq, stack, pos)); continue; }
            // shift move: the next real token is consumed
            if shifted { let mut q = seq.clone(); q.push(R::Shift(pos)); work.push((s2, pos + 1, q)); }
            nodes.push((stack, pos, seq));
            if seen.len() > 200_000 { return None; }
        }
        if !succ.is_empty() { return Some(succ); }
        // dearer levels: inserts (never directly after a delete, never the end-of-input token) and a delete
        for (stack, pos, seq) in nodes {
            if !matches!(seq.last(), Some(R::Del(_))) {
                for t in 0..usize::from(sim.grm.tokens_len()) {
                    let tidx = TIdx(t as u32);
                    if tidx == sim.grm.eof_token_idx() { continue; }
                    let c2 = cost + tc(tidx);
                    if c2 > max_cost { continue; }
                    let mut s2 = stack.clone();
                    if sim.feed(&mut s2, tidx) { let mut q = seq.clone(); q.push(R::Ins(t as u32)); levels[c2].push((s2, pos, q)); }
                }
            }
            if pos < sim.toks.len() {
                let c2 = cost + tc(sim.toks[pos]);
                if c2 <= max_cost { let mut q = seq.clone(); q.push(R::Del(pos)); levels[c2].push((stack.clone(), pos + 1, q)); }
            }
        }
        if levels.iter().map(|l| l.len()).sum::<usize>() > 200_000 { return None; }
    }
    None
}

/// plain LR parse of a token sequence into a tree skeleton ("(rule child child ..)" / "t<id>"); None if rejected
fn skeleton(grm: &YaccGrammar<u32>, st: &StateTable<u32>, toks: &[TIdx<u32>]) -> Option<String> {
    let mut stack: Stack = vec![st.start_state()];
    let mut trees: Vec<String> = Vec::new();
    let mut i = 0;
    let mut fuel = 100_000;
    loop {
        fuel -= 1; if fuel == 0 { return None; }
        let la = if i < toks.len() { toks[i] } else { grm.eof_token_idx() };
        match st.action(*stack.last().unwrap(), la) {
            Action::Shift(s) => { stack.push(s); trees.push(format!("t{}", u32::from(la))); i += 1; }
            Action::Reduce(p) => {
                let n = grm.prod(p).len();
                let l = stack.len(); stack.truncate(l - n);
                let kids: Vec<String> = trees.split_off(trees.len() - n);
                let r = grm.prod_to_rule(p);
                trees.push(format!("({} {})", u32::from(r), kids.join(" ")));
                match st.goto(*stack.last().unwrap(), r) { Some(s) => stack.push(s), None => return None }
            }
            Action::Accept => return if i == toks.len() && trees.len() == 1 { trees.pop() } else { None },
            Action::Error => return None,
        }
    }
}
fn node_skeleton(n: &lrpar::Node<lrlex::DefaultLexeme<u32>, u32>) -> String {
    use lrpar::Lexeme;
    match n {
        lrpar::Node::Term { lexeme } => format!("t{}", lexeme.tok_id()),
        lrpar::Node::Nonterm { ridx, nodes } => format!("({} {})", u32::from(*ridx), nodes.iter().map(node_skeleton).collect::<Vec<_>>().join(" ")),
    }
}

/// the leaves of a tree in order: (token id, start byte, length in bytes, flagged as faulty)
fn leaves(n: &lrpar::Node<lrlex::DefaultLexeme<u32>, u32>, out: &mut Vec<(u32, usize, usize, bool)>) {
    use lrpar::Lexeme;
    match n {
        lrpar::Node::Term { lexeme } => out.push((lexeme.tok_id(), lexeme.span().start(), lexeme.span().len(), lexeme.faulty())),
        lrpar::Node::Nonterm { nodes, .. } => for c in nodes { leaves(c, out); },
    }
}

fn once(gsrc: String, input: String, costs: Vec<u8>) -> Result<String, String> {
    let grm = YaccGrammar::<u32>::new_with_storaget(YaccKind::Original(YaccOriginalActionKind::GenericParseTree), &gsrc).map_err(|_| "grammar".to_string())?;
    let (_, stable) = from_yacc(&grm, Minimiser::Pager).map_err(|_| "table".to_string())?;
    if stable.conflicts().is_some() { return Err("grammar".into()); }
    let mut lexerdef = LRNonStreamingLexerDef::<LT>::from_str(LEX).map_err(|_| "lexer".to_string())?;
    let ids: std::collections::HashMap<&str, u32> = grm.tokens_map().into_iter().map(|(k, v)| (k, u32::from(v))).collect();
    lexerdef.set_rule_ids(&ids);
    let lexer = lexerdef.lexer(&input);
    let lexemes: Vec<_> = lexer.iter().filter_map(|l| l.ok()).collect();
    let toks: Vec<TIdx<u32>> = lexemes.iter().map(|l| TIdx(l.tok_id())).collect();
    let starts: Vec<usize> = lexemes.iter().map(|l| l.span().start()).collect();
    let costf = |t: TIdx<u32>| costs[usize::from(t) % costs.len()];
    let pb = RTParserBuilder::new(&grm, &stable).recoverer(RecoveryKind::CPCTPlus).term_costs(&costf);
    #[allow(deprecated)]
    let (tree_, errs) = catch_unwind(AssertUnwindSafe(|| pb.parse_generictree(&lexer))).map_err(|_| "panic inside parse".to_string())?;
    let pe = match errs.first() { Some(LexParseError::ParseError(pe)) => pe, _ => return Ok("no parse error".into()) };
    // where the error is, and the stack there: replay plain LR up to it
    let sim = Sim { grm: &grm, st: &stable, toks };
    let mut stack: Stack = vec![stable.start_state()];
    let mut pos = 0;
    while pos < sim.toks.len() { if !sim.feed(&mut stack, sim.toks[pos]) { break; } pos += 1; }
    if pos == sim.toks.len() && sim.accept(&stack, pos) { return Err("the parser reports an error for an input the table accepts".into()); }
    let epos = if pos < starts.len() { starts[pos] } else { input.len() };
    if pe.lexeme().span().start() != epos && pos < starts.len() { return Err(format!("first error reported at byte {}, the table rejects at byte {}", pe.lexeme().span().start(), epos)); }
    // (the feed above may have reduced under the erroneous lookahead before hitting the error cell: the
    // recoverer is handed the stack as it is at that point)
    let maxc = costs.iter().map(|c| *c as usize).max().unwrap_or(1);
    let want = match oracle(&sim, &stack, pos, if maxc == 1 { 4 } else if maxc <= 3 { 3 * maxc } else { maxc }, &|t| costs[usize::from(t) % costs.len()] as usize) { Some(s) => s, None => return Ok("search space too big".into()) };
    // rank by reach, strip trailing shifts, dedup
    let limit = pos + 250;
    let best = want.iter().map(|(_, s, p)| sim.reach(s.clone(), *p, limit)).max().unwrap();
    let mut exp: BTreeSet<Vec<R>> = BTreeSet::new();
    for (seq, s, p) in &want {
        if sim.reach(s.clone(), *p, limit) != best { continue; }
        let mut q = seq.clone();
        while matches!(q.last(), Some(R::Shift(_))) { q.pop(); }
        exp.insert(q);
    }
    let mut got: BTreeSet<Vec<R>> = BTreeSet::new();
    for rs in pe.repairs() {
        let mut q = Vec::new();
        for r in rs {
            q.push(match r {
                ParseRepair::Insert(t) => R::Ins(u32::from(*t)),
                ParseRepair::Delete(l) => R::Del(starts.iter().position(|&s| s == l.span().start()).unwrap_or(usize::MAX)),
                ParseRepair::Shift(l) => R::Shift(starts.iter().position(|&s| s == l.span().start()).unwrap_or(usize::MAX)),
            });
        }
        if matches!(q.last(), Some(R::Shift(_))) { return Err(format!("reported sequence {:?} ends in a shift", q)); }
        if !got.insert(q.clone()) { return Err(format!("sequence {:?} is reported twice", q)); }
    }
    // order: sequences that insert a %avoid_insert token come after all those that do not; within each group shorter first
    let keys: Vec<(bool, usize)> = pe.repairs().iter().map(|rs| (rs.iter().any(|r| matches!(r, ParseRepair::Insert(t) if grm.avoid_insert(*t))), rs.len())).collect();
    for w in keys.windows(2) {
        if w[0] > w[1] { return Err(format!("reported order (inserts an avoided token, length) = {:?} is not sorted", keys)); }
    }
    if pe.repairs().is_empty() { return Ok("no repairs (budget)".into()); }
    // C05: with a single error, the value is the one a plain parse gives for the input with the FIRST reported sequence applied
    if errs.len() == 1 {
        let mut rep: Vec<TIdx<u32>> = sim.toks[..pos].to_vec();
        let mut k = pos;
        for r in &pe.repairs()[0] {
            match r {
                ParseRepair::Insert(t) => rep.push(*t),
                ParseRepair::Delete(_) => k += 1,
                ParseRepair::Shift(_) => { if k < sim.toks.len() { rep.push(sim.toks[k]); } k += 1; }
            }
        }
        if k <= sim.toks.len() { rep.extend_from_slice(&sim.toks[k..]); }
        // ... and its leaves spell the repaired input: real lexemes as they are, every inserted token a zero-length lexeme
        // flagged as faulty at the start of the next real lexeme (at the end of the last lexeme when the input is used up)
        if let Some(t) = tree_.as_ref() {
            let real = |i: usize| (u32::from(sim.toks[i]), starts[i], lexemes[i].span().len(), false);
            let next_start = |i: usize| if i < starts.len() { starts[i] } else { lexemes.last().map(|l| l.span().end()).unwrap_or(0) };
            let mut want: Vec<(u32, usize, usize, bool)> = (0..pos).map(real).collect();
            let mut k2 = pos;
            for r in &pe.repairs()[0] {
                match r {
                    ParseRepair::Insert(t) => want.push((u32::from(*t), next_start(k2), 0, true)),
                    ParseRepair::Delete(_) => k2 += 1,
                    ParseRepair::Shift(_) => { if k2 < sim.toks.len() { want.push(real(k2)); } k2 += 1; }
                }
            }
            for i in k2..sim.toks.len() { want.push(real(i)); }
            let mut have = Vec::new();
            leaves(t, &mut have);
            if have != want { return Err(format!("the tree's leaves (token, start, length, faulty) are {:?}; the repaired input is {:?}", have, want)); }
        }
        match (skeleton(&grm, &stable, &rep), tree_.as_ref().map(node_skeleton)) {
            (Some(a), Some(b)) => if a != b { return Err(format!("the value is {} but parsing the input with the first reported sequence {:?} applied gives {}", b, pe.repairs()[0].iter().map(|r| match r { ParseRepair::Insert(t) => format!("Insert {}", u32::from(*t)), ParseRepair::Delete(_) => "Delete".to_string(), ParseRepair::Shift(_) => "Shift".to_string() }).collect::<Vec<_>>(), a)); },
            (None, Some(_)) => return Err("the input with the first reported sequence applied is rejected by a plain parse, yet a value was returned for one error".into()),
            _ => (),
        }
    }
    if got != exp { return Err(format!("reported repair sequences {:?}, the minimum-cost repairs that get furthest are {:?}", got, exp)); }
    Ok(format!("{} sequences", got.len()))
}

pub fn run(g: &str, input: &str) -> Outcome { run_costs(g, input, &[1]) }

/// token t costs `costs[t mod len]`
pub fn run_costs(g: &str, input: &str, costs: &[u8]) -> Outcome {
    crate::note_case("c06_repairs", json!({"grammar": g, "input": input, "costs": costs}));
    let (tx, rx) = mpsc::channel();
    let (g2, i2, c2) = (g.to_string(), input.to_string(), costs.to_vec());
    std::thread::spawn(move || { let _ = tx.send(once(g2, i2, c2)); });
    let expected = "exactly the minimum-cost repair sequences that parse furthest, none ending in a shift, none twice".to_string();
    match rx.recv_timeout(crate::tmo(8000)) {
        Ok(Ok(d)) => Outcome { fails: false, observed: d, expected },
        Ok(Err(d)) => Outcome { fails: d != "grammar" && d != "table" && d != "lexer", observed: d, expected },
        Err(_) => Outcome { fails: false, observed: "timeout (not counted)".into(), expected },
    }
}

const GRMS: &[&str] = &[
    "%start S\n%%\nS: 'a' 'b' 'c';",
    "%start S\n%%\nS: 'a' S 'b' | 'c';",
    "%start E\n%%\nE: T 'b' E | T;\nT: 'a' | 'c' E 'c';",
    "%start S\n%%\nS: T 'b' 'c' 'a';\nT: 'a' | 'b';",
    "%start S\n%%\nS: A B;\nA: 'a' | ;\nB: 'b' 'c' | 'c';",
    // one sub-rule in two contexts: after the sub-rule the stacks have the same top state and depth but differ below
    "%start S\n%%\nS: 'a' X 'a' 'b' 'c' | 'b' X 'b' 'a' 'c';\nX: 'c';",
    "%start S\n%%\nS: 'a' X 'c' 'a' 'b' | 'b' X 'c' 'b' 'a';\nX: 'c' | 'c' 'c';",
    "%start S\n%avoid_insert 'b'\n%%\nS: 'a' X 'c' 'a' 'b' | 'b' X 'c' 'b' 'a';\nX: 'c';",
];

pub fn search(_tag: &str, tier: &str) -> Option<Value> {
    // inputs longer than the ranking window (TRY_PARSE_AT_MOST = 250 lexemes after the error): two repairs of the same
    // cost that consume different amounts of input and both let the rest parse must both be reported
    for (g, head, unit, reps) in [
        ("%start E\n%%\nE: 'a' | E 'b' 'a' | 'c' E 'c';", "b a ", "b a ", 200usize),
        ("%start E\n%%\nE: 'a' | E 'b' 'a' | 'c' E 'c';", "b a ", "b a ", 124),
        ("%start S\n%%\nS: 'a' L 'c';\nL: L 'b' | ;", "b ", "b ", 300),
        ("%start S\n%%\nS: L 'c' 'c';\nL: L 'a' 'b' | ;", "b ", "a b ", 180),
    ] {
        let input = format!("{}{}", head, unit.repeat(reps));
        let o = run(g, &input);
        if o.fails { return Some(witness("c06_repairs", json!({"grammar": g, "input": input}), &o)); }
    }
    // a repair that itself ends beyond the window (250 one-unit deletions against one insertion costing 250): both are
    // minimal and both let the rest of the input parse
    for n in [249usize, 250, 251, 255] {
        let g = "%start S\n%%\nS: 'a' 'a' X 'c' | 'a' 'c';\nX: | X 'b';";
        let input = format!("a {}c", "b ".repeat(n));
        let costs = [n as u8, n as u8, 1u8];
        let o = run_costs(g, &input, &costs);
        if o.fails { return Some(witness("c06_repairs", json!({"grammar": g, "input": input, "costs": costs}), &o)); }
    }
    let n = if tier == "thorough" { 4000 } else { 400 };
    let mut r = Rng(0x9E3779B97F4A7C15);
    for k in 0..n {
        let g = if k % 2 == 0 { GRMS[r.below(GRMS.len())].to_string() } else { crate::grms::random(1 + r.below(3000) as u64) };
        if g.contains("%left") || g.contains("%right") || g.contains("%nonassoc") { continue; }
        // every other random grammar gets an %avoid_insert declaration (the ordering clause)
        let g = if k % 4 == 1 && g.starts_with("%start") { let nl = g.find('\n').unwrap_or(0); format!("{}\n%avoid_insert '{}'{}", &g[..nl], ["a", "b", "c"][r.below(3)], &g[nl..]) } else { g };
        let l = 1 + r.below(7);
        let input: String = (0..l).map(|_| ["a ", "b ", "c "][r.below(3)]).collect();
        let o = run(&g, &input);
        if o.fails { return Some(witness("c06_repairs", json!({"grammar": g, "input": input}), &o)); }
        // non-unit token costs (token t costs costs[t mod len])
        if k % 3 == 0 {
            // (the last two leave cost levels without any node: no token costs 1)
            let costs: &[u8] = [&[1u8, 2][..], &[2, 1, 3][..], &[3, 1][..], &[1, 1, 2][..], &[2][..], &[3, 2][..]][r.below(6)];
            let o = run_costs(&g, &input, costs);
            if o.fails { return Some(witness("c06_repairs", json!({"grammar": g, "input": input, "costs": costs}), &o)); }
        }
    }
    None
}

/// debugging aid: the table's behaviour on a token string (names), printing stack tops and the action on end-of-input
pub fn trace(gsrc: &str, toks: &str) -> String {
    let grm = YaccGrammar::<u32>::new_with_storaget(YaccKind::Original(YaccOriginalActionKind::GenericParseTree), gsrc).unwrap();
    let (_, stable) = from_yacc(&grm, Minimiser::Pager).unwrap();
    let sim = Sim { grm: &grm, st: &stable, toks: vec![] };
    let mut stack: Stack = vec![stable.start_state()];
    let mut out = String::new();
    for t in toks.split_whitespace() {
        let tidx = grm.token_idx(t).unwrap();
        let ok = sim.feed(&mut stack, tidx);
        out.push_str(&format!("{}:{}->{:?}(eof:{:?}) ", t, ok, stack.iter().map(|s| u32::from(*s)).collect::<Vec<_>>(), stable.action(*stack.last().unwrap(), grm.eof_token_idx())));
    }
    out
}
