//! C02: a grammar that is LR(1) (its canonical, unmerged LR(1) automaton -- built here independently,
//! textbook closure/goto with exact-equality states -- has no conflicts) gets a conflict-free table
//! from the real lrtable, and the minimised automaton has no more states than the canonical one.
use crate::grms;
use crate::{witness, Outcome};
use cfgrammar::yacc::{YaccGrammar, YaccKind, YaccOriginalActionKind};
use cfgrammar::{PIdx, Symbol, TIdx};
use lrtable::{from_yacc, Minimiser};
use serde_json::{json, Value};
use std::collections::{BTreeMap, BTreeSet, VecDeque};
use std::panic::{catch_unwind, AssertUnwindSafe};

type Items = BTreeMap<(usize, usize), BTreeSet<usize>>;
const CAP: usize = 1500;

/// (number of states, conflict-free?) of the canonical LR(1) automaton; None if it is too big
fn canonical(grm: &YaccGrammar<u32>) -> Option<(usize, bool)> {
    let firsts = grm.firsts();
    let nt = usize::from(grm.tokens_len());
    let prod = |p: usize| grm.prod(PIdx(p as u32));
    let first_of = |beta: &[Symbol<u32>], la: &BTreeSet<usize>| -> BTreeSet<usize> {
        let mut out = BTreeSet::new();
        let mut nullable = true;
        for sym in beta {
            match sym {
                Symbol::Token(t) => { out.insert(usize::from(*t)); nullable = false; break; }
                Symbol::Rule(r) => {
                    for t in 0..nt { if firsts.is_set(*r, TIdx(t as u32)) { out.insert(t); } }
                    if !firsts.is_epsilon_set(*r) { nullable = false; break; }
                }
            }
        }
        if nullable { out.extend(la.iter().cloned()); }
        out
    };
    let close = |kernel: &Items| -> Items {
        let mut is = kernel.clone();
        loop {
            let mut changed = false;
            let snapshot: Vec<((usize, usize), BTreeSet<usize>)> = is.iter().map(|(k, v)| (*k, v.clone())).collect();
            for ((p, d), la) in snapshot {
                let pr = prod(p);
                if d >= pr.len() { continue; }
                if let Symbol::Rule(r) = pr[d] {
                    let f = first_of(&pr[d + 1..], &la);
                    // an LR(1) item has one lookahead token: where no token can follow (the rest of the production derives
                    // no sentence) there is no item to add
                    if f.is_empty() { continue; }
                    for q in grm.rule_to_prods(r) {
                        if !is.contains_key(&(usize::from(*q), 0)) { changed = true; }
                        let e = is.entry((usize::from(*q), 0)).or_default();
                        for t in &f { if e.insert(*t) { changed = true; } }
                    }
                }
            }
            if !changed { return is; }
        }
    };
    let mut start = Items::new();
    start.insert((usize::from(grm.start_prod()), 0), [usize::from(grm.eof_token_idx())].into_iter().collect());
    let mut states: Vec<Items> = vec![close(&start)];
    let mut index: BTreeMap<Items, usize> = BTreeMap::new();
    index.insert(states[0].clone(), 0);
    let mut todo: VecDeque<usize> = VecDeque::from([0]);
    while let Some(s) = todo.pop_front() {
        let cur = states[s].clone();
        let mut syms: Vec<Symbol<u32>> = Vec::new();
        for ((p, d), _) in cur.iter() { let pr = prod(*p); if *d < pr.len() && !syms.contains(&pr[*d]) { syms.push(pr[*d]); } }
        for sym in syms {
            let mut kernel = Items::new();
            for ((p, d), la) in cur.iter() {
                let pr = prod(*p);
                if *d < pr.len() && pr[*d] == sym { kernel.entry((*p, *d + 1)).or_default().extend(la.iter().cloned()); }
            }
            let closed = close(&kernel);
            if !index.contains_key(&closed) {
                if states.len() >= CAP { return None; }
                index.insert(closed.clone(), states.len());
                states.push(closed);
                todo.push_back(states.len() - 1);
            }
        }
    }
    let mut ok = true;
    for st in &states {
        let mut shifts: BTreeSet<usize> = BTreeSet::new();
        let mut reduces: Vec<&BTreeSet<usize>> = Vec::new();
        for ((p, d), la) in st.iter() {
            let pr = prod(*p);
            if *d < pr.len() { if let Symbol::Token(t) = pr[*d] { shifts.insert(usize::from(t)); } } else { reduces.push(la); }
        }
        for (i, a) in reduces.iter().enumerate() {
            if a.iter().any(|t| shifts.contains(t)) { ok = false; }
            for b in reduces.iter().skip(i + 1) { if a.iter().any(|t| b.contains(t)) { ok = false; } }
        }
    }
    Some((states.len(), ok))
}

fn check(src: &str) -> Result<(), String> {
    let grm = match YaccGrammar::<u32>::new_with_storaget(YaccKind::Original(YaccOriginalActionKind::NoAction), src) {
        Ok(g) => g,
        Err(_) => return Ok(()),
    };
    let (n, lr1) = match canonical(&grm) { Some(x) => x, None => return Ok(()) };
    let (sg, st) = match from_yacc(&grm, Minimiser::Pager) { Ok(x) => x, Err(e) => return if lr1 { Err(format!("the grammar is LR(1) but table construction failed: {}", e)) } else { Ok(()) } };
    let m = usize::from(sg.all_states_len());
    if m > n { return Err(format!("the minimised automaton has {} states, the canonical LR(1) automaton {}", m, n)); }
    if lr1 {
        if let Some(c) = st.conflicts() {
            return Err(format!("the grammar is LR(1) (canonical automaton of {} states has no conflicts) but the table reports {} shift/reduce and {} reduce/reduce conflicts", n, c.sr_len(), c.rr_len()));
        }
        // same parse results as a canonical LR(1) parser: every (short) sentence of the grammar is accepted
        for sent in sentences(&grm, 7, 400) {
            if let Some(pos) = first_error(&grm, &st, &sent) {
                let names: Vec<String> = sent.iter().map(|t| grm.token_name(*t).unwrap_or("?").to_string()).collect();
                return Err(format!("the grammar is LR(1) and derives `{}` but the table rejects it at token {}", names.join(" "), pos));
            }
        }
    }
    Ok(())
}

/// sentences of at most `maxlen` tokens, by leftmost derivation from the start rule (at most `cap` of them)
fn sentences(grm: &YaccGrammar<u32>, maxlen: usize, cap: usize) -> Vec<Vec<cfgrammar::TIdx<u32>>> {
    use cfgrammar::Symbol;
    let mut out = Vec::new();
    let mut work: std::collections::VecDeque<Vec<Symbol<u32>>> = std::collections::VecDeque::new();
    work.push_back(grm.prod(grm.start_prod()).to_vec());
    let mut steps = 0;
    while let Some(form) = work.pop_front() {
        steps += 1;
        if steps > 40000 || out.len() >= cap { break; }
        let ntoks = form.iter().filter(|s| matches!(s, Symbol::Token(_))).count();
        if ntoks > maxlen || form.len() > maxlen + 4 { continue; }
        match form.iter().position(|s| matches!(s, Symbol::Rule(_))) {
            None => out.push(form.iter().map(|s| match s { Symbol::Token(t) => *t, _ => unreachable!() }).collect()),
            Some(k) => {
                if let Symbol::Rule(r) = form[k] {
                    for p in grm.rule_to_prods(r) {
                        let mut f2 = form[..k].to_vec();
                        f2.extend(grm.prod(*p).iter().cloned());
                        f2.extend(form[k + 1..].iter().cloned());
                        work.push_back(f2);
                    }
                }
            }
        }
    }
    out
}

/// position of the first token (or end of input) at which a plain LR parse with this table fails
fn first_error(grm: &YaccGrammar<u32>, st: &lrtable::StateTable<u32>, sent: &[cfgrammar::TIdx<u32>]) -> Option<usize> {
    use lrtable::Action;
    let mut stack = vec![st.start_state()];
    let mut i = 0;
    let mut fuel = 10000;
    loop {
        fuel -= 1;
        if fuel == 0 { return Some(i); }
        let la = if i < sent.len() { sent[i] } else { grm.eof_token_idx() };
        match st.action(*stack.last().unwrap(), la) {
            Action::Shift(s) => { stack.push(s); i += 1; }
            Action::Reduce(p) => {
                let n = grm.prod(p).len();
                let l = stack.len();
                stack.truncate(l - n);
                match st.goto(*stack.last().unwrap(), grm.prod_to_rule(p)) { Some(s) => stack.push(s), None => return Some(i) }
            }
            Action::Accept => return if i == sent.len() { None } else { Some(i) },
            Action::Error => return Some(i),
        }
    }
}

pub fn run(src: &str) -> Outcome {
    crate::note_case("c02_lr1", json!({"grammar": src}));
    let expected = "no conflicts for an LR(1) grammar, and no more states than the canonical automaton".to_string();
    match catch_unwind(AssertUnwindSafe(|| check(src))) {
        Err(_) => Outcome { fails: true, observed: "panic".into(), expected },
        Ok(Ok(())) => Outcome { fails: false, observed: "ok".into(), expected },
        Ok(Err(e)) => Outcome { fails: true, observed: e, expected },
    }
}

pub fn crossed_family(seed: u64) -> String {
    let mut r = grms::Rng(seed.wrapping_mul(0xA24BAED4963EE407) | 1);
    let k = 2 + r.below(3);           // items in the core
    let np = 2 + r.below(2);          // prefixes
    let sufs = ["'s'", "'t'", "'u'", "'v'", "'w'"];
    let pres = ["'a'", "'b'", "'c'"];
    let mut s = String::from("%start S\n%%\nS: ");
    let mut first = true;
    for i in 0..np {
        // distinct suffixes for one prefix keep every single state conflict free
        let mut pool: Vec<usize> = (0..sufs.len()).collect();
        for j in 0..k {
            let t = pool.remove(r.below(pool.len()));
            if !first { s.push_str(" | "); }
            first = false;
            s.push_str(&format!("{} X{} {}", pres[i], j, sufs[t]));
        }
    }
    // padding: further alternatives with their own prefix and rules of the same shape, and a shuffled order of the
    // alternatives (both change the order in which the item sets' hash maps are filled)
    let npad = r.below(7);
    for q in 0..npad { s.push_str(&format!(" | 'y' Y{} {}", q, sufs[q % sufs.len()])); }
    s.push_str(";\n");
    let mut alts: Vec<String> = s["%start S\n%%\nS: ".len()..s.len() - 2].split(" | ").map(|x| x.to_string()).collect();
    for a in (1..alts.len()).rev() { let b = r.below(a + 1); alts.swap(a, b); }
    let mut s = format!("%start S\n%%\nS: {};\n", alts.join(" | "));
    // the rules are defined in a random order (production numbers are the keys of the item maps)
    let mut defs: Vec<String> = (0..k).map(|j| format!("X{}: 'e';\n", j)).chain((0..npad).map(|q| format!("Y{}: 'e';\n", q))).collect();
    for a in (1..defs.len()).rev() { let b = r.below(a + 1); defs.swap(a, b); }
    for d in defs { s.push_str(&d); }
    s
}

/// The same core { A -> 'c' . , B -> 'c' . } reached in several contexts, directly or through wrapper rules
/// (P: 'm' A; Q: 'm' B;), after prefixes of different lengths: a state is then processed again after its successors
/// exist, and the lookaheads that arrive late must not be forced into a successor they are not compatible with.
pub fn late_family(seed: u64) -> String {
    let mut r = grms::Rng(seed.wrapping_mul(0x9FB21C651E98DF25) | 1);
    let nc = 2 + r.below(3);
    let pres = ["'p'", "'q'", "'r'", "'k'"];
    let sufs = ["'d'", "'e'", "'x'", "'y'"];
    let mut alts: Vec<String> = Vec::new();
    for i in 0..nc {
        let len = 1 + r.below(3);
        let prefix = vec![pres[i]; len].join(" ");
        let wrapped = r.below(2) == 0;
        let a = r.below(sufs.len());
        let mut b = r.below(sufs.len() - 1);
        if b >= a { b += 1; }
        alts.push(format!("{} {} {}", prefix, if wrapped { "P" } else { "A" }, sufs[a]));
        alts.push(format!("{} {} {}", prefix, if wrapped { "Q" } else { "B" }, sufs[b]));
    }
    for a in (1..alts.len()).rev() { let b = r.below(a + 1); alts.swap(a, b); }
    let mut defs = vec!["P: 'm' A;\n", "Q: 'm' B;\n", "A: 'c';\n", "B: 'c';\n"];
    for a in (1..defs.len()).rev() { let b = r.below(a + 1); defs.swap(a, b); }
    format!("%start S\n%%\nS: {};\n{}", alts.join(" | "), defs.concat())
}

pub fn search(_tag: &str, tier: &str) -> Option<Value> {
    // three-item kernels whose later pairs decide compatibility; grammars on which the pager leaves unreachable states behind
    for g in ["%start S\n%%\nS: 'a' E 'c' | 'a' E 'd' | 'a' F 'c' | 'a' G 'd' | 'b' E 'c' | 'b' E 'd' | 'b' F 'd' | 'b' G 'c';\nF: 'e' 'q';\nE: 'e' 'p';\nG: 'e' 'q';",
              "%start S\n%%\nS: C 'c' E | 'a' | 'b' 'b';\nC: 'c' | 'b' 'a' 'd';\nE: S 'd' | C;", "%start S\n%%\nS: 'a' A;\nA: 'a' S S 'b' | C 'a' 'b';\nC: 'a' S A | 'c';",
              "%start S\n%%\nS: 'a' 'a' A | A 'b' | ;\nA: 'a' S 'a' | 'a' 'b';"] {
        let o = run(g);
        if o.fails { return Some(witness("c02_lr1", json!({"grammar": g}), &o)); }
    }
    // rules that derive no sentence: no token can follow them, and the closure must not add items without lookaheads
    for g in ["%start S\n%%\nS: S A S;\nA: 'a';", "%start S\n%%\nS: S S S;", "%start S\n%%\nS: 'b' S A | 'c';\nA: A 'a';", "%start S\n%%\nS: 'b' 'a' S A | 'd' 'c' | A 'c' 'd';\nA: A 'b' 'b';"] {
        let o = run(g);
        if o.fails { return Some(witness("c02_lr1", json!({"grammar": g}), &o)); }
    }
    for g in ["%start S\n%%\nS: 'p' P 'x' | 'p' Q 'y' | 'q' A 'd' | 'q' B 'e' | 'r' 'r' 'r' P 'e' | 'r' 'r' 'r' Q 'd';\nP: 'm' A;\nQ: 'm' B;\nA: 'c';\nB: 'c';\n"] {
        let o = run(g);
        if o.fails { return Some(witness("c02_lr1", json!({"grammar": g}), &o)); }
    }
    for seed in 1..=(if tier == "thorough" { 6000 } else { 1500 }) {
        let g = late_family(seed);
        let o = run(&g);
        if o.fails { return Some(witness("c02_lr1", json!({"grammar": g}), &o)); }
    }
    let fixed_no_prec = grms::FIXED.iter().filter(|g| !g.contains("%left") && !g.contains("%right") && !g.contains("%nonassoc"));
    for g in fixed_no_prec {
        let o = run(g);
        if o.fails { return Some(witness("c02_lr1", json!({"grammar": g}), &o)); }
    }
    // the family weak compatibility is about: after prefix p_i and 'e' the parser is in a state with the
    // k-item core { X_j -> 'e' . } whose lookaheads are the suffixes s_ij; the states of different
    // prefixes may only be merged when that creates no reduce/reduce conflict
    let nfam = if tier == "thorough" { 20000 } else { 3000 };
    for seed in 1..=nfam {
        let g = crossed_family(seed);
        for _ in 0..2 {
            let o = run(&g);
            if o.fails { return Some(witness("c02_lr1", json!({"grammar": g}), &o)); }
        }
    }
    let n = if tier == "thorough" { 40000 } else { 6000 };
    for seed in 1..=n {
        let g = grms::random_larger(seed);
        for _ in 0..2 {
            let o = run(&g);
            if o.fails { return Some(witness("c02_lr1", json!({"grammar": g}), &o)); }
        }
    }
    None
}
