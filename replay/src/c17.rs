//! C17: FIRST / epsilon / FOLLOW / has_path against naive reference fixpoints written from
//! the textbook definitions, on small grammars built by the real YaccGrammar.
use crate::grms;
use crate::{witness, Outcome};
use cfgrammar::yacc::{YaccGrammar, YaccKind, YaccOriginalActionKind};
use cfgrammar::{PIdx, RIdx, Symbol, TIdx};
use serde_json::{json, Value};
use std::panic::{catch_unwind, AssertUnwindSafe};
use std::sync::mpsc;
use std::time::Duration;

struct Ref { first: Vec<Vec<bool>>, eps: Vec<bool>, follow: Vec<Vec<bool>>, reach: Vec<Vec<bool>> }

fn reference(grm: &YaccGrammar<u32>) -> Ref {
    let nr = usize::from(grm.rules_len());
    let nt = usize::from(grm.tokens_len());
    let np = usize::from(grm.prods_len());
    let prods: Vec<(usize, Vec<Symbol<u32>>)> = (0..np).map(|p| (usize::from(grm.prod_to_rule(PIdx(p as u32))), grm.prod(PIdx(p as u32)).to_vec())).collect();
    let mut first = vec![vec![false; nt]; nr];
    let mut eps = vec![false; nr];
    loop {
        let mut ch = false;
        for (r, syms) in &prods {
            let mut all_null = true;
            for s in syms {
                match s {
                    Symbol::Token(t) => { if !first[*r][usize::from(*t)] { first[*r][usize::from(*t)] = true; ch = true; } all_null = false; break; }
                    Symbol::Rule(q) => {
                        let q = usize::from(*q);
                        for t in 0..nt { if first[q][t] && !first[*r][t] { first[*r][t] = true; ch = true; } }
                        if !eps[q] { all_null = false; break; }
                    }
                }
            }
            if all_null && !eps[*r] { eps[*r] = true; ch = true; }
        }
        if !ch { break; }
    }
    let mut follow = vec![vec![false; nt]; nr];
    follow[usize::from(grm.start_rule_idx())][usize::from(grm.eof_token_idx())] = true;
    loop {
        let mut ch = false;
        for (r, syms) in &prods {
            for (i, s) in syms.iter().enumerate() {
                if let Symbol::Rule(b) = s {
                    let b = usize::from(*b);
                    let mut rest_null = true;
                    for n in &syms[i + 1..] {
                        match n {
                            Symbol::Token(t) => { if !follow[b][usize::from(*t)] { follow[b][usize::from(*t)] = true; ch = true; } rest_null = false; break; }
                            Symbol::Rule(c) => {
                                let c = usize::from(*c);
                                for t in 0..nt { if first[c][t] && !follow[b][t] { follow[b][t] = true; ch = true; } }
                                if !eps[c] { rest_null = false; break; }
                            }
                        }
                    }
                    if rest_null { for t in 0..nt { if follow[*r][t] && !follow[b][t] { follow[b][t] = true; ch = true; } } }
                }
            }
        }
        if !ch { break; }
    }
    // reach[a][b]: b reachable from a in >= 1 production steps
    let mut reach = vec![vec![false; nr]; nr];
    for (r, syms) in &prods { for s in syms { if let Symbol::Rule(q) = s { reach[*r][usize::from(*q)] = true; } } }
    for k in 0..nr { for a in 0..nr { for b in 0..nr { if reach[a][k] && reach[k][b] { reach[a][b] = true; } } } }
    Ref { first, eps, follow, reach }
}

fn check(src: &str, what: &str) -> Result<(), String> {
    let grm = match YaccGrammar::<u32>::new_with_storaget(YaccKind::Original(YaccOriginalActionKind::NoAction), src) { Ok(g) => g, Err(_) => return Ok(()) };
    let rf = reference(&grm);
    let nr = usize::from(grm.rules_len());
    let nt = usize::from(grm.tokens_len());
    if what == "firsts" || what == "all" {
        let f = grm.firsts();
        for r in 0..nr {
            if f.is_epsilon_set(RIdx(r as u32)) != rf.eps[r] { return Err(format!("epsilon flag of rule {} is {} but should be {}", r, !rf.eps[r], rf.eps[r])); }
            for t in 0..nt { if f.is_set(RIdx(r as u32), TIdx(t as u32)) != rf.first[r][t] { return Err(format!("FIRST(rule {}) {} token {} but should{}", r, if rf.first[r][t] { "lacks" } else { "has" }, t, if rf.first[r][t] { "" } else { " not" })); } }
        }
    }
    if what == "follows" || what == "all" {
        let f = grm.follows();
        for r in 0..nr { for t in 0..nt { if f.is_set(RIdx(r as u32), TIdx(t as u32)) != rf.follow[r][t] { return Err(format!("FOLLOW(rule {}) {} token {}", r, if rf.follow[r][t] { "lacks" } else { "wrongly has" }, t)); } } }
    }
    if what == "haspath" || what == "all" {
        for a in 0..nr { for b in 0..nr { if grm.has_path(RIdx(a as u32), RIdx(b as u32)) != rf.reach[a][b] { return Err(format!("has_path({}, {}) is {} but should be {}", a, b, !rf.reach[a][b], rf.reach[a][b])); } } }
    }
    Ok(())
}

pub fn run(src: &str, what: &str) -> Outcome {
    let expected = "FIRST/epsilon/FOLLOW/has_path equal the textbook least fixed points, promptly".to_string();
    let (tx, rx) = mpsc::channel();
    let (s, w) = (src.to_string(), what.to_string());
    std::thread::spawn(move || { let _ = tx.send(catch_unwind(AssertUnwindSafe(|| check(&s, &w)))); });
    match rx.recv_timeout(Duration::from_millis(3000)) {
        Err(_) => Outcome { fails: true, observed: "no result after 3 s (hang)".into(), expected },
        Ok(Err(_)) => Outcome { fails: true, observed: "panic".into(), expected },
        Ok(Ok(Ok(()))) => Outcome { fails: false, observed: "agree".into(), expected },
        Ok(Ok(Err(e))) => Outcome { fails: true, observed: e, expected },
    }
}

const EXTRA: &[&str] = &[
    "%start S\n%%\nS: B C 'd';\nB: 'b';\nC: 'c' | ;",
    "%start S\n%%\nS: X 'z';\nX: Y;\nY: W;\nW: ;",
    "%start E\n%%\nE: T '+' E | T;\nT: F '*' T | F;\nF: '(' E ')' | 'n';",
    "%start S\n%%\nS: A B C 'x';\nA: 'a' | ;\nB: 'b' | ;\nC: 'c' | ;",
];

pub fn search(unit: &str, _tag: &str, tier: &str) -> Option<Value> {
    let what = match unit { "c17_firsts" => "firsts", "c17_follows" => "follows", "c17_haspath" => "haspath", _ => "all" };
    for g in EXTRA.iter().chain(grms::FIXED.iter()) {
        let o = run(g, what);
        if o.fails { return Some(witness("c17_sets", json!({"grammar": g, "what": what}), &o)); }
    }
    let n = if tier == "thorough" { 20000 } else { 2000 };
    for seed in 1..=n {
        let g = grms::random(seed);
        let o = run(&g, what);
        if o.fails { return Some(witness("c17_sets", json!({"grammar": g, "what": what}), &o)); }
    }
    None
}
