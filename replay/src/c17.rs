//! C17: FIRST / epsilon / FOLLOW / has_path against naive reference fixpoints written from
//! the textbook definitions, on small grammars built by the real YaccGrammar.
use crate::grms;
use crate::{witness, Outcome};
use cfgrammar::yacc::{YaccGrammar, YaccKind, YaccOriginalActionKind};
use cfgrammar::{PIdx, RIdx, Symbol, TIdx};
use serde_json::{json, Value};
use std::panic::{catch_unwind, AssertUnwindSafe};
use std::sync::mpsc;
use std::time::Duration;

struct Ref { first: Vec<Vec<bool>>, eps: Vec<bool>, follow: Vec<Vec<bool>>, reach: Vec<Vec<bool>> }

fn reference(grm: &YaccGrammar<u32>) -> Ref {
    let nr = usize::from(grm.rules_len());
    let nt = usize::from(grm.tokens_len());
    let np = usize::from(grm.prods_len());
    let prods: Vec<(usize, Vec<Symbol<u32>>)> = (0..np).map(|p| (usize::from(grm.prod_to_rule(PIdx(p as u32))), grm.prod(PIdx(p as u32)).to_vec())).collect();
    let mut first = vec![vec![false; nt]; nr];
    let mut eps = vec![false; nr];
    loop {
        let mut ch = false;
        for (r, syms) in &prods {
            let mut all_null = true;
            for s in syms {
                match s {
                    Symbol::Token(t) => { if !first[*r][usize::from(*t)] { first[*r][usize::from(*t)] = true; ch = true; } all_null = false; break; }
                    Symbol::Rule(q) => {
                        let q = usize::from(*q);
                        for t in 0..nt { if first[q][t] && !first[*r][t] { first[*r][t] = true; ch = true; } }
                        if !eps[q] { all_null = false; break; }
                    }
                }
            }
            if all_null && !eps[*r] { eps[*r] = true; ch = true; }
        }
        if !ch { break; }
    }
    let mut follow = vec![vec![false; nt]; nr];
    follow[usize::from(grm.start_rule_idx())][usize::from(grm.eof_token_idx())] = true;
    loop {
        let mut ch = false;
        for (r, syms) in &prods {
            for (i, s) in syms.iter().enumerate() {
                if let Symbol::Rule(b) = s {
                    let b = usize::from(*b);
                    let mut rest_null = true;
                    for n in &syms[i + 1..] {
                        match n {
                            Symbol::Token(t) => { if !follow[b][usize::from(*t)] { follow[b][usize::from(*t)] = true; ch = true; } rest_null = false; break; }
                            Symbol::Rule(c) => {
                                let c = usize::from(*c);
                                for t in 0..nt { if first[c][t] && !follow[b][t] { follow[b][t] = true; ch = true; } }
                                if !eps[c] { rest_null = false; break; }
                            }
                        }
                    }
                    if rest_null { for t in 0..nt { if follow[*r][t] && !follow[b][t] { follow[b][t] = true; ch = true; } } }
                }
            }
        }
        if !ch { break; }
    }
    // reach[a][b]: b reachable from a in >= 1 production steps
    let mut reach = vec![vec![false; nr]; nr];
    for (r, syms) in &prods { for s in syms { if let Symbol::Rule(q) = s { reach[*r][usize::from(*q)] = true; } } }
    for k in 0..nr { for a in 0..nr { for b in 0..nr { if reach[a][k] && reach[k][b] { reach[a][b] = true; } } } }
    Ref { first, eps, follow, reach }
}

fn check(src: &str, what: &str) -> Result<(), String> {
    let grm = match YaccGrammar::<u32>::new_with_storaget(YaccKind::Original(YaccOriginalActionKind::NoAction), src) { Ok(g) => g, Err(_) => return Ok(()) };
    let rf = reference(&grm);
    let nr = usize::from(grm.rules_len());
    let nt = usize::from(grm.tokens_len());
    if what == "firsts" || what == "all" {
        let f = grm.firsts();
        for r in 0..nr {
            if f.is_epsilon_set(RIdx(r as u32)) != rf.eps[r] { return Err(format!("epsilon flag of rule {} is {} but should be {}", r, !rf.eps[r], rf.eps[r])); }
            for t in 0..nt { if f.is_set(RIdx(r as u32), TIdx(t as u32)) != rf.first[r][t] { return Err(format!("FIRST(rule {}) {} token {} but should{}", r, if rf.first[r][t] { "lacks" } else { "has" }, t, if rf.first[r][t] { "" } else { " not" })); } }
        }
    }
    if what == "follows" || what == "all" {
        let f = grm.follows();
        for r in 0..nr { for t in 0..nt { if f.is_set(RIdx(r as u32), TIdx(t as u32)) != rf.follow[r][t] { return Err(format!("FOLLOW(rule {}) {} token {}", r, if rf.follow[r][t] { "lacks" } else { "wrongly has" }, t)); } } }
    }
    if what == "haspath" || what == "all" {
        for a in 0..nr { for b in 0..nr { if grm.has_path(RIdx(a as u32), RIdx(b as u32)) != rf.reach[a][b] { return Err(format!("has_path({}, {}) is {} but should be {}", a, b, !rf.reach[a][b], rf.reach[a][b])); } } }
    }
    Ok(())
}

pub fn run(src: &str, what: &str) -> Outcome {
    crate::note_case("c17_sets", json!({"grammar": src, "what": what}));
    let expected = "FIRST/epsilon/FOLLOW/has_path equal the textbook least fixed points, promptly".to_string();
    let (tx, rx) = mpsc::channel();
    let (s, w) = (src.to_string(), what.to_string());
    std::thread::spawn(move || { let _ = tx.send(catch_unwind(AssertUnwindSafe(|| check(&s, &w)))); });
    match rx.recv_timeout(crate::tmo(3000)) {
        Err(_) => Outcome { fails: true, observed: "no result after 3 s (hang)".into(), expected },
        Ok(Err(_)) => Outcome { fails: true, observed: "panic".into(), expected },
        Ok(Ok(Ok(()))) => Outcome { fails: false, observed: "agree".into(), expected },
        Ok(Ok(Err(e))) => Outcome { fails: true, observed: e, expected },
    }
}

// ---------------------------------------------------------------- sentence costs
/// reference minimum cost per rule (None: the rule derives no string), by relaxation over u64
fn ref_min(prods: &[(usize, Vec<Symbol<u32>>)], nr: usize, tc: &[u8]) -> Vec<Option<u64>> {
    let mut m: Vec<Option<u64>> = vec![None; nr];
    loop {
        let mut ch = false;
        for (r, syms) in prods {
            let mut c: Option<u64> = Some(0);
            for s in syms {
                c = match (c, s) {
                    (Some(c0), Symbol::Token(t)) => Some(c0 + tc[usize::from(*t)] as u64),
                    (Some(c0), Symbol::Rule(q)) => m[usize::from(*q)].map(|x| c0 + x),
                    (None, _) => None,
                };
            }
            if let Some(c) = c { if m[*r].map_or(true, |x| c < x) { m[*r] = Some(c); ch = true; } }
        }
        if !ch { return m; }
    }
}
/// does `rule` derive exactly `toks`?  (span table to a fixed point; fine for short strings)
fn derives(prods: &[(usize, Vec<Symbol<u32>>)], nr: usize, rule: usize, toks: &[u32]) -> bool {
    let n = toks.len();
    // d[r][i][j]: rule r derives toks[i..j]
    let mut d = vec![vec![vec![false; n + 1]; n + 1]; nr];
    loop {
        let mut ch = false;
        for (r, syms) in prods {
            for i in 0..=n {
                // positions reachable after matching a prefix of syms starting at i
                let mut cur = vec![false; n + 1];
                cur[i] = true;
                for s in syms {
                    let mut nxt = vec![false; n + 1];
                    for a in i..=n {
                        if !cur[a] { continue; }
                        match s {
                            Symbol::Token(t) => { if a < n && toks[a] == u32::from(*t) { nxt[a + 1] = true; } }
                            Symbol::Rule(q) => { for b in a..=n { if d[usize::from(*q)][a][b] { nxt[b] = true; } } }
                        }
                    }
                    cur = nxt;
                }
                for j in i..=n { if cur[j] && !d[*r][i][j] { d[*r][i][j] = true; ch = true; } }
            }
        }
        if !ch { break; }
    }
    d[rule][0][n]
}

fn check_costs(src: &str, costs: &[u8]) -> Result<(), String> {
    let grm = match YaccGrammar::<u32>::new_with_storaget(YaccKind::Original(YaccOriginalActionKind::NoAction), src) { Ok(g) => g, Err(_) => return Ok(()) };
    let nr = usize::from(grm.rules_len());
    let nt = usize::from(grm.tokens_len());
    let np = usize::from(grm.prods_len());
    let prods: Vec<(usize, Vec<Symbol<u32>>)> = (0..np).map(|p| (usize::from(grm.prod_to_rule(PIdx(p as u32))), grm.prod(PIdx(p as u32)).to_vec())).collect();
    let tc: Vec<u8> = (0..nt).map(|t| costs[t % costs.len()]).collect();
    let rmin = ref_min(&prods, nr, &tc);
    let rf = reference(&grm);
    let sg = grm.sentence_generator(|t| tc[usize::from(t)]);
    let productive = rmin.iter().all(|x| x.is_some());
    for r in 0..nr {
        let got = sg.min_sentence_cost(RIdx(r as u32));
        if let Some(m) = rmin[r] {
            if m < u16::MAX as u64 && got as u64 != m { return Err(format!("min_sentence_cost(rule {}) is {} but the cheapest derivable string costs {}", r, got, m)); }
        }
    }
    // maximum: judged only when every rule derives a sentence, every token costs something and no rule derives just itself
    // (then: unbounded iff a recursive rule is reachable)
    let positive = tc.iter().all(|c| *c > 0);
    let selfderiving = crate::c07::cyclic(&grm);
    if productive && positive && !selfderiving {
        // finite maxima over the acyclic part
        let mut mx: Vec<Option<u64>> = vec![None; nr];
        let unb: Vec<bool> = (0..nr).map(|r| rf.reach[r][r] || (0..nr).any(|q| rf.reach[r][q] && rf.reach[q][q])).collect();
        for _ in 0..=nr {
            for (r, syms) in &prods {
                if unb[*r] { continue; }
                let mut c: Option<u64> = Some(0);
                for s in syms {
                    c = match (c, s) {
                        (Some(c0), Symbol::Token(t)) => Some(c0 + tc[usize::from(*t)] as u64),
                        (Some(c0), Symbol::Rule(q)) => mx[usize::from(*q)].map(|x| c0 + x),
                        (None, _) => None,
                    };
                }
                if let Some(c) = c { if mx[*r].map_or(true, |x| c > x) { mx[*r] = Some(c); } }
            }
        }
        for r in 0..nr {
            let got = sg.max_sentence_cost(RIdx(r as u32));
            if unb[r] { if got.is_some() { return Err(format!("max_sentence_cost(rule {}) is {:?} but the rule derives strings of unbounded cost", r, got)); } }
            else if let Some(m) = mx[r] { if m < u16::MAX as u64 && got.map(|x| x as u64) != Some(m) { return Err(format!("max_sentence_cost(rule {}) is {:?} but the dearest derivable string costs {}", r, got, m)); } }
        }
    }
    // sentences: judged for every rule that derives a sentence (also when other rules of the grammar derive none), when
    // every token costs something and no rule derives just itself (otherwise a cheapest production can lead back to its
    // own rule at no cost and there are infinitely many minimal sentences)
    if !positive || selfderiving { return Ok(()); }
    for r in 0..nr {
        let m = match rmin[r] { Some(m) if m < 40 => m, _ => continue };
        let sent = sg.min_sentence(RIdx(r as u32));
        let c: u64 = sent.iter().map(|t| tc[usize::from(*t)] as u64).sum();
        let st: Vec<u32> = sent.iter().map(|t| u32::from(*t)).collect();
        if c != m { return Err(format!("min_sentence(rule {}) costs {} but the minimum is {}", r, c, m)); }
        if st.len() <= 12 && !derives(&prods, nr, r, &st) { return Err(format!("min_sentence(rule {}) = {:?} is not derivable from the rule", r, st)); }
        {
            let all = sg.min_sentences(RIdx(r as u32));
            if all.is_empty() { return Err(format!("min_sentences(rule {}) is empty", r)); }
            for s2 in all.iter().take(50) {
                let c2: u64 = s2.iter().map(|t| tc[usize::from(*t)] as u64).sum();
                let st2: Vec<u32> = s2.iter().map(|t| u32::from(*t)).collect();
                if c2 != m { return Err(format!("a sentence of min_sentences(rule {}) costs {} but the minimum is {}", r, c2, m)); }
                if st2.len() <= 12 && !derives(&prods, nr, r, &st2) { return Err(format!("a sentence of min_sentences(rule {}) = {:?} is not derivable", r, st2)); }
            }
        }
    }
    Ok(())
}

pub fn run_costs(src: &str, costs: &[u8]) -> Outcome {
    crate::note_case("c17_costs", json!({"grammar": src, "costs": costs}));
    let expected = "min/max sentence costs equal the true extremes, minimal sentences are derivable and have that cost, promptly".to_string();
    let (tx, rx) = mpsc::channel();
    let (s, c) = (src.to_string(), costs.to_vec());
    std::thread::spawn(move || { let _ = tx.send(catch_unwind(AssertUnwindSafe(|| check_costs(&s, &c)))); });
    match rx.recv_timeout(crate::tmo(3000)) {
        Err(_) => Outcome { fails: true, observed: "no result after 3 s (hang)".into(), expected },
        Ok(Err(_)) => Outcome { fails: true, observed: "panic".into(), expected },
        Ok(Ok(Ok(()))) => Outcome { fails: false, observed: "agree".into(), expected },
        Ok(Ok(Err(e))) => Outcome { fails: true, observed: e, expected },
    }
}

const COST_GRMS: &[&str] = &[
    "%start S\n%%\nS: 'a' | A;\nA: B;\nB: A;",
    "%start S\n%%\nS: 'a' | A;\nA: A 'x';",
    "%start S\n%%\nS: 'a' S 'b' | 'c';",
    "%start S\n%%\nS: A B;\nA: 'a' | ;\nB: 'b' B | 'c';",
    "%start S\n%%\nS: A A A;\nA: 'a' 'b' | 'c';",
    "%start S\n%%\nS: A; A: B 'x' 'x' | C; B: ; C: D; D: 'y';",
];
pub fn search_costs(tier: &str) -> Option<Value> {
    let cost_sets: [&[u8]; 4] = [&[1], &[1, 2, 3], &[0, 1], &[255, 1]];
    for g in COST_GRMS.iter().chain(EXTRA.iter()).chain(grms::FIXED.iter()) {
        for cs in cost_sets {
            let o = run_costs(g, cs);
            if o.fails { return Some(witness("c17_costs", json!({"grammar": g, "costs": cs}), &o)); }
        }
    }
    let n = if tier == "thorough" { 20000 } else { 2000 };
    for seed in 1..=n {
        let g = grms::random(seed);
        let cs = cost_sets[(seed % 4) as usize];
        let o = run_costs(&g, cs);
        if o.fails { return Some(witness("c17_costs", json!({"grammar": g, "costs": cs}), &o)); }
    }
    None
}

const EXTRA: &[&str] = &[
    "%start S\n%%\nS: B C 'd';\nB: 'b';\nC: 'c' | ;",
    "%start S\n%%\nS: X 'z';\nX: Y;\nY: W;\nW: ;",
    "%start E\n%%\nE: T '+' E | T;\nT: F '*' T | F;\nF: '(' E ')' | 'n';",
    "%start S\n%%\nS: A B C 'x';\nA: 'a' | ;\nB: 'b' | ;\nC: 'c' | ;",
];

pub fn search(unit: &str, _tag: &str, tier: &str) -> Option<Value> {
    if unit == "c17_costs" || unit == "c17_maxcost" || unit == "c17_sentence" { return search_costs(tier); }
    let what = match unit { "c17_firsts" => "firsts", "c17_follows" => "follows", "c17_haspath" => "haspath", _ => "all" };
    for g in EXTRA.iter().chain(grms::FIXED.iter()) {
        let o = run(g, what);
        if o.fails { return Some(witness("c17_sets", json!({"grammar": g, "what": what}), &o)); }
    }
    let n = if tier == "thorough" { 20000 } else { 2000 };
    for seed in 1..=n {
        let g = grms::random(seed);
        let o = run(&g, what);
        if o.fails { return Some(witness("c17_sets", json!({"grammar": g, "what": what}), &o)); }
    }
    None
}
