//! C10: every index the grammar API hands out is in range for every per-production /
//! per-rule / per-token accessor.
use crate::{witness, Outcome};
use cfgrammar::yacc::{YaccGrammar, YaccKind, YaccOriginalActionKind};
use cfgrammar::{PIdx, RIdx, TIdx};
use serde_json::{json, Value};
use std::panic::{catch_unwind, AssertUnwindSafe};

const GRMS: &[(&str, &str)] = &[
    ("orig", "%start S\n%%\nS: 'x' { 1 } | A;\nA: 'y';"),
    ("orig", "%start S\n%avoid_insert 'x'\n%%\nS: 'x' | 'y';"),
    ("eco", "%start S\n%implicit_tokens ws\n%%\nS: 'x' 'y';"),
    ("eco", "%start S\n%implicit_tokens ws nl\n%avoid_insert 'x'\n%%\nS: 'x' | ;"),
];

pub fn run(kind: &str, src: &str) -> Outcome {
    crate::note_case("c10_api", json!({"kind": kind, "grammar": src}));
    let expected = "every accessor answers for every index below the corresponding *_len()".to_string();
    let yk = if kind == "eco" { YaccKind::Eco } else { YaccKind::Original(YaccOriginalActionKind::UserAction) };
    let grm = match YaccGrammar::<u32>::new_with_storaget(yk, src) { Ok(g) => g, Err(_) => return Outcome { fails: false, observed: "not a grammar".into(), expected } };
    let mut bad: Option<String> = None;
    macro_rules! probe { ($what:expr, $e:expr) => { if bad.is_none() && catch_unwind(AssertUnwindSafe(|| { let _ = $e; })).is_err() { bad = Some($what); } }; }
    for p in 0..usize::from(grm.prods_len()) {
        let pidx = PIdx(p as u32);
        probe!(format!("prod({})", p), grm.prod(pidx));
        probe!(format!("prod_len({})", p), grm.prod_len(pidx));
        probe!(format!("prod_to_rule({})", p), grm.prod_to_rule(pidx));
        probe!(format!("prod_precedence({})", p), grm.prod_precedence(pidx));
        probe!(format!("action({})", p), grm.action(pidx));
        probe!(format!("action_span({})", p), grm.action_span(pidx));
        probe!(format!("prod_span({})", p), grm.prod_span(pidx));
    }
    for r in 0..usize::from(grm.rules_len()) {
        let ridx = RIdx(r as u32);
        probe!(format!("rule_name_span({})", r), grm.rule_name_span(ridx));
        probe!(format!("rule_to_prods({})", r), grm.rule_to_prods(ridx));
        probe!(format!("rule_name_str({})", r), grm.rule_name_str(ridx));
        probe!(format!("actiontype({})", r), grm.actiontype(ridx));
    }
    for t in 0..usize::from(grm.tokens_len()) {
        let tidx = TIdx(t as u32);
        probe!(format!("token_name({})", t), grm.token_name(tidx));
        probe!(format!("token_precedence({})", t), grm.token_precedence(tidx));
        probe!(format!("token_epp({})", t), grm.token_epp(tidx));
        probe!(format!("token_span({})", t), grm.token_span(tidx));
        probe!(format!("avoid_insert({})", t), grm.avoid_insert(tidx));
    }
    match bad {
        Some(w) => Outcome { fails: true, observed: format!("{} panics ({} productions, {} rules, {} tokens)", w, usize::from(grm.prods_len()), usize::from(grm.rules_len()), usize::from(grm.tokens_len())), expected },
        None => Outcome { fails: false, observed: "all in range".into(), expected },
    }
}


// ---------------------------------------------------------------- declaration order
/// The grammar a source denotes does not depend on the order of its declarations (other than the relative
/// order of the precedence lines, which sets their levels): two renderings of the same declarations are
/// built and their language-level content compared by name.
fn content(g: &YaccGrammar<u32>) -> Vec<String> {
    let mut v = Vec::new();
    let mut toks: Vec<String> = g.iter_tidxs().map(|t| format!("token {:?} prec {:?} avoid {} epp {:?}", g.token_name(t), g.token_precedence(t), g.avoid_insert(t), g.token_epp(t))).collect();
    toks.sort();
    v.extend(toks);
    let mut prods: Vec<String> = (0..usize::from(g.prods_len())).map(|p| format!("{} prec {:?}", g.pp_prod(PIdx(p as u32)), g.prod_precedence(PIdx(p as u32)))).collect();
    prods.sort();
    v.extend(prods);
    v
}

pub fn run_order(decls: &[String], body: &str, perm: &[usize]) -> Outcome {
    let expected = "the same grammar whatever the order of the declarations".to_string();
    let render = |order: &[usize]| { let mut s = String::from("%start S\n"); for &k in order { s.push_str(&decls[k]); s.push('\n'); } s.push_str("%%\n"); s.push_str(body); s };
    let ident: Vec<usize> = (0..decls.len()).collect();
    let yk = YaccKind::Original(YaccOriginalActionKind::NoAction);
    let a = YaccGrammar::<u32>::new_with_storaget(yk, &render(&ident));
    let b = YaccGrammar::<u32>::new_with_storaget(yk, &render(perm));
    match (a, b) {
        (Ok(ga), Ok(gb)) => { let (ca, cb) = (content(&ga), content(&gb)); Outcome { fails: ca != cb, observed: if ca != cb { format!("{:?} vs {:?}", ca, cb) } else { "same".into() }, expected } }
        (Err(_), Err(_)) => Outcome { fails: false, observed: "both rejected".into(), expected },
        (Ok(_), Err(e)) => Outcome { fails: true, observed: format!("accepted as {:?} but rejected as {:?}: {}", render(&ident), render(perm), e.iter().map(|x| x.to_string()).collect::<Vec<_>>().join("; ")), expected },
        (Err(e), Ok(_)) => Outcome { fails: true, observed: format!("rejected as {:?} but accepted as {:?}: {}", render(&ident), render(perm), e.iter().map(|x| x.to_string()).collect::<Vec<_>>().join("; ")), expected },
    }
}

fn search_order(tier: &str) -> Option<Value> {
    let n = if tier == "thorough" { 4000 } else { 500 };
    let mut r = crate::grms::Rng(0x2545F4914F6CDD1D);
    let names = ["INT", "PLUS"];
    for _ in 0..n {
        // commuting declarations over the names; at most one precedence line (their relative order would matter)
        let mut decls: Vec<String> = Vec::new();
        for _ in 0..1 + r.below(3) {
            let kind = ["%token", "%avoid_insert", "%token", "%expect-unused"][r.below(4)];
            let mut d = String::from(kind);
            for _ in 0..1 + r.below(2) { d.push(' '); d.push_str(names[r.below(2)]); }
            decls.push(d);
        }
        if r.below(3) == 0 { decls.push(format!("%left {}", names[r.below(2)])); }
        let body = "S: S PLUS INT | INT;";
        let mut perm: Vec<usize> = (0..decls.len()).collect();
        for i in (1..perm.len()).rev() { let j = r.below(i + 1); perm.swap(i, j); }
        let o = run_order(&decls, body, &perm);
        if o.fails { return Some(witness("c10_order", json!({"decls": decls, "body": body, "perm": perm}), &o)); }
    }
    None
}

pub fn search(tag: &str, tier: &str) -> Option<Value> {
    let want_avoid = tag.contains("avoid_insert");
    let mut other = None;
    for (k, g) in GRMS {
        let o = run(k, g);
        if o.fails {
            let w = witness("c10_api", json!({"kind": k, "grammar": g}), &o);
            if o.observed.starts_with("avoid_insert") == want_avoid { return Some(w); }
            if other.is_none() { other = Some(w); }
        }
    }
    if other.is_some() { return other; }
    search_order(tier)
}
