//! C10: every index the grammar API hands out is in range for every per-production /
//! per-rule / per-token accessor.
use crate::{witness, Outcome};
use cfgrammar::yacc::{YaccGrammar, YaccKind, YaccOriginalActionKind};
use cfgrammar::{PIdx, RIdx, TIdx};
use serde_json::{json, Value};
use std::panic::{catch_unwind, AssertUnwindSafe};

const GRMS: &[(&str, &str)] = &[
    ("orig", "%start S\n%%\nS: 'x' { 1 } | A;\nA: 'y';"),
    ("orig", "%start S\n%avoid_insert 'x'\n%%\nS: 'x' | 'y';"),
    ("eco", "%start S\n%implicit_tokens ws\n%%\nS: 'x' 'y';"),
    ("eco", "%start S\n%implicit_tokens ws nl\n%avoid_insert 'x'\n%%\nS: 'x' | ;"),
];

pub fn run(kind: &str, src: &str) -> Outcome {
    let expected = "every accessor answers for every index below the corresponding *_len()".to_string();
    let yk = if kind == "eco" { YaccKind::Eco } else { YaccKind::Original(YaccOriginalActionKind::UserAction) };
    let grm = match YaccGrammar::<u32>::new_with_storaget(yk, src) { Ok(g) => g, Err(_) => return Outcome { fails: false, observed: "not a grammar".into(), expected } };
    let mut bad: Option<String> = None;
    macro_rules! probe { ($what:expr, $e:expr) => { if bad.is_none() && catch_unwind(AssertUnwindSafe(|| { let _ = $e; })).is_err() { bad = Some($what); } }; }
    for p in 0..usize::from(grm.prods_len()) {
        let pidx = PIdx(p as u32);
        probe!(format!("prod({})", p), grm.prod(pidx));
        probe!(format!("prod_len({})", p), grm.prod_len(pidx));
        probe!(format!("prod_to_rule({})", p), grm.prod_to_rule(pidx));
        probe!(format!("prod_precedence({})", p), grm.prod_precedence(pidx));
        probe!(format!("action({})", p), grm.action(pidx));
        probe!(format!("action_span({})", p), grm.action_span(pidx));
    }
    for r in 0..usize::from(grm.rules_len()) {
        let ridx = RIdx(r as u32);
        probe!(format!("rule_to_prods({})", r), grm.rule_to_prods(ridx));
        probe!(format!("rule_name_str({})", r), grm.rule_name_str(ridx));
        probe!(format!("actiontype({})", r), grm.actiontype(ridx));
    }
    for t in 0..usize::from(grm.tokens_len()) {
        let tidx = TIdx(t as u32);
        probe!(format!("token_name({})", t), grm.token_name(tidx));
        probe!(format!("token_precedence({})", t), grm.token_precedence(tidx));
        probe!(format!("token_epp({})", t), grm.token_epp(tidx));
        probe!(format!("token_span({})", t), grm.token_span(tidx));
        probe!(format!("avoid_insert({})", t), grm.avoid_insert(tidx));
    }
    match bad {
        Some(w) => Outcome { fails: true, observed: format!("{} panics ({} productions, {} rules, {} tokens)", w, usize::from(grm.prods_len()), usize::from(grm.rules_len()), usize::from(grm.tokens_len())), expected },
        None => Outcome { fails: false, observed: "all in range".into(), expected },
    }
}

pub fn search(tag: &str, _tier: &str) -> Option<Value> {
    let want_avoid = tag.contains("avoid_insert");
    let mut other = None;
    for (k, g) in GRMS {
        let o = run(k, g);
        if o.fails {
            let w = witness("c10_api", json!({"kind": k, "grammar": g}), &o);
            if o.observed.starts_with("avoid_insert") == want_avoid { return Some(w); }
            if other.is_none() { other = Some(w); }
        }
    }
    other
}
