//! C03: a compile-time build fails iff the conflict counts differ from %expect / %expect-rr.
use crate::{witness, Outcome};
use cfgrammar::yacc::{YaccGrammar, YaccKind, YaccOriginalActionKind};
use lrlex::DefaultLexerTypes;
use lrpar::CTParserBuilder;
use lrtable::{from_yacc, Minimiser};
use serde_json::{json, Value};
use std::panic::{catch_unwind, AssertUnwindSafe};

const BODIES: &[&str] = &[
    "S: 'x';",
    "E: E '+' E | 'n';",
    "S: A | B;\nA: 'a';\nB: 'a';",
    "A: 'a' 'b' | B 'b';\nB: 'a';",
];
fn start_of(body: &str) -> &str { &body[..body.find(':').unwrap()] }

pub fn run(body: &str, expect: Option<usize>, expectrr: Option<usize>) -> Outcome {
    let mut src = format!("%start {}\n", start_of(body));
    if let Some(n) = expect { src.push_str(&format!("%expect {}\n", n)); }
    if let Some(n) = expectrr { src.push_str(&format!("%expect-rr {}\n", n)); }
    src.push_str("%%\n");
    src.push_str(body);
    let yk = YaccKind::Original(YaccOriginalActionKind::GenericParseTree);
    let grm = YaccGrammar::<u32>::new_with_storaget(yk, &src).expect("grammar");
    let (_, st) = from_yacc(&grm, Minimiser::Pager).expect("table");
    let (sr, rr) = st.conflicts().map(|c| (c.sr_len(), c.rr_len())).unwrap_or((0, 0));
    let should_fail = expect.unwrap_or(0) != sr || expectrr.unwrap_or(0) != rr;
    static N: std::sync::atomic::AtomicUsize = std::sync::atomic::AtomicUsize::new(0);
    let k = N.fetch_add(1, std::sync::atomic::Ordering::SeqCst);
    // (the builder refuses to generate to the same output path twice in one process)
    let dir = std::env::temp_dir().join(format!("verif_c03_{}_{}", std::process::id(), k));
    let _ = std::fs::create_dir_all(&dir);
    let gp = dir.join("grm.y");
    std::fs::write(&gp, &src).unwrap();
    let r = catch_unwind(AssertUnwindSafe(|| {
        CTParserBuilder::<DefaultLexerTypes<u32>>::new()
            .yacckind(yk)
            .grammar_path(gp.to_str().unwrap())
            .output_path(gp.with_extension("ignored"))
            .build()
            .is_err()
    }));
    let _ = std::fs::remove_dir_all(&dir);
    let expected = format!("{} shift/reduce and {} reduce/reduce conflicts: build should {}", sr, rr, if should_fail { "fail" } else { "succeed" });
    match r {
        Err(_) => Outcome { fails: true, observed: "panic".into(), expected },
        Ok(failed) => Outcome { fails: failed != should_fail, observed: format!("build {}", if failed { "failed" } else { "succeeded" }), expected },
    }
}

pub fn search(tag: &str, _tier: &str) -> Option<Value> {
    let want_noconf = tag.contains("no_conflicts_at_all");
    let mut other: Option<Value> = None;
    for b in BODIES {
        for e in [None, Some(0), Some(1), Some(2)] {
            for er in [None, Some(0), Some(1)] {
                let o = run(b, e, er);
                if o.fails {
                    let noconf = o.expected.starts_with("0 shift/reduce and 0 reduce/reduce");
                    let w = witness("c03_expect", json!({"body": b, "expect": e, "expectrr": er}), &o);
                    if noconf == want_noconf { return Some(w); }
                    let _ = &mut other;
                }
            }
        }
    }
    other
}
