//! Witnesses of recorded findings that no sweep family is shaped for: each case builds one input, asks the real code one
//! question and says what the property demands.  Replayed by ./check on every run (known_findings.json, replay_witness).
use crate::Outcome;
use cfgrammar::yacc::{YaccGrammar, YaccKind, YaccOriginalActionKind};
use cfgrammar::{PIdx, RIdx};
use serde_json::json;
use std::panic::{catch_unwind, AssertUnwindSafe};

fn grm(kind: YaccKind, src: &str) -> Result<YaccGrammar<u32>, String> {
    match catch_unwind(AssertUnwindSafe(|| YaccGrammar::<u32>::new_with_storaget(kind, src))) {
        Err(_) => Err("panic".into()),
        Ok(Err(e)) => Err(format!("rejected: {}", e.iter().map(|x| x.to_string()).collect::<Vec<_>>().join("; "))),
        Ok(Ok(g)) => Ok(g),
    }
}
fn out(fails: bool, observed: String, expected: &str) -> Outcome { Outcome { fails, observed, expected: expected.to_string() } }

/// `replay --witness {"driver":"known","input":{"case":..}}`
pub fn run(case: &str) -> Option<Outcome> {
    let ua = YaccKind::Original(YaccOriginalActionKind::UserAction);
    let na = YaccKind::Original(YaccOriginalActionKind::NoAction);
    Some(match case {
        // C10: a production's span points at the text that defines it, whatever comes between its last symbol and its action
        "c10_prod_span_before_action" => {
            let src = "%start A\n%%\nA: 'a' /* c */ { x } | 'b';";
            let exp = "prod_span of the first production reads \"'a'\"";
            match grm(ua, src) { Err(e) => out(true, e, exp), Ok(g) => { let sp = g.prod_span(PIdx(0)); let t = &src[sp.start()..sp.end()]; out(t != "'a'", format!("prod_span reads {:?}", t), exp) } }
        }
        // C10 / C12: the span of an action reads the action's text (and can be sliced out of the source at all)
        "c10_action_span_reads_the_action" => {
            let src = "%start A\n%%\nA: 'b' { a\u{e9}};";
            let exp = "action_span of the production reads \"a\u{e9}\"";
            match grm(ua, src) { Err(e) => out(true, e, exp), Ok(g) => { let sp = g.action_span(PIdx(0)).unwrap(); let t = src.get(sp.start()..sp.end()); out(t != Some("a\u{e9}"), format!("action_span {}..{} reads {:?}", sp.start(), sp.end(), t), exp) } }
        }
        // C10: the action type is the type written, not the rest of the line
        "c10_actiontype_with_comment" => {
            let src = "%start A\n%actiontype u32 // the value\n%%\nA: 'a' { 1 };";
            let exp = "actiontype of A is \"u32\"";
            match grm(ua, src) { Err(e) => out(true, e, exp), Ok(g) => { let t = g.actiontype(g.rule_idx("A").unwrap()).clone(); out(t.as_deref() != Some("u32"), format!("actiontype is {:?}", t), exp) } }
        }
        // C10: a comment that runs over a line end inside a precedence line is layout, as it is in a %token line or a rule
        "c10_comment_newline_in_prec_line" => {
            let src = "%start E\n%left '+' /* plus\n and */ '-'\n%%\nE: E '+' E | E '-' E | 'n';";
            let exp = "the grammar is built and '-' has the precedence of its %left line";
            match grm(na, src) { Err(e) => out(true, e, exp), Ok(g) => { let ok = g.token_idx("-").and_then(|t| g.token_precedence(t)).is_some(); out(!ok, format!("'-' has a precedence: {}", ok), exp) } }
        }
        // C10: action code comes out as written; a brace inside a string literal of the action is not the action's end
        "c10_brace_in_action_string" => {
            let src = "%start A\n%actiontype u32\n%%\nA: 'a' { \"{\" } ;\nB: 'b' { \"}\" } ;";
            let exp = "two rules A and B, the action of A's production being \"{\" in quotes";
            match grm(ua, src) { Err(e) => out(true, e, exp), Ok(g) => { let has_b = g.rule_idx("B").is_some(); let a = g.action(PIdx(0)).clone(); out(!has_b, format!("rule B exists: {}; action of production 0: {:?}", has_b, a), exp) } }
        }
        // C17: the maximum sentence cost is the true maximum; None only when sentences of unbounded cost exist
        "c17_max_cost_with_unit_cycle" => {
            let src = "%start A\n%%\nA: A | 'a';";
            let exp = "max_sentence_cost(A) = Some(1): the only sentence is 'a'";
            match grm(na, src) { Err(e) => out(true, e, exp), Ok(g) => {
                let r = catch_unwind(AssertUnwindSafe(|| g.sentence_generator(|_| 1).max_sentence_cost(g.rule_idx("A").unwrap())));
                match r { Err(_) => out(true, "panic".into(), exp), Ok(v) => out(v != Some(1), format!("max_sentence_cost(A) = {:?}", v), exp) }
            } }
        }
        // C17: min_sentence returns (in a child process: the failure is unbounded growth)
        "c17_min_sentence_returns" => return Some(in_child("c17_min_sentence_inner", 4000, "min_sentence(A) returns the sentence 'b' (cost 1)")),
        "c17_min_sentence_inner" => {
            let src = "%start A\n%%\nA: B;\nB: A | 'b';";
            let exp = "min_sentence(A) = ['b']";
            match grm(na, src) { Err(e) => out(true, e, exp), Ok(g) => { let s = g.sentence_generator(|_| 1).min_sentence(RIdx(u32::from(g.rule_idx("A").unwrap()))); out(s.len() != 1, format!("{} tokens", s.len()), exp) } }
        }
        // C11: lexer specifications (flags in force, the escape rule, what the written regex denotes)
        "c11_escaped_blank_under_ignore_whitespace" | "c11_hash_under_ignore_whitespace" | "c11_unbalanced_regex_is_refused" | "c11_unknown_flag_is_refused" | "c11_inline_x_flag_comment" => {
            use lrlex::{DefaultLexerTypes, LRNonStreamingLexerDef, LexerDef};
            use lrpar::{Lexeme, Lexer};
            let (spec, input, want, exp): (&str, &str, Result<Vec<(usize, usize)>, ()>, &str) = match case {
                "c11_escaped_blank_under_ignore_whitespace" => ("%grmtools{ignore_whitespace}\n%%\na\\ b 'x'\n", "a b", Ok(vec![(0, 3)]), "with ignore_whitespace an escaped blank still stands for a blank: \"a b\" is one lexeme"),
                "c11_hash_under_ignore_whitespace" => ("%grmtools{ignore_whitespace}\n%%\na#b 'x'\nc 'y'\n", "a", Ok(vec![(0, 1)]), "with ignore_whitespace `a#b` is `a` followed by a comment: the specification is accepted and \"a\" is one lexeme"),
                "c11_unbalanced_regex_is_refused" => ("%%\na)|(b 'x'\nc 'y'\n", "cb", Err(()), "`a)|(b` is not a regular expression: the specification is refused"),
                "c11_inline_x_flag_comment" => ("%%\n(?x)a#b 'x'\nc 'y'\n", "a", Ok(vec![(0, 1)]), "`(?x)a#b` is `a` followed by a comment (the regex crate accepts it on its own): the specification is accepted and \"a\" is one lexeme"),
                _ => ("%grmtools{case_insensitve}\n%%\na 'x'\n", "a", Err(()), "a flag name that does not exist is refused"),
            };
            let r = catch_unwind(AssertUnwindSafe(|| {
                let def = LRNonStreamingLexerDef::<DefaultLexerTypes<u32>>::from_str(spec).map_err(|_| ())?;
                let lexer = def.lexer(input);
                let mut v = Vec::new();
                for l in lexer.iter() { match l { Ok(l) => v.push((l.span().start(), l.span().len())), Err(_) => { v.push((usize::MAX, 0)); break; } } }
                Ok::<_, ()>(v)
            }));
            match r { Err(_) => out(true, "panic".into(), exp), Ok(got) => out(got != want, match &got { Ok(v) => format!("accepted; {:?} lexes as (start, length) {:?}", input, v), Err(()) => "refused".to_string() }, exp) }
        }
        // C12: a lex specification that lifts the nesting limit and nests deeply (in a child process: the failure is a stack overflow)
        "c12_deep_regex_with_nest_limit_lifted" => return Some(in_child("c12_deep_regex_inner", 60000, "a value or a non-empty list of located errors")),
        "c12_deep_regex_inner" => {
            use lrlex::{DefaultLexerTypes, LRNonStreamingLexerDef, LexerDef};
            let exp = "a value or a non-empty list of located errors";
            let n = 20000;
            let spec = format!("%grmtools{{nest_limit: 4294967295}}\n%%\n{}a{} 'a'\n", "(".repeat(n), ")".repeat(n));
            let r = catch_unwind(AssertUnwindSafe(|| LRNonStreamingLexerDef::<DefaultLexerTypes<u32>>::from_str(&spec).map(|_| ()).map_err(|e| e.len())));
            match r { Err(_) => out(true, "panic".into(), exp), Ok(Ok(())) => out(false, "a value".into(), exp), Ok(Err(k)) => out(k == 0, format!("{} error(s)", k), exp) }
        }
        // C10: a comment between the type of a Grmtools rule and its colon
        "c10_grmtools_rule_type_with_comment" => {
            let src = "%start A\n%%\nA -> u32 /* c */ : 'a' { 1 };";
            let exp = "the action type of A is u32";
            match grm(YaccKind::Grmtools, src) { Err(e) => out(true, e, exp), Ok(g) => { let t = g.actiontype(g.rule_idx("A").unwrap()).clone(); out(t.as_deref() != Some("u32"), format!("actiontype is {:?}", t), exp) } }
        }
        // C20: the conflicts reported for one grammar are the same in every width
        "c20_reported_conflicts_in_every_width" => {
            use lrtable::{from_yacc, Minimiser};
            let src = "%start S\n%%\nS: A | B | C;\nA: 'a';\nB: 'a';\nC: 'a';\n";
            let exp = "the same reduce/reduce conflicts (pairs of productions) with u8, u16 and u32";
            let yk = YaccKind::Original(YaccOriginalActionKind::NoAction);
            let r = catch_unwind(AssertUnwindSafe(|| {
                let g8 = YaccGrammar::<u8>::new_with_storaget(yk, src).ok()?; let (_, t8) = from_yacc(&g8, Minimiser::Pager).ok()?;
                let g32 = YaccGrammar::<u32>::new_with_storaget(yk, src).ok()?; let (_, t32) = from_yacc(&g32, Minimiser::Pager).ok()?;
                let mut a: Vec<(usize, usize)> = t8.conflicts()?.rr_conflicts().map(|(_, p, q, _)| (usize::from(*p), usize::from(*q))).collect();
                let mut b: Vec<(usize, usize)> = t32.conflicts()?.rr_conflicts().map(|(_, p, q, _)| (usize::from(*p), usize::from(*q))).collect();
                a.sort(); b.sort();
                Some((a, b))
            }));
            match r { Err(_) => out(true, "panic".into(), exp), Ok(None) => out(false, "not built".into(), exp), Ok(Some((a, b))) => out(a != b, format!("u8 reports the pairs {:?}, u32 {:?}", a, b), exp) }
        }
        // C19: error pretty-printing does not panic on an error that points at two places
        "c19_format_error_with_two_spans" => {
            use lrpar::diagnostics::{DiagnosticFormatter, SpannedDiagnosticFormatter};
            use std::str::FromStr;
            let src = "%grmtools{yacckind: Foo::Bar}\n%%\nS: 'a';\n";
            let exp = "every error of the specification is rendered";
            let r = catch_unwind(AssertUnwindSafe(|| {
                let info = cfgrammar::yacc::ast::ASTWithValidityInfo::from_str(src);
                let errs = match info { Ok(i) => i.errors().to_vec(), Err(e) => e };
                let f = SpannedDiagnosticFormatter::new(src, std::path::Path::new("g.y"));
                errs.iter().map(|e| f.format_error(e.clone()).to_string()).collect::<Vec<_>>().join("|")
            }));
            match r { Err(_) => out(true, "panic".into(), exp), Ok(t) => out(t.is_empty(), format!("{} bytes of diagnostics", t.len()), exp) }
        }
        // C19: the conflict report of an Eco grammar whose conflict involves a production the constructor added
        "c19_format_conflicts_of_an_added_production" => {
            use lrlex::DefaultLexerTypes;
            use lrpar::diagnostics::SpannedDiagnosticFormatter;
            use lrtable::{from_yacc, Minimiser};
            let src = "%start S\n%implicit_tokens WS\n%%\nS: 'a' | 'a' 'WS' ;\n";
            let exp = "the conflicts are rendered";
            let r = catch_unwind(AssertUnwindSafe(|| {
                let info = cfgrammar::yacc::ast::ASTWithValidityInfo::new(YaccKind::Eco, src);
                let g = YaccGrammar::<u32>::new_from_ast_with_validity_info(&info).ok()?;
                let (sg, st) = from_yacc(&g, Minimiser::Pager).ok()?;
                let c = st.conflicts()?;
                let f = SpannedDiagnosticFormatter::new(src, std::path::Path::new("g.y"));
                Some(f.format_conflicts::<DefaultLexerTypes<u32>>(&g, info.ast(), c, &sg, &st))
            }));
            match r { Err(_) => out(true, "panic".into(), exp), Ok(None) => out(false, "no conflicts to render".into(), exp), Ok(Some(t)) => out(t.is_empty(), format!("{} bytes of diagnostics", t.len()), exp) }
        }
        // C07: a parse returns (in a child process: the failure is a stack overflow when the recoverer's copy of a deep
        // parse stack is freed)
        "c07_deeply_nested_input_returns" => return Some(in_child("c07_deep_inner", 60000, "the parse of 600000 opening and 600000 closing brackets (one n missing between them) returns, with one error and its repairs")),
        "c07_deep_inner" => {
            use lrlex::{DefaultLexerTypes, LRNonStreamingLexerDef, LexerDef};
            use lrpar::{RTParserBuilder, RecoveryKind};
            use lrtable::{from_yacc, Minimiser};
            let exp = "one error with repairs";
            let g = match grm(YaccKind::Original(YaccOriginalActionKind::GenericParseTree), "%start E\n%%\nE: '(' E ')' | 'n';") { Ok(g) => g, Err(e) => return Some(out(true, e, exp)) };
            let (_, stable) = from_yacc(&g, Minimiser::Pager).ok()?;
            let mut ld = LRNonStreamingLexerDef::<DefaultLexerTypes<u32>>::from_str("%%\n\\( '('\n\\) ')'\nn 'n'\n").ok()?;
            let ids: std::collections::HashMap<&str, u32> = g.tokens_map().into_iter().map(|(k, v)| (k, u32::from(v))).collect();
            ld.set_rule_ids(&ids);
            let n = 600_000;
            let input = format!("{}{}", "(".repeat(n), ")".repeat(n));
            let lexer = ld.lexer(&input);
            let (_, errs) = RTParserBuilder::new(&g, &stable).recoverer(RecoveryKind::CPCTPlus).parse_map(&lexer, &|_| (), &|_, _| ());
            out(errs.len() != 1, format!("{} error(s)", errs.len()), exp)
        }
        _ => return None,
    })
}

/// run another case of this driver in a child process and kill it after `ms` milliseconds
fn in_child(case: &str, ms: u64, expected: &str) -> Outcome {
    let exe = match std::env::current_exe() { Ok(e) => e, Err(_) => return out(false, "cannot find the replay binary".into(), expected) };
    let w = json!({"driver": "known", "input": {"case": case}}).to_string();
    let mut child = match std::process::Command::new(exe).arg("--witness").arg(&w).stdout(std::process::Stdio::piped()).stderr(std::process::Stdio::null()).spawn() {
        Ok(c) => c, Err(e) => return out(false, format!("cannot start the child process: {}", e), expected) };
    let t0 = std::time::Instant::now();
    loop {
        match child.try_wait() {
            Ok(Some(st)) => {
                let mut so = String::new();
                if let Some(mut o) = child.stdout.take() { use std::io::Read; let _ = o.read_to_string(&mut so); }
                if !st.success() { return out(true, format!("the process running the case died ({}): a stack overflow aborts the whole process", st), expected); }
                return out(!so.contains("NOW-PASSES"), so.trim().to_string(), expected);
            }
            Ok(None) => {
                if t0.elapsed().as_millis() as u64 > ms { let _ = child.kill(); let _ = child.wait(); return out(true, format!("no result after {} ms (the call does not return; the child process was killed)", ms), expected); }
                std::thread::sleep(std::time::Duration::from_millis(20));
            }
            Err(_) => return out(false, "cannot wait for the child process".into(), expected),
        }
    }
}
