#!/bin/sh
# run every seeded change against the check of its property (scratch worktree /tmp/gw); one line per seed
cd /verif
for d in seeded/*; do
  id=$(basename $d); prop=$(python3 -c "import json; print(json.load(open('$d/meta.json'))['property'])")
  out=$(tools/tryseed.sh $prop /verif/$d/patch.diff 2>&1)
  rc=$(echo "$out" | grep "^rc=" | tail -1)
  obl=$(echo "$out" | grep "obligation" | head -1 | sed 's/^ *//' | cut -c1-150)
  und=$(echo "$out" | grep "^UNDECIDED" | head -1 | cut -c1-150)
  echo "$id $prop $rc | $obl $und"
done
