#!/bin/sh
# tools/tryseed.sh <prop> <patch>  : apply patch to scratch worktree /tmp/gw (at /repo HEAD), run the check there, undo
P=$1; PATCH=$2
[ -d /tmp/gw ] || git -C /repo worktree add -f --detach /tmp/gw HEAD >/dev/null 2>&1
cd /tmp/gw && git checkout -q --detach 2>/dev/null; git reset -q --hard $(git -C /repo rev-parse HEAD) && git apply "$PATCH" || { echo "patch does not apply"; exit 3; }
cd /verif && VERIF_REPO=/tmp/gw ./check $P --tier ${3:-quick}; rc=$?
cd /tmp/gw && git checkout -q -- . && git clean -fdq
echo "rc=$rc"
