#!/bin/sh
# tools/tryseed.sh <prop> <patch> [tier] : apply patch to a scratch worktree (default /tmp/gw, at /repo HEAD),
# run this checkout's check there, undo.  GW=<dir> picks another scratch worktree.
P=$1; PATCH=$2
V=$(cd "$(dirname "$0")/.." && pwd)
GW=${GW:-/tmp/gw}
[ -d $GW ] || git -C /repo worktree add -f --detach $GW HEAD >/dev/null 2>&1
cd $GW && git checkout -q --detach 2>/dev/null; git reset -q --hard $(git -C /repo rev-parse HEAD) && git apply "$PATCH" || { echo "patch does not apply"; exit 3; }
cd $V && VERIF_REPO=$GW ./check $P --tier ${3:-quick}; rc=$?
cd $GW && git checkout -q -- . && git clean -fdq
echo "rc=$rc"
