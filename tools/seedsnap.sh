#!/bin/sh
# tools/seedsnap.sh [ids...] : run the seeded changes against a snapshot of the committed /verif (so that
# /verif can be edited meanwhile); the outcomes of the seeds that were run are copied back into
# /verif/seeded/*/meta.json at the end.  SNAP / GW name the snapshot and the scratch worktree (two lanes can run side by side).
S=${SNAP:-/tmp/vsnap}; G=${GW:-/tmp/gw3}
git -C /verif worktree remove --force $S 2>/dev/null; rm -rf $S
git -C /verif worktree add -f --detach $S HEAD >/dev/null 2>&1 || exit 3
cd $S && GW=$G python3 tools/allseeds.py "$@"
if [ $# -gt 0 ]; then for id in "$@"; do [ -f $S/seeded/$id/meta.json ] && cp $S/seeded/$id/meta.json /verif/seeded/$id/meta.json; done
else for d in $S/seeded/*/; do id=$(basename $d); cp $d/meta.json /verif/seeded/$id/meta.json; done; fi
git -C /repo worktree remove --force $G 2>/dev/null
git -C /verif worktree remove --force $S; rm -rf $S
