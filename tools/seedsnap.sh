#!/bin/sh
# tools/seedsnap.sh [ids...] : run the seeded changes against a snapshot of the committed /verif (so that
# /verif can be edited meanwhile); outcomes are copied back into /verif/seeded/*/meta.json at the end.
S=/tmp/vsnap
git -C /verif worktree remove --force $S 2>/dev/null; rm -rf $S
git -C /verif worktree add -f --detach $S HEAD >/dev/null 2>&1 || exit 3
cd $S && GW=/tmp/gw3 python3 tools/allseeds.py "$@"
for d in $S/seeded/*/; do id=$(basename $d); cp $d/meta.json /verif/seeded/$id/meta.json; done
git -C /repo worktree remove --force /tmp/gw3 2>/dev/null
git -C /verif worktree remove --force $S; rm -rf $S
