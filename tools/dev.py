#!/usr/bin/env python3
"""tools/dev.py <unit> [width] [--vac] : generate a unit, run verus, print compact errors."""
import json, os, subprocess, sys
ROOT = os.path.dirname(os.path.dirname(os.path.abspath(__file__)))
sys.path.insert(0, ROOT)
from vf import gen
unit = sys.argv[1]
width = sys.argv[2] if len(sys.argv) > 2 and not sys.argv[2].startswith("--") else "u32"
vac = "--vac" in sys.argv
g = gen.generate(unit if unit.endswith(".rs") else os.path.join(ROOT, "units", unit + ".rs"), width, vacuity=vac)
unit = os.path.splitext(os.path.basename(unit))[0]
os.makedirs(os.path.join(ROOT, "build"), exist_ok=True)
f = os.path.join(ROOT, "build", "dev_%s_%s.rs" % (unit, width))
open(f, "w").write(g.text)
lines = g.text.split("\n")
extra = [a for a in sys.argv[2:] if a.startswith("--") and a != "--vac"]
p = subprocess.run(["verus", f, "--edition=2024", "--multiple-errors", "30", "--rlimit", os.environ.get("RLIMIT", "60"), "--error-format=json", "--time"] + extra, capture_output=True, text=True, timeout=int(os.environ.get("DEV_TIMEOUT", "240")))
n = 0
for ln in p.stderr.splitlines():
    if not ln.startswith("{"):
        continue
    d = json.loads(ln)
    if d.get("level") != "error":
        continue
    n += 1
    print("E:", d["message"])
    for s in d.get("spans", []):
        if os.path.basename(s["file_name"]) == os.path.basename(f):
            print("    %s L%d: %s" % ((s.get("label") or "")[:30], s["line_start"], lines[s["line_start"] - 1].strip()[:170]))
print(p.stdout[-300:] if n == 0 else "%d errors" % n)
