#!/bin/sh
# tools/devreplay.sh <repo path> <unit> <tag> [tier] : build a private copy of the replay crate against <repo path> and run one witness search
R=$1; U=$2; T=$3; TIER=${4:-quick}
D=/tmp/replay_dev_$(echo $R | tr '/' '_')
rm -rf $D && mkdir -p $D && cp -r /verif/replay/src /verif/replay/Cargo.toml.in $D/ && sed "s#@REPO@#$R#g" /verif/replay/Cargo.toml.in > $D/Cargo.toml && cp $R/Cargo.lock $D/ 2>/dev/null
(cd $D && CARGO_TARGET_DIR=/verif/target/replay_dev$(echo $R | tr '/' '_') cargo build --release --offline -q 2>&1 | grep -E "^error" -A12 | head -40)
/verif/target/replay_dev$(echo $R | tr '/' '_')/release/replay $U $T $TIER
rm -rf $D
