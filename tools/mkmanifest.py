#!/usr/bin/env python3
"""Regenerate MANIFEST.json from propnotes/*.json and the units present."""
import glob, json, os, re, sys
ROOT = os.path.dirname(os.path.dirname(os.path.abspath(__file__)))
sys.path.insert(0, ROOT)
from vf import gen

def units_for(prop):
    out = []
    for p in sorted(glob.glob(os.path.join(ROOT, "units", "*.rs"))):
        m = re.search(r"^//@unit\s+(\S+)\s+(.*)$", open(p).read(2000), re.M)
        if m and prop in gen._parse_kv(m.group(2)).get("props", "").split(","):
            out.append(m.group(1))
    return out

checks, na = [], []
for i in range(1, 21):
    pid = "C%02d" % i
    n = json.load(open(os.path.join(ROOT, "propnotes", pid + ".json")))
    us = units_for(pid)
    if n.get("claim") and us:
        checks.append({
            "property_id": pid,
            "quick_cmd": "./check %s --tier quick" % pid,
            "thorough_cmd": "./check %s --tier thorough" % pid,
            "evidence_file": "/verif/evidence/%s.json" % pid,
            "replay_cmd_template": "./check %s --replay {path}" % pid,
            "engine": "verus-units",
            "level_claimed": {"category": "proof", "text": n["level_text"], "design_ref": "DESIGN.md section 4, %s" % pid},
            "level_note": n["level_note"] + " Units: " + ", ".join(us) + ".",
            "technique": n.get("technique", "contract-based deductive verification (Verus) of function text extracted from /repo on every run"),
        })
    else:
        na.append({"property_id": pid, "reason": n.get("na_reason", "no unit built yet; see DESIGN.md section 4 %s for what a contract could decide" % pid)})

m = {
    "version": 1,
    "setup_cmd": "./setup.sh",
    "hooks": {
        "guard": "none (no source hooks: units are extracted from /repo's text and the replay/Kani crates use the public API only)",
        "enable": "not needed; checks read /repo's working tree directly",
        "baseline_off_cmd": "cd /repo && cargo test --workspace --no-fail-fast --offline",
        "source_commits": [],
        "add_only": True,
    },
    "engines": [
        {"name": "verus-units", "path": "/verif/check", "serves_properties": [c["property_id"] for c in checks],
         "kind_free_text": "extractor + dialect map + Verus (per-unit contracts), vacuity probes, replay crate; Kani harnesses as bounded stand-ins in the thorough tier"},
    ],
    "checks": checks,
    "not_applicable": na,
    "notes": "Exit codes: 0 held, 1 violation (VIOLATION line), 2 undecided (lost anchor / unsupported construct / solver limit), never an alarm. known_findings.json lists recorded defects and fixed ones.",
}
json.dump(m, open(os.path.join(ROOT, "MANIFEST.json"), "w"), indent=1)
print("checks:", [c["property_id"] for c in checks], "n/a:", [x["property_id"] for x in na])
