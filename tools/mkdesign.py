#!/usr/bin/env python3
"""Rewrite the generated tables of DESIGN.md (between <!-- GEN:x --> markers) from the repository state."""
import glob, json, os, re, subprocess, sys
ROOT = os.path.dirname(os.path.dirname(os.path.abspath(__file__)))
sys.path.insert(0, ROOT)
from vf import gen

def units_table():
    rows = ["| unit | properties | functions / blocks of /repo under contract | widths |", "|---|---|---|---|"]
    for p in sorted(glob.glob(os.path.join(ROOT, "units", "*.rs"))):
        txt = open(p).read()
        for inc in re.findall(r"^//@use\s+(units/\S+)", txt, re.M):
            txt += open(os.path.join(ROOT, inc)).read()
        m = re.search(r"^//@unit\s+(\S+)\s+(.*)$", txt, re.M)
        kv = gen._parse_kv(m.group(2))
        bodies = []
        for b in re.finditer(r"//@body\s+(.*)", txt):
            k = gen._parse_kv(b.group(1))
            bodies.append("`%s::%s`%s" % (os.path.basename(k["file"]), k["fn"], " (block)" if k.get("block") else ""))
        seen, uniq = set(), []
        for b in bodies:
            if b not in seen:
                seen.add(b); uniq.append(b)
        rows.append("| %s | %s | %s | %s |" % (m.group(1), kv.get("props", ""), ", ".join(uniq), kv.get("thorough_widths", kv.get("widths", "u32"))))
    return "\n".join(rows)

def seeds_table():
    rows = ["| seed | property | what it needs to manifest | verdict of `./check <property>` | obligation that fails |", "|---|---|---|---|---|"]
    for d in sorted(glob.glob(os.path.join(ROOT, "seeded", "*"))):
        m = json.load(open(os.path.join(d, "meta.json")))
        det = m.get("detected_by")
        if det:
            verdict, obl = "VIOLATION (exit 1)", "`%s` (%s)" % (det.get("obligation"), det.get("unit"))
        else:
            verdict, obl = "not detected" + (" / exit 2" if "exit 2" in (m.get("note") or "") or "exits 2" in (m.get("note") or "") else ""), (m.get("note") or "no unit covers the changed function yet")
        rows.append("| %s | %s | %s | %s | %s |" % (os.path.basename(d), m["property"], m["breaks"], verdict, obl))
    return "\n".join(rows)

def findings_table():
    d = json.load(open(os.path.join(ROOT, "known_findings.json")))
    rows = ["| status | property | what | commit / call site | witness |", "|---|---|---|---|---|"]
    for f in d["findings"]:
        what = f.get("line") or f.get("what")
        rows.append("| %s | %s | %s | %s | `%s` |" % (f["status"], f["property"], what.replace("|", "\\|"), f.get("commit") or f.get("call_site", ""), json.dumps(f.get("witness"))[:160].replace("|", "\\|")))
    return "\n".join(rows)

gens = {"UNITS": units_table, "SEEDS": seeds_table, "FINDINGS": findings_table}
p = os.path.join(ROOT, "DESIGN.md")
s = open(p).read()
for k, f in gens.items():
    s = re.sub(r"(<!-- GEN:%s -->\n).*?(<!-- /GEN:%s -->)" % (k, k), lambda m: m.group(1) + f() + "\n" + m.group(2), s, flags=re.S)
open(p, "w").write(s)
print("DESIGN.md tables regenerated")
