#!/usr/bin/env python3
"""Rewrite the generated tables of DESIGN.md (between <!-- GEN:x --> markers) from the repository state."""
import glob, json, os, re, subprocess, sys
ROOT = os.path.dirname(os.path.dirname(os.path.abspath(__file__)))
sys.path.insert(0, ROOT)
from vf import gen

def units_table():
    rows = ["| unit | properties | functions / blocks of /repo under contract | widths |", "|---|---|---|---|"]
    for p in sorted(glob.glob(os.path.join(ROOT, "units", "*.rs"))):
        txt = open(p).read()
        for inc in re.findall(r"^//@use\s+(units/\S+)", txt, re.M):
            txt += open(os.path.join(ROOT, inc)).read()
        m = re.search(r"^//@unit\s+(\S+)\s+(.*)$", txt, re.M)
        kv = gen._parse_kv(m.group(2))
        bodies = []
        for b in re.finditer(r"//@body\s+(.*)", txt):
            k = gen._parse_kv(b.group(1))
            bodies.append("`%s::%s`%s" % (os.path.basename(k["file"]), k["fn"], " (block)" if k.get("block") else ""))
        seen, uniq = set(), []
        for b in bodies:
            if b not in seen:
                seen.add(b); uniq.append(b)
        pins = []
        for b in re.finditer(r"//@pin\s+(.*)", txt):
            k = gen._parse_kv(b.group(1))
            pins.append("`%s::%s`" % (os.path.basename(k["file"]), k["fn"]))
        cell = ", ".join(uniq)
        if pins:
            cell = (cell + "; " if cell else "") + "pinned, not under contract (bounded sweep when changed): " + ", ".join(dict.fromkeys(pins))
        rows.append("| %s | %s | %s | %s |" % (m.group(1), kv.get("props", ""), cell, kv.get("thorough_widths", kv.get("widths", "u32"))))
    return "\n".join(rows)

def seeds_table():
    rows = ["| seed | property | what it breaks | verdict of `./check <property>` | obligation(s) that fail / why not |", "|---|---|---|---|---|"]
    for d in sorted(glob.glob(os.path.join(ROOT, "seeded", "*"))):
        m = json.load(open(os.path.join(d, "meta.json")))
        det = m.get("detected_by")
        if det:
            obls = det.get("obligations") or []
            sweep = any("bounded sweep" in (o.get("how") or "") for o in obls)
            verdict = "VIOLATION (exit 1)" + (", witness replayed" if det.get("witness") else ", no-failing-input-found")
            if sweep:
                verdict += "; unit undecided on the changed text, bounded sweep of the real code found the input"
            obl = "; ".join("`%s` (%s)" % (o["tag"], o["unit"]) for o in obls[:2]) or "-"
        else:
            lr = m.get("last_result") or {}
            verdict = "not detected (exit %s)" % lr.get("exit", "?")
            obl = (m.get("note") or ("; ".join(lr.get("undecided") or []) or "no unit covers the changed function yet"))
        rows.append("| %s | %s | %s | %s | %s |" % (os.path.basename(d), m["property"], m["breaks"], verdict, obl.replace("|", "\\|")))
    return "\n".join(rows)

def props_table():
    rows = ["| id | claimed | decided by (units) | what is proved | not decided (also in evidence) |", "|---|---|---|---|---|"]
    units = {}
    for p in sorted(glob.glob(os.path.join(ROOT, "units", "*.rs"))):
        m = re.search(r"^//@unit\s+(\S+)\s+(.*)$", open(p).read(3000), re.M)
        if m:
            for pr in gen._parse_kv(m.group(2)).get("props", "").split(","):
                units.setdefault(pr, []).append(m.group(1))
    for f in sorted(glob.glob(os.path.join(ROOT, "propnotes", "C*.json"))):
        pid = os.path.basename(f)[:-5]
        d = json.load(open(f))
        if d.get("claim"):
            rows.append("| %s | yes | %s | %s | %s |" % (pid, ", ".join(units.get(pid, [])), (d.get("level_text") or "").replace("|", "\\|"),
                                                      "; ".join(d.get("clauses_not_decided") or []).replace("|", "\\|")))
        else:
            rows.append("| %s | n/a | - | - | %s |" % (pid, (d.get("na_reason") or "").replace("|", "\\|")))
    return "\n".join(rows)

def findings_table():
    d = json.load(open(os.path.join(ROOT, "known_findings.json")))
    rows = ["| status | property | what | commit / call site | witness |", "|---|---|---|---|---|"]
    for f in d["findings"]:
        what = f.get("line") or f.get("what")
        rows.append("| %s | %s | %s | %s | `%s` |" % (f["status"], f["property"], what.replace("|", "\\|"), f.get("commit") or f.get("call_site", ""), json.dumps(f.get("witness"))[:160].replace("|", "\\|")))
    return "\n".join(rows)

gens = {"UNITS": units_table, "SEEDS": seeds_table, "FINDINGS": findings_table, "PROPS": props_table}
p = os.path.join(ROOT, "DESIGN.md")
s = open(p).read()
for k, f in gens.items():
    s = re.sub(r"(<!-- GEN:%s -->\n).*?(<!-- /GEN:%s -->)" % (k, k), lambda m: m.group(1) + f() + "\n" + m.group(2), s, flags=re.S)
open(p, "w").write(s)
print("DESIGN.md tables regenerated")
