#!/bin/sh
# tools/confirmseed.sh <seed-id> <prop> <patch> <demo.rs> <crate> <needs>
# Confirms in scratch worktree /tmp/gwc: patch applies at /repo HEAD, workspace tests pass with it,
# demo fails with it and passes without it.  On success stores /verif/seeded/<seed-id>/.
ID=$1; PROP=$2; PATCH=$3; DEMO=$4; CRATE=$5; NEEDS=$6
W=${CONFIRM_W:-/tmp/gwc}
export CARGO_TARGET_DIR=${CONFIRM_TGT:-/tmp/gwc_target} CARGO_NET_OFFLINE=true
[ -d $W ] || git -C /repo worktree add -f --detach $W HEAD >/dev/null 2>&1
cd $W && git checkout -q --detach 2>/dev/null; git reset -q --hard $(git -C /repo rev-parse HEAD) && git clean -fdq
LOG=/tmp/confirm.$ID.log; : > $LOG
mkdir -p $CRATE/tests && cp $DEMO $CRATE/tests/seed_demo.rs
pkg=$(basename $CRATE)
echo "== demo without patch" >> $LOG
cargo test -p $pkg --test seed_demo --offline >> $LOG 2>&1; r0=$?
git apply $PATCH || { echo "$ID: patch does not apply"; exit 3; }
echo "== demo with patch" >> $LOG
cargo test -p $pkg --test seed_demo --offline >> $LOG 2>&1; r1=$?
rm -f $CRATE/tests/seed_demo.rs; rmdir $CRATE/tests 2>/dev/null
echo "== suite with patch" >> $LOG
cargo test --workspace --no-fail-fast --offline >> $LOG 2>&1; r2=$?
nfail=$(grep -c "^test .* FAILED" $LOG)
git checkout -q -- . ; git clean -fdq
echo "$ID: demo-without rc=$r0 demo-with rc=$r1 suite-with rc=$r2"
if [ $r0 = 0 ] && [ $r1 != 0 ] && [ $r2 = 0 ]; then
  D=/verif/seeded/$ID; mkdir -p $D; cp $PATCH $D/patch.diff; cp $DEMO $D/demo.rs
  python3 - <<PY
import json
json.dump({"property":"$PROP","breaks":"$NEEDS","demo":"copy demo.rs to $CRATE/tests/seed_demo.rs; cargo test -p $pkg --test seed_demo --offline",
 "confirmed":{"demo_without_patch":"pass","demo_with_patch":"fail","workspace_tests_with_patch":"pass (cargo test --workspace --no-fail-fast --offline)","repo_head":"$(git -C /repo rev-parse --short HEAD)"},
 "detected_by": None}, open("$D/meta.json","w"), indent=1)
PY
  echo "$ID: CONFIRMED -> $D"
else
  echo "$ID: NOT confirmed (see $LOG)"
fi
