#!/bin/sh
# tools/confirmround.sh <lane> <prop>... : confirm the seeds of /tmp/sw_out/<prop>/<n> in lane-private scratch worktree
LANE=$1; shift
export CONFIRM_W=/tmp/gwc$LANE CONFIRM_TGT=/tmp/gwc_target$LANE
for P in "$@"; do
  for n in 1 2; do
    D=/tmp/sw_out/$P/$n
    [ -f $D/patch.diff ] || continue
    k=1; while [ -d /verif/seeded/$P-$k ] || [ -f /tmp/sw_out/.taken.$P-$k ]; do k=$((k+1)); done
    touch /tmp/sw_out/.taken.$P-$k
    crate=$(python3 -c "import json; print(json.load(open('$D/meta.json'))['crate'])")
    breaks=$(python3 -c "import json; print(json.load(open('$D/meta.json'))['breaks'].replace('\"','').replace('\`','').replace('\$','')[:300])")
    /verif/tools/confirmseed.sh $P-$k $P $D/patch.diff $D/demo.rs $crate "$breaks" 2>&1 | tail -2
  done
done
