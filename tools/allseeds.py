#!/usr/bin/env python3
"""tools/allseeds.py [ids...] : run every seeded change (or the named ones) against the check of its
property in the scratch worktree /tmp/gw and record the outcome in seeded/<id>/meta.json (detected_by)."""
import json, os, re, subprocess, sys
ROOT = os.path.dirname(os.path.dirname(os.path.abspath(__file__)))
ids = sys.argv[1:] or sorted(os.listdir(os.path.join(ROOT, "seeded")))
head = subprocess.run(["git", "-C", "/repo", "rev-parse", "--short", "HEAD"], capture_output=True, text=True).stdout.strip()
for sid in ids:
    d = os.path.join(ROOT, "seeded", sid)
    mp = os.path.join(d, "meta.json")
    if not os.path.exists(mp):
        continue
    meta = json.load(open(mp))
    if meta.get("obsolete"):
        print(sid, meta["property"], "obsolete:", meta["obsolete"][:80], flush=True)
        continue
    p = subprocess.run([os.path.join(ROOT, "tools", "tryseed.sh"), meta["property"], os.path.join(d, "patch.diff")],
                       capture_output=True, text=True)
    out = p.stdout + p.stderr
    m = re.search(r"^rc=(\d+)", out, re.M)
    rc = int(m.group(1)) if m else -1
    viol = re.findall(r"^VIOLATION property=\S+ replay=\S*/([^/\s]+)\.json( no-failing-input-found)?", out, re.M)
    obl = re.findall(r"^\s+obligation (\S+) failed in unit (\S+) \[\S+\]: (.*)$", out, re.M)
    und = re.findall(r"^UNDECIDED: (.*)$", out, re.M)
    if rc == 1:
        meta["detected_by"] = {"exit": 1, "at_repo_head": head,
                               "obligations": [{"tag": t, "unit": u, "how": ("bounded sweep (unit undecided)" if "bounded sweep" in msg else "verifier: " + msg[:80])} for t, u, msg in obl][:6],
                               "witness": not all(v[1] for v in viol)}
        meta.pop("last_result", None)
    else:
        meta["detected_by"] = None
        meta["last_result"] = {"exit": rc, "at_repo_head": head, "undecided": [u[:200] for u in und][:3]}
    json.dump(meta, open(mp, "w"), indent=1)
    print(sid, meta["property"], "rc=%d" % rc, (obl[0][0] + " in " + obl[0][1]) if obl else (und[0][:120] if und else ""), flush=True)
