#!/usr/bin/env python3
"""tools/repin.py [unit...] : rewrite the sha= of every //@pin line (of the named units, or all) to the hash of the
function as it is in /repo now.  Only to be used after a deliberate change of /repo (a fix commit) or when adding pins."""
import glob, os, re, sys
ROOT = os.path.dirname(os.path.dirname(os.path.abspath(__file__)))
sys.path.insert(0, ROOT)
from vf import gen
files = [os.path.join(ROOT, "units", u + ".rs") for u in sys.argv[1:]] or sorted(glob.glob(os.path.join(ROOT, "units", "*.rs")))
for f in files:
    out, ch = [], 0
    for ln in open(f).read().split("\n"):
        if ln.strip().startswith("//@pinfile"):
            kv = gen._parse_kv(ln.strip()[len("//@pinfile"):])
            new = re.sub(r"\s+sha=\S+", "", ln) + " sha=" + gen.file_hash(kv["file"])
            ch += new != ln
            ln = new
        elif ln.strip().startswith("//@pin"):
            kv = gen._parse_kv(ln.strip()[len("//@pin"):])
            h = gen.pin_hash(kv["file"], kv["fn"], int(kv.get("nth", 1)))
            new = re.sub(r"\s+sha=\S+", "", ln) + " sha=" + h
            ch += new != ln
            ln = new
        out.append(ln)
    if ch:
        open(f, "w").write("\n".join(out))
        print(os.path.basename(f), ch, "pin(s) updated")
