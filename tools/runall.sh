#!/bin/sh
# run every claimed check (quick) against /repo and report exit codes
cd "$(dirname "$0")/.."
for p in $(python3 -c "import json; print(' '.join(c['property_id'] for c in json.load(open('MANIFEST.json'))['checks']))"); do
  ./check $p --tier ${1:-quick} > build/runall.$p.log 2>&1; echo "$p rc=$? $(tail -1 build/runall.$p.log)"
done
for f in evidence/*.json; do python3-vt -c "
import json,jsonschema,sys
jsonschema.validate(json.load(open('$f')),json.load(open('/root/.vp/EVIDENCE.schema.json')))" || echo "INVALID $f"; done
