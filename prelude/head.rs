// ---- prelude/head.rs : stand-ins shared by every unit (assumed, see DESIGN 3.4) ----
#![allow(unused_imports, unused_variables, dead_code, unused_mut, unused_assignments, unreachable_code, unused_parens, non_snake_case)]
use vstd::prelude::*;
use vstd::std_specs::convert::*;
use std::cmp::Ordering;
verus! {

// assumption: 64-bit target (usize is 8 bytes)
global size_of usize == 8;

#[derive(Clone, Copy, PartialEq, Eq, Hash, Debug)] pub struct PIdx<T>(pub T);
#[derive(Clone, Copy, PartialEq, Eq, Hash, Debug)] pub struct RIdx<T>(pub T);
#[derive(Clone, Copy, PartialEq, Eq, Hash, Debug)] pub struct TIdx<T>(pub T);
#[derive(Clone, Copy, PartialEq, Eq, Hash, Debug)] pub struct SIdx<T>(pub T);
#[derive(Clone, Copy, PartialEq, Eq, Hash, Debug)] pub struct StIdx<T>(pub T);

// idxnewtype.rs: `usize::from(idx)` is `num_traits::cast(st).unwrap()` for an unsigned
// StorageT no wider than usize, i.e. the identity on values (dialect rule 2).
impl FromSpecImpl<PIdx<$T>> for usize { open spec fn obeys_from_spec() -> bool { true } open spec fn from_spec(s: PIdx<$T>) -> usize { s.0 as usize } }
impl From<PIdx<$T>> for usize { fn from(s: PIdx<$T>) -> (r: usize) { s.0 as usize } }
impl FromSpecImpl<RIdx<$T>> for usize { open spec fn obeys_from_spec() -> bool { true } open spec fn from_spec(s: RIdx<$T>) -> usize { s.0 as usize } }
impl From<RIdx<$T>> for usize { fn from(s: RIdx<$T>) -> (r: usize) { s.0 as usize } }
impl FromSpecImpl<TIdx<$T>> for usize { open spec fn obeys_from_spec() -> bool { true } open spec fn from_spec(s: TIdx<$T>) -> usize { s.0 as usize } }
impl From<TIdx<$T>> for usize { fn from(s: TIdx<$T>) -> (r: usize) { s.0 as usize } }
impl FromSpecImpl<SIdx<$T>> for usize { open spec fn obeys_from_spec() -> bool { true } open spec fn from_spec(s: SIdx<$T>) -> usize { s.0 as usize } }
impl From<SIdx<$T>> for usize { fn from(s: SIdx<$T>) -> (r: usize) { s.0 as usize } }
impl FromSpecImpl<StIdx<$T>> for usize { open spec fn obeys_from_spec() -> bool { true } open spec fn from_spec(s: StIdx<$T>) -> usize { s.0 as usize } }
impl From<StIdx<$T>> for usize { fn from(s: StIdx<$T>) -> (r: usize) { s.0 as usize } }

impl PIdx<$T> { pub fn as_storaget(&self) -> (r: $T) ensures r == self.0 { self.0 } }
impl RIdx<$T> { pub fn as_storaget(&self) -> (r: $T) ensures r == self.0 { self.0 } }
impl TIdx<$T> { pub fn as_storaget(&self) -> (r: $T) ensures r == self.0 { self.0 } }
impl StIdx<$T> { pub fn as_storaget(&self) -> (r: $T) ensures r == self.0 { self.0 } }
impl SIdx<$T> { pub fn as_storaget(&self) -> (r: $T) ensures r == self.0 { self.0 } }

#[derive(Clone, Copy, PartialEq, Eq, Hash, Debug)]
pub enum Symbol<T> { Rule(RIdx<T>), Token(TIdx<T>) }

// dialect rule 3: `E.as_()` (num_traits::AsPrimitive, a wrapping `as` cast) becomes
// narrow_$T(E): the identity, with the *added* obligation that nothing is lost.
pub fn narrow_$T(x: usize) -> (r: $T)
    requires x <= $TMAX, // OBLG: C20.no_wrap
    ensures r as usize == x,
{ x as $T }

// dialect rule 4: a panic that is not a documented refusal must be unreachable.
#[verifier::external_body]
pub fn vpanic<A>() -> (r: A)
    requires false, // OBLG: panic_reachable
{ unimplemented!() }

// documented refusal ("StorageT is not big enough ..."): allowed divergence.
#[verifier::external_body]
pub fn refuse() ensures false { panic!() }

// vacuity probes: an arbitrary boolean.
#[verifier::external_body]
pub fn vprobe() -> (r: bool) { unimplemented!() }

