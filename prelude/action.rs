// ---- prelude/action.rs : lrtable Action and its bit encoding (spec side) ----
#[derive(Clone, Copy, PartialEq, Debug)]
pub enum Action<T> { Shift(StIdx<T>), Reduce(PIdx<T>), Accept, Error }

pub const SHIFT: usize = 1;
pub const REDUCE: usize = 2;
pub const ACCEPT: usize = 3;
pub const ERROR: usize = 0;

// the encoding the property talks about: tag in the low two bits, payload above
pub open spec fn enc(a: Action<$T>) -> usize {
    match a {
        Action::Shift(s) => 1usize | ((s.0 as usize) << 2),
        Action::Reduce(p) => 2usize | ((p.0 as usize) << 2),
        Action::Accept => 3usize,
        Action::Error => 0usize,
    }
}
pub open spec fn dec(bits: usize) -> Action<$T> {
    let tag = bits & 3;
    let val = bits >> 2;
    if tag == 1 { Action::Shift(StIdx(val as $T)) }
    else if tag == 2 { Action::Reduce(PIdx(val as $T)) }
    else if tag == 3 { Action::Accept }
    else { Action::Error }
}
pub proof fn lemma_codec(a: Action<$T>)
    ensures dec(enc(a)) == a, (enc(a) == 0usize) <==> (a is Error),
{
    match a {
        Action::Shift(s) => {
            let v = s.0 as usize;
            assert((1usize | (v << 2)) & 3 == 1 && (1usize | (v << 2)) >> 2 == v) by(bit_vector) requires v <= 0xffff_ffffusize;
            assert((1usize | (v << 2)) != 0) by(bit_vector);
        }
        Action::Reduce(p) => {
            let v = p.0 as usize;
            assert((2usize | (v << 2)) & 3 == 2 && (2usize | (v << 2)) >> 2 == v) by(bit_vector) requires v <= 0xffff_ffffusize;
            assert((2usize | (v << 2)) != 0) by(bit_vector);
        }
        Action::Accept => { assert(3usize & 3 == 3 && 3usize >> 2 == 0) by(bit_vector); }
        Action::Error => { assert(0usize & 3 == 0) by(bit_vector); }
    }
}
