// ---- sub-slices of the source text, tracked by offset (assumed model of &str slicing) ----
// A `Str` is a slice of the .l source: `off` is where it starts in the text the parser was
// given, `len` its length in bytes.  Slicing panics when out of range (char-boundary
// conditions are the business of C12 and are not modelled here).
pub uninterp spec fn src_at(off: int) -> char;   // the character that starts at byte `off` of the source
#[derive(Clone, Copy)] pub struct Str { pub off: usize, pub len: usize }
#[verifier::external_body] #[derive(Clone, Copy)] pub struct Lit { _x: usize }
#[verifier::external_body] pub fn lit(s: &'static str, n: usize) -> (r: Lit) { unimplemented!() }
#[verifier::external_body] pub fn lit2() -> (r: Lit) { unimplemented!() }
pub struct StrBuf { pub off: usize, pub len: usize }        // an owned copy; remembers what it copied
impl Str {
    pub fn len(&self) -> (r: usize) ensures r == self.len { self.len }
    // `s[a..]`
    pub fn from(&self, a: usize) -> (r: Str)
        requires a <= self.len, self.off + self.len <= usize::MAX, // OBLG: C11.slice_start_in_range
        ensures r.off == self.off + a, r.len == self.len - a
    { Str { off: self.off + a, len: self.len - a } }
    // `s[a..b]`
    pub fn sl(&self, a: usize, b: usize) -> (r: Str)
        requires a <= b, b <= self.len, self.off + self.len <= usize::MAX, // OBLG: C11.slice_range_in_range
        ensures r.off == self.off + a, r.len == b - a
    { Str { off: self.off + a, len: b - a } }
    // (c is one of the ASCII characters < > ' " here, one byte each)
    #[verifier::external_body] pub fn starts_with(&self, c: char) -> (r: bool) ensures r ==> self.len >= 1 && src_at(self.off as int) == c { unimplemented!() }
    #[verifier::external_body] pub fn ends_with(&self, c: char) -> (r: bool) ensures r ==> self.len >= 1 && src_at(self.off + self.len - 1) == c { unimplemented!() }
    // `s.find(c)`: offset of the first occurrence, relative to s
    #[verifier::external_body] pub fn find(&self, c: char) -> (r: Option<usize>) ensures r matches Some(j) ==> j < self.len && src_at(self.off + j) == c { unimplemented!() }
    #[verifier::external_body] pub fn eq_lit(&self, l: Lit) -> (r: bool) { unimplemented!() }
    pub fn to_string(&self) -> (r: StrBuf) ensures r.off == self.off, r.len == self.len { StrBuf { off: self.off, len: self.len } }
}
#[derive(Clone, Copy)] pub struct Span { pub st: usize, pub en: usize }
impl Span { pub fn new(start: usize, end: usize) -> (r: Span) requires start <= end ensures r.st == start, r.en == end { Span { st: start, en: end } } } // OBLG: C11.span_new_start_le_end
#[derive(Clone, Copy)] pub enum StartStateOperation { ReplaceStack, Push, Pop }
pub struct StartState { pub id: usize }
pub enum LexErrorKind { MissingSpace, InvalidStartState, InvalidName, UnknownDeclaration }
pub struct LexBuildError { pub kind: LexErrorKind, pub spans: Vec<Span> }
