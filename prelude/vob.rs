// ---- prelude/vob.rs : vob::Vob<u64> as a sequence of bits (assumed contract) ----
#[verifier::external_body]
pub struct Vob { _v: usize }
impl Vob {
    pub uninterp spec fn view(&self) -> Seq<bool>;
    // Vob::from_elem / from_elem_with_storage_type
    #[verifier::external_body]
    pub fn from_elem(b: bool, n: usize) -> (r: Vob)
        ensures r@.len() == n, forall|i: int| 0 <= i < n ==> r@[i] == b,
    { unimplemented!() }
    #[verifier::external_body]
    pub fn len(&self) -> (r: usize) ensures r == self@.len() { unimplemented!() }
    // set() panics when out of range; returns whether the bit changed
    #[verifier::external_body]
    pub fn set(&mut self, i: usize, b: bool) -> (changed: bool)
        requires i < old(self)@.len(), // OBLG: vob_set_index_in_range
        ensures final(self)@ == old(self)@.update(i as int, b), changed == (old(self)@[i as int] != b),
    { unimplemented!() }
    #[verifier::external_body]
    pub fn get(&self, i: usize) -> (r: Option<bool>)
        ensures i < self@.len() ==> r == Some(self@[i as int]), i >= self@.len() ==> r is None,
    { unimplemented!() }
    // `vob[i]`
    #[verifier::external_body]
    pub fn index(&self, i: usize) -> (r: bool)
        requires i < self@.len(), // OBLG: vob_index_in_range
        ensures r == self@[i as int],
    { unimplemented!() }
    // self |= other; returns whether self changed
    #[verifier::external_body]
    pub fn or(&mut self, other: &Vob) -> (changed: bool)
        requires old(self)@.len() == other@.len(), // OBLG: vob_or_same_length
        ensures final(self)@.len() == old(self)@.len(),
            forall|i: int| 0 <= i < old(self)@.len() ==> #[trigger] final(self)@[i] == (old(self)@[i] || other@[i]),
            changed == (final(self)@ != old(self)@),
    { unimplemented!() }
}
// ---- Vec<Vob>: `vec![Vob::from_elem(b, n); m]` and mutation of one element through `&mut v[i]` ----
pub open spec fn vv(v: Seq<Vob>) -> Seq<Seq<bool>> { Seq::new(v.len(), |i: int| v[i]@) }
#[verifier::external_body]
pub fn vv_new(b: bool, n: usize, m: usize) -> (r: Vec<Vob>)
    ensures r@.len() == m, forall|i: int, j: int| 0 <= i < m && 0 <= j < n ==> (#[trigger] r@[i]@[j]) == b, forall|i: int| 0 <= i < m ==> (#[trigger] r@[i])@.len() == n,
{ unimplemented!() }
// `v[i].set(j, b)`: panics when i or j is out of range; returns whether the bit changed
#[verifier::external_body]
pub fn vv_set(v: &mut Vec<Vob>, i: usize, j: usize, b: bool) -> (changed: bool)
    requires i < old(v)@.len(), // OBLG: vec_index_in_range
             j < old(v)@[i as int]@.len(), // OBLG: vob_set_index_in_range
    ensures final(v)@.len() == old(v)@.len(), final(v)@[i as int]@ == old(v)@[i as int]@.update(j as int, b),
        forall|k: int| 0 <= k < old(v)@.len() && k != i ==> final(v)@[k] == old(v)@[k],
        changed == (old(v)@[i as int]@[j as int] != b),
{ unimplemented!() }
// `v[i].or(other)`
#[verifier::external_body]
pub fn vv_or(v: &mut Vec<Vob>, i: usize, other: &Vob) -> (changed: bool)
    requires i < old(v)@.len(), // OBLG: vec_index_in_range
             old(v)@[i as int]@.len() == other@.len(), // OBLG: vob_or_same_length
    ensures final(v)@.len() == old(v)@.len(), final(v)@[i as int]@.len() == old(v)@[i as int]@.len(),
        forall|j: int| 0 <= j < other@.len() ==> (#[trigger] final(v)@[i as int]@[j]) == (old(v)@[i as int]@[j] || other@[j]),
        forall|k: int| 0 <= k < old(v)@.len() && k != i ==> final(v)@[k] == old(v)@[k],
        changed == (final(v)@[i as int]@ != old(v)@[i as int]@),
{ unimplemented!() }
