        // ---- shared cursor-model dialect rules (DESIGN 3.3 rule 7) ----
        //@builtin strlit
        //@rule n=* `\b(RE_[A-Z_]+)\s*\.find\(&self\.src\[(\w+)\.\.\]\)` => `self.src.re_find(\1(), \2)`
        //@rule n=* `self\.src\[(\w+)\.\.\]\.starts_with\(([^()]*(?:\([^()]*\))?[^()]*)\)` => `self.src.starts_with_at(\1, \2)`
        //@rule n=* `&?self\.src\[([^\[\]]+?)\.\.([^\[\]]+?)\]` => `self.src.slice(\1, \2)`
        //@rule n=* `\bstr::parse::<u64>\((\w+)\)` => `parse_u64(&\1)`
        //@rule n=* `\bassert_eq!\(([^;]*), ([^;]*)\);` => `{ let assert_cond_ = \1 == \2; assert(assert_cond_); }`
