// ---- prelude/cursor.rs : string cursor model (DESIGN 3.3 rule 7), all assumed ----
// `Src` stands for the `&str` being parsed.  Slicing/indexing a real `str` panics exactly
// when an offset is out of range or not on a char boundary: those are the `requires`.
#[verifier::external_body]
pub struct Src { _s: usize }
#[verifier::external_body]
pub struct Str { _s: usize }      // a borrowed sub-slice (contents never inspected)
#[verifier::external_body]
pub struct StrBuf { _s: usize }   // an owned String built from a slice
#[verifier::external_body]
#[derive(Clone, Copy)]
pub struct Lit { _s: usize }      // a `&'static str` literal
#[derive(Clone, Copy)]
pub struct Match { pub st: usize, pub en: usize }
#[verifier::external_body]
#[derive(Clone, Copy)]
pub struct Re { _r: usize }

impl Lit {
    pub uninterp spec fn slen(&self) -> nat;
    #[verifier::external_body]
    #[verifier::when_used_as_spec(slen_as_usize)]
    pub fn len(&self) -> (r: usize) ensures r == self.slen() { unimplemented!() }
    pub open spec fn slen_as_usize(&self) -> usize { self.slen() as usize }
}
// dialect rule `strlit`: "text" ↦ lit("text", N) with N = byte length computed by the generator
#[verifier::external_body]
pub fn lit(s: &'static str, n: usize) -> (r: Lit) ensures r.slen() == n, r == spec_lit(s@, n as nat) { unimplemented!() }
pub uninterp spec fn spec_lit(s: Seq<char>, n: nat) -> Lit;

impl Match {
    pub open spec fn spec_start(&self) -> usize { self.st }
    pub open spec fn spec_end(&self) -> usize { self.en }
    #[verifier::when_used_as_spec(spec_start)]
    pub fn start(&self) -> (r: usize) ensures r == self.st { self.st }
    #[verifier::when_used_as_spec(spec_end)]
    pub fn end(&self) -> (r: usize) ensures r == self.en { self.en }
}

impl Re {
    // facts about one compiled regex, stated next to its use and checked against the
    // regex literal in /repo by an //@expect anchor
    pub uninterp spec fn anchored(&self) -> bool;          // pattern starts with ^ or \A
    pub uninterp spec fn min_len(&self) -> nat;            // every match is at least this long
    pub uninterp spec fn always(&self) -> bool;            // matches the empty string, i.e. never None
    pub uninterp spec fn ascii_delims(&self) -> bool;      // match begins and ends with a 1-byte char
    // patterns built on one character class C (identified by a number):
    pub uninterp spec fn cls(&self) -> int;
    pub uninterp spec fn run_of_cls(&self) -> bool;        // ^[C]* : the maximal leading run of C characters
    pub uninterp spec fn one_of_cls(&self) -> bool;        // [C]   : the first C character
    // ^(?:(".+?")|('.+?')|(ident)) : a quoted string (both quotes one byte long, something in between) or an identifier
    pub uninterp spec fn quoted_or_ident(&self) -> bool;
}
// char::len_utf8
pub open spec fn spec_len_utf8(c: char) -> int { if (c as u32) < 0x80 { 1 } else if (c as u32) < 0x800 { 2 } else if (c as u32) < 0x10000 { 3 } else { 4 } }
#[verifier::external_body]
pub fn len_utf8(c: char) -> (r: usize) ensures r == spec_len_utf8(c) { unimplemented!() }

impl Src {
    pub uninterp spec fn slen(&self) -> nat;
    pub uninterp spec fn is_boundary(&self, i: int) -> bool;
    pub uninterp spec fn spec_find(&self, re: Re, i: int) -> Option<Match>;
    pub uninterp spec fn spec_starts_with(&self, i: int, s: Lit) -> bool;
    pub uninterp spec fn in_cls(&self, c: int, i: int) -> bool;   // the character starting at boundary i belongs to class c
    pub uninterp spec fn ch(&self, i: int) -> char;               // the character starting at boundary i
    pub open spec fn ok(&self, i: int) -> bool { 0 <= i <= self.slen() && self.is_boundary(i) && self.slen() <= isize::MAX }

    #[verifier::external_body]
    pub proof fn axiom_ends(&self) ensures self.is_boundary(0), self.is_boundary(self.slen() as int), self.slen() <= isize::MAX { }

    #[verifier::external_body]
    pub fn len(&self) -> (r: usize) ensures r == self.slen(), self.is_boundary(0), self.is_boundary(r as int) { unimplemented!() }

    // `&self.src[a..b]`
    #[verifier::external_body]
    pub fn slice(&self, a: usize, b: usize) -> (r: Str)
        requires a <= b, // OBLG: C12.slice_range_ordered
                 b <= self.slen(), // OBLG: C12.slice_end_in_range
                 self.is_boundary(a as int), // OBLG: C12.slice_start_on_char_boundary
                 self.is_boundary(b as int), // OBLG: C12.slice_end_on_char_boundary
        ensures r.blen() == b - a,
    { unimplemented!() }

    // `RE.find(&self.src[i..])` (offsets of the match are relative to i)
    #[verifier::external_body]
    pub fn re_find(&self, re: Re, i: usize) -> (r: Option<Match>)
        requires i <= self.slen(), // OBLG: C12.slice_start_in_range
                 self.is_boundary(i as int), // OBLG: C12.slice_start_on_char_boundary
        ensures
            r == self.spec_find(re, i as int),   // a function of (text, regex, offset)
            re.always() ==> r is Some,
            r matches Some(m) ==> ({
                &&& m.st <= m.en && i + m.en <= self.slen()
                &&& self.is_boundary(i + m.st) && self.is_boundary(i + m.en)
                &&& (re.anchored() ==> m.st == 0)
                &&& m.en - m.st >= re.min_len()
                &&& (re.ascii_delims() ==> self.is_boundary(i + m.st + 1) && self.is_boundary(i + m.en - 1))
                &&& (re.run_of_cls() ==> m.st == 0 && (i + m.en < self.slen() ==> !self.in_cls(re.cls(), i + m.en)) && (m.en > 0 ==> self.in_cls(re.cls(), i as int)))
                &&& (re.one_of_cls() ==> m.st < m.en && self.in_cls(re.cls(), i + m.st))
                &&& (re.quoted_or_ident() ==> m.st == 0 && m.en >= 1 && ((self.ch(i as int) == '"' || self.ch(i as int) == '\'') ==> m.en >= 3 && self.is_boundary(i + m.en - 1)))
            }),
            re.run_of_cls() ==> r is Some,
            re.one_of_cls() && i < self.slen() && self.in_cls(re.cls(), i as int) ==> (r matches Some(m) && m.st == 0),
    { unimplemented!() }

    // `self.src[i..].chars().next()`: the character at the cursor (None at the end of the text); the next
    // boundary is len_utf8 bytes further on
    #[verifier::external_body]
    pub fn first_char_from(&self, i: usize) -> (r: Option<char>)
        requires i <= self.slen(), // OBLG: C12.slice_start_in_range
                 self.is_boundary(i as int), // OBLG: C12.slice_start_on_char_boundary
        ensures (r is None) == (i == self.slen()),
            r matches Some(c) ==> c == self.ch(i as int) && i + spec_len_utf8(c) <= self.slen() && self.is_boundary(i + spec_len_utf8(c)),
    { unimplemented!() }

    // `self.src[i..].starts_with('c')`
    #[verifier::external_body]
    pub fn starts_with_char(&self, i: usize, c: char) -> (r: bool)
        requires i <= self.slen(), // OBLG: C12.slice_start_in_range
                 self.is_boundary(i as int), // OBLG: C12.slice_start_on_char_boundary
        ensures r == (i < self.slen() && self.ch(i as int) == c), r ==> i + spec_len_utf8(c) <= self.slen() && self.is_boundary(i + spec_len_utf8(c)),
    { unimplemented!() }

    // `self.src[i..].starts_with(lit)`
    #[verifier::external_body]
    pub fn starts_with_at(&self, i: usize, s: Lit) -> (r: bool)
        requires i <= self.slen(), // OBLG: C12.slice_start_in_range
                 self.is_boundary(i as int), // OBLG: C12.slice_start_on_char_boundary
        ensures r == self.spec_starts_with(i as int, s),   // a function of (text, offset, literal)
                r ==> i + s.slen() <= self.slen() && self.is_boundary(i + s.slen()),
    { unimplemented!() }
}

impl Str {
    pub uninterp spec fn blen(&self) -> nat;     // length in bytes
    #[verifier::external_body]
    pub fn to_string(&self) -> (r: StrBuf) ensures r.blen() == self.blen() { unimplemented!() }
    #[verifier::external_body]
    pub fn trim(&self) -> (r: Str) ensures r.blen() <= self.blen() { unimplemented!() }
}
impl StrBuf {
    pub uninterp spec fn blen(&self) -> nat;     // length in bytes
    #[verifier::external_body]
    pub fn len(&self) -> (r: usize) ensures r == self.blen() { unimplemented!() }
    #[verifier::external_body]
    pub fn clone(&self) -> (r: StrBuf) ensures r == *self { unimplemented!() }
    #[verifier::external_body]
    pub fn new() -> (r: StrBuf) { unimplemented!() }
    #[verifier::external_body]
    pub fn push_str(&mut self, s: Str) { unimplemented!() }
    #[verifier::external_body]
    pub fn to_lowercase(&self) -> (r: StrBuf) { unimplemented!() }
}

pub struct Span { pub start: usize, pub end: usize }
impl Clone for Span { fn clone(&self) -> (r: Span) ensures r == *self { Span { start: self.start, end: self.end } } }
impl Copy for Span {}
impl Span {
    pub open spec fn spec_start(&self) -> usize { self.start }
    pub open spec fn spec_end(&self) -> usize { self.end }
    // span.rs: panics if end < start
    pub fn new(start: usize, end: usize) -> (r: Span)
        requires start <= end, // OBLG: C12.span_new_start_le_end
        ensures r.start == start, r.end == end,
    { Span { start, end } }
    #[verifier::when_used_as_spec(spec_start)]
    pub fn start(&self) -> (r: usize) ensures r == self.start { self.start }
    #[verifier::when_used_as_spec(spec_end)]
    pub fn end(&self) -> (r: usize) ensures r == self.end { self.end }
}
// the property's last sentence: a span that can always be rendered
pub open spec fn span_ok(src: &Src, sp: Span) -> bool {
    sp.start <= sp.end && sp.end <= src.slen() && src.is_boundary(sp.start as int) && src.is_boundary(sp.end as int)
}
pub open spec fn spans_ok(src: &Src, v: Seq<Span>) -> bool { forall|k: int| 0 <= k < v.len() ==> span_ok(src, #[trigger] v[k]) }
