} // verus!
fn main() {}
