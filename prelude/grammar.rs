// ---- prelude/grammar.rs : YaccGrammar as an abstract well-formed grammar (assumed) ----
#[derive(Clone, Copy, PartialEq, Eq, Debug)] pub enum AssocKind { Left, Right, Nonassoc }
#[derive(Clone, Copy, PartialEq, Eq, Debug)] pub struct Precedence { pub level: u64, pub kind: AssocKind }

#[verifier::external_body]
pub struct YaccGrammar { _x: usize }
impl YaccGrammar {
    pub uninterp spec fn tprec(&self, t: TIdx<$T>) -> Option<Precedence>;
    pub uninterp spec fn pprec(&self, p: PIdx<$T>) -> Option<Precedence>;
    pub uninterp spec fn ntok(&self) -> nat;     // tokens_len
    pub uninterp spec fn nrules(&self) -> nat;   // rules_len
    pub uninterp spec fn nprods(&self) -> nat;   // prods_len
    pub uninterp spec fn prods(&self) -> Seq<Seq<Symbol<$T>>>;
    pub uninterp spec fn rule_of(&self) -> Seq<RIdx<$T>>;       // prod -> rule
    pub uninterp spec fn rule_prods(&self) -> Seq<Seq<PIdx<$T>>>; // rule -> its productions
    pub uninterp spec fn eof(&self) -> TIdx<$T>;
    pub uninterp spec fn startp(&self) -> PIdx<$T>;

    pub open spec fn in_rule_prods(&self, r: int, p: int) -> bool { exists|k: int| 0 <= k < self.rule_prods()[r].len() && (#[trigger] self.rule_prods()[r][k]).0 == p }
    // cfgrammar/src/lib/mod.rs:41-47 numbering guarantees
    pub open spec fn wf(&self) -> bool {
        &&& self.ntok() <= $TMAX && self.nrules() <= $TMAX && self.nprods() <= $TMAX
        &&& self.ntok() > 0 && self.nrules() > 0 && self.nprods() > 0
        &&& self.prods().len() == self.nprods() && self.rule_of().len() == self.nprods()
        &&& (self.eof().0 as nat) < self.ntok()
        &&& (self.startp().0 as nat) < self.nprods()
        &&& forall|p: int| 0 <= p < self.nprods() ==> (#[trigger] self.rule_of()[p]).0 < self.nrules()
        &&& forall|p: int| 0 <= p < self.nprods() ==> (#[trigger] self.prods()[p]).len() <= $TMAX
        // rules <-> productions, every symbol index in range
        &&& self.rule_prods().len() == self.nrules()
        &&& forall|r: int, k: int| 0 <= r < self.nrules() && 0 <= k < self.rule_prods()[r].len() ==>
                ((#[trigger] self.rule_prods()[r][k]).0 as nat) < self.nprods() && self.rule_of()[self.rule_prods()[r][k].0 as int].0 == r
        &&& forall|p: int| 0 <= p < self.nprods() ==> self.in_rule_prods(#[trigger] self.rule_of()[p].0 as int, p)
        &&& forall|p: int, i: int| 0 <= p < self.nprods() && 0 <= i < self.prods()[p].len() ==> match #[trigger] self.prods()[p][i] {
                Symbol::Rule(r) => (r.0 as nat) < self.nrules(),
                Symbol::Token(t) => (t.0 as nat) < self.ntok(),
            }
    }

    #[verifier::external_body]
    pub fn token_precedence(&self, t: TIdx<$T>) -> (r: Option<Precedence>) ensures r == self.tprec(t) { unimplemented!() }
    #[verifier::external_body]
    pub fn prod_precedence(&self, p: PIdx<$T>) -> (r: Option<Precedence>) ensures r == self.pprec(p) { unimplemented!() }
    #[verifier::external_body]
    pub fn tokens_len(&self) -> (r: TIdx<$T>) ensures r.0 == self.ntok() { unimplemented!() }
    #[verifier::external_body]
    pub fn rules_len(&self) -> (r: RIdx<$T>) ensures r.0 == self.nrules() { unimplemented!() }
    #[verifier::external_body]
    pub fn prods_len(&self) -> (r: PIdx<$T>) ensures r.0 == self.nprods() { unimplemented!() }
    #[verifier::external_body]
    pub fn eof_token_idx(&self) -> (r: TIdx<$T>) ensures r == self.eof() { unimplemented!() }
    #[verifier::external_body]
    pub fn start_prod(&self) -> (r: PIdx<$T>) ensures r == self.startp() { unimplemented!() }
    #[verifier::external_body]
    pub fn prod(&self, p: PIdx<$T>) -> (r: &[Symbol<$T>]) requires (p.0 as nat) < self.nprods() ensures r@ == self.prods()[p.0 as int] { unimplemented!() }
    #[verifier::external_body]
    pub fn prod_len(&self, p: PIdx<$T>) -> (r: SIdx<$T>) requires (p.0 as nat) < self.nprods() ensures r.0 == self.prods()[p.0 as int].len() { unimplemented!() }
    #[verifier::external_body]
    pub fn rule_to_prods(&self, r: RIdx<$T>) -> (ps: &[PIdx<$T>]) requires (r.0 as nat) < self.nrules() ensures ps@ == self.rule_prods()[r.0 as int] { unimplemented!() }
    #[verifier::external_body]
    pub fn prod_to_rule(&self, p: PIdx<$T>) -> (r: RIdx<$T>) requires (p.0 as nat) < self.nprods() ensures r == self.rule_of()[p.0 as int] { unimplemented!() }
}
