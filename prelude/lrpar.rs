// ---- prelude/lrpar.rs : stand-ins shared by the lrpar units (assumed contracts) ----
#[derive(Clone, Copy)] pub struct Span { pub st: usize, pub en: usize }
impl Span {
    pub open spec fn spec_start(&self) -> usize { self.st }
    pub open spec fn spec_end(&self) -> usize { self.en }
    pub fn new(start: usize, end: usize) -> (r: Span)
        requires start <= end, // OBLG: span_new_start_le_end
        ensures r.st == start, r.en == end,
    { Span { st: start, en: end } }
    #[verifier::when_used_as_spec(spec_start)]
    pub fn start(&self) -> (r: usize) ensures r == self.st { self.st }
    #[verifier::when_used_as_spec(spec_end)]
    pub fn end(&self) -> (r: usize) ensures r == self.en { self.en }
}
#[verifier::external_body] pub struct LexemeT { _x: usize }
impl Clone for LexemeT { #[verifier::external_body] fn clone(&self) -> (r: Self) ensures r == *self { unimplemented!() } }
impl Copy for LexemeT {}
pub uninterp spec fn lx_new(tok_id: $T, start: usize, len: usize, faulty: bool) -> LexemeT;
impl LexemeT {
    pub uninterp spec fn sspan(&self) -> Span;
    pub uninterp spec fn stok(&self) -> $T;
    pub uninterp spec fn sfaulty(&self) -> bool;
    #[verifier::external_body] pub fn span(&self) -> (r: Span) ensures r == self.sspan() { unimplemented!() }
    #[verifier::external_body] pub fn tok_id(&self) -> (r: $T) ensures r == self.stok() { unimplemented!() }
    #[verifier::external_body] pub fn faulty(&self) -> (r: bool) ensures r == self.sfaulty() { unimplemented!() }
}
// lex_api.rs: Lexeme::new_faulty(tok_id, start, len): a lexeme flagged as faulty at [start, start+len)
pub struct Lexeme {}
impl Lexeme {
    #[verifier::external_body]
    pub fn new_faulty(tok_id: $T, start: usize, len: usize) -> (r: LexemeT)
        ensures r == lx_new(tok_id, start, len, true), r.sspan().st == start, r.sspan().en == start + len, r.stok() == tok_id, r.sfaulty(),
    { unimplemented!() }
}
// `StorageT::from(u32::from(tidx)).unwrap()`: TIdx<StorageT> -> u32 -> StorageT (checked, lossless)
pub fn tok_id_of(t: TIdx<$T>) -> (r: $T) ensures r == t.0 { t.0 }
pub enum ParseRepair { Insert(TIdx<$T>), Delete(LexemeT), Shift(LexemeT) }
