// ---- prelude/bits.rs : counting unset bits (termination measure of the fixed points) ----
// number of unset bits: the termination measure of the fixed point
pub open spec fn count_false(s: Seq<bool>) -> nat
    decreases s.len()
{ if s.len() == 0 { 0 } else { count_false(s.drop_last()) + (if s.last() { 0nat } else { 1nat }) } }
pub open spec fn unset(F: FS) -> nat
    decreases F.len()
{ if F.len() == 0 { 0 } else { unset(F.drop_last()) + count_false(F.last()) } }
pub proof fn lemma_count_set(s: Seq<bool>, i: int)
    requires 0 <= i < s.len(), !s[i]
    ensures count_false(s.update(i, true)) + 1 == count_false(s)
    decreases s.len()
{
    let s2 = s.update(i, true);
    if i == s.len() - 1 { assert(s2.drop_last() =~= s.drop_last()); }
    else { assert(s2.drop_last() =~= s.drop_last().update(i, true)); lemma_count_set(s.drop_last(), i); }
}
pub proof fn lemma_unset_set(F: FS, r: int, t: int)
    requires 0 <= r < F.len(), 0 <= t < F[r].len(), !F[r][t]
    ensures unset(F.update(r, F[r].update(t, true))) + 1 == unset(F)
    decreases F.len()
{
    let F2 = F.update(r, F[r].update(t, true));
    if r == F.len() - 1 { assert(F2.drop_last() =~= F.drop_last()); lemma_count_set(F[r], t); }
    else { assert(F2.drop_last() =~= F.drop_last().update(r, F[r].update(t, true))); lemma_unset_set(F.drop_last(), r, t); }
}

// growing a family of bit rows never increases the number of unset bits, and strictly
// decreases it when some bit is new
pub proof fn lemma_count_mono(a: Seq<bool>, b: Seq<bool>)
    requires a.len() == b.len(), forall|i: int| 0 <= i < a.len() && a[i] ==> b[i]
    ensures count_false(b) <= count_false(a), (exists|i: int| 0 <= i < a.len() && b[i] && !a[i]) ==> count_false(b) < count_false(a)
    decreases a.len()
{
    if a.len() > 0 {
        lemma_count_mono(a.drop_last(), b.drop_last());
        if exists|i: int| 0 <= i < a.len() && b[i] && !a[i] {
            let i = choose|i: int| 0 <= i < a.len() && b[i] && !a[i];
            if i < a.len() - 1 { assert(b.drop_last()[i] && !a.drop_last()[i]); }
        }
    }
}
pub proof fn lemma_unset_mono(A: Seq<Seq<bool>>, B: Seq<Seq<bool>>)
    requires A.len() == B.len(), forall|r: int| 0 <= r < A.len() ==> (#[trigger] A[r]).len() == B[r].len(),
        forall|r: int, t: int| 0 <= r < A.len() && 0 <= t < A[r].len() && A[r][t] ==> B[r][t]
    ensures unset(B) <= unset(A), (exists|r: int, t: int| 0 <= r < A.len() && 0 <= t < A[r].len() && B[r][t] && !A[r][t]) ==> unset(B) < unset(A)
    decreases A.len()
{
    if A.len() > 0 {
        let n = A.len() - 1;
        lemma_unset_mono(A.drop_last(), B.drop_last());
        lemma_count_mono(A[n], B[n]);
        if exists|r: int, t: int| 0 <= r < A.len() && 0 <= t < A[r].len() && B[r][t] && !A[r][t] {
            let (r, t) = choose|r: int, t: int| 0 <= r < A.len() && 0 <= t < A[r].len() && B[r][t] && !A[r][t];
            if r < n { assert(B.drop_last()[r][t] && !A.drop_last()[r][t]); } else { assert(B[n][t] && !A[n][t]); }
        }
    }
}
