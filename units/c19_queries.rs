//@unit c19_queries props=C19 widths=u32
//@use prelude/head.rs

pub struct Span { start: usize, end: usize }
impl Span {
    pub closed spec fn s(&self) -> int { self.start as int }
    pub closed spec fn e(&self) -> int { self.end as int }
    pub fn start(&self) -> (r: usize) ensures r == self.s() { self.start }
    pub fn end(&self) -> (r: usize) ensures r == self.e() { self.end }
}

pub open spec fn sorted(s: Seq<usize>) -> bool { forall|i: int, j: int| 0 <= i < j < s.len() ==> s[i] < s[j] }

// assumed contract of <[usize]>::binary_search on a strictly sorted slice, for v[from..]
// (the slice expression itself panics unless from <= len: that is the `requires`)
#[verifier::external_body]
fn bsearch_from(v: &Vec<usize>, from: usize, x: usize) -> (r: Result<usize, usize>)
    requires from <= v@.len(), // OBLG: C19.slice_start_in_range
             sorted(v@),
    ensures match r {
        Ok(j) => from + j < v@.len() && v@[from + j] == x,
        Err(j) => from + j <= v@.len() && (forall|k: int| from <= k < from + j ==> v@[k] < x) && (forall|k: int| from + j <= k < v@.len() ==> v@[k] > x),
    }
{ unimplemented!() }

// line k (0-based) contains byte offset p
pub open spec fn line_of(nl: Seq<usize>, p: int, k: int) -> bool {
    0 <= k < nl.len() && nl[k] <= p && (k + 1 < nl.len() ==> p < nl[k + 1])
}
// end of line k, newline excluded; the last line ends at the end of the text
pub open spec fn line_end(nl: Seq<usize>, total: int, k: int) -> int {
    if k + 1 < nl.len() { nl[k + 1] - 1 } else { total }
}
pub proof fn lemma_line_unique(nl: Seq<usize>, p: int, k1: int, k2: int)
    requires sorted(nl), line_of(nl, p, k1), line_of(nl, p, k2)
    ensures k1 == k2
{
    if k1 < k2 { assert(nl[k1 + 1] <= nl[k2]) by { if k1 + 1 < k2 { } } }
    if k2 < k1 { assert(nl[k2 + 1] <= nl[k1]) by { if k2 + 1 < k1 { } } }
}

pub proof fn lemma_line_exists(nl: Seq<usize>, p: int)
    requires sorted(nl), nl.len() > 0, nl[0] <= p
    ensures exists|k: int| line_of(nl, p, k)
    decreases nl.len()
{
    if nl.len() == 1 || p < nl[1] { assert(line_of(nl, p, 0)); }
    else {
        let t = nl.subrange(1, nl.len() as int);
        assert(sorted(t)) by { assert forall|i: int, j: int| 0 <= i < j < t.len() implies t[i] < t[j] by { assert(t[i] == nl[i + 1] && t[j] == nl[j + 1]); } }
        lemma_line_exists(t, p);
        let k = choose|k: int| line_of(t, p, k);
        assert(t[k] == nl[k + 1]);
        if k + 1 < t.len() { assert(t[k + 1] == nl[k + 2]); }
        assert(line_of(nl, p, k + 1));
    }
}

pub struct NewlineCache { pub newlines: Vec<usize>, pub trailing_bytes: usize }

impl NewlineCache {
    // representation invariant established by new()/feed() (K-C19-feed, bounded):
    // newlines = [0] ++ [i+1 | text[i] == '\n'], trailing_bytes = |text| - last(newlines)
    pub open spec fn wf(&self) -> bool {
        self.newlines@.len() > 0 && self.newlines@.len() <= usize::MAX && self.newlines@[0] == 0 && sorted(self.newlines@)
        && self.newlines@.last() + self.trailing_bytes <= usize::MAX
    }
    pub open spec fn total(&self) -> int { self.newlines@.last() + self.trailing_bytes }
    pub open spec fn nl(&self) -> Seq<usize> { self.newlines@ }

    fn feed_len(&self) -> (r: usize)
        requires self.wf(),
        ensures r == self.total(), // OBL: C19.feed_len_is_text_length
    {
        //@probe
        //@body file=cfgrammar/src/lib/newlinecache.rs fn=feed_len
        //@endbody
    }

    pub fn byte_to_line_num(&self, byte: usize) -> (r: Option<usize>)
        requires self.wf(),
        ensures
            byte > self.total() ==> r is None, // OBL: C19.line_num_none_beyond_text
            byte <= self.total() ==> r is Some && line_of(self.nl(), byte as int, r.unwrap() - 1), // OBL: C19.line_num_is_one_plus_newlines_before
    {
        //@probe
        //@body file=cfgrammar/src/lib/newlinecache.rs fn=byte_to_line_num
        //@rule n=1 `let last_byte = last_newline \+ self\.trailing_bytes;` => `let last_byte = *last_newline + self.trailing_bytes;`
        //@rule n=1 `let \(line_m1, _\) = self\s*\.newlines\s*\.iter\(\)\s*\.enumerate\(\)\s*\.rev\(\)\s*\.find\(\|&\(_, &line_off\)\| ([^)]*)\)\s*\.unwrap\(\);` =>>
            // dialect rule 5: iter().enumerate().rev().find(|&(_, &line_off)| COND).unwrap()
            // as a descending search loop; COND is the closure body, re-inserted verbatim
            let mut idx_: usize = self.newlines.len();
            let mut found_: Option<(usize, usize)> = None;
            while idx_ > 0
                invariant_except_break found_ is None,
                    forall|q: int| idx_ <= q < self.newlines@.len() ==> !(self.newlines@[q] <= byte),
                invariant self.wf(), idx_ <= self.newlines@.len(),
                ensures
                    found_ is None ==> forall|q: int| 0 <= q < self.newlines@.len() ==> !(self.newlines@[q] <= byte),
                    found_ is Some ==> ({ let f = found_.unwrap(); f.0 < self.newlines@.len() && self.newlines@[f.0 as int] <= byte
                        && forall|q: int| f.0 < q < self.newlines@.len() ==> !(self.newlines@[q] <= byte) }),
                decreases idx_,
            {
                //@probe
                idx_ = idx_ - 1;
                let line_off = self.newlines[idx_];
                if \1 { found_ = Some((idx_, line_off)); break; }
            }
            let (line_m1, _) = found_.unwrap();
            assert(line_of(self.nl(), byte as int, line_m1 as int));
        //@end
        //@endbody
    }

    fn line_num_to_byte(&self, line_num: usize) -> (r: Option<usize>)
        requires self.wf(),
        ensures (line_num == 0 || line_num > self.nl().len()) ==> r is None, // OBL: C19.line_start_none_out_of_range
                (0 < line_num <= self.nl().len()) ==> r == Some(self.nl()[line_num - 1]), // OBL: C19.line_start_is_table_entry
    {
        //@probe
        //@body file=cfgrammar/src/lib/newlinecache.rs fn=line_num_to_byte
        //@endbody
    }

    pub fn byte_to_line_byte(&self, byte: usize) -> (r: Option<usize>)
        requires self.wf(),
        ensures byte > self.total() ==> r is None, // OBL: C19.line_byte_none_beyond_text
                byte <= self.total() ==> r is Some && exists|k: int| line_of(self.nl(), byte as int, k) && r.unwrap() == self.nl()[k], // OBL: C19.line_byte_is_start_of_containing_line
    {
        //@probe
        //@body file=cfgrammar/src/lib/newlinecache.rs fn=byte_to_line_byte
        //@rule n=1 `self\.byte_to_line_num\(byte\)\s*\.and_then\(\|line_num\| self\.line_num_to_byte\(line_num\)\)` => `match self.byte_to_line_num(byte) { Some(line_num) => self.line_num_to_byte(line_num), None => None }`
        //@endbody
    }

    // Reading of "the line containing its last byte": the pinned test spanlines_str
    // (("ab\n",2,3) -> "ab\n") fixes the line of *offset end*; where the span's last
    // byte is itself a newline (end is a line start) either reading is accepted.
    pub fn span_line_bytes(&self, span: Span) -> (r: (usize, usize))
        requires self.wf(), span.s() <= span.e() <= self.total(),
        ensures
            exists|k: int| line_of(self.nl(), span.s(), k) && r.0 == self.nl()[k], // OBL: C19.span_lines_start_at_line_of_first_byte
            exists|k: int| (line_of(self.nl(), span.e(), k) || (span.s() < span.e() && line_of(self.nl(), span.e() - 1, k) && exists|m: int| 0 < m < self.nl().len() && self.nl()[m] == span.e()))
                && r.1 == line_end(self.nl(), self.total(), k), // OBL: C19.span_lines_end_at_line_of_last_byte
            r.0 <= r.1 <= self.total(), // OBL: C19.span_lines_is_a_valid_range
    {
        //@probe
        //@body file=cfgrammar/src/lib/newlinecache.rs fn=span_line_bytes
        //@rule n=1 `self\.newlines\.binary_search\(&span\.start\(\)\)` => `bsearch_from(&self.newlines, 0, span.start())`
        //@rule n=1 `self\.newlines\[st_line\.\.\]\.binary_search\(&span\.end\(\)\)` => `bsearch_from(&self.newlines, st_line, span.end())`
        //@rule n=1 `^(\s*)\(st, en\)\s*$` =>>
        proof {
            let ks = st_line as int - 1;
            assert(line_of(self.nl(), span.s(), ks));
            lemma_line_exists(self.nl(), span.e());
            let ke = choose|k: int| line_of(self.nl(), span.e(), k);
            assert(ke >= ks) by { if ke < ks { assert(self.nl()[ke + 1] <= self.nl()[ks]) by { if ke + 1 < ks { } } } }
            assert(en == line_end(self.nl(), self.total(), ke));
        }
        (st, en)
        //@end
        //@endbody
    }
}
//@use prelude/tail.rs
