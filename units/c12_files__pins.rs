//@unit c12_files__pins props=C12 widths=u32
//@use prelude/head.rs
// the source files the property is anchored in, pinned whole (test modules, comments and layout apart): a change to anything in
// them that is neither under contract nor pinned by name still makes this unit undecided, which sends the check to the
// property's bounded sweep of the real code
//@pinfile file=cfgrammar/src/lib/header.rs sha=8ea0aca562d3de28
//@pinfile file=cfgrammar/src/lib/yacc/parser.rs sha=6ef477d7cbbde140
//@pinfile file=cfgrammar/src/lib/yacc/ast.rs sha=b152c25de197a916
//@pinfile file=lrlex/src/lib/parser.rs sha=ee184a9fe8ea3991
//@pinfile file=lrlex/src/lib/lexer.rs sha=fd89bb00760c980b
//@use prelude/tail.rs
