//@unit c12_yacc props=C12 widths=u32
//@use prelude/head.rs
//@use prelude/cursor.rs

// ---- facts about the two regexes of yacc/parser.rs (trusted; tied to the source text) ----
//@expect file=cfgrammar/src/lib/yacc/parser.rs re=`LazyLock::new\(\|\| Regex::new\(r"\^\[a-zA-Z_\.\]\[a-zA-Z0-9_\.\]\*"\)\.unwrap\(\)\);`
#[verifier::external_body]
pub fn RE_NAME() -> (r: Re) ensures r.anchored(), r.min_len() == 1 { unimplemented!() }
//@expect file=cfgrammar/src/lib/yacc/parser.rs re=`LazyLock::new\(\|\| Regex::new\("\^\(\?:\(\\"\.\+\?\\"\)\|\('\.\+\?'\)\|\(\[a-zA-Z_\]\[a-zA-Z_0-9\]\*\)\)"\)\.unwrap\(\)\);`
#[verifier::external_body]
pub fn RE_TOKEN() -> (r: Re) ensures r.anchored(), r.min_len() == 1, r.quoted_or_ident() { unimplemented!() }

#[derive(Clone, Copy)]
pub enum YaccGrammarErrorKind { ReachedEOL, IncompleteComment, IllegalInteger, InvalidString, IllegalName, IllegalString, Other }
pub struct YaccGrammarError { pub kind: YaccGrammarErrorKind, pub spans: Vec<Span> }
pub open spec fn err_ok(src: &Src, e: YaccGrammarError) -> bool { e.spans@.len() > 0 && spans_ok(src, e.spans@) }
// str::parse::<T>() may fail on any digit string (empty, overflow)
#[verifier::external_body]
pub fn parse_num(s: &Str) -> (r: Result<usize, ()>) { unimplemented!() }

// num_newlines counts line ends that were consumed: never more than the bytes consumed so far
pub struct YaccParser { pub src: Src, pub num_newlines: usize }

impl YaccParser {
    fn mk_error(&self, k: YaccGrammarErrorKind, off: usize) -> (r: YaccGrammarError)
        requires self.src.ok(off as int), // OBLG: C12.yacc.error_offset_in_range_on_boundary
        ensures err_ok(&self.src, r), // OBL: C12.yacc.mk_error.span_renderable
    {
        //@probe
        //@body file=cfgrammar/src/lib/yacc/parser.rs fn=mk_error
        //@endbody
    }

    //@ctx lookahead_is: the literal looked for is non-empty
    fn lookahead_is(&self, s: Lit, i: usize) -> (r: Option<usize>)
        requires self.src.ok(i as int),
        ensures r matches Some(j) ==> j == i + s.slen() && self.src.ok(j as int), // OBL: C12.yacc.lookahead_is.cursor_in_range_on_boundary
                (r is Some) == self.src.spec_starts_with(i as int, s),
    {
        //@probe
        //@body file=cfgrammar/src/lib/yacc/parser.rs fn=lookahead_is
        //@use prelude/cursor_rules.rs
        //@endbody
    }

    //@ctx parse_ws: the newline counter is at most the number of bytes before the cursor
    fn parse_ws(&mut self, i0: usize, inc_newlines: bool) -> (r: Result<usize, YaccGrammarError>)
        requires old(self).src.ok(i0 as int), old(self).num_newlines <= i0,
        ensures final(self).src == old(self).src,
            r matches Ok(j) ==> i0 <= j && old(self).src.ok(j as int) && final(self).num_newlines <= j, // OBL: C12.yacc.parse_ws.cursor_monotone_in_range_on_boundary
            r matches Err(e) ==> err_ok(&old(self).src, e), // OBL: C12.yacc.parse_ws.error_spans_renderable
    {
        //@probe
        let mut i = i0;
        //@body file=cfgrammar/src/lib/yacc/parser.rs fn=parse_ws
        //@rule n=* `self\.src\[(\w+)\.\.\]\.chars\(\)\.next\(\)` => `self.src.first_char_from(\1)`
        //@rule n=* `\b(\w+)\.len_utf8\(\)` => `len_utf8(\1)`
        //@rule n=1 `^(\s*)while i < self\.src\.len\(\) \{$` =>>
        while i < self.src.len()
            invariant_except_break self.src == old(self).src, self.src.ok(i as int), i0 <= i, self.num_newlines <= i,
            ensures self.src == old(self).src, self.src.ok(i as int), i0 <= i, self.num_newlines <= i,
            decreases self.src.slen() - i, // OBL: C12.yacc.parse_ws.loop_terminates
        {
            //@probe
            let ghost ib_ = i;
        //@end
        // dialect: `for c in self.src[i..].chars() { i += c.len_utf8(); .. }`: the iterator and the cursor advance together
        //@rule n=1 `^(\s*)for c in self\.src\[i\.\.\]\.chars\(\) \{$` =>>
                                while i < self.src.len()
                                    invariant_except_break self.src == old(self).src, self.src.ok(i as int), j < i, self.num_newlines <= i, ib_ < j,
                                    ensures self.src == old(self).src, self.src.ok(i as int), j < i, self.num_newlines <= i, ib_ < j,
                                    decreases self.src.slen() - i, // OBL: C12.yacc.parse_ws.line_comment_loop_terminates
                                {
                                    //@probe
                                    let c = self.src.first_char_from(i).unwrap();
        //@end
        //@rule n=1 `^(\s*)while k < self\.src\.len\(\) \{$` =>>
                                while k < self.src.len()
                                    invariant_except_break self.src == old(self).src, self.src.ok(k as int), self.src.ok(i as int), i < k, self.num_newlines <= k, !found, i == ib_, i0 <= i,
                                    ensures self.src == old(self).src, self.src.ok(i as int), i0 <= i, found ==> self.num_newlines <= i && ib_ < i, !found ==> i == ib_,
                                    decreases self.src.slen() - k, // OBL: C12.yacc.parse_ws.block_comment_loop_terminates
                                {
                                    //@probe
        //@end
        //@endbody
    }

    fn parse_to_eol(&mut self, i: usize) -> (r: Result<(usize, StrBuf), YaccGrammarError>)
        requires old(self).src.ok(i as int),
        ensures final(self).src == old(self).src, final(self).num_newlines == old(self).num_newlines,
            r matches Ok(t) ==> i <= t.0 && old(self).src.ok(t.0 as int), // OBL: C12.yacc.parse_to_eol.cursor_monotone_in_range_on_boundary
            r is Ok,
    {
        //@probe
        //@body file=cfgrammar/src/lib/yacc/parser.rs fn=parse_to_eol
        //@rule n=* `self\.src\[(\w+)\.\.\]\.chars\(\)\.next\(\)` => `self.src.first_char_from(\1)`
        //@rule n=* `\b(\w+)\.len_utf8\(\)` => `len_utf8(\1)`
        //@use prelude/cursor_rules.rs
        //@rule n=1 `^(\s*)while j < self\.src\.len\(\) \{$` =>>
        while j < self.src.len()
            invariant self.src == old(self).src, self.src.ok(j as int), self.src.ok(i as int), i <= j, self.num_newlines == old(self).num_newlines,
            decreases self.src.slen() - j, // OBL: C12.yacc.parse_to_eol.loop_terminates
        {
            //@probe
        //@end
        //@endbody
    }

    fn parse_to_single_colon(&mut self, i: usize) -> (r: Result<(usize, StrBuf), YaccGrammarError>)
        requires old(self).src.ok(i as int), old(self).num_newlines <= i,
        ensures final(self).src == old(self).src,
            r matches Ok(t) ==> i <= t.0 && old(self).src.ok(t.0 as int) && final(self).num_newlines <= t.0, // OBL: C12.yacc.parse_to_single_colon.cursor_monotone_in_range_on_boundary
            r matches Err(e) ==> err_ok(&old(self).src, e), // OBL: C12.yacc.parse_to_single_colon.error_spans_renderable
    {
        //@probe
        //@body file=cfgrammar/src/lib/yacc/parser.rs fn=parse_to_single_colon
        //@rule n=* `self\.src\[(\w+)\.\.\]\.chars\(\)\.next\(\)` => `self.src.first_char_from(\1)`
        //@rule n=* `':'\.len_utf8\(\)` => `len_utf8(':')`
        //@rule n=* `\b(\w+)\.len_utf8\(\)` => `len_utf8(\1)`
        //@rule n=1 `!self\.src\[k\.\.\]\.starts_with\(':'\)` => `!self.src.starts_with_char(k, ':')`
        //@use prelude/cursor_rules.rs
        //@rule n=1 `self\.src\.slice\(i, j\)\.trim\(\)\.to_string\(\)` => `self.src.slice(i, j).trim().to_string()`
        //@rule n=1 `^(\s*)while j < self\.src\.len\(\) \{$` =>>
        while j < self.src.len()
            invariant self.src == old(self).src, self.src.ok(j as int), self.src.ok(i as int), i <= j, self.num_newlines <= j,
            decreases self.src.slen() - j, // OBL: C12.yacc.parse_to_single_colon.loop_terminates
        {
            //@probe
        //@end
        //@endbody
    }

    fn parse_int(&mut self, i: usize) -> (r: Result<(usize, usize), YaccGrammarError>)
        requires old(self).src.ok(i as int),
        ensures final(self).src == old(self).src, final(self).num_newlines == old(self).num_newlines,
            r matches Ok(t) ==> i <= t.0 && old(self).src.ok(t.0 as int), // OBL: C12.yacc.parse_int.cursor_monotone_in_range_on_boundary
            r matches Err(e) ==> err_ok(&old(self).src, e), // OBL: C12.yacc.parse_int.error_spans_renderable
    {
        //@probe
        //@body file=cfgrammar/src/lib/yacc/parser.rs fn=parse_int
        //@rule n=* `self\.src\[(\w+)\.\.\]\.chars\(\)\.next\(\)` => `self.src.first_char_from(\1)`
        //@use prelude/cursor_rules.rs
        //@rule n=1 `self\.src\.slice\(i, j\)\.parse::<T>\(\)` => `parse_num(&self.src.slice(i, j))`
        //@rule n=1 `^(\s*)while j < self\.src\.len\(\) \{$` =>>
        while j < self.src.len()
            invariant_except_break self.src == old(self).src, self.src.ok(j as int), self.src.ok(i as int), i <= j, self.num_newlines == old(self).num_newlines,
            ensures self.src == old(self).src, self.src.ok(j as int), self.src.ok(i as int), i <= j, self.num_newlines == old(self).num_newlines,
            decreases self.src.slen() - j, // OBL: C12.yacc.parse_int.loop_terminates
        {
            //@probe
        //@end
        //@endbody
    }

    fn parse_string(&mut self, i0: usize) -> (r: Result<(usize, StrBuf), YaccGrammarError>)
        requires old(self).src.ok(i0 as int),
        ensures final(self).src == old(self).src, final(self).num_newlines == old(self).num_newlines,
            r matches Ok(t) ==> i0 < t.0 && old(self).src.ok(t.0 as int), // OBL: C12.yacc.parse_string.ok_advances_on_boundary
            r matches Err(e) ==> err_ok(&old(self).src, e), // OBL: C12.yacc.parse_string.error_spans_renderable
    {
        //@probe
        let mut i = i0;
        //@body file=cfgrammar/src/lib/yacc/parser.rs fn=parse_string
        //@rule n=* `self\.src\[([^\[\]]+?)\.\.\]\.chars\(\)\.next\(\)` => `self.src.first_char_from(\1)`
        //@rule n=* `\b(\w+)\.len_utf8\(\)` => `len_utf8(\1)`
        //@rule n=* `debug_assert!\('.*$` => ``
        //@use prelude/cursor_rules.rs
        //@rule n=1 `let mut s = String::new\(\);` => `let mut s = StrBuf::new();`
        //@rule n=* `s\.push_str\(self\.src\.slice\(i, j\)\);` => `s.push_str(self.src.slice(i, j));`
        //@rule n=1 `^(\s*)i \+= 1;\n` =>>
        proof {
            // the opening quote is one byte long
            assert(self.src.is_boundary(i0 + 1)) by {
                if self.src.spec_starts_with(i0 as int, spec_lit("'"@, 1)) { } else { }
            }
        }
        i += 1;
        //@end
        //@rule n=1 `^(\s*)while j < self\.src\.len\(\) \{$` =>>
        while j < self.src.len()
            invariant self.src == old(self).src, self.src.ok(j as int), self.src.ok(i as int), i0 < i <= j, self.num_newlines == old(self).num_newlines, qc == '\'' || qc == '"',
            decreases self.src.slen() - j, // OBL: C12.yacc.parse_string.loop_terminates
        {
            //@probe
        //@end
        //@endbody
    }

    fn parse_name(&self, i: usize) -> (r: Result<(usize, StrBuf), YaccGrammarError>)
        requires self.src.ok(i as int),
        ensures r matches Ok(t) ==> i < t.0 && self.src.ok(t.0 as int), // OBL: C12.yacc.parse_name.ok_advances_on_boundary
            r matches Err(e) ==> err_ok(&self.src, e), // OBL: C12.yacc.parse_name.error_spans_renderable
    {
        //@probe
        //@body file=cfgrammar/src/lib/yacc/parser.rs fn=parse_name
        //@use prelude/cursor_rules.rs
        //@endbody
    }

    fn parse_token(&self, i: usize) -> (r: Result<(usize, StrBuf, Span, bool), YaccGrammarError>)
        requires self.src.ok(i as int),
        ensures r matches Ok(t) ==> i < t.0 && self.src.ok(t.0 as int) && span_ok(&self.src, t.2), // OBL: C12.yacc.parse_token.ok_advances_on_boundary_with_a_renderable_span
            r matches Err(e) ==> err_ok(&self.src, e), // OBL: C12.yacc.parse_token.error_spans_renderable
    {
        //@probe
        //@body file=cfgrammar/src/lib/yacc/parser.rs fn=parse_token
        //@rule n=* `self\.src\[(\w+)\.\.\]\.chars\(\)\.next\(\)` => `self.src.first_char_from(\1)`
        //@rule n=* `debug_assert!\('.*$` => ``
        //@use prelude/cursor_rules.rs
        //@endbody
    }
}
//@use prelude/tail.rs
