//@unit c16_views props=C16,C15 widths=u16 thorough_widths=u8,u16,u32
//@use prelude/head.rs
use std::collections::HashMap;
use vstd::std_specs::hash::*;
//@use prelude/action.rs
//@use prelude/grammar.rs
//@use prelude/vob.rs

pub struct StateTable {}
impl StateTable {
    // contract proved in unit c16_codec
    #[verifier::external_body]
    pub fn decode(bits: usize) -> (r: Action<$T>) requires (bits >> 2) <= $TMAX ensures r == dec(bits) { unimplemented!() }
}
// contract proved in unit c16_codec
#[verifier::external_body]
fn actions_offset(tokens_len: TIdx<$T>, stidx: StIdx<$T>, tidx: TIdx<$T>) -> (r: usize)
    ensures r == (stidx.0 as usize) * (tokens_len.0 as usize) + (tidx.0 as usize) { unimplemented!() }

#[verifier::external_body]
pub struct StateGraph { _s: usize }
impl StateGraph {
    pub uninterp spec fn nstates(&self) -> nat;
    // stategraph.rs: StIdx(self.states.len().as_()), states.len() < StorageT::MAX asserted in new()
    #[verifier::external_body]
    pub fn all_states_len(&self) -> (r: StIdx<$T>) ensures r.0 == self.nstates(), self.nstates() < $TMAX { unimplemented!() }
}

// assumed: derived Hash/Eq of (RIdx, usize) agree with structural equality
pub axiom fn key_model() ensures obeys_key_model::<(RIdx<$T>, usize)>();
// HashMap::values() as an arbitrary-order, duplicate-free list of the map's entries
// (dialect rule 5; the order is NOT specified: what is proved holds for every order)
#[verifier::external_body]
fn hm_entries(m: &HashMap<(RIdx<$T>, usize), PIdx<$T>>) -> (r: Vec<((RIdx<$T>, usize), PIdx<$T>)>)
    ensures r@.len() == m@.len(),
        forall|i: int| 0 <= i < r@.len() ==> m@.contains_key(#[trigger] r@[i].0) && m@[r@[i].0] == r@[i].1,
        forall|i: int, j: int| 0 <= i < j < r@.len() ==> r@[i].0 != r@[j].0,
{ unimplemented!() }

// ---------------- specification (from the property text) ----------------
pub open spec fn cell(actions: Seq<usize>, nt: int, s: int, t: int) -> Action<$T> { dec(actions[s * nt + t]) }
pub open spec fn key(grm: &YaccGrammar, p: PIdx<$T>) -> (RIdx<$T>, usize) {
    (grm.rule_of()[p.0 as int], grm.prods()[p.0 as int].len() as usize)
}
// production p is reduced by some token's action in state s
pub open spec fn reduces(actions: Seq<usize>, nt: int, s: int, p: PIdx<$T>, upto: int) -> bool {
    exists|t: int| 0 <= t < upto && cell(actions, nt, s, t) == Action::Reduce(p)
}
pub open spec fn row_shifts_ok(actions: Seq<usize>, shifts: Seq<bool>, nt: int, s: int) -> bool {
    forall|t: int| 0 <= t < nt ==> (#[trigger] shifts[s * nt + t]) == (cell(actions, nt, s, t) is Shift)
}
pub open spec fn row_core_ok(grm: &YaccGrammar, actions: Seq<usize>, core: Seq<bool>, nt: int, np: int, s: int) -> bool {
    // nothing else: every listed production is one of the state's reductions
    &&& forall|p: int| 0 <= p < np && #[trigger] core[s * np + p] ==> reduces(actions, nt, s, PIdx(p as $T), nt)
    // one production for each distinct (rule, length) pair among the reductions
    &&& forall|q: PIdx<$T>| reduces(actions, nt, s, q, nt) ==> exists|p: int| 0 <= p < np && core[s * np + p] && key(grm, PIdx(p as $T)) == key(grm, q)
    // ... and only one
    &&& forall|p: int, q: int| 0 <= p < np && 0 <= q < np && #[trigger] core[s * np + p] && #[trigger] core[s * np + q]
            && key(grm, PIdx(p as $T)) == key(grm, PIdx(q as $T)) ==> p == q
}
pub open spec fn row_reduce_only(grm: &YaccGrammar, actions: Seq<usize>, nt: int, s: int) -> bool {
    &&& forall|t: int| 0 <= t < nt ==> !(cell(actions, nt, s, t) is Shift) && !(cell(actions, nt, s, t) is Accept)
    &&& exists|p: PIdx<$T>| reduces(actions, nt, s, p, nt)
    &&& forall|p: PIdx<$T>, q: PIdx<$T>| reduces(actions, nt, s, p, nt) && reduces(actions, nt, s, q, nt) ==> key(grm, p) == key(grm, q)
}

pub struct Views { pub core_reduces: Vob, pub state_shifts: Vob, pub reduce_states: Vob }

//@ctx views: actions has one cell per (state, token); every cell's payload fits StorageT and every Reduce cell names a production of the grammar (cells are written only through encode with indices taken from the item sets)
//@ctx views: fewer than 2^31 tokens (the i32 counter `distinct_reduces`; automatic for u8/u16 storage)
fn views(grm: &YaccGrammar, sg: &StateGraph, actions: &mut Vec<usize>) -> (r: Views)
    requires
        grm.wf(), grm.ntok() < 0x8000_0000,
        old(actions)@.len() == sg.nstates() * grm.ntok(),
        forall|i: int| 0 <= i < old(actions)@.len() ==> (#[trigger] old(actions)@[i] >> 2) <= $TMAX,
        forall|i: int, p: PIdx<$T>| 0 <= i < old(actions)@.len() && dec(#[trigger] old(actions)@[i]) == Action::Reduce(p) ==> (p.0 as nat) < grm.nprods(),
    ensures
        final(actions)@ == old(actions)@, // OBL: C16.views_do_not_change_the_table
        r.state_shifts@.len() == sg.nstates() * grm.ntok() && forall|s: int| 0 <= s < sg.nstates() ==> row_shifts_ok(old(actions)@, r.state_shifts@, grm.ntok() as int, s), // OBL: C16.shifts_listed_iff_action_is_shift
        r.core_reduces@.len() == sg.nstates() * grm.nprods() && forall|s: int| 0 <= s < sg.nstates() ==> row_core_ok(grm, old(actions)@, r.core_reduces@, grm.ntok() as int, grm.nprods() as int, s), // OBL: C16.core_reduces_one_per_rule_and_length
        r.reduce_states@.len() == sg.nstates() && forall|s: int| 0 <= s < sg.nstates() ==> (#[trigger] r.reduce_states@[s]) == row_reduce_only(grm, old(actions)@, grm.ntok() as int, s), // OBL: C16.reduce_only_iff_single_rule_and_length
{
    //@probe
    proof { key_model(); }
    //@body file=lrtable/src/lib/statetable.rs fn=new block=`let mut nt_depth = HashMap::new\(\);` endx=`let actions_sv = SparseVec`
    //@rule n=3 `Vob::<u64>::from_elem_with_storage_type\(` => `Vob::from_elem(`
    //@rule n=1 `let mut nt_depth = HashMap::new\(\);` => `let mut nt_depth: HashMap<(RIdx<$T>, usize), PIdx<$T>> = HashMap::new();`
    //@endbody
    Views { core_reduces, state_shifts, reduce_states }
}
//@use prelude/tail.rs
