//@unit c02_weakly__pins props=C02,C04 widths=u32
//@use prelude/head.rs
// not under contract: the merge step of the Pager construction (judged by the canonical-LR(1) oracle when one changes)
//@pin file=lrtable/src/lib/pager.rs fn=weakly_merge sha=c992c1a4fd5966eb
//@pin file=lrtable/src/lib/pager.rs fn=vob_intersect sha=d9bfb586fce0ca5c
//@pin file=lrtable/src/lib/itemset.rs fn=add sha=8ff3228d8f82d7be
//@use prelude/tail.rs
