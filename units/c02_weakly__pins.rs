//@unit c02_weakly__pins props=C02,C04 widths=u32
//@use prelude/head.rs
// not under contract: the merge step of the Pager construction (judged by the canonical-LR(1) oracle when one changes)
//@pin file=lrtable/src/lib/itemset.rs fn=add sha=8ff3228d8f82d7be
//@use prelude/tail.rs
