//@unit c11_flags props=C11,C12,C09 widths=u32
//@use prelude/head.rs

// The flags of a lexer definition: the merge of the flags given (by a %grmtools section or by the builder) with the
// defaults at the start of LexParser::new_with_lex_flags (lrlex/src/lib/parser.rs), and how Rule::new (lexer.rs) hands
// them to the regex builder.  Decides for C11: a flag that was given is the one in force, a flag that was not given has
// its documented default, and every rule's regex is built with exactly these flags.  For C12: the three flags Rule::new
// unwraps are always present after the merge.
#[derive(Clone, Copy)]
pub struct LexFlags {
    pub dot_matches_new_line: Option<bool>, pub multi_line: Option<bool>, pub octal: Option<bool>, pub posix_escapes: Option<bool>, pub allow_wholeline_comments: Option<bool>,
    pub case_insensitive: Option<bool>, pub swap_greed: Option<bool>, pub ignore_whitespace: Option<bool>, pub unicode: Option<bool>,
    pub size_limit: Option<usize>, pub dfa_size_limit: Option<usize>, pub nest_limit: Option<u32>,
}
// the documented defaults (lexer.rs, pinned to the text of the constant)
//@expect file=lrlex/src/lib/lexer.rs re=`pub const DEFAULT_LEX_FLAGS: LexFlags = LexFlags \{\s*allow_wholeline_comments: Some\(false\),\s*dot_matches_new_line: Some\(true\),\s*multi_line: Some\(true\),\s*octal: Some\(true\),\s*posix_escapes: Some\(false\),\s*case_insensitive: None,\s*ignore_whitespace: None,\s*swap_greed: None,\s*unicode: None,\s*size_limit: None,\s*dfa_size_limit: None,\s*nest_limit: None,\s*\};`
pub open spec fn default_flags() -> LexFlags {
    LexFlags { allow_wholeline_comments: Some(false), dot_matches_new_line: Some(true), multi_line: Some(true), octal: Some(true), posix_escapes: Some(false),
        case_insensitive: None, ignore_whitespace: None, swap_greed: None, unicode: None, size_limit: None, dfa_size_limit: None, nest_limit: None }
}
#[verifier::external_body] pub fn DEFAULT_LEX_FLAGS() -> (r: LexFlags) ensures r == default_flags() { unimplemented!() }
pub open spec fn or_<A>(a: Option<A>, b: Option<A>) -> Option<A> { if a is Some { a } else { b } }
// Option::or
pub fn opt_or<A: Copy>(a: Option<A>, b: Option<A>) -> (r: Option<A>) ensures r == or_(a, b) { match a { Some(_) => a, None => b } }
pub open spec fn merged(f: LexFlags) -> LexFlags {
    let d = default_flags();
    LexFlags {
        dot_matches_new_line: or_(f.dot_matches_new_line, d.dot_matches_new_line), multi_line: or_(f.multi_line, d.multi_line), octal: or_(f.octal, d.octal),
        posix_escapes: or_(f.posix_escapes, d.posix_escapes), allow_wholeline_comments: or_(f.allow_wholeline_comments, d.allow_wholeline_comments),
        case_insensitive: or_(f.case_insensitive, d.case_insensitive), swap_greed: or_(f.swap_greed, d.swap_greed), ignore_whitespace: or_(f.ignore_whitespace, d.ignore_whitespace),
        unicode: or_(f.unicode, d.unicode), size_limit: or_(f.size_limit, d.size_limit), dfa_size_limit: or_(f.dfa_size_limit, d.dfa_size_limit), nest_limit: or_(f.nest_limit, d.nest_limit),
    }
}

//@ctx merge: dialect: `let LexFlags { a, .. } = &mut lex_flags; *a = b.or(DEFAULT_LEX_FLAGS.c);` is read as `lex_flags.a = lex_flags.b.or(DEFAULT_LEX_FLAGS.c);` (the destructuring only names the fields)
fn merge_with_defaults(lex_flags_in: LexFlags) -> (r: LexFlags)
    ensures r == merged(lex_flags_in), // OBL: C11.flags.a_given_flag_is_in_force_and_an_absent_one_has_its_default
        r.octal is Some && r.multi_line is Some && r.dot_matches_new_line is Some, // OBL: C12.flags.the_flags_rule_new_unwraps_are_always_present
{
    //@probe
    let mut lex_flags = lex_flags_in;
    //@body file=lrlex/src/lib/parser.rs fn=new_with_lex_flags block=`^\s*let LexFlags \{$` endx=`^\s*let mut p = LexParser \{$`
    //@rule n=1 `let LexFlags \{\n(?:\s*\w+,\n)*\s*\} = &mut lex_flags;` => ``
    //@rule n=* `\*(\w+) =\s*(\w+)\.or\(DEFAULT_LEX_FLAGS\.(\w+)\);` => `lex_flags.\1 = opt_or(lex_flags.\2, DEFAULT_LEX_FLAGS().\3);`
    //@endbody
    lex_flags
}

// regex::RegexBuilder as the record of the options it has been given (None: left at the regex crate's default)
pub struct ReOpts { pub octal: Option<bool>, pub multi_line: Option<bool>, pub dot_matches_new_line: Option<bool>, pub ignore_whitespace: Option<bool>, pub unicode: Option<bool>,
    pub case_insensitive: Option<bool>, pub swap_greed: Option<bool>, pub size_limit: Option<usize>, pub dfa_size_limit: Option<usize>, pub nest_limit: Option<u32> }
pub struct RegexBuilder { pub o: ReOpts }
impl RegexBuilder {
    pub fn new_() -> (r: RegexBuilder) ensures r.o == (ReOpts { octal: None, multi_line: None, dot_matches_new_line: None, ignore_whitespace: None, unicode: None, case_insensitive: None, swap_greed: None, size_limit: None, dfa_size_limit: None, nest_limit: None })
    { RegexBuilder { o: ReOpts { octal: None, multi_line: None, dot_matches_new_line: None, ignore_whitespace: None, unicode: None, case_insensitive: None, swap_greed: None, size_limit: None, dfa_size_limit: None, nest_limit: None } } }
    pub fn octal(self, b: bool) -> (r: RegexBuilder) ensures r.o == (ReOpts { octal: Some(b), ..self.o }) { RegexBuilder { o: ReOpts { octal: Some(b), ..self.o } } }
    pub fn multi_line(self, b: bool) -> (r: RegexBuilder) ensures r.o == (ReOpts { multi_line: Some(b), ..self.o }) { RegexBuilder { o: ReOpts { multi_line: Some(b), ..self.o } } }
    pub fn dot_matches_new_line(self, b: bool) -> (r: RegexBuilder) ensures r.o == (ReOpts { dot_matches_new_line: Some(b), ..self.o }) { RegexBuilder { o: ReOpts { dot_matches_new_line: Some(b), ..self.o } } }
    pub fn ignore_whitespace(self, b: bool) -> (r: RegexBuilder) ensures r.o == (ReOpts { ignore_whitespace: Some(b), ..self.o }) { RegexBuilder { o: ReOpts { ignore_whitespace: Some(b), ..self.o } } }
    pub fn unicode(self, b: bool) -> (r: RegexBuilder) ensures r.o == (ReOpts { unicode: Some(b), ..self.o }) { RegexBuilder { o: ReOpts { unicode: Some(b), ..self.o } } }
    pub fn case_insensitive(self, b: bool) -> (r: RegexBuilder) ensures r.o == (ReOpts { case_insensitive: Some(b), ..self.o }) { RegexBuilder { o: ReOpts { case_insensitive: Some(b), ..self.o } } }
    pub fn swap_greed(self, b: bool) -> (r: RegexBuilder) ensures r.o == (ReOpts { swap_greed: Some(b), ..self.o }) { RegexBuilder { o: ReOpts { swap_greed: Some(b), ..self.o } } }
    pub fn size_limit(self, n: usize) -> (r: RegexBuilder) ensures r.o == (ReOpts { size_limit: Some(n), ..self.o }) { RegexBuilder { o: ReOpts { size_limit: Some(n), ..self.o } } }
    pub fn dfa_size_limit(self, n: usize) -> (r: RegexBuilder) ensures r.o == (ReOpts { dfa_size_limit: Some(n), ..self.o }) { RegexBuilder { o: ReOpts { dfa_size_limit: Some(n), ..self.o } } }
    pub fn nest_limit(self, n: u32) -> (r: RegexBuilder) ensures r.o == (ReOpts { nest_limit: Some(n), ..self.o }) { RegexBuilder { o: ReOpts { nest_limit: Some(n), ..self.o } } }
}

// every rule's regex is anchored at the current position and wrapped in a non-capturing group (the lexer's longest-match loop relies
// on it), after the text has been parsed on its own with the flags in force (it must be a regular expression by itself); with
// ignore_whitespace the line is ended before the group is closed: pinned to the text
//@expect file=lrlex/src/lib/lexer.rs re=`format!\("\\\\A\(\?:\{\}\)", re_str\)`
//@expect file=lrlex/src/lib/lexer.rs re=`format!\("\\\\A\(\?:\{\}\\n\)", re_str\)`
//@expect file=lrlex/src/lib/lexer.rs re=`\.parse\(&re_str\)\s*\.map_err\(\|e\| regex::Error::Syntax\(e\.to_string\(\)\)\)\?;`
//@expect file=lrlex/src/lib/lexer.rs re=`let mut re = RegexBuilder::new\(&anchored\);`
//@ctx rule_new: the builder methods of the regex crate take the builder by `&mut` and hand it back; read here as by value (the chain is linear)
//@ctx rule_new: called with merged flags (new_with_lex_flags merges before any rule is built; the generated lexer code passes the flags it recorded after the merge)
fn rule_new_builder(lex_flags: &LexFlags) -> (re: RegexBuilder)
    requires lex_flags.octal is Some && lex_flags.multi_line is Some && lex_flags.dot_matches_new_line is Some,
    ensures re.o == (ReOpts { octal: lex_flags.octal, multi_line: lex_flags.multi_line, dot_matches_new_line: lex_flags.dot_matches_new_line, ignore_whitespace: lex_flags.ignore_whitespace,
        unicode: lex_flags.unicode, case_insensitive: lex_flags.case_insensitive, swap_greed: lex_flags.swap_greed, size_limit: lex_flags.size_limit, dfa_size_limit: lex_flags.dfa_size_limit,
        nest_limit: lex_flags.nest_limit }), // OBL: C11.flags.every_regex_is_built_with_exactly_the_flags_in_force C09.flags.every_regex_is_built_with_exactly_the_flags_in_force
{
    //@probe
    //@body file=lrlex/src/lib/lexer.rs fn=new nth=1 block=`let mut re = RegexBuilder::new\(` endx=`^\s*let re = re\.build\(\)\?;$`
    //@rule n=1 `let mut re = RegexBuilder::new\(&anchored\);` => `let re = RegexBuilder::new_();`
    //@rule n=1 `let mut re = re\n` => `let mut re = re\n`
    //@endbody
    re
}
//@use prelude/tail.rs
