//@unit c12_span props=C12,C11,C10,C08,C19 widths=u32
//@use prelude/head.rs

// cfgrammar/src/lib/span.rs: the Span every other unit uses through a stand-in (prelude/cursor.rs, prelude/lrpar.rs,
// prelude/strs.rs and the units' own `Span { st, en }`).  The real bodies are verified here against the contract those
// stand-ins state: `new` builds the span with exactly that start and end and panics exactly when end < start (which is why
// every call of Span::new in a verified body carries the obligation start <= end); start / end read the fields; len is the
// difference and is_empty says whether it is zero.
pub struct Span { pub start: usize, pub end: usize }
impl Span {
    // a span made by `new` (the fields are private to span.rs)
    pub open spec fn wf(&self) -> bool { self.start <= self.end }
    //@ctx Span::new: called with start <= end (the documented panic otherwise; the obligation span_new_start_le_end at every call site in the other units)
    pub fn new(start: usize, end: usize) -> (r: Span)
        requires start <= end,
        ensures r.start == start && r.end == end && r.wf(), // OBL: C12.span.new_is_the_span_from_start_to_end
    {
        //@probe
        //@body file=cfgrammar/src/lib/span.rs fn=new
        //@endbody
    }
    // .. and it does refuse the other case (the stand-ins' `requires` is not stronger than the code's own check)
    pub fn new_refuses(start: usize, end: usize) -> (r: Span)
        requires end < start,
        ensures false, // OBL: C12.span.new_refuses_a_span_that_ends_before_it_starts
    {
        //@probe
        //@body file=cfgrammar/src/lib/span.rs fn=new
        //@rule n=1 `panic!\("Span starts[^;]*\);` => `refuse();`
        //@endbody
    }
    pub fn start(&self) -> (r: usize) ensures r == self.start, // OBL: C12.span.start_reads_the_start
    {
        //@probe
        //@body file=cfgrammar/src/lib/span.rs fn=start
        //@endbody
    }
    pub fn end(&self) -> (r: usize) ensures r == self.end, // OBL: C12.span.end_reads_the_end
    {
        //@probe
        //@body file=cfgrammar/src/lib/span.rs fn=end
        //@endbody
    }
    //@ctx Span::len / is_empty: the span was made by Span::new (start <= end); a deserialised span is outside this contract
    pub fn len(&self) -> (r: usize)
        requires self.wf(),
        ensures r == self.end - self.start, // OBL: C12.span.len_is_end_minus_start
    {
        //@probe
        //@body file=cfgrammar/src/lib/span.rs fn=len
        //@endbody
    }
    pub fn is_empty(&self) -> (r: bool)
        requires self.wf(),
        ensures r == (self.start == self.end), // OBL: C12.span.is_empty_says_whether_start_is_end
    {
        //@probe
        //@body file=cfgrammar/src/lib/span.rs fn=is_empty
        //@endbody
    }
}
//@use prelude/tail.rs
