//@unit c08_reduce__pins props=C08,C04 widths=u32
//@use prelude/head.rs
// not under contract: parse_generictree / parse_noaction (parse_map with the tree-building / unit closures; parse_map and parse_actions are under contract in unit c08_entry); judged by the c08 sweep when one changes
//@pin file=lrpar/src/lib/parser.rs fn=parse_noaction sha=893a538c5846d130
//@pin file=lrpar/src/lib/parser.rs fn=parse_generictree sha=cc738ef01e0b6f46
//@use prelude/tail.rs
