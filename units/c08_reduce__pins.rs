//@unit c08_reduce__pins props=C08,C04 widths=u32
//@use prelude/head.rs
// not under contract: the parse entry points around lr / lr_upto (judged by the c08 sweep when one changes)
//@pin file=lrpar/src/lib/parser.rs fn=parse_generictree sha=cc738ef01e0b6f46
//@pin file=lrpar/src/lib/parser.rs fn=parse_actions nth=1 sha=2524b76017886613
//@pin file=lrpar/src/lib/parser.rs fn=parse_map nth=1 sha=3ca8f632acbd1829
//@use prelude/tail.rs
