//@unit c12_yacc__pins props=C12 widths=u32
//@use prelude/head.rs
// not under contract: the rest of the yacc grammar parser (totality judged by the c12 yacc sweep when one changes)
//@pin file=cfgrammar/src/lib/yacc/parser.rs fn=build sha=662f52b88f00489d
//@pin file=cfgrammar/src/lib/yacc/ast.rs fn=add_programs sha=fb76c16f98745b8d
//@pin file=cfgrammar/src/lib/yacc/ast.rs fn=set_programs sha=a672bc6e20d019f4
//@pin file=cfgrammar/src/lib/yacc/ast.rs fn=get_rule sha=3287f2f00d7e97fc
//@pin file=cfgrammar/src/lib/yacc/ast.rs fn=unused_symbols sha=3d0d006d8a29898b
//@use prelude/tail.rs
