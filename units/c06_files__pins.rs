//@unit c06_files__pins props=C06 widths=u32
//@use prelude/head.rs
// the source files the property is anchored in, pinned whole (test modules, comments and layout apart): a change to anything in
// them that is neither under contract nor pinned by name still makes this unit undecided, which sends the check to the
// property's bounded sweep of the real code
//@pinfile file=lrpar/src/lib/cpctplus.rs sha=73c6fbd2e7b2c51e
//@pinfile file=lrpar/src/lib/dijkstra.rs sha=99c41d60d9cf3958
//@pinfile file=cfgrammar/src/lib/yacc/grammar.rs sha=b2daa9fc80630f0d
//@use prelude/tail.rs
