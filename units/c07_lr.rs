//@unit c07_lr props=C07,C04 widths=u32
//@use prelude/head.rs
//@use prelude/action.rs
//@use prelude/lrpar.rs

// ---- stand-ins (assumed) ----
#[verifier::external_body] pub struct ActionT { _x: usize }
pub enum AStackType { ActionType(ActionT), Lexeme(LexemeT) }
#[derive(Clone, Copy, PartialEq, Eq)] pub enum RecoveryKind { CPCTPlus, None }
#[verifier::external_body] pub struct StateTable { _x: usize }
impl StateTable {
    pub uninterp spec fn saction(&self, s: StIdx<$T>, t: TIdx<$T>) -> Action<$T>;
    // the exact cell (unit c16_codec / c16_new): no default reductions
    #[verifier::external_body] pub fn action(&self, s: StIdx<$T>, t: TIdx<$T>) -> (a: Action<$T>) ensures a == self.saction(s, t) { unimplemented!() }
}
#[verifier::external_body] pub struct Grm { _x: usize }
impl Grm { #[verifier::external_body] pub fn eof_token_idx(&self) -> (r: TIdx<$T>) { unimplemented!() } }
// std::time: `Instant + Duration` panics on overflow, `Duration - Duration` (and `-=`) on underflow
#[verifier::external_body] #[derive(Clone, Copy)] pub struct Instant { _x: usize }
#[derive(Clone, Copy)] pub struct Duration { pub ns: u128 }
pub const RECOVERY_TIME_BUDGET: u64 = 500;
impl Duration {
    pub fn from_millis(ms: u64) -> (r: Duration) ensures r.ns == ms as u128 * 1_000_000 { Duration { ns: ms as u128 * 1_000_000 } }
    pub fn new(_s: u64, _n: u32) -> (r: Duration) requires _s == 0, _n == 0 ensures r.ns == 0 { Duration { ns: 0 } }
    pub fn checked_sub(self, rhs: Duration) -> (r: Option<Duration>)
        ensures rhs.ns <= self.ns ==> r == Some(Duration { ns: (self.ns - rhs.ns) as u128 }), rhs.ns > self.ns ==> r is None
    { if rhs.ns <= self.ns { Some(Duration { ns: self.ns - rhs.ns }) } else { None } }
}
// `d -= x` / `d - x` on Durations: panics when x > d
pub fn duration_sub(d: Duration, x: Duration) -> (r: Duration)
    requires x.ns <= d.ns, // OBLG: C07.duration_subtraction_does_not_underflow
    ensures r.ns == d.ns - x.ns
{ Duration { ns: d.ns - x.ns } }
impl Instant {
    #[verifier::external_body] pub fn now() -> (r: Instant) { unimplemented!() }
    #[verifier::external_body] pub fn elapsed(&self) -> (r: Duration) { unimplemented!() }
}
// `before + recovery_budget`: cannot overflow for a budget of at most RECOVERY_TIME_BUDGET ms (assumed: the clock is far from its maximum)
#[verifier::external_body]
pub fn instant_add(a: Instant, d: Duration) -> (r: Instant) requires d.ns <= 500 * 1_000_000 { unimplemented!() } // OBLG: C07.deadline_addition_within_budget
// `after - before` on Instants saturates at zero (std, no panic)
#[verifier::external_body]
pub fn instant_sub(a: Instant, b: Instant) -> (r: Duration) { unimplemented!() }

pub struct ParseError { pub stidx: StIdx<$T>, pub lexeme: LexemeT, pub repairs: Vec<Vec<ParseRepair>> }
impl ParseError { pub fn into(self) -> (r: ParseError) ensures r == self { self } }   // ParseError -> LexParseError::ParseError(..)

pub struct Parser { pub rcvry_kind: RecoveryKind, pub stable: StateTable, pub grm: Grm }
#[verifier::external_body] pub struct RecovererBox { _x: usize }     // Box<dyn Recoverer>
impl Parser {
    pub uninterp spec fn snext(&self, laidx: int) -> LexemeT;
    pub uninterp spec fn snext_tidx(&self, laidx: int) -> TIdx<$T>;
    #[verifier::external_body] pub fn next_lexeme(&self, laidx: usize) -> (r: LexemeT) ensures r == self.snext(laidx as int) { unimplemented!() }
    #[verifier::external_body] pub fn next_tidx(&self, laidx: usize) -> (r: TIdx<$T>) ensures r == self.snext_tidx(laidx as int) { unimplemented!() }
}
pub struct cpctplus {}
impl cpctplus { #[verifier::external_body] pub fn recoverer(p: &Parser) -> (r: RecovererBox) { unimplemented!() } }
// `recoverer.as_ref().unwrap().as_ref().recover(..)`: unwrap panics on None; CPCT+'s recover returns
// the index it parsed up to while applying the first repair sequence, never before in_laidx
#[verifier::external_body]
pub fn recover(rec: &Option<RecovererBox>, finish_by: Instant, parser: &Parser, in_laidx: usize, pstack: &mut Vec<StIdx<$T>>, astack: &mut Vec<AStackType>, spans: &mut Vec<Span>)
        -> (r: (usize, Vec<Vec<ParseRepair>>))
    requires rec is Some, // OBLG: C07.recoverer_present_when_used
             old(pstack)@.len() > 0, old(astack)@.len() == old(spans)@.len(),
    ensures r.0 >= in_laidx, final(pstack)@.len() > 0, final(astack)@.len() == final(spans)@.len(),
{ unimplemented!() }
// the reduce and shift arms are verified in unit c08_reduce; here only stack alignment matters
#[verifier::external_body]
pub fn reduce_arm(p: &Parser, pidx: PIdx<$T>, pstack: &mut Vec<StIdx<$T>>, astack: &mut Vec<AStackType>, spans: &mut Vec<Span>)
    requires old(pstack)@.len() > 0, old(astack)@.len() == old(spans)@.len(),
    ensures final(pstack)@.len() > 0, final(astack)@.len() == final(spans)@.len(),
{ unimplemented!() }
// panics whose unreachability is LR theory (C01 territory): assumed
#[verifier::external_body] pub fn assume_lr(b: bool) ensures b { unimplemented!() }
#[verifier::external_body] pub fn unreachable_lr<A>() -> (r: A) ensures false { unimplemented!() }
#[verifier::external_body] pub fn take_only(astack: &mut Vec<AStackType>) -> (r: AStackType) requires old(astack)@.len() == 1 ensures final(astack)@.len() == 0 { unimplemented!() }

// ---------------- specification ----------------
// every new error sits at the lookahead on which the table had no action, in the state on top of the stack
pub open spec fn located(p: &Parser, errs: Seq<ParseError>, from: int, epos: Seq<int>) -> bool {
    &&& epos.len() == errs.len() - from
    &&& forall|j: int| 0 <= j < epos.len() ==> (#[trigger] errs[from + j]).lexeme == p.snext(epos[j]) && p.stable.saction(errs[from + j].stidx, p.snext_tidx(epos[j])) is Error
    &&& forall|j: int, j2: int| 0 <= j < j2 < epos.len() ==> #[trigger] epos[j] <= #[trigger] epos[j2]
}
pub open spec fn all_repaired(errs: Seq<ParseError>, from: int) -> bool { forall|k: int| from <= k < errs.len() ==> (#[trigger] errs[k]).repairs@.len() > 0 }

//@ctx lr: entered with a non-empty parse stack and aligned value/span stacks (parse_actions: pstack = [start state], astack = spans = [])
//@ctx lr: five panic sites depend on LR theory (Accept only at end of input with exactly one value; the value on top is an action value) and are assumed unreachable
//@undecided lr: termination / progress (every later error at least three lexemes further): the loop is verified for partial correctness only (exec_allows_no_decreases_clause)
impl Parser {
    #[verifier::exec_allows_no_decreases_clause]
    fn lr(&self, laidx0: usize, pstack: &mut Vec<StIdx<$T>>, astack: &mut Vec<AStackType>, errors: &mut Vec<ParseError>, spans: &mut Vec<Span>) -> (r: Option<ActionT>)
        requires old(pstack)@.len() > 0, old(astack)@.len() == old(spans)@.len(),
        ensures
            final(errors)@.len() >= old(errors)@.len() && final(errors)@.subrange(0, old(errors)@.len() as int) == old(errors)@, // OBL: C07.errors_are_only_appended
            r is Some ==> all_repaired(final(errors)@, old(errors)@.len() as int), // OBL: C07.value_returned_only_if_every_error_was_repaired
            r is None ==> final(errors)@.len() > old(errors)@.len() && final(errors)@.last().repairs@.len() == 0
                && all_repaired(final(errors)@.drop_last(), old(errors)@.len() as int), // OBL: C07.no_value_iff_last_error_has_no_repairs C04.a_rejected_input_always_reports_an_error
            self.rcvry_kind == RecoveryKind::None && r is None ==> final(errors)@.len() == old(errors)@.len() + 1, // OBL: C04.recovery_off_reports_exactly_one_error
            exists|epos: Seq<int>| #[trigger] located(self, final(errors)@, old(errors)@.len() as int, epos) && (epos.len() > 0 ==> epos[0] >= laidx0), // OBL: C04.errors_located_at_the_lexeme_the_table_rejected_in_input_order C07.errors_reported_in_increasing_input_position
    {
        //@probe
        let mut laidx = laidx0;
        let ghost e0 = errors@;
        let ghost mut epos: Seq<int> = Seq::empty();
        let ghost mut errs_prev: Seq<ParseError> = errors@;
        //@body file=lrpar/src/lib/parser.rs fn=lr
        //@rule n=* `\bself\.` => `self.`
        //@rule n=1 `Duration::from_millis\(RECOVERY_TIME_BUDGET\)` => `Duration::from_millis(RECOVERY_TIME_BUDGET)`
        //@rule n=1 `^(\s*)loop \{$` =>>
        loop
            invariant
                pstack@.len() > 0, astack@.len() == spans@.len(), recovery_budget.ns <= 500 * 1_000_000,
                e0 == old(errors)@, errors@.len() >= e0.len(), errors@.subrange(0, e0.len() as int) == e0,
                all_repaired(errors@, e0.len() as int), // OBL: C07.every_error_but_the_last_has_a_repair
                self.rcvry_kind == RecoveryKind::None ==> errors@.len() == e0.len() && recoverer is None,
                located(self, errors@, e0.len() as int, epos), // OBL: C04.errors_located_at_the_lexeme_the_table_rejected
                laidx >= laidx0, forall|j: int| 0 <= j < epos.len() ==> laidx0 <= #[trigger] epos[j] <= laidx,
        {
            //@probe
        //@end
        //@rule n=1 `debug_assert_eq!\(astack\.len\(\), spans\.len\(\)\);` => `{ let assert_cond_ = astack.len() == spans.len(); assert(assert_cond_); } // OBL: C07.value_and_span_stacks_aligned`
        //@rule n=* `debug_assert_eq!\((.*), (.*)\);` => `assume_lr(true);`
        //@cut n=1 `Action::Reduce\(pidx\) => \{` =>>
                Action::Reduce(pidx) => { reduce_arm(self, pidx, pstack, astack, spans); }
        //@end
        //@rule n=1 `match astack\.drain\(\.\.\)\.next\(\)\.unwrap\(\) \{` => `assume_lr(astack.len() == 1); match take_only(astack) {`
        //@rule n=1 `_ => vpanic\(\),` => `_ => unreachable_lr(),`
        //@rule n=1 `let finish_by = before \+ recovery_budget;` => `let finish_by = instant_add(before, recovery_budget);`
        //@rule n=1 `let \(new_laidx, repairs\) = recoverer\s*\.as_ref\(\)\s*\.unwrap\(\)\s*\.as_ref\(\)\s*\.recover\(finish_by, self, laidx, pstack, astack, spans\);` => `let (new_laidx, repairs) = recover(&recoverer, finish_by, self, laidx, pstack, astack, spans);`
        //@rule n=* `recovery_budget = recovery_budget\s*\.checked_sub\(after - before\)\s*\.unwrap_or_else\(\|\| Duration::new\(0, 0\)\);` => `recovery_budget = match recovery_budget.checked_sub(instant_sub(after, before)) { Some(d_) => d_, None => Duration::new(0, 0) };`
        //@rule n=* `recovery_budget -= (.*);` => `recovery_budget = duration_sub(recovery_budget, \1);`
        //@rule n=* `let keep_going = !repairs\.is_empty\(\);` => `let keep_going = repairs.len() != 0;`
        //@rule n=2 `^(\s*)errors\.push\($` => `\1proof { epos = epos.push(laidx as int); }\n\1errors.push(`
        //@after n=2 `^\s*errors\.push\(` =>>
                    proof {
                        let from = e0.len() as int;
                        assert forall|j: int| 0 <= j < epos.len() implies (#[trigger] errors@[from + j]).lexeme == self.snext(epos[j]) && self.stable.saction(errors@[from + j].stidx, self.snext_tidx(epos[j])) is Error by {
                            if j < epos.len() - 1 { assert(errors@[from + j] == errors@.subrange(0, errors@.len() - 1)[from + j]); }
                        }
                        assert(located(self, errors@, from, epos));
                    }
        //@end
        //@rule n=* `laidx \+= 1;` => `assume_lr(laidx < usize::MAX); laidx += 1;`
        //@endbody
    }
}
//@use prelude/tail.rs
