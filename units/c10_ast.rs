//@unit c10_ast props=C10 widths=u32
//@use prelude/head.rs

// cfgrammar/src/lib/yacc/ast.rs: add_rule and add_prod, through which the .y parser builds the AST.  Decides for C10:
// the productions are numbered in source order, each belongs to exactly one rule, and a rule lists its productions in
// source order - what the grammar constructor (units c10_rule, c10_grammar) assumes of the AST it is given.
#[verifier::external_body] pub struct Name { _x: usize }
impl Name {
    pub uninterp spec fn id(&self) -> int;
    #[verifier::external_body] pub fn clone(&self) -> (r: Name) ensures r.id() == self.id() { unimplemented!() }
}
#[derive(Clone, Copy)] pub struct Span { pub st: usize, pub en: usize }
#[verifier::external_body] pub struct ASymbol { _x: usize }   // ast::Symbol
pub struct Rule { pub name: (Name, Span), pub pidxs: Vec<usize>, pub actiont: Option<Name> }
pub struct Production { pub symbols: Vec<ASymbol>, pub precedence: Option<Name>, pub action: Option<(Name, Span)>, pub prod_span: Span }
// what is kept of a rule in the specification
pub struct RuleV { pub name: int, pub pidxs: Seq<usize> }
// IndexMap<String, Rule>: the rules in insertion order, names distinct
#[verifier::external_body] pub struct RuleMap { _x: usize }
impl RuleMap {
    pub uninterp spec fn seq(&self) -> Seq<RuleV>;
    pub open spec fn has(&self, n: int) -> bool { exists|k: int| 0 <= k < self.seq().len() && (#[trigger] self.seq()[k]).name == n }
    pub open spec fn idx_of(&self, n: int) -> int { choose|k: int| 0 <= k < self.seq().len() && (#[trigger] self.seq()[k]).name == n }
    // IndexMap::insert: a new key goes to the end; an existing key keeps its place and gets the new value
    #[verifier::external_body]
    pub fn insert(&mut self, k: Name, v: Rule)
        ensures !old(self).has(k.id()) ==> final(self).seq() == old(self).seq().push(RuleV { name: k.id(), pidxs: v.pidxs@ }),
            old(self).has(k.id()) ==> final(self).seq() == old(self).seq().update(old(self).idx_of(k.id()), RuleV { name: k.id(), pidxs: v.pidxs@ }),
    { unimplemented!() }
    // IndexMap::get: the rule stored under that name, if any
    #[verifier::external_body]
    pub fn get(&self, k: &Name) -> (r: Option<&Rule>)
        ensures (r is Some) == self.has(k.id()), r matches Some(x) ==> x.pidxs@ == self.seq()[self.idx_of(k.id())].pidxs,
    { unimplemented!() }
    // `self.rules[&name].pidxs.push(x)` (IndexMut: panics when the key is missing)
    #[verifier::external_body]
    pub fn push_pidx(&mut self, name: &Name, x: usize)
        requires old(self).has(name.id()), // OBLG: C10.ast.production_added_to_a_registered_rule
        ensures final(self).seq() == old(self).seq().update(old(self).idx_of(name.id()), RuleV { name: name.id(), pidxs: old(self).seq()[old(self).idx_of(name.id())].pidxs.push(x) }),
    { unimplemented!() }
}
pub struct GrammarAST { pub rules: RuleMap, pub prods: Vec<Production>, pub programs: Option<Name> }

// ---------------- specification ----------------
pub open spec fn at(R: Seq<RuleV>, k: int, j: int) -> usize { R[k].pidxs[j] }
pub open spec fn valid_pos(R: Seq<RuleV>, k: int, j: int) -> bool { 0 <= k < R.len() && 0 <= j < R[k].pidxs.len() }
pub open spec fn names_distinct(R: Seq<RuleV>) -> bool { forall|a: int, b: int| 0 <= a < b < R.len() ==> (#[trigger] R[a]).name != (#[trigger] R[b]).name }
pub open spec fn covered(R: Seq<RuleV>, p: int) -> bool { exists|k: int, j: int| valid_pos(R, k, j) && #[trigger] at(R, k, j) == p }
// every production number below n is listed by exactly one rule, once; nothing else is listed
pub open spec fn partition(R: Seq<RuleV>, n: int) -> bool {
    &&& forall|k: int, j: int| valid_pos(R, k, j) ==> #[trigger] at(R, k, j) < n
    &&& forall|k1: int, j1: int, k2: int, j2: int| valid_pos(R, k1, j1) && valid_pos(R, k2, j2) && (k1 != k2 || j1 != j2) ==> #[trigger] at(R, k1, j1) != #[trigger] at(R, k2, j2)
    &&& forall|p: int| 0 <= p < n ==> #[trigger] covered(R, p)
}
// a rule lists its productions in increasing order (= source order, productions being numbered as they are met)
pub open spec fn increasing(R: Seq<RuleV>) -> bool { forall|k: int, a: int, b: int| 0 <= k < R.len() && 0 <= a < b < R[k].pidxs.len() ==> #[trigger] at(R, k, a) < #[trigger] at(R, k, b) }
pub open spec fn ast_ok(a: &GrammarAST) -> bool { names_distinct(a.rules.seq()) && partition(a.rules.seq(), a.prods@.len() as int) && increasing(a.rules.seq()) }

impl GrammarAST {
    //@ctx add_rule: only called for a name that has no rule yet (parse_rule asks get_rule first; unit c12_yacc2 keeps that guard in view); adding a name twice would drop the productions of the first rule
    pub fn add_rule(&mut self, name_: (Name, Span), actiont: Option<Name>)
        requires ast_ok(old(self)), !old(self).rules.has(name_.0.id()), // OBLG: C10.ast.rule_added_once
        ensures ast_ok(final(self)), // OBL: C10.ast.adding_a_rule_keeps_every_production_with_its_rule
            final(self).rules.seq() == old(self).rules.seq().push(RuleV { name: name_.0.id(), pidxs: Seq::empty() }), // OBL: C10.ast.rules_kept_in_source_order
            final(self).prods@ == old(self).prods@,
    {
        //@probe
        let ghost R0 = self.rules.seq();
        let (name, name_span) = name_;
        //@body file=cfgrammar/src/lib/yacc/ast.rs fn=add_rule
        //@endbody
        proof {
            let R1 = self.rules.seq();
            assert(R1 == R0.push(RuleV { name: name.id(), pidxs: Seq::<usize>::empty() }));
            assert forall|k: int, j: int| valid_pos(R1, k, j) implies valid_pos(R0, k, j) && at(R1, k, j) == at(R0, k, j) by { }
            assert forall|p: int| 0 <= p < self.prods@.len() implies #[trigger] covered(R1, p) by {
                assert(covered(R0, p));
                let (k, j) = choose|k: int, j: int| valid_pos(R0, k, j) && #[trigger] at(R0, k, j) == p;
                assert(valid_pos(R1, k, j) && at(R1, k, j) == p);
            }
        }
    }

    pub fn add_prod(&mut self, rule_name: Name, symbols: Vec<ASymbol>, precedence: Option<Name>, action: Option<(Name, Span)>, prod_span: Span)
        requires ast_ok(old(self)), old(self).rules.has(rule_name.id()),
        ensures ast_ok(final(self)), // OBL: C10.ast.every_production_belongs_to_exactly_one_rule
            final(self).prods@.len() == old(self).prods@.len() + 1, // OBL: C10.ast.productions_numbered_in_source_order
            ({ let k0 = old(self).rules.idx_of(rule_name.id());
               final(self).rules.seq() == old(self).rules.seq().update(k0, RuleV { name: rule_name.id(), pidxs: old(self).rules.seq()[k0].pidxs.push(old(self).prods@.len() as usize) }) }), // OBL: C10.ast.new_production_is_listed_last_by_its_rule
    {
        //@probe
        let ghost R0 = self.rules.seq();
        let ghost n = self.prods@.len() as int;
        let ghost k0 = self.rules.idx_of(rule_name.id());
        //@body file=cfgrammar/src/lib/yacc/ast.rs fn=add_prod
        //@rule n=1 `self\.rules\[&rule_name\]\.pidxs\.push\((.*)\);` => `self.rules.push_pidx(&rule_name, \1);`
        //@endbody
        proof {
            let R1 = self.rules.seq();
            let last = R0[k0].pidxs.len() as int;
            assert(0 <= k0 < R0.len() && R0[k0].name == rule_name.id());
            assert(R1.len() == R0.len());
            assert forall|k: int, j: int| valid_pos(R1, k, j) implies (if k == k0 && j == last { at(R1, k, j) == n } else { valid_pos(R0, k, j) && at(R1, k, j) == at(R0, k, j) }) by { }
            assert forall|k: int, j: int| valid_pos(R0, k, j) implies valid_pos(R1, k, j) && at(R1, k, j) == at(R0, k, j) by { }
            assert forall|p: int| 0 <= p < n + 1 implies #[trigger] covered(R1, p) by {
                if p == n { assert(valid_pos(R1, k0, last) && at(R1, k0, last) == n); }
                else { assert(covered(R0, p)); let (k, j) = choose|k: int, j: int| valid_pos(R0, k, j) && #[trigger] at(R0, k, j) == p; assert(valid_pos(R1, k, j) && at(R1, k, j) == p); }
            }
            assert forall|a: int, b: int| 0 <= a < b < R1.len() implies (#[trigger] R1[a]).name != (#[trigger] R1[b]).name by { assert(R1[a].name == R0[a].name && R1[b].name == R0[b].name); }
        }
    }

    pub fn add_programs(&mut self, s: Name)
        ensures final(self).programs == Some(s) && final(self).rules == old(self).rules && final(self).prods == old(self).prods, // OBL: C10.ast.the_programs_section_is_kept_as_given_and_nothing_else_changes
    {
        //@probe
        //@body file=cfgrammar/src/lib/yacc/ast.rs fn=add_programs
        //@endbody
    }
    pub fn set_programs(&mut self, s: Name)
        ensures final(self).programs == Some(s) && final(self).rules == old(self).rules && final(self).prods == old(self).prods, // OBL: C10.ast.setting_the_programs_section_keeps_it_as_given_and_nothing_else_changes
    {
        //@probe
        //@body file=cfgrammar/src/lib/yacc/ast.rs fn=set_programs
        //@endbody
    }
    pub fn get_rule(&self, key: &Name) -> (r: Option<&Rule>)
        ensures (r is Some) == self.rules.has(key.id()), r matches Some(x) ==> x.pidxs@ == self.rules.seq()[self.rules.idx_of(key.id())].pidxs, // OBL: C10.ast.a_rule_is_found_by_name_exactly_when_it_was_added_and_with_its_productions
    {
        //@probe
        //@body file=cfgrammar/src/lib/yacc/ast.rs fn=get_rule
        //@endbody
    }
}
//@use prelude/tail.rs
