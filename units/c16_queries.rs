//@unit c16_queries props=C16 widths=u16 thorough_widths=u8,u16,u32
//@use units/c16_spec.inc

// The finished StateTable and its query functions (lrtable/src/lib/statetable.rs): the tail of StateTable::new that
// packs the tables, action(), state_actions(), state_shifts(), core_reduces(), reduce_only_state() and the two
// iterators.  The table invariant `twf` is exactly what unit c16_new proves of the tables StateTable::new computes;
// with it every query is a function of the final cells and of the state graph, which is the property.
// SparseVec<usize> (sparsevec crate): a matrix packed row by row; get(r, c) is the cell (trusted)
#[verifier::external_body] pub struct SparseVec { _x: usize }
impl SparseVec {
    pub uninterp spec fn rows(&self) -> nat;
    pub uninterp spec fn cols(&self) -> nat;
    pub uninterp spec fn flat(&self) -> Seq<usize>;
    // SparseVec::from(&v, empty_val, row_length)
    #[verifier::external_body]
    pub fn from(v: &Vec<usize>, empty: usize, cols: usize) -> (r: SparseVec)
        ensures r.flat() == v@, r.cols() == cols, r.rows() * cols == v@.len(),
    { unimplemented!() }
    #[verifier::external_body]
    pub fn get(&self, r: usize, c: usize) -> (v: Option<usize>)
        ensures (r < self.rows() && c < self.cols()) ==> v == Some(self.flat()[r * self.cols() + c]),
                !(r < self.rows() && c < self.cols()) ==> v is None,
    { unimplemented!() }
}
// vob's IterSetBits over a range: the set bits of [cur, end) in increasing order
pub struct IterSetBits { pub bits: Ghost<Seq<bool>>, pub cur: usize, pub end: usize }
impl IterSetBits {
    pub open spec fn wf(&self) -> bool { self.cur <= self.end && self.end <= self.bits@.len() }
    #[verifier::external_body]
    pub fn next(&mut self) -> (r: Option<usize>)
        requires old(self).wf(),
        ensures final(self).wf(), final(self).bits@ == old(self).bits@, final(self).end == old(self).end,
            r matches Some(i) ==> old(self).cur <= i < old(self).end && old(self).bits@[i as int] && final(self).cur == i + 1
                && forall|k: int| old(self).cur <= k < i ==> !#[trigger] old(self).bits@[k],
            r is None ==> final(self).cur == old(self).end && forall|k: int| old(self).cur <= k < old(self).end ==> !#[trigger] old(self).bits@[k],
    { unimplemented!() }
}
// `vob.iter_set_bits(start..end)`: panics if the range is not within the vob
#[verifier::external_body]
pub fn iter_set_bits(v: &Vob, start: usize, end: usize) -> (r: IterSetBits)
    requires start <= end, end <= v@.len(), // OBLG: C16.queries.bit_range_within_the_vector
    ensures r.bits@ == v@, r.cur == start, r.end == end,
{ unimplemented!() }
pub struct Conflicts { pub reduce_reduce: Vec<(TIdx<$T>, PIdx<$T>, PIdx<$T>, StIdx<$T>)>, pub shift_reduce: Vec<(TIdx<$T>, PIdx<$T>, StIdx<$T>)> }

pub struct Table {
    pub actions: SparseVec, pub state_actions: Vob, pub gotos: SparseVec, pub start_state: StIdx<$T>, pub core_reduces: Vob, pub state_shifts: Vob,
    pub reduce_states: Vob, pub prods_len: PIdx<$T>, pub tokens_len: TIdx<$T>, pub conflicts: Option<Conflicts>,
}
pub struct StateActionsIterator { pub iter: IterSetBits, pub start: usize }
pub struct CoreReducesIterator { pub iter: IterSetBits, pub start: usize }

impl StateGraph {
    pub uninterp spec fn start(&self) -> StIdx<$T>;
    #[verifier::external_body] pub fn start_state(&self) -> (r: StIdx<$T>) ensures r == self.start() { unimplemented!() }
}

impl Table {
    // what unit c16_new proves of the tables computed by StateTable::new, stated of the packed table
    pub open spec fn twf(&self, grm: &YaccGrammar, sg: &StateGraph) -> bool {
        let A = self.actions.flat();
        let G = self.gotos.flat();
        let ns = sg.nstates() as int;
        let nt = grm.ntok() as int;
        &&& grm.wf() && sg.wf(grm)
        &&& self.tokens_len.0 == grm.ntok() && self.prods_len.0 == grm.nprods() && self.start_state == sg.start()
        &&& self.actions.cols() == grm.ntok() && self.actions.rows() * grm.ntok() == A.len() && A.len() == ns * nt
        &&& self.gotos.cols() == grm.nrules() && self.gotos.rows() * grm.nrules() == G.len() && G.len() == ns * grm.nrules()
        &&& cells_wf(grm, A)
        &&& sa_ok(A, self.state_actions@)
        &&& A.len() <= usize::MAX && self.core_reduces@.len() <= usize::MAX      // they are lengths of vectors
        &&& self.state_shifts@.len() == ns * nt && forall|s: int| 0 <= s < ns ==> #[trigger] row_shifts_ok(A, self.state_shifts@, s * nt, nt)
        &&& self.core_reduces@.len() == ns * grm.nprods() && forall|s: int| 0 <= s < ns ==> #[trigger] row_core_ok(grm, A, self.core_reduces@, s * nt, nt, s * grm.nprods(), grm.nprods() as int)
        &&& self.reduce_states@.len() == ns && forall|s: int| 0 <= s < ns ==> (#[trigger] self.reduce_states@[s]) == row_reduce_only(grm, A, s * nt, nt)
        &&& forall|s: int| 0 <= s < ns ==> #[trigger] row_shift_edges(sg.edge_list(s), sg.edge_list(s).len() as int, A, s * nt, nt)
        &&& forall|s: int| 0 <= s < ns ==> #[trigger] row_gotos_ok(sg.edge_list(s), sg.edge_list(s).len() as int, G, s * grm.nrules(), grm.nrules() as int)
    }
    pub open spec fn cell(&self, grm: &YaccGrammar, s: int, t: int) -> usize { self.actions.flat()[s * grm.ntok() + t] }

    //@ctx finish: the vectors and bit vectors are the ones the loops of StateTable::new computed (the postcondition of unit c16_new, restated as the precondition)
    fn finish(grm: &YaccGrammar, sg: &StateGraph, actions: Vec<usize>, gotos: Vec<usize>, state_actions: Vob, core_reduces: Vob, state_shifts: Vob, reduce_states: Vob,
              reduce_reduce: Vec<(TIdx<$T>, PIdx<$T>, PIdx<$T>, StIdx<$T>)>, shift_reduce: Vec<(TIdx<$T>, PIdx<$T>, StIdx<$T>)>) -> (r: Result<Table, StateTableError>)
        requires
            grm.wf(), sg.wf(grm),
            actions@.len() == sg.nstates() * grm.ntok() && cells_wf(grm, actions@), sa_ok(actions@, state_actions@),
            state_shifts@.len() == sg.nstates() * grm.ntok() && forall|s: int| 0 <= s < sg.nstates() ==> #[trigger] row_shifts_ok(actions@, state_shifts@, s * grm.ntok(), grm.ntok() as int),
            core_reduces@.len() == sg.nstates() * grm.nprods() && forall|s: int| 0 <= s < sg.nstates() ==> #[trigger] row_core_ok(grm, actions@, core_reduces@, s * grm.ntok(), grm.ntok() as int, s * grm.nprods(), grm.nprods() as int),
            reduce_states@.len() == sg.nstates() && forall|s: int| 0 <= s < sg.nstates() ==> (#[trigger] reduce_states@[s]) == row_reduce_only(grm, actions@, s * grm.ntok(), grm.ntok() as int),
            forall|s: int| 0 <= s < sg.nstates() ==> #[trigger] row_shift_edges(sg.edge_list(s), sg.edge_list(s).len() as int, actions@, s * grm.ntok(), grm.ntok() as int),
            gotos@.len() == sg.nstates() * grm.nrules() && forall|s: int| 0 <= s < sg.nstates() ==> #[trigger] row_gotos_ok(sg.edge_list(s), sg.edge_list(s).len() as int, gotos@, s * grm.nrules(), grm.nrules() as int),
        ensures r matches Ok(t) ==> t.twf(grm, sg), // OBL: C16.queries.packed_table_keeps_what_new_established
            r is Ok,
    {
        //@probe
        let len_a_ = actions.len();          // no-op: brings the fact that a vector's length fits usize
        let len_c_ = core_reduces.len();
        //@body file=lrtable/src/lib/statetable.rs fn=new block=`let actions_sv = SparseVec::<usize>::from` end=`^        \}\)$`
        //@rule n=2 `SparseVec::<usize>::from\(` => `SparseVec::from(`
        //@rule n=1 `Ok\(StateTable \{` => `Ok(Table {`
        //@rule n=1 `^\s*#\[cfg\(test\)\]\n\s*final_state: final_state\.unwrap\(\),\n` => ``
        //@endbody
    }

    fn action(&self, stidx: StIdx<$T>, tidx: TIdx<$T>, Ghost(grm): Ghost<&YaccGrammar>, Ghost(sg): Ghost<&StateGraph>) -> (r: Action<$T>)
        requires self.twf(grm, sg), (stidx.0 as nat) < sg.nstates(), (tidx.0 as nat) < grm.ntok(),
        ensures r == dec(self.cell(grm, stidx.0 as int, tidx.0 as int)), // OBL: C16.queries.action_is_the_decoded_cell
            r matches Action::Shift(x) ==> has_edge(sg.edge_list(stidx.0 as int), sg.edge_list(stidx.0 as int).len() as int, Symbol::Token(tidx), x.0 as int), // OBL: C16.queries.shift_action_follows_the_graph_edge
    {
        //@probe
        proof {
            lemma_row(stidx.0 as int, grm.ntok() as int, sg.nstates() as int);
            assert(self.actions.rows() == sg.nstates()) by(nonlinear_arith) requires self.actions.rows() * grm.ntok() == sg.nstates() * grm.ntok(), grm.ntok() > 0;
            assert(row_shift_edges(sg.edge_list(stidx.0 as int), sg.edge_list(stidx.0 as int).len() as int, self.actions.flat(), stidx.0 * grm.ntok(), grm.ntok() as int));
        }
        //@body file=lrtable/src/lib/statetable.rs fn=action
        //@endbody
    }

    fn state_actions(&self, stidx: StIdx<$T>, Ghost(grm): Ghost<&YaccGrammar>, Ghost(sg): Ghost<&StateGraph>) -> (r: StateActionsIterator)
        requires self.twf(grm, sg), (stidx.0 as nat) < sg.nstates(),
        ensures r.wf(grm.ntok() as int), r.iter.cur == r.start,
            forall|t: int| 0 <= t < grm.ntok() ==> #[trigger] r.iter.bits@[r.start + t] == !(dec(self.cell(grm, stidx.0 as int, t)) is Error), // OBL: C16.queries.state_actions_lists_exactly_the_non_error_tokens
    {
        //@probe
        proof { lemma_row(stidx.0 as int, grm.ntok() as int, sg.nstates() as int); assert(stidx.0 * grm.ntok() + grm.ntok() <= usize::MAX); }
        //@body file=lrtable/src/lib/statetable.rs fn=state_actions
        //@rule n=1 `iter: self\.(\w+)\.iter_set_bits\(start\.\.end\),` => `iter: iter_set_bits(&self.\1, start, end),`
        //@rule n=1 `^\s*phantom: PhantomData,\n` => ``
        //@endbody
    }

    fn state_shifts(&self, stidx: StIdx<$T>, Ghost(grm): Ghost<&YaccGrammar>, Ghost(sg): Ghost<&StateGraph>) -> (r: StateActionsIterator)
        requires self.twf(grm, sg), (stidx.0 as nat) < sg.nstates(),
        ensures r.wf(grm.ntok() as int), r.iter.cur == r.start,
            forall|t: int| 0 <= t < grm.ntok() ==> #[trigger] r.iter.bits@[r.start + t] == (dec(self.cell(grm, stidx.0 as int, t)) is Shift), // OBL: C16.queries.state_shifts_lists_exactly_the_shift_tokens
    {
        //@probe
        proof {
            lemma_row(stidx.0 as int, grm.ntok() as int, sg.nstates() as int);
            assert(row_shifts_ok(self.actions.flat(), self.state_shifts@, stidx.0 * grm.ntok(), grm.ntok() as int));
            assert(stidx.0 * grm.ntok() + grm.ntok() <= usize::MAX);
        }
        //@body file=lrtable/src/lib/statetable.rs fn=state_shifts
        //@rule n=1 `iter: self\.(\w+)\.iter_set_bits\(start\.\.end\),` => `iter: iter_set_bits(&self.\1, start, end),`
        //@rule n=1 `^\s*phantom: PhantomData,\n` => ``
        //@endbody
    }

    fn reduce_only_state(&self, stidx: StIdx<$T>, Ghost(grm): Ghost<&YaccGrammar>, Ghost(sg): Ghost<&StateGraph>) -> (r: bool)
        requires self.twf(grm, sg), (stidx.0 as nat) < sg.nstates(),
        ensures r == row_reduce_only(grm, self.actions.flat(), stidx.0 * grm.ntok(), grm.ntok() as int), // OBL: C16.queries.reduce_only_state_is_the_row_predicate
    {
        //@probe
        //@body file=lrtable/src/lib/statetable.rs fn=reduce_only_state
        //@rule n=1 `self\.reduce_states\[usize::from\(stidx\)\]` => `self.reduce_states.index(usize::from(stidx))`
        //@endbody
    }

    fn core_reduces(&self, stidx: StIdx<$T>, Ghost(grm): Ghost<&YaccGrammar>, Ghost(sg): Ghost<&StateGraph>) -> (r: CoreReducesIterator)
        requires self.twf(grm, sg), (stidx.0 as nat) < sg.nstates(),
        ensures r.wf(grm.nprods() as int), r.iter.cur == r.start, r.start == stidx.0 * grm.nprods(), r.iter.bits@ == self.core_reduces@,
            row_core_ok(grm, self.actions.flat(), r.iter.bits@, stidx.0 * grm.ntok(), grm.ntok() as int, r.start as int, grm.nprods() as int), // OBL: C16.queries.core_reduces_lists_one_production_per_rule_and_length
    {
        //@probe
        proof { lemma_row(stidx.0 as int, grm.nprods() as int, sg.nstates() as int); assert(stidx.0 * grm.nprods() + grm.nprods() <= usize::MAX); }
        //@body file=lrtable/src/lib/statetable.rs fn=core_reduces
        //@rule n=1 `iter: self\.(\w+)\.iter_set_bits\(start\.\.end\),` => `iter: iter_set_bits(&self.\1, start, end),`
        //@rule n=1 `^\s*phantom: PhantomData,\n` => ``
        //@endbody
    }
}

impl StateActionsIterator {
    // the iterator covers one row of `n` columns that starts at `start`
    pub open spec fn wf(&self, n: int) -> bool { self.iter.wf() && self.start <= self.iter.cur && self.iter.end == self.start + n && 0 <= n <= $TMAX }
    //@ctx next: dialect rule 5: `opt.map(|i| f(i))` is read as `match opt { Some(i) => Some(f(i)), None => None }`
    fn next(&mut self, Ghost(n): Ghost<int>) -> (r: Option<TIdx<$T>>)
        requires old(self).wf(n),
        ensures final(self).wf(n), final(self).start == old(self).start, final(self).iter.bits@ == old(self).iter.bits@,
            r matches Some(t) ==> old(self).iter.cur <= old(self).start + t.0 < old(self).iter.end && old(self).iter.bits@[old(self).start + t.0] && final(self).iter.cur == old(self).start + t.0 + 1
                && forall|k: int| old(self).iter.cur <= k < old(self).start + t.0 ==> !#[trigger] old(self).iter.bits@[k], // OBL: C16.queries.iterator_yields_the_next_listed_token
            r is None ==> forall|k: int| old(self).iter.cur <= k < old(self).iter.end ==> !#[trigger] old(self).iter.bits@[k], // OBL: C16.queries.iterator_ends_only_when_nothing_is_left
    {
        //@probe
        //@body file=lrtable/src/lib/statetable.rs fn=next nth=1
        //@rule n=1 `self\.iter\.next\(\)\.map\(\|i\| TIdx\(narrow_\$T\((.*)\)\)\)$` => `match self.iter.next() { Some(i) => Some(TIdx(narrow_$T(\1))), None => None }`
        //@endbody
    }
}
impl CoreReducesIterator {
    pub open spec fn wf(&self, n: int) -> bool { self.iter.wf() && self.start <= self.iter.cur && self.iter.end == self.start + n && 0 <= n <= $TMAX }
    fn next(&mut self, Ghost(n): Ghost<int>) -> (r: Option<PIdx<$T>>)
        requires old(self).wf(n),
        ensures final(self).wf(n), final(self).start == old(self).start, final(self).iter.bits@ == old(self).iter.bits@,
            r matches Some(t) ==> old(self).iter.cur <= old(self).start + t.0 < old(self).iter.end && old(self).iter.bits@[old(self).start + t.0] && final(self).iter.cur == old(self).start + t.0 + 1
                && forall|k: int| old(self).iter.cur <= k < old(self).start + t.0 ==> !#[trigger] old(self).iter.bits@[k], // OBL: C16.queries.iterator_yields_the_next_listed_production
            r is None ==> forall|k: int| old(self).iter.cur <= k < old(self).iter.end ==> !#[trigger] old(self).iter.bits@[k], // OBL: C16.queries.iterator_ends_only_when_nothing_is_left
    {
        //@probe
        //@body file=lrtable/src/lib/statetable.rs fn=next nth=2
        //@rule n=1 `self\.iter\.next\(\)\.map\(\|i\| PIdx\(narrow_\$T\((.*)\)\)\)$` => `match self.iter.next() { Some(i) => Some(PIdx(narrow_$T(\1))), None => None }`
        //@endbody
    }
}
//@use prelude/tail.rs
