//@unit c05_files__pins props=C05 widths=u32
//@use prelude/head.rs
// the source files the property is anchored in, pinned whole (test modules, comments and layout apart): a change to anything in
// them that is neither under contract nor pinned by name still makes this unit undecided, which sends the check to the
// property's bounded sweep of the real code
//@pinfile file=lrpar/src/lib/cpctplus.rs sha=73c6fbd2e7b2c51e
//@pinfile file=lrpar/src/lib/parser.rs sha=fb1aabfb1f1a4952
//@pinfile file=lrpar/src/lib/dijkstra.rs sha=99c41d60d9cf3958
//@use prelude/tail.rs
