//@unit c19_wrap props=C19 widths=u32
//@use prelude/head.rs
//@use prelude/cursor.rs

// ---- the newline cache queries (contracts proved in units c19_queries / c19_cols) ----
#[verifier::external_body] pub struct NewlineCache { _x: usize }
impl NewlineCache {
    // (line, column) of a byte offset of the text the cache describes
    pub uninterp spec fn lc(&self, byte: int) -> (usize, usize);
    pub uninterp spec fn line_bytes(&self, st: int, en: int) -> (usize, usize);
    #[verifier::external_body] pub fn byte_to_line_num_and_col_num(&self, src: &Src, byte: usize) -> (r: Option<(usize, usize)>)
        requires byte <= src.slen() ==> src.is_boundary(byte as int), // OBLG: C19.wrap.offset_on_char_boundary
        ensures byte <= src.slen() ==> r == Some(self.lc(byte as int)), byte > src.slen() ==> r is None
    { unimplemented!() }
    #[verifier::external_body] pub fn span_line_bytes(&self, span: Span) -> (r: (usize, usize))
        ensures r == self.line_bytes(span.start as int, span.end as int)
    { unimplemented!() }
}
// the lines-of-span query returns a range of whole lines of the text: in range, on character boundaries
pub open spec fn lines_ok(nl: &NewlineCache, src: &Src) -> bool {
    forall|st: int, en: int| 0 <= st <= en <= src.slen() ==> ({ let r = #[trigger] nl.line_bytes(st, en); r.0 <= r.1 && r.1 <= src.slen() && src.is_boundary(r.0 as int) && src.is_boundary(r.1 as int) })
}
pub struct LRNonStreamingLexer { pub s: Src, pub newlines: NewlineCache }

impl LRNonStreamingLexer {
    //@ctx line_col / span_lines_str / span_str: the span lies within the text on character boundaries (the property's quantifier); spans beyond the text are refused with a panic naming the length
    fn line_col(&self, span: Span) -> (r: ((usize, usize), (usize, usize)))
        requires span_ok(&self.s, span),
        ensures r.0 == self.newlines.lc(span.start as int) && r.1 == self.newlines.lc(span.end as int), // OBL: C19.wrap.line_col_is_the_position_of_both_ends_of_the_span
    {
        //@probe
        //@body file=lrlex/src/lib/lexer.rs fn=line_col
        //@rule n=1 `if span\.end\(\) > self\.s\.len\(\) \{\s*panic!\(\s*"Span \{:\?\} exceeds known input length \{\}",\s*span,\s*self\.s\.len\(\)\s*\);\s*\}` => `if span.end() > self.s.len() { vpanic::<()>(); }`
        //@rule n=2 `byte_to_line_num_and_col_num\(self\.s, ` => `byte_to_line_num_and_col_num(&self.s, `
        //@endbody
    }

    fn span_lines_str(&self, span: Span) -> (r: Str)
        requires span_ok(&self.s, span), lines_ok(&self.newlines, &self.s),
    {
        //@probe
        //@body file=lrlex/src/lib/lexer.rs fn=span_lines_str
        //@rule n=1 `if span\.end\(\) > self\.s\.len\(\) \{\s*panic!\(\s*"Span \{:\?\} exceeds known input length \{\}",\s*span,\s*self\.s\.len\(\)\s*\);\s*\}` => `if span.end() > self.s.len() { vpanic::<()>(); }`
        //@rule n=1 `&self\.s\[st\.\.en\]` => `self.s.slice(st, en)`
        //@endbody
    }

    fn span_str(&self, span: Span) -> (r: Str)
        requires span_ok(&self.s, span),
    {
        //@probe
        //@body file=lrlex/src/lib/lexer.rs fn=span_str
        //@rule n=1 `if span\.end\(\) > self\.s\.len\(\) \{\s*panic!\(\s*"Span \{:\?\} exceeds known input length \{\}",\s*span,\s*self\.s\.len\(\)\s*\);\s*\}` => `if span.end() > self.s.len() { vpanic::<()>(); }`
        //@rule n=1 `&self\.s\[span\.start\(\)\.\.span\.end\(\)\]` => `self.s.slice(span.start(), span.end())`
        //@endbody
    }
}
//@use prelude/tail.rs
