//@unit c11_access props=C11,C09 widths=u32
//@use prelude/head.rs

// lrlex/src/lib/lexer.rs: building a lexer definition from rules, and the look-ups in it.  Decides for C11 / C09: from_rules
// keeps the rules and start states as given (in order) with the default flags; get_rule is the rule at that index;
// get_rule_by_id / get_rule_by_name / get_start_state_by_id return the FIRST rule (state) with that id / name, and say so
// when there is none; the two iterators hand the rules and the start states out in order.
#[verifier::external_body] pub struct Name { _x: usize }
impl Name { pub uninterp spec fn id(&self) -> int; }
pub struct Rule { pub tok_id: Option<$T>, pub nm: Option<Name> }
impl Rule {
    pub open spec fn sname(&self) -> Option<int> { match self.nm { Some(n) => Some(n.id()), None => None } }
}
// `r.name() == Some(n)`: comparison of an optional rule name with a name
#[verifier::external_body] pub fn name_is(r: &Rule, n: &Name) -> (b: bool) ensures b == (r.sname() == Some(n.id())) { unimplemented!() }
pub struct StartState { pub id: usize }
#[verifier::external_body] pub struct LexFlags { _x: usize }
pub uninterp spec fn default_lex_flags() -> LexFlags;
#[verifier::external_body] #[allow(non_snake_case)] pub fn DEFAULT_LEX_FLAGS() -> (r: LexFlags) ensures r == default_lex_flags() { unimplemented!() }
pub struct LRNonStreamingLexerDef { pub rules: Vec<Rule>, pub start_states: Vec<StartState>, pub lex_flags: LexFlags }
// the first index at which p holds, if any
pub open spec fn first_rule(rs: Seq<Rule>, p: spec_fn(Rule) -> bool, i: int) -> bool { 0 <= i < rs.len() && p(rs[i]) && forall|j: int| 0 <= j < i ==> !p(#[trigger] rs[j]) }

impl LRNonStreamingLexerDef {
    fn from_rules(start_states: Vec<StartState>, rules: Vec<Rule>) -> (r: LRNonStreamingLexerDef)
        ensures r.rules@ == rules@ && r.start_states@ == start_states@ && r.lex_flags == default_lex_flags(), // OBL: C11.access.from_rules_keeps_rules_and_start_states_as_given_with_the_default_flags
    {
        //@probe
        //@body file=lrlex/src/lib/lexer.rs fn=from_rules nth=2
        //@rule n=1 `lex_flags: DEFAULT_LEX_FLAGS,` => `lex_flags: DEFAULT_LEX_FLAGS(),`
        //@rule n=1 `phantom: PhantomData,` => ``
        //@endbody
    }
    fn get_rule(&self, idx: usize) -> (r: Option<&Rule>)
        ensures idx < self.rules@.len() ==> r == Some(&self.rules@[idx as int]), idx >= self.rules@.len() ==> r is None, // OBL: C11.access.get_rule_is_the_rule_at_that_index
    {
        //@probe
        //@body file=lrlex/src/lib/lexer.rs fn=get_rule nth=2
        //@rule n=1 `self\.rules\.get\(idx\)` => `if idx < self.rules.len() { Some(&self.rules[idx]) } else { None }`
        //@endbody
    }
    //@ctx get_rule_by_id: some rule has that token id (the function is documented to panic otherwise)
    fn get_rule_by_id(&self, tok_id: $T) -> (r: &Rule)
        requires exists|i: int| 0 <= i < self.rules@.len() && (#[trigger] self.rules@[i]).tok_id == Some(tok_id),
        ensures exists|i: int| first_rule(self.rules@, |x: Rule| x.tok_id == Some(tok_id), i) && *r == self.rules@[i], // OBL: C09.access.rule_of_a_token_id_is_the_first_rule_with_that_id
    {
        //@probe
        //@body file=lrlex/src/lib/lexer.rs fn=get_rule_by_id nth=2
        // dialect rule 5: `v.iter().find(|r| P(r)).unwrap()` as a loop returning the first element for which P holds
        //@rule n=1 `self\.rules\s*\.iter\(\)\s*\.find\(\|r\| (r\.tok_id == Some\(tok_id\))\)\s*\.unwrap\(\)` =>>
        let mut fi_: usize = 0;
        while fi_ < self.rules.len()
            invariant fi_ <= self.rules@.len(), forall|j: int| 0 <= j < fi_ ==> !((#[trigger] self.rules@[j]).tok_id == Some(tok_id)),
            decreases self.rules@.len() - fi_,
        {
            //@probe
            let r = &self.rules[fi_];
            if \1 {
                proof { assert(first_rule(self.rules@, |x: Rule| x.tok_id == Some(tok_id), fi_ as int)); }
                return r;
            }
            fi_ += 1;
        }
        vpanic()
        //@end
        //@endbody
    }
    fn get_rule_by_name(&self, n: &Name) -> (r: Option<&Rule>)
        ensures
            r matches Some(x) ==> exists|i: int| first_rule(self.rules@, |y: Rule| y.sname() == Some(n.id()), i) && *x == self.rules@[i], // OBL: C11.access.rule_of_a_name_is_the_first_rule_with_that_name
            r is None ==> forall|j: int| 0 <= j < self.rules@.len() ==> (#[trigger] self.rules@[j]).sname() != Some(n.id()), // OBL: C11.access.no_rule_is_reported_only_when_no_rule_has_that_name
    {
        //@probe
        //@body file=lrlex/src/lib/lexer.rs fn=get_rule_by_name nth=2
        //@rule n=1 `self\.rules\.iter\(\)\.find\(\|r\| r\.name\(\) == Some\(n\)\)` =>>
        let mut fi_: usize = 0;
        while fi_ < self.rules.len()
            invariant fi_ <= self.rules@.len(), forall|j: int| 0 <= j < fi_ ==> (#[trigger] self.rules@[j]).sname() != Some(n.id()),
            decreases self.rules@.len() - fi_,
        {
            //@probe
            let r = &self.rules[fi_];
            if name_is(r, n) {
                proof { assert(first_rule(self.rules@, |y: Rule| y.sname() == Some(n.id()), fi_ as int)); }
                return Some(r);
            }
            fi_ += 1;
        }
        None
        //@end
        //@endbody
    }
    fn get_start_state_by_id(&self, id: usize) -> (r: Option<&StartState>)
        ensures
            r matches Some(x) ==> x.id == id && exists|i: int| 0 <= i < self.start_states@.len() && *x == self.start_states@[i] && forall|j: int| 0 <= j < i ==> (#[trigger] self.start_states@[j]).id != id, // OBL: C09.access.start_state_of_an_id_is_the_first_state_with_that_id
            r is None ==> forall|j: int| 0 <= j < self.start_states@.len() ==> (#[trigger] self.start_states@[j]).id != id, // OBL: C09.access.no_state_is_reported_only_when_no_state_has_that_id
    {
        //@probe
        //@body file=lrlex/src/lib/lexer.rs fn=get_start_state_by_id
        //@rule n=1 `self\.start_states\.iter\(\)\.find\(\|state\| (state\.id == id)\)` =>>
        let mut fi_: usize = 0;
        while fi_ < self.start_states.len()
            invariant fi_ <= self.start_states@.len(), forall|j: int| 0 <= j < fi_ ==> (#[trigger] self.start_states@[j]).id != id,
            decreases self.start_states@.len() - fi_,
        {
            //@probe
            let state = &self.start_states[fi_];
            if \1 { return Some(state); }
            fi_ += 1;
        }
        None
        //@end
        //@endbody
    }
    // dialect rule 5: a slice iterator as the list it yields
    fn iter_rules(&self) -> (r: &Vec<Rule>)
        ensures r@ == self.rules@, // OBL: C11.access.rules_are_handed_out_in_order
    {
        //@probe
        //@body file=lrlex/src/lib/lexer.rs fn=iter_rules nth=2
        //@rule n=1 `self\.rules\.iter\(\)` => `&self.rules`
        //@endbody
    }
    fn iter_start_states(&self) -> (r: &Vec<StartState>)
        ensures r@ == self.start_states@, // OBL: C11.access.start_states_are_handed_out_in_order
    {
        //@probe
        //@body file=lrlex/src/lib/lexer.rs fn=iter_start_states nth=2
        //@rule n=1 `self\.start_states\.iter\(\)` => `&self.start_states`
        //@endbody
    }
}

// ---- the rule's own look-ups (lexer.rs, impl Rule): each hands out the field of that name ----
#[derive(Clone, Copy)] pub struct Span { pub st: usize, pub en: usize }
#[derive(Clone, Copy)] pub enum StartStateOperation { ReplaceStack, Push, Pop }
impl Name { #[verifier::external_body] pub fn as_str(&self) -> (r: &Name) ensures r.id() == self.id() { unimplemented!() } }
pub struct RuleR { pub tok_id: Option<$T>, pub name: Option<Name>, pub name_span: Span, pub re_str: Name, pub start_states: Vec<usize>, pub target_state: Option<(usize, StartStateOperation)> }
impl RuleR {
    pub fn tok_id(&self) -> (r: Option<$T>) ensures r == self.tok_id, // OBL: C09.access.a_rules_token_id_is_the_one_stored
    {
        //@probe
        //@body file=lrlex/src/lib/lexer.rs fn=tok_id
        //@endbody
    }
    pub fn name(&self) -> (r: Option<&Name>)
        ensures (r is Some) == (self.name is Some), r matches Some(x) ==> x.id() == self.name.unwrap().id(), // OBL: C11.access.a_rules_name_is_the_one_stored
    {
        //@probe
        //@body file=lrlex/src/lib/lexer.rs fn=name
        // `Option<String>::as_deref()`: the string inside, if any
        //@rule n=1 `self\.name\.as_deref\(\)` => `match &self.name { Some(x) => Some(x.as_str()), None => None }`
        //@endbody
    }
    pub fn name_span(&self) -> (r: Span) ensures r == self.name_span, // OBL: C11.access.a_rules_name_span_is_the_one_stored
    {
        //@probe
        //@body file=lrlex/src/lib/lexer.rs fn=name_span
        //@endbody
    }
    pub fn re_str(&self) -> (r: &Name) ensures r.id() == self.re_str.id(), // OBL: C11.access.a_rules_regex_text_is_the_one_stored
    {
        //@probe
        //@body file=lrlex/src/lib/lexer.rs fn=re_str
        //@endbody
    }
    pub fn start_states(&self) -> (r: &[usize]) ensures r@ == self.start_states@, // OBL: C09.access.a_rules_start_states_are_the_ones_stored_in_order
    {
        //@probe
        //@body file=lrlex/src/lib/lexer.rs fn=start_states
        //@endbody
    }
    pub fn target_state(&self) -> (r: Option<(usize, StartStateOperation)>) ensures r == self.target_state, // OBL: C09.access.a_rules_target_state_is_the_one_stored
    {
        //@probe
        //@body file=lrlex/src/lib/lexer.rs fn=target_state
        // `.clone()` of a value whose stand-in type is Copy
        //@rule n=1 `self\.target_state\.clone\(\)` => `self.target_state`
        //@endbody
    }
}
//@use prelude/tail.rs
