//@unit c19_diag__pins props=C19 widths=u32
//@use prelude/head.rs
// not under contract: error pretty-printing on top of the line table (string formatting, str::lines: outside the dialect);
// judged by the c19_diag sweep (every text of up to five/six characters over {a, newline, CR, é} x every span) when one changes
//@pin file=lrpar/src/lib/diagnostics.rs fn=prefixed_underline_span_with_text sha=03495ede5eb5e47e
//@pin file=lrpar/src/lib/diagnostics.rs fn=underline_span_with_text sha=f8d7090f32ca1b58
//@pin file=lrpar/src/lib/diagnostics.rs fn=file_location_msg sha=d94849f6c6e3ea1e
//@pin file=lrpar/src/lib/diagnostics.rs fn=nlc sha=49fd34360c1e16b9
//@use prelude/tail.rs
