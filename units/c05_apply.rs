//@unit c05_apply props=C05,C08 widths=u32
//@use prelude/head.rs
//@use prelude/lrpar.rs

// One record per call of Parser::lr_upto made while replaying a repair sequence.
pub struct UCall { pub prefix: Option<LexemeT>, pub laidx: int, pub end_laidx: int }
// The parse stack as far as apply_repairs is concerned: it is only handed on to lr_upto.
// Its ghost trace records those calls (the stand-in for lr_upto appends to it).
#[verifier::external_body] pub struct PStack { _x: usize }
impl PStack { pub uninterp spec fn trace(&self) -> Seq<UCall>; }
#[verifier::external_body] pub struct AOpt { _x: usize }   // &mut Option<&mut Vec<AStackType<..>>>
#[verifier::external_body] pub struct SOpt { _x: usize }   // &mut Option<&mut Vec<Span>>
#[verifier::external_body] pub struct Parser { _x: usize }
// what lr_upto returns is a function of what has been replayed so far and of this call
pub uninterp spec fn upto_res(p: &Parser, before: Seq<UCall>, c: UCall) -> int;
impl Parser {
    pub uninterp spec fn snext(&self, laidx: int) -> LexemeT;
    #[verifier::external_body]
    pub fn next_lexeme(&self, laidx: usize) -> (r: LexemeT) ensures r == self.snext(laidx as int) { unimplemented!() }
    // parser.rs lr_upto: "Returns the index of the token it parsed up to (by definition <= end_laidx)";
    // its own assert!(lexeme_prefix.is_none() || end_laidx == laidx + 1) is the `requires`
    #[verifier::external_body]
    pub fn lr_upto(&self, lexeme_prefix: Option<LexemeT>, laidx: usize, end_laidx: usize, pstack: &mut PStack, astack: &mut AOpt, spans: &mut SOpt) -> (r: usize)
        requires lexeme_prefix is None || end_laidx == laidx + 1, // OBLG: C05.lr_upto_prefix_needs_single_step
        ensures
            final(pstack).trace() == old(pstack).trace().push(UCall { prefix: lexeme_prefix, laidx: laidx as int, end_laidx: end_laidx as int }),
            r == upto_res(self, old(pstack).trace(), UCall { prefix: lexeme_prefix, laidx: laidx as int, end_laidx: end_laidx as int }),
            r <= end_laidx, laidx <= r || r == laidx,
    { unimplemented!() }
}

// ---------------- specification (from the property text) ----------------
// Applying a repair sequence at `laidx`: dropped lexemes are skipped, kept ones are parsed
// one at a time, an inserted token is parsed as a zero-length faulty lexeme placed at the
// start of the next real lexeme *at that point of the replay*.
pub open spec fn step(p: &Parser, st: (int, Seq<UCall>), r: ParseRepair) -> (int, Seq<UCall>) {
    let (la, tr) = st;
    match r {
        ParseRepair::Insert(t) => {
            let c = UCall { prefix: Some(lx_new(t.0, p.snext(la).sspan().st, 0, true)), laidx: la, end_laidx: la + 1 };
            (la, tr.push(c))
        }
        ParseRepair::Delete(_) => (la + 1, tr),
        ParseRepair::Shift(_) => {
            let c = UCall { prefix: None, laidx: la, end_laidx: la + 1 };
            (upto_res(p, tr, c), tr.push(c))
        }
    }
}
pub open spec fn run(p: &Parser, reps: Seq<ParseRepair>, n: int, st0: (int, Seq<UCall>)) -> (int, Seq<UCall>)
    decreases n
{ if n <= 0 { st0 } else { step(p, run(p, reps, n - 1, st0), reps[n - 1]) } }

//@ctx apply_repairs: laidx + repairs.len() does not overflow usize (laidx <= number of lexemes; a repair sequence is no longer than TRY_PARSE_AT_MOST plus the lexemes it consumes)
fn apply_repairs(parser: &Parser, laidx0: usize, pstack: &mut PStack, astack: &mut AOpt, spans: &mut SOpt, repairs: &Vec<ParseRepair>) -> (r: usize)
    requires laidx0 + repairs@.len() < usize::MAX,
    ensures (r as int, final(pstack).trace()) == run(parser, repairs@, repairs@.len() as int, (laidx0 as int, old(pstack).trace())), // OBL: C05.repairs_applied_as_documented C08.repair_replay_feeds_documented_lexemes
{
    //@probe
    let mut laidx = laidx0;
    let ghost tr0 = pstack.trace();
    //@body file=lrpar/src/lib/cpctplus.rs fn=apply_repairs
    //@rule n=* `\$T::from\(u32::from\((\w+)\)\)\.unwrap\(\)` => `tok_id_of(\1)`
    //@rule n=1 `^(\s*)for r in repairs\.iter\(\) \{$` =>>
    for ri_ in 0..repairs.len()
        invariant
            laidx <= laidx0 + ri_, laidx0 + repairs@.len() < usize::MAX,
            (laidx as int, pstack.trace()) == run(parser, repairs@, ri_ as int, (laidx0 as int, tr0)), // OBL: C05.repairs_applied_as_documented.each_step C08.inserted_lexeme_sits_at_next_real_lexeme_of_the_replay
    {
        //@probe
        let r = &repairs[ri_];
    //@end
    //@endbody
}
//@use prelude/tail.rs
