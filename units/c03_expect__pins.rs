//@unit c03_expect__pins props=C03 widths=u32
//@use prelude/head.rs
// not under contract: conflict accessors (judged by the %expect sweep when one changes)
//@pin file=lrtable/src/lib/statetable.rs fn=rr_conflicts sha=491e94914c75e32f
//@pin file=lrtable/src/lib/statetable.rs fn=sr_conflicts sha=ccfaf5ca50184e9a
//@pin file=lrtable/src/lib/statetable.rs fn=rr_len sha=66930b99c834c3c4
//@pin file=lrtable/src/lib/statetable.rs fn=sr_len sha=3b7efec74e555818
//@pin file=lrtable/src/lib/statetable.rs fn=conflicts sha=fc10d045686319f2
//@use prelude/tail.rs
