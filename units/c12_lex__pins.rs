//@unit c12_lex__pins props=C12 widths=u32
//@use prelude/head.rs
// not under contract: the rest of the lex specification parser (totality judged by the c12 lex sweep when one changes)
//@pin file=lrlex/src/lib/parser.rs fn=new_with_lex_flags sha=a76f5cdc9df63758
//@pin file=lrlex/src/lib/parser.rs fn=validate_start_state sha=5fad04a1130600f8
//@pin file=lrlex/src/lib/parser.rs fn=validate_start_state_name sha=66b2134cf6b64e66
//@pin file=lrlex/src/lib/parser.rs fn=add_duplicate_occurrence sha=b02837fbe7096836
//@pin file=lrlex/src/lib/parser.rs fn=get_start_state_by_name sha=cd400f97ff97934b
//@pin file=lrlex/src/lib/parser.rs fn=matches_whitespace sha=b207bc6cc0894cff
//@use prelude/tail.rs
