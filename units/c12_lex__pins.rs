//@unit c12_lex__pins props=C12 widths=u32
//@use prelude/head.rs
// not under contract: the rest of the lex specification parser (totality judged by the c12 lex sweep when one changes)
//@pin file=lrlex/src/lib/parser.rs fn=new_with_lex_flags sha=a76f5cdc9df63758
//@pin file=lrlex/src/lib/parser.rs fn=matches_whitespace sha=b207bc6cc0894cff
//@use prelude/tail.rs
