//@unit c15_cache props=C15 widths=u32
//@use prelude/head.rs

// ---- stand-ins ----
#[verifier::external_body] #[derive(Clone, Copy)] pub struct NameRef { _x: usize }       // &str
impl NameRef { pub uninterp spec fn id(&self) -> int; }
#[verifier::external_body] pub fn unknown_name() -> (r: NameRef) { unimplemented!() }
pub fn name_or_unknown(o: Option<NameRef>) -> (r: NameRef) ensures o matches Some(n) ==> r == n { match o { Some(n) => n, None => unknown_name() } }
pub struct QuoteTuple(pub (usize, NameRef));
#[verifier::external_body] pub struct YaccGrammar { _x: usize }
impl YaccGrammar {
    pub uninterp spec fn ntok(&self) -> nat;
    pub uninterp spec fn tname(&self, t: int) -> Option<NameRef>;
    #[verifier::external_body] pub fn tokens_len(&self) -> (r: TIdx<$T>) ensures r.0 == self.ntok() { unimplemented!() }
    #[verifier::external_body] pub fn token_name(&self, t: TIdx<$T>) -> (r: Option<NameRef>) ensures r == self.tname(t.0 as int) { unimplemented!() }
}

//@ctx rule_ids_entries: the RULE_IDS_MAP entry of the cache block that is appended to every generated parser module
fn rule_ids_entries(grm: &YaccGrammar) -> (rule_map: Vec<QuoteTuple>)
    ensures rule_map@.len() == grm.ntok(),
        forall|k: int| 0 <= k < rule_map@.len() ==> (#[trigger] rule_map@[k]).0.0 == k && (grm.tname(k) matches Some(n) ==> rule_map@[k].0.1 == n), // OBL: C15.cache_lists_the_tokens_in_index_order_whatever_any_hash_order
{
    //@probe
    //@body file=lrpar/src/lib/ctbuilder.rs fn=rebuild_cache block=`^\s*let rule_map = grm$` end=`^\s*\.collect::<Vec<_>>\(\);$`
    // dialect: `grm.iter_tidxs().map(|tidx| BODY).collect::<Vec<_>>()` (iter_tidxs() is 0..tokens_len in index order) as an index loop pushing BODY
    //@rule n=1 `^(\s*)let rule_map = grm\n\s*\.iter_tidxs\(\)\n\s*\.map\(\|tidx\| \{$` =>>
    let mut rule_map: Vec<QuoteTuple> = Vec::new();
    let ntok_ = grm.tokens_len().0;
    let mut ti_: $T = 0;
    while ti_ < ntok_
        invariant ti_ <= ntok_, ntok_ == grm.ntok(), rule_map@.len() == ti_,
            forall|k: int| 0 <= k < rule_map@.len() ==> (#[trigger] rule_map@[k]).0.0 == k && (grm.tname(k) matches Some(n) ==> rule_map@[k].0.1 == n),
        decreases ntok_ - ti_,
    {
        //@probe
        let tidx = TIdx(ti_);
        ti_ = ti_ + 1;
        rule_map.push({
    //@end
    //@rule n=1 `grm\.token_name\(tidx\)\.unwrap_or\("<unknown>"\)` => `name_or_unknown(grm.token_name(tidx))`
    //@rule n=1 `^(\s*)\}\)\n\s*\.collect::<Vec<_>>\(\);\s*$` =>>
        });
    }
    //@end
    //@endbody
    rule_map
}
//@undecided that the whole generated module is byte-identical between runs (quote!/prettyplease output, timestamps) is not decided; only this list is
//@use prelude/tail.rs
