//@unit c12_yacc3 props=C12 widths=u32
//@use prelude/head.rs
//@use prelude/cursor.rs

// The declarations section of the yacc grammar parser: the whole of parse_declarations
// (cfgrammar/src/lib/yacc/parser.rs), every directive.  The scanners have the contracts proved in unit
// c12_yacc; the AST being filled in is opaque (its contents are C10's business; unit c10_decls proves the
// %token bookkeeping): here every operation on it is total, and what is proved is that the cursor stays in
// range, on a character boundary and moves forward, that every loop terminates, that nothing panics and
// that every error has a renderable span.
#[derive(Clone, Copy)]
pub enum YaccGrammarErrorKind { IllegalString, IllegalName, MissingColon, UnknownSymbol, UnknownDeclaration, PrematureEnd,
    DuplicateActiontypeDeclaration, DuplicateStartDeclaration, DuplicateEPP, DuplicateExpectRRDeclaration, DuplicateExpectDeclaration,
    DuplicateAvoidInsertDeclaration, DuplicateImplicitTokensDeclaration, DuplicatePrecedence, Other }
pub struct YaccGrammarError { pub kind: YaccGrammarErrorKind, pub spans: Vec<Span> }
pub open spec fn err_ok(src: &Src, e: YaccGrammarError) -> bool { e.spans@.len() > 0 && spans_ok(src, e.spans@) }
pub open spec fn errs_ok(src: &Src, v: Seq<YaccGrammarError>) -> bool { forall|k: int| 0 <= k < v.len() ==> err_ok(src, #[trigger] v[k]) }

pub enum YaccOriginalActionKind { UserAction, GenericParseTree, NoAction }
pub enum YaccKind { Original(YaccOriginalActionKind), Grmtools, Eco }
#[derive(Clone, Copy)] pub enum AssocKind { Left, Right, Nonassoc }
#[derive(Clone, Copy)] pub struct Precedence { pub level: u64, pub kind: AssocKind }
pub enum ASym { Rule(StrBuf, Span), Token(StrBuf, Span) }   // ast::Symbol
#[verifier::external_body] pub struct TokSet { _x: usize }        // IndexSet<String>
impl TokSet {
    #[verifier::external_body] pub fn insert(&mut self, s: StrBuf) -> (r: bool) { unimplemented!() }
    #[verifier::external_body] pub fn insert_full(&mut self, s: StrBuf) -> (r: (usize, bool)) { unimplemented!() }
}
#[verifier::external_body] pub struct IdxSet { _x: usize }        // HashSet<usize>
impl IdxSet { #[verifier::external_body] pub fn insert(&mut self, i: usize) -> (r: bool) { unimplemented!() } }
// HashMap<String, Span> with its entry API (every operation total; spans stored are the ones given)
#[verifier::external_body] pub struct SpanMap { _x: usize }
#[verifier::external_body] pub struct SpanOcc { _x: usize }
#[verifier::external_body] pub struct SpanVac { _x: usize }
pub enum SpanEntry { Occupied(SpanOcc), Vacant(SpanVac) }
impl SpanMap {
    pub uninterp spec fn held(&self, sp: Span) -> bool;     // sp is one of the stored spans
    #[verifier::external_body] pub fn new() -> (r: SpanMap) ensures forall|sp: Span| !r.held(sp) { unimplemented!() }
}
impl SpanOcc { pub uninterp spec fn sp(&self) -> Span; #[verifier::external_body] pub fn get(&self) -> (r: &Span) ensures *r == self.sp() { unimplemented!() } }
impl SpanVac { pub uninterp spec fn pending(&self) -> Span; #[verifier::external_body] pub fn insert(self, sp: Span) requires sp == self.pending() { unimplemented!() } }
// `<map>.as_mut().unwrap().entry(n)`: panics when the map has not been created.  The entry borrows the map; the only
// thing done with a vacant entry is `insert(span)`, so the stand-in is told which span that will be and accounts for it
#[verifier::external_body]
pub fn span_entry(m: &mut Option<SpanMap>, n: StrBuf, pending: Span, src: &Src) -> (r: SpanEntry)
    requires *old(m) is Some, // OBLG: C12.yacc.decls.map_created_before_use
        forall|sp: Span| (*old(m))->Some_0.held(sp) ==> span_ok(src, sp),
    ensures *final(m) is Some, forall|sp: Span| (*final(m))->Some_0.held(sp) ==> (*old(m))->Some_0.held(sp) || sp == pending,
        r matches SpanEntry::Occupied(o) ==> span_ok(src, o.sp()),
        r matches SpanEntry::Vacant(v) ==> v.pending() == pending,
{ unimplemented!() }
// HashMap<String, (Span, (String, Span))> (epp) and HashMap<String, (Precedence, Span)> (precs): an occupied entry hands
// out a span that was stored earlier; all stored spans came from this text (assumed context below)
#[verifier::external_body] pub struct EppMap { _x: usize }
#[verifier::external_body] pub struct EppOcc { _x: usize }
#[verifier::external_body] pub struct EppVac { _x: usize }
pub enum EppEntry { Occupied(EppOcc), Vacant(EppVac) }
impl EppMap { #[verifier::external_body] pub fn entry(&mut self, n: StrBuf, src: &Src) -> (r: EppEntry) ensures r matches EppEntry::Occupied(o) ==> span_ok(src, o.sp()) { unimplemented!() } }
impl EppOcc { pub uninterp spec fn sp(&self) -> Span; #[verifier::external_body] pub fn get(&self) -> (r: &(Span, usize)) ensures r.0 == self.sp() { unimplemented!() } }
impl EppVac { #[verifier::external_body] pub fn insert(self, v: (Span, (StrBuf, Span))) { unimplemented!() } }
#[verifier::external_body] pub struct PrecMap { _x: usize }
#[verifier::external_body] pub struct PrecOcc { _x: usize }
#[verifier::external_body] pub struct PrecVac { _x: usize }
pub enum PrecEntry { Occupied(PrecOcc), Vacant(PrecVac) }
impl PrecMap { #[verifier::external_body] pub fn entry(&mut self, n: StrBuf, src: &Src) -> (r: PrecEntry) ensures r matches PrecEntry::Occupied(o) ==> span_ok(src, o.sp()) { unimplemented!() } }
impl PrecOcc { pub uninterp spec fn sp(&self) -> Span; #[verifier::external_body] pub fn get(&self) -> (r: &(usize, Span)) ensures r.1 == self.sp() { unimplemented!() } }
impl PrecVac { #[verifier::external_body] pub fn insert(self, v: (Precedence, Span)) { unimplemented!() } }

pub struct GrammarAST {
    pub start: Option<(StrBuf, Span)>, pub tokens: TokSet, pub spans: Vec<Span>, pub token_directives: IdxSet, pub epp: EppMap,
    pub expectrr: Option<(usize, Span)>, pub expect: Option<(usize, Span)>, pub expect_unused: Vec<ASym>,
    pub avoid_insert: Option<SpanMap>, pub implicit_tokens: Option<SpanMap>, pub parse_param: Option<(StrBuf, StrBuf)>, pub parse_generics: Option<StrBuf>,
    pub precs: PrecMap,
}
// the spans the AST already holds come from this text
pub open spec fn ast_spans_ok(src: &Src, a: &GrammarAST, gat: Option<(StrBuf, Span)>) -> bool {
    &&& (a.start matches Some(t) ==> span_ok(src, t.1))
    &&& (a.expectrr matches Some(t) ==> span_ok(src, t.1))
    &&& (a.expect matches Some(t) ==> span_ok(src, t.1))
    &&& (gat matches Some(t) ==> span_ok(src, t.1))
    &&& (a.avoid_insert matches Some(m) ==> forall|sp: Span| m.held(sp) ==> span_ok(src, sp))
    &&& (a.implicit_tokens matches Some(m) ==> forall|sp: Span| m.held(sp) ==> span_ok(src, sp))
}

// add_duplicate_occurrence (parser.rs): appends `dup` to the error of that kind whose first span is `orig`, or pushes a new
// error with the spans [orig, dup] (proved of the real body in unit c12_dupocc; this contract is its consequence, lemma_assumed_contracts_follow)
#[verifier::external_body]
pub fn add_duplicate_occurrence(errs: &mut Vec<YaccGrammarError>, kind: YaccGrammarErrorKind, orig_span: Span, dup_span: Span, src: &Src)
    requires errs_ok(src, old(errs)@), span_ok(src, orig_span), span_ok(src, dup_span), // OBLG: C12.yacc.decls.duplicate_report_spans_renderable
    ensures errs_ok(src, final(errs)@),
{ unimplemented!() }

pub struct YaccParser { pub yacc_kind: YaccKind, pub src: Src, pub num_newlines: usize, pub ast: GrammarAST, pub global_actiontype: Option<(StrBuf, Span)> }

impl YaccParser {
    // ---- contracts proved in unit c12_yacc ----
    #[verifier::external_body]
    fn mk_error(&self, k: YaccGrammarErrorKind, off: usize) -> (r: YaccGrammarError)
        requires self.src.ok(off as int), // OBLG: C12.yacc.error_offset_in_range_on_boundary
        ensures err_ok(&self.src, r),
    { unimplemented!() }
    #[verifier::external_body]
    fn lookahead_is(&self, s: Lit, i: usize) -> (r: Option<usize>)
        requires self.src.ok(i as int),
        ensures r matches Some(j) ==> j == i + s.slen() && self.src.ok(j as int), (r is Some) == self.src.spec_starts_with(i as int, s),
    { unimplemented!() }
    #[verifier::external_body]
    fn parse_ws(&mut self, i0: usize, inc_newlines: bool) -> (r: Result<usize, YaccGrammarError>)
        requires old(self).src.ok(i0 as int), old(self).num_newlines <= i0,
        ensures final(self).src == old(self).src, final(self).ast == old(self).ast, final(self).yacc_kind == old(self).yacc_kind, final(self).global_actiontype == old(self).global_actiontype,
            r matches Ok(j) ==> i0 <= j && old(self).src.ok(j as int) && final(self).num_newlines <= j && final(self).num_newlines >= old(self).num_newlines,
            r matches Err(e) ==> err_ok(&old(self).src, e),
    { unimplemented!() }
    #[verifier::external_body]
    fn parse_to_eol(&mut self, i: usize) -> (r: Result<(usize, StrBuf), YaccGrammarError>)
        requires old(self).src.ok(i as int),
        ensures *final(self) == *old(self), r matches Ok(t) ==> i <= t.0 && old(self).src.ok(t.0 as int), r is Ok,
    { unimplemented!() }
    #[verifier::external_body]
    fn parse_to_single_colon(&mut self, i: usize) -> (r: Result<(usize, StrBuf), YaccGrammarError>)
        requires old(self).src.ok(i as int), old(self).num_newlines <= i,
        ensures final(self).src == old(self).src, final(self).ast == old(self).ast, final(self).yacc_kind == old(self).yacc_kind, final(self).global_actiontype == old(self).global_actiontype,
            r matches Ok(t) ==> i <= t.0 && old(self).src.ok(t.0 as int) && final(self).num_newlines <= t.0,
            r matches Err(e) ==> err_ok(&old(self).src, e),
    { unimplemented!() }
    #[verifier::external_body]
    fn parse_int(&mut self, i: usize) -> (r: Result<(usize, usize), YaccGrammarError>)
        requires old(self).src.ok(i as int),
        ensures *final(self) == *old(self), r matches Ok(t) ==> i < t.0 && old(self).src.ok(t.0 as int), r matches Err(e) ==> err_ok(&old(self).src, e),
    { unimplemented!() }
    #[verifier::external_body]
    fn parse_string(&mut self, i0: usize) -> (r: Result<(usize, StrBuf), YaccGrammarError>)
        requires old(self).src.ok(i0 as int),
        ensures *final(self) == *old(self), r matches Ok(t) ==> i0 < t.0 && old(self).src.ok(t.0 as int), r matches Err(e) ==> err_ok(&old(self).src, e),
    { unimplemented!() }
    #[verifier::external_body]
    fn parse_name(&self, i: usize) -> (r: Result<(usize, StrBuf), YaccGrammarError>)
        requires self.src.ok(i as int),
        ensures r matches Ok(t) ==> i < t.0 && self.src.ok(t.0 as int), r matches Err(e) ==> err_ok(&self.src, e),
    { unimplemented!() }
    #[verifier::external_body]
    fn parse_token(&self, i: usize) -> (r: Result<(usize, StrBuf, Span, bool), YaccGrammarError>)
        requires self.src.ok(i as int),
        ensures r matches Ok(t) ==> i < t.0 && self.src.ok(t.0 as int) && span_ok(&self.src, t.2), r matches Err(e) ==> err_ok(&self.src, e),
    { unimplemented!() }

    //@ctx parse_declarations: the spans the AST and the error list already hold come from this text (the parser starts with an empty AST and an empty list and only this function and parse_rule(s) add to them)
    //@ctx parse_declarations: the epp and precs maps hand out spans that were stored by this function (stand-in contract of their entry API)
    fn parse_declarations(&mut self, i0: usize, errs: &mut Vec<YaccGrammarError>) -> (r: Result<usize, YaccGrammarError>)
        requires old(self).src.ok(i0 as int), old(self).num_newlines <= i0, errs_ok(&old(self).src, old(errs)@), ast_spans_ok(&old(self).src, &old(self).ast, old(self).global_actiontype),
        ensures final(self).src == old(self).src,
            errs_ok(&old(self).src, final(errs)@), // OBL: C12.yacc.decls.collected_errors_stay_renderable
            ast_spans_ok(&old(self).src, &final(self).ast, final(self).global_actiontype),
            r matches Ok(j) ==> i0 <= j && old(self).src.ok(j as int) && final(self).num_newlines <= j && old(self).src.spec_starts_with(j as int, spec_lit("%%"@, 2)), // OBL: C12.yacc.decls.ok_leaves_the_cursor_on_the_rules_marker
            r matches Err(e) ==> err_ok(&old(self).src, e), // OBL: C12.yacc.decls.error_spans_renderable
    {
        //@probe
        let mut i = i0;
        //@body file=cfgrammar/src/lib/yacc/parser.rs fn=parse_declarations
        //@use prelude/cursor_rules.rs
        //@rule n=* `add_duplicate_occurrence\(\s*errs,\s*((?:[^;()]|\([^()]*\))*?),?\s*\)(;?)` => `add_duplicate_occurrence(errs, \1, &self.src)\2`
        //@rule n=1 `^(\s*)\{ let assert_cond_ = i == self\.src\.len\(\); assert\(assert_cond_\); \}$` => `\1let assert_cond_ = i == self.src.len(); assert(assert_cond_);`
        //@rule n=1 `let mut prec_level = 0;` => `let mut prec_level: u64 = 0;`
        //@rule n=1 `match self\.ast\.epp\.entry\(n\) \{` => `match self.ast.epp.entry(n, &self.src) {`
        //@rule n=1 `match self\.ast\.precs\.entry\(n\) \{` => `match self.ast.precs.entry(n, &self.src) {`
        //@rule n=1 `match self\.ast\.avoid_insert\.as_mut\(\)\.unwrap\(\)\.entry\(n\) \{` => `match span_entry(&mut self.ast.avoid_insert, n, span, &self.src) {`
        //@rule n=1 `match self\.ast\.implicit_tokens\.as_mut\(\)\.unwrap\(\)\.entry\(n\) \{` => `match span_entry(&mut self.ast.implicit_tokens, n, span, &self.src) {`
        //@rule n=* `Some\(HashMap::new\(\)\)` => `Some(SpanMap::new())`
        //@rule first `\bEntry::Occupied\(` => `EppEntry::Occupied(`
        //@rule first `\bEntry::Vacant\(` => `EppEntry::Vacant(`
        //@rule first `\bEntry::Occupied\(` => `SpanEntry::Occupied(`
        //@rule first `\bEntry::Vacant\(` => `SpanEntry::Vacant(`
        //@rule first `\bEntry::Occupied\(` => `SpanEntry::Occupied(`
        //@rule first `\bEntry::Vacant\(` => `SpanEntry::Vacant(`
        //@rule first `\bEntry::Occupied\(` => `PrecEntry::Occupied(`
        //@rule first `\bEntry::Vacant\(` => `PrecEntry::Vacant(`
        //@rule n=* `\bSymbol::(Token|Rule)\(` => `ASym::\1(`
        //@rule n=1 `^(\s*)while i < self\.src\.len\(\) \{$` =>>
        while i < self.src.len()
            invariant self.src == old(self).src, self.src.ok(i as int), i0 <= i, self.num_newlines <= i, prec_level <= i, errs_ok(&self.src, errs@), ast_spans_ok(&self.src, &self.ast, self.global_actiontype),
            decreases self.src.slen() - i, // OBL: C12.yacc.decls.directive_loop_terminates
        {
            //@probe
            let ghost i_it_ = i;
        //@end
        //@rule n=2 `^(\s*)while i < self\.src\.len\(\) && self\.lookahead_is\(lit\("%", 1\), i\)\.is_none\(\) \{$` =>>
                while i < self.src.len() && self.lookahead_is(lit("%", 1), i).is_none()
                    invariant self.src == old(self).src, self.src.ok(i as int), i0 <= i, i_it_ < i, self.num_newlines <= i, prec_level <= i, errs_ok(&self.src, errs@), ast_spans_ok(&self.src, &self.ast, self.global_actiontype),
                    decreases self.src.slen() - i, // OBL: C12.yacc.decls.symbol_list_loop_terminates
                {
                    //@probe
        //@end
        //@rule first `^(\s*)while j < self\.src\.len\(\) && self\.num_newlines == num_newlines \{$` =>>
                while j < self.src.len() && self.num_newlines == num_newlines
                    invariant self.src == old(self).src, self.src.ok(i as int), i0 <= i, i_it_ < i, self.num_newlines <= i, prec_level <= i, errs_ok(&self.src, errs@), ast_spans_ok(&self.src, &self.ast, self.global_actiontype),
                        self.ast.avoid_insert is Some,
                    decreases self.src.slen() - i, // OBL: C12.yacc.decls.token_list_loop_terminates
                {
                    //@probe
        //@end
        //@rule first `^(\s*)while j < self\.src\.len\(\) && self\.num_newlines == num_newlines \{$` =>>
                while j < self.src.len() && self.num_newlines == num_newlines
                    invariant self.src == old(self).src, self.src.ok(i as int), i0 <= i, i_it_ < i, self.num_newlines <= i, prec_level <= i, errs_ok(&self.src, errs@), ast_spans_ok(&self.src, &self.ast, self.global_actiontype),
                        self.ast.implicit_tokens is Some,
                    decreases self.src.slen() - i, // OBL: C12.yacc.decls.token_list_loop_terminates
                {
                    //@probe
        //@end
        //@rule n=1 `^(\s*)while i < self\.src\.len\(\) && num_newlines == self\.num_newlines \{$` =>>
                while i < self.src.len() && num_newlines == self.num_newlines
                    invariant self.src == old(self).src, self.src.ok(i as int), i0 <= i, i_it_ < i, self.num_newlines <= i, prec_level <= i, errs_ok(&self.src, errs@), ast_spans_ok(&self.src, &self.ast, self.global_actiontype),
                    decreases self.src.slen() - i, // OBL: C12.yacc.decls.token_list_loop_terminates
                {
                    //@probe
        //@end
        //@endbody
    }
}
// ---- parse(): the glue that runs the three sections ----
impl YaccParser {
    // GrmtoolsSectionParser::new(self.src, false).parse() with its errors converted: contract proved in unit c12_header
    // (the section parser returns a cursor in range on a boundary, or a non-empty list of renderable errors)
    #[verifier::external_body]
    fn header_pos(&self) -> (r: Result<usize, Vec<YaccGrammarError>>)
        ensures r matches Ok(pos) ==> self.src.ok(pos as int), r matches Err(es) ==> es@.len() > 0 && errs_ok(&self.src, es@),
    { unimplemented!() }
    // contracts proved in unit c12_yacc2
    #[verifier::external_body]
    fn parse_rules(&mut self, i0: usize) -> (r: Result<usize, YaccGrammarError>)
        requires old(self).src.ok(i0 as int), old(self).num_newlines <= i0, old(self).src.spec_starts_with(i0 as int, spec_lit("%%"@, 2)), old(self).src.slen() < 0x7fff_ffff,
        ensures final(self).src == old(self).src,
            r matches Ok(j) ==> i0 <= j && old(self).src.ok(j as int) && final(self).num_newlines <= j,
            r matches Err(e) ==> err_ok(&old(self).src, e),
    { unimplemented!() }
    #[verifier::external_body]
    fn parse_programs(&mut self, i0: usize, errs_: &mut Vec<YaccGrammarError>) -> (r: Result<usize, YaccGrammarError>)
        requires old(self).src.ok(i0 as int), old(self).num_newlines <= i0,
        ensures final(self).src == old(self).src, *final(errs_) == *old(errs_),
            r matches Ok(j) ==> i0 <= j && j <= old(self).src.slen(),
            r matches Err(e) ==> err_ok(&old(self).src, e),
    { unimplemented!() }

    //@ctx parse: called once on a fresh parser (YaccParser::new: no newlines counted, empty AST, no global action type); the grammar text is shorter than 2^31 bytes
    fn parse(&mut self) -> (r: Result<usize, Vec<YaccGrammarError>>)
        requires old(self).num_newlines == 0, ast_spans_ok(&old(self).src, &old(self).ast, old(self).global_actiontype), old(self).src.slen() < 0x7fff_ffff,
        ensures final(self).src == old(self).src,
            r matches Ok(j) ==> j <= old(self).src.slen(), // OBL: C12.yacc.parse.ok_is_a_position_in_the_text
            r matches Err(es) ==> es@.len() > 0 && errs_ok(&old(self).src, es@), // OBL: C12.yacc.parse.failure_is_a_non_empty_list_of_renderable_errors
    {
        //@probe
        //@body file=cfgrammar/src/lib/yacc/parser.rs fn=parse
        //@rule n=1 `let mut errs = Vec::new\(\);` => `let mut errs: Vec<YaccGrammarError> = Vec::new();`
        //@rule n=1 `let \(_, pos\) = GrmtoolsSectionParser::new\(self\.src, false\)\s*\.parse\(\)\s*\.map_err\(\|mut errs\| errs\.drain\(\.\.\)\.map\(\|e\| e\.into\(\)\)\.collect::<Vec<_>>\(\)\)\?;` => `let pos = self.header_pos()?;`
        //@endbody
    }
}
//@use prelude/tail.rs
