//@unit c12_dupocc props=C12,C11,C10,C09 widths=u32
//@use prelude/head.rs

// The three add_duplicate_occurrence functions (lrlex/src/lib/parser.rs, cfgrammar/src/lib/yacc/parser.rs,
// cfgrammar/src/lib/header.rs): how a second, third.. occurrence of something that may appear once is reported.  Units
// c12_header, c12_yacc3, c03_preclines and c11_decl assume of them that the error list stays a list of errors with at
// least one renderable span each; here the real bodies are verified against the whole behaviour: the FIRST error of that
// kind whose first span is `orig` gets `dup` appended and nothing else changes; when there is none, one error
// [orig, dup] of that kind is appended and nothing else changes.
#[derive(Clone, Copy)] pub struct Span { pub st: usize, pub en: usize }
// `a == b` on spans (derived PartialEq: field by field)
pub fn span_eq(a: &Span, b: &Span) -> (r: bool) ensures r == (*a == *b) { a.st == b.st && a.en == b.en }
// the error kinds: compared by their derived PartialEq (header, yacc) or by is_same_kind (lex: same variant)
#[verifier::external_body] #[derive(Clone, Copy)] pub struct Kind { _x: usize }
impl Kind { pub uninterp spec fn id(&self) -> int; }
#[verifier::external_body] pub fn kind_eq(a: &Kind, b: &Kind) -> (r: bool) ensures r == (a.id() == b.id()) { unimplemented!() }
pub struct LexBuildError { pub kind: Kind, pub spans: Vec<Span> }
pub struct YaccGrammarError { pub kind: Kind, pub spans: Vec<Span> }
pub struct HeaderError { pub kind: Kind, pub locations: Vec<Span> }

// an error as (kind, spans)
pub type EV = (int, Seq<Span>);
pub open spec fn lview(v: Seq<LexBuildError>) -> Seq<EV> { Seq::new(v.len(), |i: int| (v[i].kind.id(), v[i].spans@)) }
pub open spec fn yview(v: Seq<YaccGrammarError>) -> Seq<EV> { Seq::new(v.len(), |i: int| (v[i].kind.id(), v[i].spans@)) }
pub open spec fn hview(v: Seq<HeaderError>) -> Seq<EV> { Seq::new(v.len(), |i: int| (v[i].kind.id(), v[i].locations@)) }
pub open spec fn hit(e: EV, kind: int, orig: Span) -> bool { e.0 == kind && e.1.len() > 0 && e.1[0] == orig }
pub open spec fn all_spanned(v: Seq<EV>) -> bool { forall|k: int| 0 <= k < v.len() ==> (#[trigger] v[k]).1.len() > 0 }
pub open spec fn none_before(v: Seq<EV>, n: int, kind: int, orig: Span) -> bool { forall|j: int| 0 <= j < n ==> !hit(#[trigger] v[j], kind, orig) }
// the first error it belongs to gets the span ..
pub open spec fn appended_at(o: Seq<EV>, n: Seq<EV>, k: int, kind: int, orig: Span, dup: Span) -> bool {
    0 <= k < o.len() && hit(o[k], kind, orig) && none_before(o, k, kind, orig) && n == o.update(k, (o[k].0, o[k].1.push(dup)))
}
// .. or a new error is made
pub open spec fn dup_post(o: Seq<EV>, n: Seq<EV>, kind: int, orig: Span, dup: Span) -> bool {
    (exists|k: int| appended_at(o, n, k, kind, orig, dup)) || (none_before(o, o.len() as int, kind, orig) && n == o.push((kind, seq![orig, dup])))
}

// What units c12_header, c12_yacc3, c03_preclines and c11_decl assume of these functions follows from the contract above:
// whatever holds of every span already reported and of `orig` and `dup` (there: "can be rendered in this text") holds of
// every span reported afterwards, and the list is not empty afterwards.
pub open spec fn all_p(v: Seq<EV>, p: spec_fn(Span) -> bool) -> bool { forall|k: int, i: int| 0 <= k < v.len() && 0 <= i < v[k].1.len() ==> p(#[trigger] v[k].1[i]) }
proof fn lemma_assumed_contracts_follow(o: Seq<EV>, n: Seq<EV>, kind: int, orig: Span, dup: Span, p: spec_fn(Span) -> bool)
    requires dup_post(o, n, kind, orig, dup), all_p(o, p), p(orig), p(dup),
    ensures all_p(n, p) && n.len() > 0, // OBL: C12.dupocc.the_contract_the_parser_units_assume_follows_every_reported_span_stays_renderable
{
    if exists|k: int| appended_at(o, n, k, kind, orig, dup) {
        let k0 = choose|k: int| appended_at(o, n, k, kind, orig, dup);
        assert forall|k: int, i: int| 0 <= k < n.len() && 0 <= i < n[k].1.len() implies p(#[trigger] n[k].1[i]) by {
            if k == k0 { if i < o[k0].1.len() { assert(n[k].1[i] == o[k0].1[i]); } else { assert(n[k].1[i] == dup); } } else { assert(n[k] == o[k]); assert(n[k].1[i] == o[k].1[i]); }
        }
    } else {
        assert forall|k: int, i: int| 0 <= k < n.len() && 0 <= i < n[k].1.len() implies p(#[trigger] n[k].1[i]) by {
            if k < o.len() { assert(n[k] == o[k]); assert(n[k].1[i] == o[k].1[i]); } else { assert(n[k].1 == seq![orig, dup]); if i == 0 { assert(n[k].1[i] == orig); } else { assert(n[k].1[i] == dup); } }
        }
    }
}

//@ctx add_duplicate_occurrence: every error already in the list has at least one span (errors are made by mk_error or here; `e.spans[0]` panics otherwise)
fn lex_add_duplicate_occurrence(errs: &mut Vec<LexBuildError>, kind: Kind, orig_span: Span, dup_span: Span)
    requires all_spanned(lview(old(errs)@)),
    ensures dup_post(lview(old(errs)@), lview(final(errs)@), kind.id(), orig_span, dup_span), // OBL: C11.dupocc.lex_first_matching_error_gets_the_span_or_one_new_error_is_made_nothing_else_changes
        all_spanned(lview(final(errs)@)), // OBL: C12.dupocc.lex_every_error_keeps_a_span
{
    //@probe
    let ghost o_ = lview(errs@);
    //@body file=lrlex/src/lib/parser.rs fn=add_duplicate_occurrence
    //@rule n=* `e\.kind\.is_same_kind\(&(\w+)\)` => `kind_eq(&e.kind, &\1)`
    //@rule n=* `e\.spans\[(\d+)\] == (\w+)` => `span_eq(&e.spans[\1], &\2)`
    //@rule n=* `\be\.spans\.(push|insert)\(` => `errs[k_].spans.\1(`
    //@rule n=1 `if !errs\s*\.iter_mut\(\)\s*\.any\(\|e\| \{\s*if ([^{]*?) \{\s*([^;]*;)\s*true\s*\} else \{\s*false\s*\}\s*\}\) \{` =>>
    // dialect rule 5: `v.iter_mut().any(|e| { if P(e) { CHANGE(e); true } else { false } })` as a loop that stops at the first element for which P holds
    let mut found_ = false;
    let mut k_: usize = 0;
    while k_ < errs.len() && !found_
        invariant k_ <= errs@.len(), errs@.len() == o_.len(), all_spanned(o_),
            !found_ ==> lview(errs@) == o_ && none_before(o_, k_ as int, kind.id(), orig_span),
            found_ ==> k_ < o_.len() && hit(o_[k_ as int], kind.id(), orig_span) && none_before(o_, k_ as int, kind.id(), orig_span) && lview(errs@) =~= o_.update(k_ as int, (o_[k_ as int].0, o_[k_ as int].1.push(dup_span))),
        decreases errs@.len() - k_ + (if found_ { 0int } else { 1int }),
    {
        //@probe
        proof { assert(lview(errs@)[k_ as int] == o_[k_ as int]); }
        let e = &errs[k_];
        if \1 {
            \2
            found_ = true;
        } else {
            k_ += 1;
        }
    }
    if !found_ {
    //@end
    //@endbody
    proof { if found_ { assert(lview(errs@) =~= o_.update(k_ as int, (o_[k_ as int].0, o_[k_ as int].1.push(dup_span)))); assert(appended_at(o_, lview(errs@), k_ as int, kind.id(), orig_span, dup_span)); } else { assert(lview(errs@) =~= o_.push((kind.id(), seq![orig_span, dup_span]))); } }
}

fn yacc_add_duplicate_occurrence(errs: &mut Vec<YaccGrammarError>, kind: Kind, orig_span: Span, dup_span: Span)
    requires all_spanned(yview(old(errs)@)),
    ensures dup_post(yview(old(errs)@), yview(final(errs)@), kind.id(), orig_span, dup_span), // OBL: C10.dupocc.yacc_first_matching_error_gets_the_span_or_one_new_error_is_made_nothing_else_changes
        all_spanned(yview(final(errs)@)), // OBL: C12.dupocc.yacc_every_error_keeps_a_span
{
    //@probe
    let ghost o_ = yview(errs@);
    //@body file=cfgrammar/src/lib/yacc/parser.rs fn=add_duplicate_occurrence
    //@rule n=* `e\.kind == (\w+)` => `kind_eq(&e.kind, &\1)`
    //@rule n=* `e\.spans\[(\d+)\] == (\w+)` => `span_eq(&e.spans[\1], &\2)`
    //@rule n=* `\be\.spans\.(push|insert)\(` => `errs[k_].spans.\1(`
    //@rule n=1 `if !errs\s*\.iter_mut\(\)\s*\.any\(\|e\| \{\s*if ([^{]*?) \{\s*([^;]*;)\s*true\s*\} else \{\s*false\s*\}\s*\}\) \{` =>>
    // dialect rule 5: `v.iter_mut().any(|e| { if P(e) { CHANGE(e); true } else { false } })` as a loop that stops at the first element for which P holds
    let mut found_ = false;
    let mut k_: usize = 0;
    while k_ < errs.len() && !found_
        invariant k_ <= errs@.len(), errs@.len() == o_.len(), all_spanned(o_),
            !found_ ==> yview(errs@) == o_ && none_before(o_, k_ as int, kind.id(), orig_span),
            found_ ==> k_ < o_.len() && hit(o_[k_ as int], kind.id(), orig_span) && none_before(o_, k_ as int, kind.id(), orig_span) && yview(errs@) =~= o_.update(k_ as int, (o_[k_ as int].0, o_[k_ as int].1.push(dup_span))),
        decreases errs@.len() - k_ + (if found_ { 0int } else { 1int }),
    {
        //@probe
        proof { assert(yview(errs@)[k_ as int] == o_[k_ as int]); }
        let e = &errs[k_];
        if \1 {
            \2
            found_ = true;
        } else {
            k_ += 1;
        }
    }
    if !found_ {
    //@end
    //@endbody
    proof { if found_ { assert(yview(errs@) =~= o_.update(k_ as int, (o_[k_ as int].0, o_[k_ as int].1.push(dup_span)))); assert(appended_at(o_, yview(errs@), k_ as int, kind.id(), orig_span, dup_span)); } else { assert(yview(errs@) =~= o_.push((kind.id(), seq![orig_span, dup_span]))); } }
}

//@ctx add_duplicate_occurrence (header.rs): the location type T is Span (the only instantiation in the workspace); `dup_loc.clone()` of a Copy span is the span
fn header_add_duplicate_occurrence(errs: &mut Vec<HeaderError>, kind: Kind, orig_loc: Span, dup_loc: Span)
    requires all_spanned(hview(old(errs)@)),
    ensures dup_post(hview(old(errs)@), hview(final(errs)@), kind.id(), orig_loc, dup_loc), // OBL: C12.dupocc.header_first_matching_error_gets_the_location_or_one_new_error_is_made_nothing_else_changes
        all_spanned(hview(final(errs)@)), // OBL: C12.dupocc.header_every_error_keeps_a_location
{
    //@probe
    let ghost o_ = hview(errs@);
    //@body file=cfgrammar/src/lib/header.rs fn=add_duplicate_occurrence
    //@rule n=* `e\.kind == (\w+)` => `kind_eq(&e.kind, &\1)`
    //@rule n=* `e\.locations\[(\d+)\] == (\w+)` => `span_eq(&e.locations[\1], &\2)`
    //@rule n=* `\be\.locations\.(push|insert)\(` => `errs[k_].locations.\1(`
    //@rule n=* `\b(dup_loc|orig_loc)\.clone\(\)` => `\1`
    //@rule n=1 `if !errs\s*\.iter_mut\(\)\s*\.any\(\|e\| \{\s*if ([^{]*?) \{\s*([^;]*;)\s*true\s*\} else \{\s*false\s*\}\s*\}\) \{` =>>
    // dialect rule 5: `v.iter_mut().any(|e| { if P(e) { CHANGE(e); true } else { false } })` as a loop that stops at the first element for which P holds
    let mut found_ = false;
    let mut k_: usize = 0;
    while k_ < errs.len() && !found_
        invariant k_ <= errs@.len(), errs@.len() == o_.len(), all_spanned(o_),
            !found_ ==> hview(errs@) == o_ && none_before(o_, k_ as int, kind.id(), orig_loc),
            found_ ==> k_ < o_.len() && hit(o_[k_ as int], kind.id(), orig_loc) && none_before(o_, k_ as int, kind.id(), orig_loc) && hview(errs@) =~= o_.update(k_ as int, (o_[k_ as int].0, o_[k_ as int].1.push(dup_loc))),
        decreases errs@.len() - k_ + (if found_ { 0int } else { 1int }),
    {
        //@probe
        proof { assert(hview(errs@)[k_ as int] == o_[k_ as int]); }
        let e = &errs[k_];
        if \1 {
            \2
            found_ = true;
        } else {
            k_ += 1;
        }
    }
    if !found_ {
    //@end
    //@endbody
    proof { if found_ { assert(hview(errs@) =~= o_.update(k_ as int, (o_[k_ as int].0, o_[k_ as int].1.push(dup_loc)))); assert(appended_at(o_, hview(errs@), k_ as int, kind.id(), orig_loc, dup_loc)); } else { assert(hview(errs@) =~= o_.push((kind.id(), seq![orig_loc, dup_loc]))); } }
}

// ---- the callers in lrlex/src/lib/parser.rs: how start-state names are checked and looked up ----
#[verifier::external_body] #[derive(Clone, Copy)] pub struct NameRef { _x: usize }      // &str / String
impl NameRef { pub uninterp spec fn id(&self) -> int; }
// `state.name == name` / `r.name == state`: string comparison
#[verifier::external_body] pub fn name_eq(a: &NameRef, b: NameRef) -> (r: bool) ensures r == (a.id() == b.id()) { unimplemented!() }
pub uninterp spec fn name_ok(n: int) -> bool;                       // RE_START_STATE_NAME matches
#[verifier::external_body] pub fn re_start_state_name_is_match(n: NameRef) -> (r: bool) ensures r == name_ok(n.id()) { unimplemented!() }
pub uninterp spec fn k_duplicate_start_state() -> int;
pub uninterp spec fn k_unknown_start_state() -> int;
pub uninterp spec fn k_invalid_start_state_name() -> int;
pub struct LexErrorKind {}
impl LexErrorKind {
    #[verifier::external_body] pub fn DuplicateStartState() -> (r: Kind) ensures r.id() == k_duplicate_start_state() { unimplemented!() }
    #[verifier::external_body] pub fn UnknownStartState() -> (r: Kind) ensures r.id() == k_unknown_start_state() { unimplemented!() }
    #[verifier::external_body] pub fn InvalidStartStateName() -> (r: Kind) ensures r.id() == k_invalid_start_state_name() { unimplemented!() }
}
impl Span { pub fn new(st: usize, en: usize) -> (r: Span) ensures r == (Span { st: st, en: en }) { Span { st, en } } pub fn start(&self) -> (r: usize) ensures r == self.st { self.st } pub fn end(&self) -> (r: usize) ensures r == self.en { self.en } }
pub struct StartState { pub id: usize, pub name: NameRef, pub name_span: Span, pub exclusive: bool }
pub struct LexParser { pub start_states: Vec<StartState> }
pub open spec fn first_named(ss: Seq<StartState>, n: int, i: int) -> bool { 0 <= i < ss.len() && ss[i].name.id() == n && forall|j: int| 0 <= j < i ==> (#[trigger] ss[j]).name.id() != n }
pub open spec fn none_named(ss: Seq<StartState>, n: int) -> bool { forall|j: int| 0 <= j < ss.len() ==> (#[trigger] ss[j]).name.id() != n }
pub open spec fn err_at(e: LexBuildError, kind: int, off: usize) -> bool { e.kind.id() == kind && e.spans@.len() == 1 && e.spans@[0] == (Span { st: off, en: off }) }

impl LexParser {
    fn mk_error(&self, kind: Kind, off: usize) -> (r: LexBuildError)
        ensures err_at(r, kind.id(), off), // OBL: C12.dupocc.lex_mk_error_is_one_empty_span_at_the_offset_with_that_kind
    {
        //@probe
        //@body file=lrlex/src/lib/parser.rs fn=mk_error
        //@endbody
    }
    fn validate_start_state_name(&self, span: Span, name: NameRef) -> (r: Result<(), LexBuildError>)
        ensures (r is Ok) == name_ok(name.id()), r matches Err(e) ==> err_at(e, k_invalid_start_state_name(), span.st), // OBL: C11.dupocc.a_start_state_name_is_refused_exactly_when_it_is_not_well_formed_at_the_start_of_its_span
    {
        //@probe
        //@body file=lrlex/src/lib/parser.rs fn=validate_start_state_name
        //@rule n=1 `RE_START_STATE_NAME\.is_match\(name\)` => `re_start_state_name_is_match(name)`
        //@rule n=* `LexErrorKind::(\w+)` => `LexErrorKind::\1()`
        //@endbody
    }
    fn validate_start_state(&self, span: Span, name: NameRef, errs: &mut Vec<LexBuildError>) -> (r: Result<bool, LexBuildError>)
        requires all_spanned(lview(old(errs)@)),
        ensures
            !name_ok(name.id()) ==> r is Err && final(errs)@ == old(errs)@, // OBL: C11.dupocc.an_ill_formed_start_state_name_is_an_error_and_reports_nothing_else
            name_ok(name.id()) && none_named(self.start_states@, name.id()) ==> r == Ok::<bool, LexBuildError>(true) && final(errs)@ == old(errs)@, // OBL: C11.dupocc.a_new_start_state_name_is_accepted_and_reports_nothing
            name_ok(name.id()) && !none_named(self.start_states@, name.id()) ==> r == Ok::<bool, LexBuildError>(false) && exists|i: int| first_named(self.start_states@, name.id(), i) && dup_post(lview(old(errs)@), lview(final(errs)@), k_duplicate_start_state(), self.start_states@[i].name_span, span), // OBL: C11.dupocc.a_repeated_start_state_name_is_reported_against_its_first_declaration_and_not_declared_again
            all_spanned(lview(final(errs)@)), // OBL: C12.dupocc.lex_validate_every_error_keeps_a_span
    {
        //@probe
        //@body file=lrlex/src/lib/parser.rs fn=validate_start_state
        //@rule n=* `LexErrorKind::(\w+)` => `LexErrorKind::\1()`
        //@rule n=1 `add_duplicate_occurrence\(` => `lex_add_duplicate_occurrence(`
        //@rule n=* `state\.name == name` => `name_eq(&state.name, name)`
        //@rule n=1 `if let Some\(state\) = self\s*\.start_states\s*\.iter\(\)\s*\.find\(\|state\| ([^)]*\))\) \{` =>>
        // dialect rule 5: `v.iter().find(|x| P(x))` as a loop that stops at the first element for which P holds
        let mut fi_: usize = 0;
        let mut hit_ = false;
        while fi_ < self.start_states.len() && !hit_
            invariant fi_ <= self.start_states@.len(), forall|j: int| 0 <= j < fi_ ==> (#[trigger] self.start_states@[j]).name.id() != name.id(),
                hit_ ==> fi_ < self.start_states@.len() && self.start_states@[fi_ as int].name.id() == name.id(),
            decreases self.start_states@.len() - fi_ + (if hit_ { 0int } else { 1int }),
        {
            //@probe
            let state = &self.start_states[fi_];
            if \1 { hit_ = true; } else { fi_ += 1; }
        }
        proof { if hit_ { assert(first_named(self.start_states@, name.id(), fi_ as int)); } }
        if hit_ {
            let state = &self.start_states[fi_];
        //@end
        //@endbody
    }
    fn get_start_state_by_name(&self, off: usize, state: NameRef) -> (r: Result<&StartState, LexBuildError>)
        ensures
            r matches Ok(x) ==> exists|i: int| first_named(self.start_states@, state.id(), i) && *x == self.start_states@[i], // OBL: C09.dupocc.a_start_state_is_looked_up_by_name_as_the_first_declared_with_it
            r matches Err(e) ==> none_named(self.start_states@, state.id()) && err_at(e, k_unknown_start_state(), off), // OBL: C11.dupocc.an_unknown_start_state_is_refused_only_when_none_has_that_name_at_the_offset_given
    {
        //@probe
        //@body file=lrlex/src/lib/parser.rs fn=get_start_state_by_name
        //@rule n=* `LexErrorKind::(\w+)` => `LexErrorKind::\1()`
        //@rule n=* `r\.name == state` => `name_eq(&r.name, state)`
        //@rule n=1 `self\.start_states\s*\.iter\(\)\s*\.find\(\|r\| ([^)]*\))\)\s*\.ok_or_else\(\|\| ([^;]*)\)$` =>>
        // dialect rule 5: `v.iter().find(|x| P(x)).ok_or_else(|| E)` as a loop returning the first element for which P holds, else Err(E)
        let mut fi_: usize = 0;
        while fi_ < self.start_states.len()
            invariant fi_ <= self.start_states@.len(), forall|j: int| 0 <= j < fi_ ==> (#[trigger] self.start_states@[j]).name.id() != state.id(),
            decreases self.start_states@.len() - fi_,
        {
            //@probe
            let r = &self.start_states[fi_];
            if \1 {
                proof { assert(first_named(self.start_states@, state.id(), fi_ as int)); }
                return Ok(r);
            }
            fi_ += 1;
        }
        Err(\2)
        //@end
        //@endbody
    }
}
//@use prelude/tail.rs
