//@unit c03_prodprec props=C03,C10 widths=u32
//@use prelude/head.rs
//@use prelude/grammar.rs

#[verifier::external_body] pub struct Name { _s: usize }            // String
impl Name { pub uninterp spec fn id(&self) -> int; }
#[derive(Clone, Copy)] pub struct Span { pub start: usize, pub end: usize }
pub enum AstSymbol { Rule(Name, Span), Token(Name, Span) }
pub struct AstProduction { pub symbols: Vec<AstSymbol>, pub precedence: Option<Name> }
#[verifier::external_body] pub struct PrecMap { _s: usize }          // HashMap<String, (Precedence, Span)>
impl PrecMap {
    pub uninterp spec fn m(&self) -> Map<int, (Precedence, Span)>;
    #[verifier::external_body]
    pub fn get(&self, n: &Name) -> (r: Option<&(Precedence, Span)>)
        ensures r == (if self.m().contains_key(n.id()) { Some(&self.m()[n.id()]) } else { None::<&(Precedence, Span)> }),
    { unimplemented!() }
    // `ast.precs[n]` panics when the name is missing
    #[verifier::external_body]
    pub fn idx(&self, n: &Name) -> (r: (Precedence, Span))
        requires self.m().contains_key(n.id()), // OBLG: C03.prec_override_name_is_declared
        ensures r == self.m()[n.id()],
    { unimplemented!() }
}
pub struct Ast { pub precs: PrecMap }

pub open spec fn tok_name(s: AstSymbol) -> int { match s { AstSymbol::Token(n, _) => n.id(), AstSymbol::Rule(n, _) => n.id() } }
// index of the last Token symbol among s[..n], or -1
pub open spec fn last_token_idx(s: Seq<AstSymbol>, n: int) -> int
    decreases n
{ if n <= 0 { -1 } else if s[n - 1] is Token { n - 1 } else { last_token_idx(s, n - 1) } }
pub open spec fn lookup(m: Map<int, (Precedence, Span)>, k: int) -> Option<(Precedence, Span)> {
    if m.contains_key(k) { Some(m[k]) } else { None }
}
// the property: "production precedence being that of its %prec token, else of its last token"
pub open spec fn prod_prec(p: &AstProduction, m: Map<int, (Precedence, Span)>) -> Option<(Precedence, Span)> {
    if p.precedence is Some { Some(m[p.precedence.unwrap().id()]) }
    else {
        let k = last_token_idx(p.symbols@, p.symbols@.len() as int);
        if k < 0 { None } else { lookup(m, tok_name(p.symbols@[k])) }
    }
}

//@ctx prodprec: every %prec name of a validated AST is a declared precedence token (ast.rs complete_and_validate)
fn prodprec(ast: &Ast, astprod: &AstProduction) -> (r: Option<(Precedence, Span)>)
    requires astprod.precedence is Some ==> ast.precs.m().contains_key(astprod.precedence.unwrap().id()),
    ensures r == prod_prec(astprod, ast.precs.m()), // OBL: C03.production_precedence_is_prec_token_else_last_token C10.production_precedence_is_prec_token_else_last_token
{
    //@probe
    //@body file=cfgrammar/src/lib/yacc/grammar.rs fn=new_from_ast_with_validity_info block=`let mut prec = None;` endx=`\(\*rule\)\.push\(PIdx\(`
    //@rule n=1 `ast\.precs\[n\]` => `ast.precs.idx(n)`
    //@rule n=* `ast::Symbol::` => `AstSymbol::`
    //@rule n=1 `^(\s*)for astsym in astprod\.symbols\.iter\(\)\.rev\(\) \{$` =>>
                    let mut k_: usize = astprod.symbols.len();
                    while k_ > 0
                        invariant_except_break prec is None,
                            last_token_idx(astprod.symbols@, astprod.symbols@.len() as int) == last_token_idx(astprod.symbols@, k_ as int), // OBL: C03.prodprec_scan_stops_at_last_token
                        invariant k_ <= astprod.symbols@.len(), astprod.precedence is None,
                        ensures prec == prod_prec(astprod, ast.precs.m()),
                        decreases k_,
                    {
                        //@probe
                        k_ = k_ - 1;
                        let astsym = &astprod.symbols[k_];
    //@end
    //@endbody
    prec
}
//@use prelude/tail.rs
