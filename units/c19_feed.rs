//@unit c19_feed props=C19 widths=u32
//@use prelude/head.rs
//@use prelude/cursor.rs

pub struct NewlineCache { pub newlines: Vec<usize>, pub trailing_bytes: usize }
// `*v.last().unwrap()`
pub fn vec_last(v: &Vec<usize>) -> (r: usize)
    requires v@.len() > 0, // OBLG: C19.feed.newline_table_is_never_empty
    ensures r == v@.last()
{ v[v.len() - 1] }

// ---------------- specification ----------------
pub open spec fn sorted(s: Seq<usize>) -> bool { forall|i: int, j: int| 0 <= i < j < s.len() ==> s[i] < s[j] }
// the representation invariant the query units (c19_queries, c19_cols) take as their precondition ...
pub open spec fn wf(c: &NewlineCache) -> bool {
    c.newlines@.len() > 0 && c.newlines@[0] == 0 && sorted(c.newlines@) && c.newlines@.last() + c.trailing_bytes <= usize::MAX
}
pub open spec fn total(c: &NewlineCache) -> int { c.newlines@.last() + c.trailing_bytes }
// ... and what ties the table to a text: it holds 0 and, in order, exactly the offsets just after each '\n'
pub open spec fn describes(c: &NewlineCache, t: &Src) -> bool {
    &&& t.slen() == total(c)
    &&& forall|k: int| 1 <= k < c.newlines@.len() ==> 1 <= (#[trigger] c.newlines@[k]) <= t.slen() && t.is_boundary(c.newlines@[k] - 1) && t.ch(c.newlines@[k] - 1) == '\n'
    &&& forall|p: int| 0 <= p < t.slen() && t.is_boundary(p) && #[trigger] t.ch(p) == '\n' ==> exists|m: int| 0 < m < c.newlines@.len() && c.newlines@[m] == p + 1
}
// t1 is t0 followed by s
pub open spec fn concat(t0: &Src, s: &Src, t1: &Src) -> bool {
    &&& t1.slen() == t0.slen() + s.slen()
    &&& forall|i: int| 0 <= i < t0.slen() ==> (#[trigger] t1.is_boundary(i)) == t0.is_boundary(i)
    &&& forall|i: int| 0 <= i < t0.slen() && t0.is_boundary(i) ==> (#[trigger] t1.ch(i)) == t0.ch(i)
    &&& forall|j: int| 0 <= j <= s.slen() ==> (#[trigger] t1.is_boundary(t0.slen() + j)) == s.is_boundary(j)
    &&& forall|j: int| 0 <= j < s.slen() && s.is_boundary(j) ==> (#[trigger] t1.ch(t0.slen() + j)) == s.ch(j)
}

// UTF-8: no character boundary strictly inside a character (assumed, like the rest of the text model)
#[verifier::external_body]
pub proof fn axiom_no_boundary_inside(src: &Src, i: int, j: int)
    requires 0 <= i < src.slen(), src.is_boundary(i), i < j < i + spec_len_utf8(src.ch(i))
    ensures !src.is_boundary(j)
{ }
pub proof fn lemma_feed_done(c0: &NewlineCache, c1: &NewlineCache, src: &Src, t0: &Src, t1: &Src, n0: int)
    requires wf(c0), describes(c0, t0), concat(t0, src, t1), t1.slen() <= isize::MAX, n0 == c0.newlines@.len(),
        c1.newlines@.len() >= n0, forall|k: int| 0 <= k < n0 ==> c1.newlines@[k] == c0.newlines@[k], sorted(c1.newlines@), c1.newlines@[0] == 0,
        c1.newlines@.last() + c1.trailing_bytes == t0.slen() + src.slen(),
        forall|k: int| n0 <= k < c1.newlines@.len() ==> t0.slen() < (#[trigger] c1.newlines@[k]) <= t0.slen() + src.slen() && src.is_boundary(c1.newlines@[k] - 1 - t0.slen()) && src.ch(c1.newlines@[k] - 1 - t0.slen()) == '\n',
        forall|p: int| 0 <= p < src.slen() && src.is_boundary(p) && #[trigger] src.ch(p) == '\n' ==> exists|m: int| n0 <= m < c1.newlines@.len() && c1.newlines@[m] == t0.slen() + p + 1,
    ensures wf(c1), describes(c1, t1)
{
    let b = t0.slen() as int;
    assert forall|k: int| 1 <= k < c1.newlines@.len() implies 1 <= (#[trigger] c1.newlines@[k]) <= t1.slen() && t1.is_boundary(c1.newlines@[k] - 1) && t1.ch(c1.newlines@[k] - 1) == '\n' by {
        if k < n0 {
            let q = c0.newlines@[k] - 1;
            assert(t1.is_boundary(q) == t0.is_boundary(q));
            assert(t1.ch(q) == t0.ch(q));
        } else {
            let j = c1.newlines@[k] - 1 - b;
            assert(t1.is_boundary(b + j) == src.is_boundary(j));
            assert(t1.ch(b + j) == src.ch(j));
        }
    }
    assert forall|p: int| 0 <= p < t1.slen() && t1.is_boundary(p) && #[trigger] t1.ch(p) == '\n' implies exists|m: int| 0 < m < c1.newlines@.len() && c1.newlines@[m] == p + 1 by {
        if p < b {
            assert(t1.is_boundary(p) == t0.is_boundary(p));
            assert(t1.ch(p) == t0.ch(p));
            let m = choose|m: int| 0 < m < c0.newlines@.len() && c0.newlines@[m] == p + 1;
            assert(c1.newlines@[m] == c0.newlines@[m]);
        } else {
            let j = p - b;
            assert(t1.is_boundary(b + j) == src.is_boundary(j));
            assert(t1.ch(b + j) == src.ch(j));
            let m = choose|m: int| n0 <= m < c1.newlines@.len() && c1.newlines@[m] == b + j + 1;
            assert(c1.newlines@[m] == p + 1);
        }
    }
}

impl NewlineCache {
    //@ctx feed: `src` continues the text `t0` fed so far; the whole text `t1` fits in memory (its length is at most isize::MAX)
    pub fn feed(&mut self, src: &Src, Ghost(t0): Ghost<&Src>, Ghost(t1): Ghost<&Src>)
        requires wf(old(self)), describes(old(self), t0), concat(t0, src, t1), t1.slen() <= isize::MAX, src.is_boundary(0),
        ensures wf(final(self)), // OBL: C19.feed.keeps_the_table_sorted_from_zero
            describes(final(self), t1), // OBL: C19.feed.table_holds_exactly_the_line_starts_of_everything_fed_so_far
    {
        //@probe
        //@body file=cfgrammar/src/lib/newlinecache.rs fn=feed
        //@rule n=1 `self\.newlines\.last\(\)\.unwrap\(\)` => `vec_last(&self.newlines)`
        // dialect: `v.extend(src.char_indices().filter_map(|c| match c { ARMS }))` as a walk over the characters of src that
        // pushes what the closure returns when it is Some (the closure body is kept as it is)
        //@rule n=1 `^(\s*)self\.newlines\n\s*\.extend\(src\.char_indices\(\)\.filter_map\(\|c\| match c \{$` =>>
        let ghost n0 = self.newlines@.len();
        let ghost nl0 = self.newlines@;
        let mut pos_: usize = 0;
        while pos_ < src.len()
            invariant pos_ <= src.slen(), src.is_boundary(pos_ as int), start_pos == t0.slen(), concat(t0, src, t1), t1.slen() <= isize::MAX,
                self.newlines@.len() >= n0, n0 > 0, forall|k: int| 0 <= k < n0 ==> self.newlines@[k] == nl0[k], sorted(self.newlines@), self.newlines@[0] == 0,
                self.newlines@.last() + self.trailing_bytes == start_pos + pos_, // OBL: C19.feed.total_counts_the_bytes_fed
                forall|k: int| n0 <= k < self.newlines@.len() ==> start_pos < (#[trigger] self.newlines@[k]) <= start_pos + pos_ && src.is_boundary(self.newlines@[k] - 1 - start_pos) && src.ch(self.newlines@[k] - 1 - start_pos) == '\n',
                forall|p: int| 0 <= p < pos_ && src.is_boundary(p) && #[trigger] src.ch(p) == '\n' ==> exists|m: int| n0 <= m < self.newlines@.len() && self.newlines@[m] == start_pos + p + 1, // OBL: C19.feed.every_newline_of_the_chunk_gets_its_entry
            decreases src.slen() - pos_,
        {
            //@probe
            let ghost nl1 = self.newlines@;
            let c = (pos_, src.first_char_from(pos_).unwrap());
            pos_ = pos_ + len_utf8(c.1);
            let fm_ = match c {
        //@end
        //@rule n=1 `^(\s*)\}\)\);\s*$` =>>
            };
            if let Some(x_) = fm_ {
                self.newlines.push(x_);
                proof {
                    assert forall|p: int| 0 <= p < pos_ && src.is_boundary(p) && #[trigger] src.ch(p) == '\n' implies exists|m: int| n0 <= m < self.newlines@.len() && self.newlines@[m] == start_pos + p + 1 by {
                        assert(c.1 == '\n' && pos_ == c.0 + 1 && x_ == start_pos + c.0 + 1);
                        assert(self.newlines@ == nl1.push(x_));
                        if p == c.0 { let m = nl1.len() as int; assert(n0 <= m < self.newlines@.len() && self.newlines@[m] == start_pos + p + 1); assert(exists|m: int| n0 <= m < self.newlines@.len() && self.newlines@[m] == start_pos + p + 1); }
                        else { assert(p < c.0); assert(exists|m: int| n0 <= m < nl1.len() && nl1[m] == start_pos + p + 1); let m = choose|m: int| n0 <= m < nl1.len() && nl1[m] == start_pos + p + 1; assert(self.newlines@[m] == nl1[m]); assert(n0 <= m < self.newlines@.len() && self.newlines@[m] == start_pos + p + 1); assert(exists|m: int| n0 <= m < self.newlines@.len() && self.newlines@[m] == start_pos + p + 1); }
                    }
                }
            } else {
                proof {
                    assert forall|p: int| 0 <= p < pos_ && src.is_boundary(p) && #[trigger] src.ch(p) == '\n' implies exists|m: int| n0 <= m < self.newlines@.len() && self.newlines@[m] == start_pos + p + 1 by {
                        // the boundaries below the new cursor are those below the old one, and the character just passed is not a newline
                        assert(c.1 != '\n' && c.1 == src.ch(c.0 as int));
                        assert(self.newlines@ == nl1);
                        assert(p < c.0) by { if p >= c.0 { if p == c.0 { } else { axiom_no_boundary_inside(src, c.0 as int, p); } } }
                        let m = choose|m: int| n0 <= m < nl1.len() && nl1[m] == start_pos + p + 1;
                        assert(n0 <= m < self.newlines@.len() && self.newlines@[m] == start_pos + p + 1);
                    }
                }
            }
        }
        //@end
        //@rule n=* `\bc\.len_utf8\(\)` => `len_utf8(c)`
        //@endbody
        proof { lemma_feed_done(old(self), self, src, t0, t1, n0 as int); }
    }
}
impl NewlineCache {
    pub fn new() -> (r: NewlineCache)
        ensures wf(&r), // OBL: C19.new.table_starts_sorted_from_zero
            forall|t: &Src| t.slen() == 0 ==> #[trigger] describes(&r, t), // OBL: C19.new.empty_table_describes_the_empty_text
    {
        //@probe
        //@body file=cfgrammar/src/lib/newlinecache.rs fn=new
        //@rule n=1 `^(\s*)Self \{$` => `\1NewlineCache {`
        //@endbody
    }

    //@ctx from_str: the text fits in memory (its length is at most isize::MAX)
    fn from_str(s: &Src) -> (r: Result<NewlineCache, ()>)
        requires s.slen() <= isize::MAX, s.is_boundary(0),
        ensures r matches Ok(c) && wf(&c) && describes(&c, s), // OBL: C19.from_str.table_describes_the_whole_text
    {
        //@probe
        let ghost e_ = arbitrary_empty();
        proof { assert(concat(&e_, s, s)); }
        //@body file=cfgrammar/src/lib/newlinecache.rs fn=from_str
        //@rule n=1 `let mut x = Self::new\(\);` => `let mut x = NewlineCache::new();`
        //@rule n=1 `x\.feed\(s\);` => `x.feed(s, Ghost(&e_), Ghost(s));`
        //@endbody
    }
}
// some empty text (the model needs one to start from)
pub uninterp spec fn spec_empty() -> Src;
#[verifier::external_body] pub proof fn axiom_empty() ensures spec_empty().slen() == 0, spec_empty().is_boundary(0) { }
pub proof fn arbitrary_empty() -> (r: Src) ensures r.slen() == 0, r.is_boundary(0) { axiom_empty(); spec_empty() }
// FromIterator<&str>: the pieces in order (dialect rule 5: the iterator as a vector of pieces); `ts` are the texts after
// 0, 1, 2, .. pieces
//@ctx from_iter: the whole text fits in memory (its length is at most isize::MAX)
fn from_iter(chunks: &Vec<Src>, Ghost(ts): Ghost<Seq<Src>>) -> (r: NewlineCache)
    requires ts.len() == chunks@.len() + 1, ts[0].slen() == 0, ts.last().slen() <= isize::MAX,
        forall|k: int| 0 <= k < chunks@.len() ==> #[trigger] concat(&ts[k], &chunks@[k], &ts[k + 1]) && chunks@[k].is_boundary(0),
    ensures wf(&r) && describes(&r, &ts.last()), // OBL: C19.from_iter.table_describes_all_the_pieces_in_order
{
    //@probe
    proof {
        // the texts only grow, so none is longer than the last one
        assert forall|k: int| 0 <= k <= chunks@.len() implies (#[trigger] ts[k]).slen() <= ts.last().slen() by { lemma_grow(ts, chunks@, k); }
    }
    //@body file=cfgrammar/src/lib/newlinecache.rs fn=from_iter
    //@rule n=1 `^(\s*)for s in iter\.into_iter\(\) \{$` =>>
    for k_ in 0..chunks.len()
        invariant ts.len() == chunks@.len() + 1, ts.last().slen() <= isize::MAX, wf(&nlcache), describes(&nlcache, &ts[k_ as int]),
            forall|k: int| 0 <= k < chunks@.len() ==> #[trigger] concat(&ts[k], &chunks@[k], &ts[k + 1]) && chunks@[k].is_boundary(0),
            forall|k: int| 0 <= k <= chunks@.len() ==> (#[trigger] ts[k]).slen() <= ts.last().slen(),
    {
        //@probe
        let s = &chunks[k_];
        proof { assert(concat(&ts[k_ as int], &chunks@[k_ as int], &ts[k_ + 1])); }
    //@end
    //@rule n=1 `nlcache\.feed\(s\)` => `nlcache.feed(s, Ghost(&ts[k_ as int]), Ghost(&ts[k_ + 1]))`
    //@endbody
}
pub proof fn lemma_grow(ts: Seq<Src>, cs: Seq<Src>, k: int)
    requires ts.len() == cs.len() + 1, 0 <= k <= cs.len(), forall|j: int| 0 <= j < cs.len() ==> #[trigger] concat(&ts[j], &cs[j], &ts[j + 1]) && cs[j].is_boundary(0),
    ensures ts[k].slen() <= ts.last().slen()
    decreases cs.len() - k
{
    if k < cs.len() { assert(concat(&ts[k], &cs[k], &ts[k + 1])); lemma_grow(ts, cs, k + 1); }
}
//@use prelude/tail.rs
