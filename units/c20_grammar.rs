//@unit c20_grammar props=C20 widths=u8,u32 thorough_widths=u8,u16,u32
//@use prelude/head.rs

// ---- stand-ins for the AST (sizes only; contents never inspected) ----
//@ctx collection lengths are at most usize::MAX/8 (every element of these collections occupies at least 8 bytes of one address space), so `len() + small constant` cannot overflow usize
#[verifier::external_body] pub struct StrBuf { _s: usize }
#[verifier::external_body] pub struct Span { _s: usize }
#[verifier::external_body] pub struct AstSymbol { _s: usize }
pub struct Production { pub symbols: Vec<AstSymbol> }
// how many of a production's symbols are tokens
pub uninterp spec fn ntoks(s: Seq<AstSymbol>) -> nat;
// dialect rule 5: `v.iter().filter(|sym| matches!(sym, ast::Symbol::Token(..))).count()`
#[verifier::external_body] pub fn count_tokens(v: &Vec<AstSymbol>) -> (r: usize) ensures r == ntoks(v@), r <= v@.len(), v@.len() <= usize::MAX / 8 { unimplemented!() }
#[verifier::external_body] pub struct RulesMap { _s: usize }     // IndexMap<String, Rule>
#[verifier::external_body] pub struct TokSet { _s: usize }       // IndexSet<String>
#[verifier::external_body] pub struct SpanMap { _s: usize }      // HashMap<String, Span>
#[derive(Clone, Copy)] pub enum YaccOriginalActionKind { UserAction, GenericParseTree, NoAction }
#[derive(Clone, Copy)] pub enum YaccKind { Original(YaccOriginalActionKind), Grmtools, Eco }
impl RulesMap {
    pub uninterp spec fn n(&self) -> nat;
    #[verifier::external_body] pub fn len(&self) -> (r: usize) ensures r == self.n(), r <= usize::MAX / 8 { unimplemented!() }
}
impl TokSet {
    pub uninterp spec fn n(&self) -> nat;
    #[verifier::external_body] pub fn len(&self) -> (r: usize) ensures r == self.n(), r <= usize::MAX / 8 { unimplemented!() }
}
impl SpanMap {
    pub uninterp spec fn n(&self) -> nat;
    #[verifier::external_body] pub fn len(&self) -> (r: usize) ensures r == self.n(), r <= usize::MAX / 8 { unimplemented!() }
}
pub struct GrammarAST { pub rules: RulesMap, pub tokens: TokSet, pub prods: Vec<Production>, pub implicit_tokens: Option<SpanMap> }
#[verifier::external_body] pub struct ASTWithValidityInfo { _s: usize }
impl ASTWithValidityInfo {
    pub uninterp spec fn sast(&self) -> &GrammarAST;
    pub uninterp spec fn skind(&self) -> YaccKind;
    #[verifier::external_body] pub fn ast(&self) -> (r: &GrammarAST) ensures r == self.sast(), r.prods@.len() <= usize::MAX / 8 { unimplemented!() }
    #[verifier::external_body] pub fn yacc_kind(&self) -> (r: YaccKind) ensures r == self.skind() { unimplemented!() }
}

// What the constructor adds to the AST's rules / tokens / productions (grammar.rs: the
// start rule `^`; for Eco with %implicit_tokens also `~` and `^~`; the EOF token; the
// start production, and for Eco one production per implicit token, the empty
// production of `~` and the production of `^~`).
pub open spec fn eco_implicit(v: &ASTWithValidityInfo) -> bool { v.skind() is Eco && v.sast().implicit_tokens is Some }
pub open spec fn final_rules(v: &ASTWithValidityInfo) -> nat { v.sast().rules.n() + (if eco_implicit(v) { 3nat } else { 1nat }) }
pub open spec fn final_tokens(v: &ASTWithValidityInfo) -> nat { v.sast().tokens.n() + 1 }
pub open spec fn final_prods(v: &ASTWithValidityInfo) -> nat {
    v.sast().prods@.len() + (if eco_implicit(v) { v.sast().implicit_tokens.unwrap().n() + 3 } else { 1nat })
}

// a production's final length: in Eco grammars with implicit tokens the implicit rule follows every token
pub open spec fn final_len(v: &ASTWithValidityInfo, syms: Seq<AstSymbol>) -> nat { syms.len() + (if eco_implicit(v) { ntoks(syms) } else { 0nat }) }

// B1: the StorageT guards.  Postconditions are what the later casts need: the *final*
// sizes fit (the property: no reported size or index ever wraps).
fn guards(ast_validation: &ASTWithValidityInfo)
    ensures
        final_rules(ast_validation) <= $TMAX, // OBL: C20.guard_final_rule_count_fits
        final_tokens(ast_validation) <= $TMAX, // OBL: C20.guard_final_token_count_fits
        final_prods(ast_validation) <= $TMAX, // OBL: C20.guard_final_production_count_fits
        forall|p: int| 0 <= p < ast_validation.sast().prods@.len() ==> final_len(ast_validation, (#[trigger] ast_validation.sast().prods@[p]).symbols@) <= $TMAX, // OBL: C20.guard_production_lengths_fit
{
    //@probe
    //@body file=cfgrammar/src/lib/yacc/grammar.rs fn=new_from_ast_with_validity_info block=`let ast = ast_validation\.ast\(\);` endx=`let mut rule_names: Vec<`
    //@rule n=1 `p\.symbols\s*\.iter\(\)\s*\.filter\(\|sym\| matches!\(sym, ast::Symbol::Token\(\.\.\)\)\)\s*\.count\(\)` => `count_tokens(&p.symbols)`
    //@rule n=1 `^(\s*)for p in &ast\.prods \{$` =>>
        for pi_ in 0..ast.prods.len()
            invariant implicit_after_tokens == eco_implicit(ast_validation), ast == ast_validation.sast(),
                forall|p: int| 0 <= p < pi_ ==> final_len(ast_validation, (#[trigger] ast.prods@[p]).symbols@) <= $TMAX,
        {
            //@probe
            let p = &ast.prods[pi_];
    //@end
    //@endbody
}

//@ctx rule_map loop: rule_names holds the start rule, the Eco implicit rules and one entry per AST rule (grammar.rs pushes between the guards and this loop; sizes block not built)
//@ctx final casts: token_names has one entry per AST token plus the EOF token; prods has one entry per AST production plus the ones listed in final_prods (loop-level accounting of the big rule loop is not decided)
#[verifier::external_body] pub struct RuleMap { _s: usize }     // HashMap<String, RIdx<StorageT>>
impl RuleMap { #[verifier::external_body] pub fn insert(&mut self, k: StrBuf, v: RIdx<$T>) { unimplemented!() } }
#[verifier::external_body] pub struct TokMap { _s: usize }
impl TokMap { #[verifier::external_body] pub fn insert(&mut self, k: StrBuf, v: TIdx<$T>) { unimplemented!() } }
impl StrBuf { #[verifier::external_body] pub fn clone(&self) -> (r: StrBuf) { unimplemented!() } }

// B3: `rule_map.insert(v.clone(), RIdx(i.as_()))` for every rule name
fn rule_map_loop(rule_names: &Vec<(StrBuf, Span)>, rules_prods: &mut Vec<Vec<PIdx<$T>>>, rule_map: &mut RuleMap, Ghost(v): Ghost<&ASTWithValidityInfo>)
    requires rule_names@.len() == final_rules(v), final_rules(v) <= $TMAX,
    ensures final(rules_prods)@.len() == old(rules_prods)@.len() + rule_names@.len(), // OBL: C20.one_production_list_per_rule
{
    //@probe
    //@body file=cfgrammar/src/lib/yacc/grammar.rs fn=new_from_ast_with_validity_info block=`for \(i, \(v, _\)\) in rule_names\.iter\(\)\.enumerate\(\)` through=brace
    //@rule n=1 `^(\s*)for \(i, \(v, _\)\) in rule_names\.iter\(\)\.enumerate\(\) \{$` =>>
        for i in 0..rule_names.len()
            invariant rule_names@.len() <= $TMAX, rules_prods@.len() == old(rules_prods)@.len() + i,
        {
            //@probe
            let v = &rule_names[i].0;
    //@end
    //@endbody
}

// B6: the sizes stored in the grammar object
pub struct Sizes { pub rules_len: RIdx<$T>, pub tokens_len: TIdx<$T>, pub prods_len: PIdx<$T> }
fn final_sizes(rule_names: &Vec<(StrBuf, Span)>, token_names: &Vec<Option<(Span, StrBuf)>>, prods: &Vec<Option<Vec<Symbol<$T>>>>, Ghost(v): Ghost<&ASTWithValidityInfo>) -> (r: Sizes)
    requires rule_names@.len() == final_rules(v), token_names@.len() == final_tokens(v), prods@.len() == final_prods(v),
             final_rules(v) <= $TMAX, final_tokens(v) <= $TMAX, final_prods(v) <= $TMAX,
    ensures r.rules_len.0 == rule_names@.len(), // OBL: C20.rules_len_is_rule_count
            r.tokens_len.0 == token_names@.len(), // OBL: C20.tokens_len_is_token_count
            r.prods_len.0 == prods@.len(), // OBL: C20.prods_len_is_production_count
{
    //@probe
    Sizes {
    //@body file=cfgrammar/src/lib/yacc/grammar.rs fn=new_from_ast_with_validity_info block=`^\s*rules_len: RIdx\(` end=`^\s*rules_len: RIdx\(`
    //@endbody
    //@body file=cfgrammar/src/lib/yacc/grammar.rs fn=new_from_ast_with_validity_info block=`^\s*tokens_len: TIdx\(` end=`^\s*tokens_len: TIdx\(`
    //@endbody
    //@body file=cfgrammar/src/lib/yacc/grammar.rs fn=new_from_ast_with_validity_info block=`^\s*prods_len: PIdx\(` end=`^\s*prods_len: PIdx\(`
    //@endbody
    }
}

// accessors that narrow
pub struct G { pub prods: Vec<Vec<Symbol<$T>>>, pub prods_len: PIdx<$T> }
impl G {
    //@ctx prod_len: every production of a constructed grammar has at most StorageT::MAX symbols (guards: the AST length plus, in Eco grammars with implicit tokens, one rule symbol per token symbol)
    pub fn prod_len(&self, pidx: PIdx<$T>) -> (r: SIdx<$T>)
        requires (pidx.0 as nat) < self.prods@.len(), self.prods@[pidx.0 as int]@.len() <= $TMAX,
        ensures r.0 == self.prods@[pidx.0 as int]@.len(), // OBL: C20.prod_len_is_symbol_count
    {
        //@probe
        //@body file=cfgrammar/src/lib/yacc/grammar.rs fn=prod_len
        //@endbody
    }
}
//@use prelude/tail.rs
