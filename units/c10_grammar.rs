//@unit c10_grammar props=C10,C20,C15 widths=u32
//@use prelude/head.rs
//@use prelude/grammar.rs
//@use prelude/vob.rs

// ---- stand-ins for the constructor's string-keyed maps (contents never inspected) ----
#[verifier::external_body] pub struct Name { _x: usize }
impl Name { pub uninterp spec fn id(&self) -> int; }
#[derive(Clone, Copy)] pub struct Span { pub st: usize, pub en: usize }
#[verifier::external_body] pub struct RuleMap { _x: usize }        // HashMap<String, RIdx>
impl RuleMap {
    pub uninterp spec fn bound(&self) -> nat;      // every value is a rule index below this
    #[verifier::external_body] pub fn idx(&self, k: &Name) -> (r: RIdx<$T>) ensures (r.0 as nat) < self.bound() { unimplemented!() }
}
#[verifier::external_body] pub struct TokMap { _x: usize }         // HashMap<String, TIdx>
impl TokMap {
    pub uninterp spec fn bound(&self) -> nat;
    pub uninterp spec fn sidx(&self, k: int) -> TIdx<$T>;
    #[verifier::external_body] pub fn idx(&self, k: &Name) -> (r: TIdx<$T>) ensures (r.0 as nat) < self.bound(), r == self.sidx(k.id()) { unimplemented!() }
}
#[verifier::external_body] pub struct NameSet { _x: usize }        // HashMap<String, Span> used as a set of names
impl NameSet {
    // dialect rule 5: `.keys()` as an arbitrary-order list
    pub uninterp spec fn n(&self) -> nat;
    #[verifier::external_body] pub fn keys_vec(&self) -> (r: &Vec<Name>) ensures r@.len() == self.n() { unimplemented!() }
    // the names in the order of their spans in the source (spans of distinct declarations differ),
    // a function of the map's contents and not of its iteration order
    pub uninterp spec fn by_span(&self) -> Seq<int>;
    // dialect: `.iter().collect::<Vec<_>>()` + `sort_by_key(|(_, span)| span.start())`
    #[verifier::external_body]
    pub fn sorted_by_span(&self) -> (r: Vec<(&Name, &Span)>)
        ensures r@.len() == self.n(), self.by_span().len() == self.n(), forall|k: int| 0 <= k < r@.len() ==> (#[trigger] r@[k]).0.id() == self.by_span()[k]
    { unimplemented!() }
}
// `v[i].push(x)` through `&mut v[i]`
#[verifier::external_body]
pub fn vv_push(v: &mut Vec<Vec<PIdx<$T>>>, i: usize, x: PIdx<$T>)
    requires i < old(v)@.len(), // OBLG: vec_index_in_range
    ensures final(v)@.len() == old(v)@.len(),
{ unimplemented!() }

// the per-production vectors of the constructor
pub struct PV {
    pub prods: Vec<Option<Vec<Symbol<$T>>>>, pub prod_precs: Vec<Option<Option<Precedence>>>, pub prods_rules: Vec<Option<RIdx<$T>>>,
    pub actions: Vec<Option<Name>>, pub action_spans: Vec<Option<Span>>,
}
// "every index the API returns is in range": the accessors index all five with a PIdx < prods_len
pub open spec fn parallel(pv: &PV) -> bool {
    pv.prods@.len() == pv.prod_precs@.len() && pv.prods@.len() == pv.prods_rules@.len() && pv.prods@.len() == pv.actions@.len() && pv.prods@.len() == pv.action_spans@.len()
}

pub open spec fn prod_is(prods: Seq<Option<Vec<Symbol<$T>>>>, i: int, t: TIdx<$T>, r: RIdx<$T>) -> bool { 0 <= i < prods.len() && prods[i] is Some && prods[i]->Some_0@ == seq![Symbol::Token(t), Symbol::Rule(r)] }
//@ctx branches: the rule being processed and every name looked up in rule_map/token_map are registered (their indices are below rules_prods.len()); prods.len() is below the guarded final size
fn start_rule_branch(rules_prods: &mut Vec<Vec<PIdx<$T>>>, pv: &mut PV, ridx: RIdx<$T>, rule_map: &RuleMap, start_name: &Name, implicit_start_rule: Option<Name>)
    requires parallel(old(pv)), (ridx.0 as nat) < old(rules_prods)@.len(), old(pv).prods@.len() < $TMAX,
    ensures parallel(final(pv)), // OBL: C10.per_production_vectors_stay_parallel.start_rule
        final(pv).prods@.len() == old(pv).prods@.len() + 1,
{
    //@probe
    //@body file=cfgrammar/src/lib/yacc/grammar.rs fn=new_from_ast_with_validity_info block=`rules_prods\[usize::from\(ridx\)\]\.push\(PIdx\(prods\.len\(\)\.as_\(\)\)\);` end=`^\s*continue;`
    //@rule n=* `\b(prods|prod_precs|prods_rules|actions|action_spans)\.` => `pv.\1.`
    //@rule n=1 `rules_prods\[usize::from\(ridx\)\]\.push\(` => `vv_push(rules_prods, usize::from(ridx), `
    //@rule n=* `rule_map\[(\w+)\]` => `rule_map.idx(\1)`
    //@rule n=1 `^\s*continue;` => ``
    //@endbody
}

fn implicit_start_rule_branch(rules_prods: &mut Vec<Vec<PIdx<$T>>>, pv: &mut PV, ridx: RIdx<$T>, rule_map: &RuleMap, astrulename: &Name, start_name: &Name, implicit_rule: Option<Name>)
    requires parallel(old(pv)), rule_map.bound() <= old(rules_prods)@.len(), old(pv).prods@.len() < $TMAX, implicit_rule is Some,
    ensures parallel(final(pv)), // OBL: C10.per_production_vectors_stay_parallel.implicit_start_rule
        final(pv).prods@.len() == old(pv).prods@.len() + 1,
{
    //@probe
    //@body file=cfgrammar/src/lib/yacc/grammar.rs fn=new_from_ast_with_validity_info block=`rules_prods\[usize::from\(rule_map\[astrulename\]\)\]\.push\(PIdx\(prods\.len\(\)\.as_\(\)\)\);` end=`^\s*continue;`
    //@rule n=* `\b(prods|prod_precs|prods_rules|actions|action_spans)\.` => `pv.\1.`
    //@rule n=1 `rules_prods\[usize::from\(rule_map\[astrulename\]\)\]\.push\(` => `vv_push(rules_prods, usize::from(rule_map.idx(astrulename)), `
    //@rule n=* `rule_map\[(\w+)\.as_ref\(\)\.unwrap\(\)\]` => `rule_map.idx(\1.as_ref().unwrap())`
    //@rule n=* `rule_map\[(\w+)\]` => `rule_map.idx(\1)`
    //@rule n=1 `^\s*continue;` => ``
    //@endbody
}

fn implicit_rule_branch(rules_prods: &mut Vec<Vec<PIdx<$T>>>, pv: &mut PV, ridx: RIdx<$T>, rule_map: &RuleMap, token_map: &TokMap, astrulename: &Name, implicit_tokens_map: &NameSet)
    requires parallel(old(pv)), rule_map.bound() <= old(rules_prods)@.len(), old(pv).prods@.len() + implicit_tokens_map.n() < $TMAX,
    ensures parallel(final(pv)), // OBL: C10.per_production_vectors_stay_parallel.implicit_rule
        final(pv).prods@.len() == old(pv).prods@.len() + implicit_tokens_map.n() + 1,
        // same numbering on every run: the k-th added production is the one of the k-th implicit token in source order
        forall|k: int| 0 <= k < implicit_tokens_map.n() ==> #[trigger] prod_is(final(pv).prods@, old(pv).prods@.len() + k, token_map.sidx(implicit_tokens_map.by_span()[k]), ridx), // OBL: C15.implicit_token_productions_numbered_in_source_order
{
    //@probe
    //@body file=cfgrammar/src/lib/yacc/grammar.rs fn=new_from_ast_with_validity_info block=`let implicit_prods = &mut rules_prods\[usize::from\(rule_map\[astrulename\]\)\];` end=`^\s*continue;`
    //@rule n=* `\b(prods|prod_precs|prods_rules|actions|action_spans)\.` => `pv.\1.`
    //@rule n=1 `let implicit_prods = &mut rules_prods\[usize::from\(rule_map\[astrulename\]\)\];` => `let implicit_i_ = usize::from(rule_map.idx(astrulename));`
    //@rule n=* `implicit_prods\.push\(` => `vv_push(rules_prods, implicit_i_, `
    //@rule n=1 `let mut implicit_tokens = ast\s*\.implicit_tokens\s*\.as_ref\(\)\s*\.unwrap\(\)\s*\.iter\(\)\s*\.collect::<Vec<_>>\(\);\s*implicit_tokens\.sort_by_key\(\|\(_, span\)\| span\.start\(\)\);` => `let implicit_tokens = implicit_tokens_map.sorted_by_span();`
    //@rule n=1 `^(\s*)for \(t, _\) in implicit_tokens \{$` =>>
                let ghost n0 = pv.prods@.len();
                for ti_ in 0..implicit_tokens.len()
                    invariant parallel(pv), rules_prods@.len() == old(rules_prods)@.len(), implicit_i_ < rules_prods@.len(),
                        implicit_tokens@.len() == implicit_tokens_map.n(), implicit_tokens_map.by_span().len() == implicit_tokens_map.n(),
                        forall|k: int| 0 <= k < implicit_tokens@.len() ==> (#[trigger] implicit_tokens@[k]).0.id() == implicit_tokens_map.by_span()[k],
                        pv.prods@.len() == n0 + ti_, n0 == old(pv).prods@.len(), n0 + implicit_tokens@.len() < $TMAX,
                        forall|k: int| 0 <= k < ti_ ==> #[trigger] prod_is(pv.prods@, n0 + k, token_map.sidx(implicit_tokens_map.by_span()[k]), ridx), // OBL: C15.implicit_token_productions_numbered_in_source_order.each
                {
                    //@probe
                    let t = implicit_tokens[ti_].0;
                    let ghost pre_ = pv.prods@;
    //@end
    //@after n=1 `^\s*pv\.prods\.push\((?=Some\(vec!\[Symbol::Token)` =>>
                    proof {
                        assert forall|k: int| 0 <= k < ti_ + 1 implies #[trigger] prod_is(pv.prods@, n0 + k, token_map.sidx(implicit_tokens_map.by_span()[k]), ridx) by {
                            if k < ti_ { assert(prod_is(pre_, n0 + k, token_map.sidx(implicit_tokens_map.by_span()[k]), ridx)); assert(pv.prods@[n0 + k] == pre_[n0 + k]); }
                        }
                    }
    //@end
    //@rule n=1 `^(\s*)pv\.prods\.push\(Some\(vec!\[\]\)\);$` =>>
                let ghost pre2_ = pv.prods@;
                pv.prods.push(Some(vec![]));
                proof {
                    assert forall|k: int| 0 <= k < implicit_tokens_map.n() implies #[trigger] prod_is(pv.prods@, n0 + k, token_map.sidx(implicit_tokens_map.by_span()[k]), ridx) by {
                        assert(prod_is(pre2_, n0 + k, token_map.sidx(implicit_tokens_map.by_span()[k]), ridx));
                        assert(pv.prods@[n0 + k] == pre2_[n0 + k]);
                    }
                }
    //@end
    //@rule n=* `token_map\[(\w+)\]` => `token_map.idx(\1)`
    //@rule n=1 `^\s*continue;` => ``
    //@endbody
}

// ---- %avoid_insert: one bit per token of the grammar (EOF included), set for the listed names ----
#[verifier::external_body] pub struct TokSet { _x: usize }       // IndexSet<String>
impl TokSet { pub uninterp spec fn n(&self) -> nat; #[verifier::external_body] pub fn len(&self) -> (r: usize) ensures r == self.n() { unimplemented!() } }
pub struct AstT { pub tokens: TokSet, pub avoid_insert: Option<NameSet> }
fn avoid_insert_block(ast: &AstT, token_names_len: usize, token_map: &TokMap) -> (r: Option<Vob>)
    requires token_map.bound() <= token_names_len, token_names_len == ast.tokens.n() + 1,
    ensures r matches Some(v) ==> v@.len() == token_names_len, // OBL: C10.avoid_insert_has_one_bit_per_token_including_eof
        (r is Some) == (ast.avoid_insert is Some),
{
    //@probe
    //@body file=cfgrammar/src/lib/yacc/grammar.rs fn=new_from_ast_with_validity_info block=`let avoid_insert = if let Some\(ai\) = &ast\.avoid_insert \{` end=`^\s*\};\s*$`
    //@rule n=* `\btoken_names\.len\(\)` => `token_names_len`
    //@rule n=1 `^(\s*)for n in ai\.keys\(\) \{$` =>>
            let aks_ = ai.keys_vec();
            for ni_ in 0..aks_.len()
                invariant aiv@.len() == token_names_len, // OBL: C10.avoid_insert_has_one_bit_per_token_including_eof.allocation
                    token_map.bound() <= token_names_len,
            {
                //@probe
                let n = &aks_[ni_];
    //@end
    //@rule n=* `token_map\[(\w+)\]` => `token_map.idx(\1)`
    //@endbody
    avoid_insert
}
pub struct G2 { pub avoid_insert: Option<Vob>, pub ntok: usize }
impl G2 {
    //@ctx avoid_insert(): called with a token index of this grammar (tidx < tokens_len == token_names.len())
    pub fn avoid_insert(&self, tidx: TIdx<$T>) -> (r: bool)
        requires (tidx.0 as nat) < self.ntok, self.avoid_insert matches Some(v) ==> v@.len() == self.ntok,
    {
        //@probe
        //@body file=cfgrammar/src/lib/yacc/grammar.rs fn=avoid_insert
        //@endbody
    }
}
//@use prelude/tail.rs
