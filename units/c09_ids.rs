//@unit c09_ids props=C09 widths=u32
//@use prelude/head.rs

// ---- stand-ins ----
#[derive(Clone, Copy)] pub struct Span { pub st: usize, pub en: usize }
#[verifier::external_body] #[derive(Clone, Copy)] pub struct NameRef { _x: usize }       // &str
impl NameRef { pub uninterp spec fn id(&self) -> int; }
pub struct Rule { pub tok_id: Option<$T>, pub nm: Option<NameRef>, pub nspan: Span }
impl Rule {
    pub fn name(&self) -> (r: Option<NameRef>) ensures r == self.nm { self.nm }
    pub fn name_span(&self) -> (r: Span) ensures r == self.nspan { self.nspan }
}
// `self.rules[i].tok_id = v` through the iter_mut() borrow
#[verifier::external_body]
pub fn set_tok_id(rules: &mut Vec<Rule>, i: usize, v: Option<$T>)
    requires i < old(rules)@.len(),
    ensures final(rules)@.len() == old(rules)@.len(), final(rules)@[i as int].tok_id == v, final(rules)@[i as int].nm == old(rules)@[i as int].nm, final(rules)@[i as int].nspan == old(rules)@[i as int].nspan,
        forall|j: int| 0 <= j < old(rules)@.len() && j != i ==> final(rules)@[j] == old(rules)@[j],
{ unimplemented!() }
// HashMap<&str, StorageT>
#[verifier::external_body] pub struct IdMap { _x: usize }
impl IdMap {
    pub uninterp spec fn m(&self) -> Map<int, $T>;
    #[verifier::external_body] pub fn get(&self, n: NameRef) -> (r: Option<&$T>) ensures self.m().contains_key(n.id()) ==> r == Some(&self.m()[n.id()]), !self.m().contains_key(n.id()) ==> r is None { unimplemented!() }
    #[verifier::external_body] pub fn len(&self) -> (r: usize) ensures r == self.m().len(), self.m().dom().finite() { unimplemented!() }
    // `.keys().cloned().collect::<HashSet<&str>>()`
    #[verifier::external_body] pub fn key_set(&self) -> (r: NameSet) ensures r.s() == self.m().dom() { unimplemented!() }
}
// HashSet<&str> / HashSet<(&str, Span)>
#[verifier::external_body] pub struct NameSet { _x: usize }
impl NameSet {
    pub uninterp spec fn s(&self) -> Set<int>;
    // `a.difference(&b).cloned().collect::<HashSet<&str>>()`
    #[verifier::external_body] pub fn difference(&self, other: &NameSet) -> (r: NameSet) ensures r.s() == self.s().difference(other.s()) { unimplemented!() }
}
#[verifier::external_body] pub struct NameSpanSet { _x: usize }
impl NameSpanSet {
    pub uninterp spec fn s(&self) -> Set<(int, Span)>;
    #[verifier::external_body] pub fn with_capacity(n: usize) -> (r: NameSpanSet) ensures r.s() == Set::<(int, Span)>::empty() { unimplemented!() }
    #[verifier::external_body] pub fn insert(&mut self, x: (NameRef, Span)) -> (r: bool) ensures final(self).s() == old(self).s().insert((x.0.id(), x.1)) { unimplemented!() }
}
// `self.rules.iter().filter_map(|x| x.name()).collect::<HashSet<&str>>()`
#[verifier::external_body] pub fn rule_names(rules: &Vec<Rule>) -> (r: NameSet) ensures r.s() == names_of(rules@) { unimplemented!() }

// ---------------- specification ----------------
pub open spec fn names_upto(rs: Seq<Rule>, i: int) -> Set<int>
    decreases i
{ if i <= 0 { Set::empty() } else if rs[i - 1].nm is Some { names_upto(rs, i - 1).insert(rs[i - 1].nm.unwrap().id()) } else { names_upto(rs, i - 1) } }
pub open spec fn names_of(rs: Seq<Rule>) -> Set<int> { names_upto(rs, rs.len() as int) }
pub proof fn lemma_names(rs: Seq<Rule>, i: int)
    requires 0 <= i <= rs.len()
    ensures forall|n: int| names_upto(rs, i).contains(n) <==> exists|k: int| 0 <= k < i && (#[trigger] rs[k]).nm is Some && rs[k].nm.unwrap().id() == n
    decreases i
{
    if i > 0 {
        lemma_names(rs, i - 1);
        assert forall|n: int| names_upto(rs, i).contains(n) <==> exists|k: int| 0 <= k < i && (#[trigger] rs[k]).nm is Some && rs[k].nm.unwrap().id() == n by {
            if names_upto(rs, i).contains(n) {
                if names_upto(rs, i - 1).contains(n) { let k = choose|k: int| 0 <= k < i - 1 && (#[trigger] rs[k]).nm is Some && rs[k].nm.unwrap().id() == n; assert(0 <= k < i); } else { assert(rs[i - 1].nm is Some && rs[i - 1].nm.unwrap().id() == n); }
            }
            if exists|k: int| 0 <= k < i && (#[trigger] rs[k]).nm is Some && rs[k].nm.unwrap().id() == n {
                let k = choose|k: int| 0 <= k < i && (#[trigger] rs[k]).nm is Some && rs[k].nm.unwrap().id() == n;
                if k < i - 1 { assert(names_upto(rs, i - 1).contains(n)); }
            }
        }
    }
}
// a rule name occurs once (the .l parser rejects duplicate names)
pub open spec fn distinct_names(rs: Seq<Rule>) -> bool { forall|a: int, b: int| 0 <= a < b < rs.len() && rs[a].nm is Some && rs[b].nm is Some ==> rs[a].nm.unwrap().id() != rs[b].nm.unwrap().id() }
pub open spec fn missing_upto(rs: Seq<Rule>, m: Map<int, $T>, i: int) -> Set<(int, Span)>
    decreases i
{ if i <= 0 { Set::empty() } else if rs[i - 1].nm is Some && !m.contains_key(rs[i - 1].nm.unwrap().id()) { missing_upto(rs, m, i - 1).insert((rs[i - 1].nm.unwrap().id(), rs[i - 1].nspan)) } else { missing_upto(rs, m, i - 1) } }
pub open spec fn missing_in_parser(rs: Seq<Rule>, m: Map<int, $T>) -> Set<(int, Span)> { missing_upto(rs, m, rs.len() as int) }
pub proof fn lemma_missing(rs: Seq<Rule>, m: Map<int, $T>, i: int)
    requires 0 <= i <= rs.len()
    ensures forall|x: (int, Span)| missing_upto(rs, m, i).contains(x) <==> exists|k: int| 0 <= k < i && (#[trigger] rs[k]).nm is Some && rs[k].nm.unwrap().id() == x.0 && rs[k].nspan == x.1 && !m.contains_key(x.0)
    decreases i
{
    if i > 0 {
        lemma_missing(rs, m, i - 1);
        assert forall|x: (int, Span)| missing_upto(rs, m, i).contains(x) <==> exists|k: int| 0 <= k < i && (#[trigger] rs[k]).nm is Some && rs[k].nm.unwrap().id() == x.0 && rs[k].nspan == x.1 && !m.contains_key(x.0) by {
            if missing_upto(rs, m, i).contains(x) {
                if missing_upto(rs, m, i - 1).contains(x) { let k = choose|k: int| 0 <= k < i - 1 && (#[trigger] rs[k]).nm is Some && rs[k].nm.unwrap().id() == x.0 && rs[k].nspan == x.1 && !m.contains_key(x.0); assert(0 <= k < i); }
                else { assert(rs[i - 1].nm is Some && rs[i - 1].nm.unwrap().id() == x.0 && rs[i - 1].nspan == x.1); }
            }
            if exists|k: int| 0 <= k < i && (#[trigger] rs[k]).nm is Some && rs[k].nm.unwrap().id() == x.0 && rs[k].nspan == x.1 && !m.contains_key(x.0) {
                let k = choose|k: int| 0 <= k < i && (#[trigger] rs[k]).nm is Some && rs[k].nm.unwrap().id() == x.0 && rs[k].nspan == x.1 && !m.contains_key(x.0);
                if k < i - 1 { assert(missing_upto(rs, m, i - 1).contains(x)); }
            }
        }
    }
}
// number of named rules among the first i
pub open spec fn named_upto(rs: Seq<Rule>, i: int) -> nat
    decreases i
{ if i <= 0 { 0 } else { named_upto(rs, i - 1) + (if rs[i - 1].nm is Some { 1nat } else { 0nat }) } }
pub proof fn lemma_named_step(rs: Seq<Rule>, i: int) requires 0 <= i < rs.len() ensures named_upto(rs, i + 1) == named_upto(rs, i) + (if rs[i].nm is Some { 1nat } else { 0nat }) { }
// the names (ids) of the first i rules that the parser knows
pub open spec fn known_upto(rs: Seq<Rule>, m: Map<int, $T>, i: int) -> Set<int>
    decreases i
{ if i <= 0 { Set::empty() } else if rs[i - 1].nm is Some && m.contains_key(rs[i - 1].nm.unwrap().id()) { known_upto(rs, m, i - 1).insert(rs[i - 1].nm.unwrap().id()) } else { known_upto(rs, m, i - 1) } }
pub proof fn lemma_known(rs: Seq<Rule>, m: Map<int, $T>, i: int)
    requires 0 <= i <= rs.len(), distinct_names(rs)
    ensures known_upto(rs, m, i).finite(), known_upto(rs, m, i).subset_of(m.dom()), known_upto(rs, m, i).subset_of(names_of(rs)),
        forall|n: int| known_upto(rs, m, i).contains(n) <==> exists|k: int| 0 <= k < i && (#[trigger] rs[k]).nm is Some && rs[k].nm.unwrap().id() == n && m.contains_key(n),
    decreases i
{
    if i > 0 {
        lemma_known(rs, m, i - 1);
        let prev = known_upto(rs, m, i - 1);
        assert forall|n: int| known_upto(rs, m, i).contains(n) <==> exists|k: int| 0 <= k < i && (#[trigger] rs[k]).nm is Some && rs[k].nm.unwrap().id() == n && m.contains_key(n) by {
            if known_upto(rs, m, i).contains(n) {
                if prev.contains(n) { let k = choose|k: int| 0 <= k < i - 1 && (#[trigger] rs[k]).nm is Some && rs[k].nm.unwrap().id() == n && m.contains_key(n); assert(0 <= k < i); } else { assert(rs[i - 1].nm is Some); }
            }
            if exists|k: int| 0 <= k < i && (#[trigger] rs[k]).nm is Some && rs[k].nm.unwrap().id() == n && m.contains_key(n) {
                let k = choose|k: int| 0 <= k < i && (#[trigger] rs[k]).nm is Some && rs[k].nm.unwrap().id() == n && m.contains_key(n);
                if k < i - 1 { assert(prev.contains(n)); }
            }
        }
        lemma_names(rs, rs.len() as int);
        assert forall|n: int| known_upto(rs, m, i).contains(n) implies names_of(rs).contains(n) by {
            let k = choose|k: int| 0 <= k < i && (#[trigger] rs[k]).nm is Some && rs[k].nm.unwrap().id() == n && m.contains_key(n);
            assert(rs[k].nm is Some && rs[k].nm.unwrap().id() == n);
        }
    }
}
// how many of the first i rules carry a name the parser knows: the size of that set, when names are distinct
pub open spec fn known_cnt(rs: Seq<Rule>, m: Map<int, $T>, i: int) -> nat
    decreases i
{ if i <= 0 { 0 } else { known_cnt(rs, m, i - 1) + (if rs[i - 1].nm is Some && m.contains_key(rs[i - 1].nm.unwrap().id()) { 1nat } else { 0nat }) } }
pub proof fn lemma_known_len(rs: Seq<Rule>, m: Map<int, $T>, i: int)
    requires 0 <= i <= rs.len(), distinct_names(rs)
    ensures known_upto(rs, m, i).finite(), known_upto(rs, m, i).len() == known_cnt(rs, m, i)
    decreases i
{
    if i > 0 {
        lemma_known_len(rs, m, i - 1);
        lemma_known(rs, m, i - 1);
        if rs[i - 1].nm is Some && m.contains_key(rs[i - 1].nm.unwrap().id()) {
            let n = rs[i - 1].nm.unwrap().id();
            // a name occurs once: it is not among the earlier ones
            assert(!known_upto(rs, m, i - 1).contains(n)) by {
                if known_upto(rs, m, i - 1).contains(n) {
                    let k = choose|k: int| 0 <= k < i - 1 && (#[trigger] rs[k]).nm is Some && rs[k].nm.unwrap().id() == n && m.contains_key(n);
                    assert(rs[k].nm.unwrap().id() != rs[i - 1].nm.unwrap().id());
                }
            }
        }
    }
}
pub proof fn lemma_known_cnt_step(rs: Seq<Rule>, m: Map<int, $T>, i: int) requires 0 <= i < rs.len()
    ensures known_cnt(rs, m, i + 1) == known_cnt(rs, m, i) + (if rs[i].nm is Some && m.contains_key(rs[i].nm.unwrap().id()) { 1nat } else { 0nat }) { }
// every token has a rule when as many distinct rule names are known to the parser as the parser has tokens
pub proof fn lemma_all_known(rs: Seq<Rule>, m: Map<int, $T>)
    requires distinct_names(rs), m.dom().finite(), known_cnt(rs, m, rs.len() as int) == m.dom().len()
    ensures m.dom().subset_of(names_of(rs))
{
    lemma_known(rs, m, rs.len() as int);
    lemma_known_len(rs, m, rs.len() as int);
    vstd::set_lib::lemma_subset_equality(known_upto(rs, m, rs.len() as int), m.dom());
}
pub proof fn lemma_names_same(a: Seq<Rule>, b: Seq<Rule>)
    requires a.len() == b.len(), forall|k: int| 0 <= k < a.len() ==> (#[trigger] a[k]).nm == b[k].nm
    ensures names_of(a) =~= names_of(b)
{
    lemma_names(a, a.len() as int); lemma_names(b, b.len() as int);
    assert forall|n: int| names_of(a).contains(n) <==> names_of(b).contains(n) by {
        if names_of(a).contains(n) { let k = choose|k: int| 0 <= k < a.len() && (#[trigger] a[k]).nm is Some && a[k].nm.unwrap().id() == n; assert(b[k].nm is Some && b[k].nm.unwrap().id() == n); }
        if names_of(b).contains(n) { let k = choose|k: int| 0 <= k < b.len() && (#[trigger] b[k]).nm is Some && b[k].nm.unwrap().id() == n; assert(a[k].nm is Some && a[k].nm.unwrap().id() == n); }
    }
}
pub struct LRNonStreamingLexerDef { pub rules: Vec<Rule> }

impl LRNonStreamingLexerDef {
    //@ctx set_rule_ids_spanned: rule names are distinct (duplicate names are an error of the .l parser); the id map is finite
    fn set_rule_ids_spanned(&mut self, rule_ids_map: &IdMap) -> (r: (Option<NameSet>, Option<NameSpanSet>))
        requires distinct_names(old(self).rules@),
        ensures
            final(self).rules@.len() == old(self).rules@.len(),
            forall|k: int| 0 <= k < old(self).rules@.len() ==> (#[trigger] final(self).rules@[k]).nm == old(self).rules@[k].nm && final(self).rules@[k].nspan == old(self).rules@[k].nspan
                && (old(self).rules@[k].nm matches Some(n) ==> final(self).rules@[k].tok_id == (if rule_ids_map.m().contains_key(n.id()) { Some(rule_ids_map.m()[n.id()]) } else { None::<$T> }))
                && (old(self).rules@[k].nm is None ==> final(self).rules@[k].tok_id == old(self).rules@[k].tok_id), // OBL: C09.named_rules_get_the_parsers_token_id_unnamed_rules_are_left_alone
            (r.1 is None) == (forall|k: int| 0 <= k < old(self).rules@.len() && (#[trigger] old(self).rules@[k]).nm is Some ==> rule_ids_map.m().contains_key(old(self).rules@[k].nm.unwrap().id())), // OBL: C09.names_missing_from_the_parser_are_reported_iff_there_are_any
            r.1 matches Some(ms) ==> ms.s() =~= missing_in_parser(old(self).rules@, rule_ids_map.m()), // OBL: C09.names_missing_from_the_parser_are_exactly_the_named_rules_without_an_id
            r.0 matches Some(ml) ==> ml.s() =~= rule_ids_map.m().dom().difference(names_of(old(self).rules@)), // OBL: C09.names_missing_from_the_lexer_are_exactly_the_parsers_tokens_without_a_rule
            (r.0 is None) ==> rule_ids_map.m().dom().subset_of(names_of(old(self).rules@)), // OBL: C09.nothing_missing_from_the_lexer_is_only_reported_when_every_token_has_a_rule
    {
        //@probe
        //@body file=lrlex/src/lib/lexer.rs fn=set_rule_ids_spanned nth=2
        //@atend n=1 `^\s*for \(i, r\) in self\.rules\.iter_mut\(\)\.enumerate\(\) \{` =>>
            proof { lemma_named_step(rs0, i0_); lemma_known_cnt_step(rs0, rule_ids_map.m(), i0_); }
            i = i + 1;
        //@end
        //@atend n=1 `^\s*for i in &missing_from_parser_idxs \{` =>>
                proof {
                    assert forall|x: (int, Span)| mfp.s().contains(x) <==> exists|q: int| 0 <= q < qi_ && rs0[(#[trigger] missing_from_parser_idxs@[q]) as int].nm.unwrap().id() == x.0 && rs0[missing_from_parser_idxs@[q] as int].nspan == x.1 by {
                        if mfp.s().contains(x) && !mfp0_.contains(x) { assert(rs0[missing_from_parser_idxs@[q0_] as int].nm.unwrap().id() == x.0); }
                        if exists|q: int| 0 <= q < qi_ && rs0[(#[trigger] missing_from_parser_idxs@[q]) as int].nm.unwrap().id() == x.0 && rs0[missing_from_parser_idxs@[q] as int].nspan == x.1 {
                            let q = choose|q: int| 0 <= q < qi_ && rs0[(#[trigger] missing_from_parser_idxs@[q]) as int].nm.unwrap().id() == x.0 && rs0[missing_from_parser_idxs@[q] as int].nspan == x.1;
                            if q < q0_ { assert(mfp0_.contains(x)); }
                        }
                    }
                }
        //@end
        //@after n=1 `^\s*for i in &missing_from_parser_idxs \{` =>>
            proof {
                lemma_missing(rs0, rule_ids_map.m(), rs0.len() as int);
                assert(mfp.s() =~= missing_in_parser(rs0, rule_ids_map.m())) by {
                    assert forall|x: (int, Span)| mfp.s().contains(x) <==> missing_in_parser(rs0, rule_ids_map.m()).contains(x) by {
                        if mfp.s().contains(x) {
                            let q = choose|q: int| 0 <= q < qi_ && rs0[(#[trigger] missing_from_parser_idxs@[q]) as int].nm.unwrap().id() == x.0 && rs0[missing_from_parser_idxs@[q] as int].nspan == x.1;
                            let k = missing_from_parser_idxs@[q] as int;
                            assert(rs0[k].nm is Some && rs0[k].nm.unwrap().id() == x.0 && rs0[k].nspan == x.1 && !rule_ids_map.m().contains_key(x.0));
                        }
                        if missing_in_parser(rs0, rule_ids_map.m()).contains(x) {
                            let k = choose|k: int| 0 <= k < rs0.len() && (#[trigger] rs0[k]).nm is Some && rs0[k].nm.unwrap().id() == x.0 && rs0[k].nspan == x.1 && !rule_ids_map.m().contains_key(x.0);
                            let q = choose|q: int| 0 <= q < missing_from_parser_idxs@.len() && missing_from_parser_idxs@[q] == k;
                            assert(rs0[missing_from_parser_idxs@[q] as int].nm.unwrap().id() == x.0);
                        }
                    }
                }
            }
        //@end
        //@rule n=1 `let mut missing_from_parser_idxs = Vec::new\(\);` => `let mut missing_from_parser_idxs: Vec<usize> = Vec::new();`
        //@rule n=1 `let mut rules_with_names = 0;` => `let mut rules_with_names: usize = 0;`
        // dialect: `for (i, r) in self.rules.iter_mut().enumerate()` as an index loop; writes to r go through set_tok_id
        //@rule n=1 `^(\s*)for \(i, r\) in self\.rules\.iter_mut\(\)\.enumerate\(\) \{$` =>>
        let ghost rs0 = self.rules@;
        let mut i: usize = 0;
        while i < self.rules.len()
            invariant i <= rs0.len(), self.rules@.len() == rs0.len(), rs0 == old(self).rules@, distinct_names(rs0),
                forall|k: int| 0 <= k < rs0.len() ==> (#[trigger] self.rules@[k]).nm == rs0[k].nm && self.rules@[k].nspan == rs0[k].nspan,
                forall|k: int| i <= k < rs0.len() ==> self.rules@[k] == rs0[k],
                forall|k: int| 0 <= k < i ==> ((#[trigger] rs0[k]).nm matches Some(n) ==> self.rules@[k].tok_id == (if rule_ids_map.m().contains_key(n.id()) { Some(rule_ids_map.m()[n.id()]) } else { None::<$T> }))
                    && (rs0[k].nm is None ==> self.rules@[k].tok_id == rs0[k].tok_id),
                rules_with_names == named_upto(rs0, i as int), rules_with_names <= i,
                missing_from_parser_idxs@.len() <= rules_with_names, rules_with_names - missing_from_parser_idxs@.len() == known_cnt(rs0, rule_ids_map.m(), i as int),
                forall|q: int| 0 <= q < missing_from_parser_idxs@.len() ==> (#[trigger] missing_from_parser_idxs@[q]) < i && rs0[missing_from_parser_idxs@[q] as int].nm is Some && !rule_ids_map.m().contains_key(rs0[missing_from_parser_idxs@[q] as int].nm.unwrap().id()),
                forall|k: int| 0 <= k < i && (#[trigger] rs0[k]).nm is Some && !rule_ids_map.m().contains_key(rs0[k].nm.unwrap().id()) ==> exists|q: int| 0 <= q < missing_from_parser_idxs@.len() && missing_from_parser_idxs@[q] == k,
                forall|a: int, b: int| 0 <= a < b < missing_from_parser_idxs@.len() ==> missing_from_parser_idxs@[a] < missing_from_parser_idxs@[b],
            decreases rs0.len() - i,
        {
            //@probe
            let r = &self.rules[i];
            let ghost i0_ = i as int;
            let ghost mfp0_ = missing_from_parser_idxs@;
        //@end
        //@rule n=1 `Some\(tok_id\) => r\.tok_id = Some\(\*tok_id\),` => `Some(tok_id) => { let v_ = Some(*tok_id); set_tok_id(&mut self.rules, i, v_); }`
        //@rule n=1 `^(\s*)r\.tok_id = None;` => `\1set_tok_id(&mut self.rules, i, None);`
        //@rule n=1 `^(\s*)missing_from_parser_idxs\.push\(i\);` =>>
                        missing_from_parser_idxs.push(i);
                        proof {
                            assert forall|k: int| 0 <= k < i + 1 && (#[trigger] rs0[k]).nm is Some && !rule_ids_map.m().contains_key(rs0[k].nm.unwrap().id()) implies exists|q: int| 0 <= q < missing_from_parser_idxs@.len() && missing_from_parser_idxs@[q] == k by {
                                if k == i { assert(missing_from_parser_idxs@[mfp0_.len() as int] == k); }
                                else { let q = choose|q: int| 0 <= q < mfp0_.len() && mfp0_[q] == k; assert(missing_from_parser_idxs@[q] == k); }
                            }
                        }
        //@end
        //@rule n=1 `^(\s*)let missing_from_parser = if missing_from_parser_idxs\.is_empty\(\) \{$` =>>
        proof {
            if missing_from_parser_idxs@.len() > 0 { let k0 = missing_from_parser_idxs@[0] as int; assert(rs0[k0].nm is Some && !rule_ids_map.m().contains_key(rs0[k0].nm.unwrap().id())); }
            else { assert forall|k: int| 0 <= k < rs0.len() && (#[trigger] rs0[k]).nm is Some implies rule_ids_map.m().contains_key(rs0[k].nm.unwrap().id()) by { if !rule_ids_map.m().contains_key(rs0[k].nm.unwrap().id()) { let q = choose|q: int| 0 <= q < missing_from_parser_idxs@.len() && missing_from_parser_idxs@[q] == k; } } }
        }
        let missing_from_parser = if missing_from_parser_idxs.is_empty() {
        //@end
        //@rule n=1 `let mut mfp = HashSet::with_capacity\(missing_from_parser_idxs\.len\(\)\);` => `let mut mfp = NameSpanSet::with_capacity(missing_from_parser_idxs.len());`
        //@rule n=1 `^(\s*)for i in &missing_from_parser_idxs \{$` =>>
            let mut qi_: usize = 0;
            while qi_ < missing_from_parser_idxs.len()
                invariant qi_ <= missing_from_parser_idxs@.len(), self.rules@.len() == rs0.len(),
                    forall|k: int| 0 <= k < rs0.len() ==> (#[trigger] self.rules@[k]).nm == rs0[k].nm && self.rules@[k].nspan == rs0[k].nspan,
                    forall|q: int| 0 <= q < missing_from_parser_idxs@.len() ==> (#[trigger] missing_from_parser_idxs@[q]) < rs0.len() && rs0[missing_from_parser_idxs@[q] as int].nm is Some,
                    forall|x: (int, Span)| mfp.s().contains(x) <==> exists|q: int| 0 <= q < qi_ && rs0[(#[trigger] missing_from_parser_idxs@[q]) as int].nm.unwrap().id() == x.0 && rs0[missing_from_parser_idxs@[q] as int].nspan == x.1,
                decreases missing_from_parser_idxs@.len() - qi_,
            {
                //@probe
                let i = &missing_from_parser_idxs[qi_];
                let ghost mfp0_ = mfp.s();
                let ghost q0_ = qi_ as int;
                qi_ = qi_ + 1;
        //@end
        //@rule n=1 `rule_ids_map\s*\.keys\(\)\s*\.cloned\(\)\s*\.collect::<HashSet<&str>>\(\)` => `rule_ids_map.key_set()`
        //@rule n=1 `&self\s*\.rules\s*\.iter\(\)\s*\.filter_map\(\|x\| x\.name\(\)\)\s*\.collect::<HashSet<&str>>\(\),` => `&rule_names(&self.rules),`
        //@rule n=1 `\)\s*\.cloned\(\)\s*\.collect::<HashSet<&str>>\(\),` => `),`
        //@rule n=1 `^(\s*)let missing_from_lexer =$` =>>
        proof {
            lemma_names_same(self.rules@, rs0);
            assert(rules_with_names - missing_from_parser_idxs@.len() == known_cnt(rs0, rule_ids_map.m(), rs0.len() as int));
        }
        let map_len_ = rule_ids_map.len();
        proof { if rules_with_names - missing_from_parser_idxs@.len() == map_len_ { lemma_all_known(rs0, rule_ids_map.m()); } }
        let missing_from_lexer =
        //@end
        //@endbody
    }
}
//@use prelude/tail.rs
