//@unit c17_sentence props=C17 widths=u32
//@use prelude/head.rs
//@use prelude/grammar.rs

// cfgrammar/src/lib/yacc/grammar.rs, SentenceGenerator::min_sentence / min_sentences: the two closures that choose the
// production(s) a minimal sentence is generated from.  Decides for C17: the production chosen is one of the rule's, no
// production of the rule costs less (a production that mentions a rule deriving no sentence -- cost u16::MAX -- counts as
// u16::MAX, whatever comes after it), min_sentences takes exactly the productions of least cost, and no sum overflows.
pub struct SentenceGenerator<'a> { pub grm: &'a YaccGrammar, pub token_costs: Vec<u8> }
impl<'a> SentenceGenerator<'a> {
    // min_sentence_cost(r): the per-rule table of rule_min_costs (unit c17_costs)
    pub uninterp spec fn smin(&self, r: RIdx<$T>) -> u16;
    #[verifier::external_body] pub fn min_sentence_cost(&self, r: RIdx<$T>) -> (c: u16) ensures c == self.smin(r) { unimplemented!() }
    pub open spec fn wf(&self) -> bool { self.grm.wf() && self.token_costs@.len() == self.grm.ntok() }
}
pub fn u16_from(x: u8) -> (r: u16) ensures r == x as u16 { x as u16 }
pub open spec fn sat(x: int) -> int { if x > 0xffff { 0xffff } else { x } }
pub open spec fn sym_cost(sg: &SentenceGenerator, s: Symbol<$T>) -> int {
    match s { Symbol::Rule(r) => sg.smin(r) as int, Symbol::Token(t) => sg.token_costs@[t.0 as int] as int }
}
// the cost of the first k symbols of a production, sticking at u16::MAX
pub open spec fn pcost(sg: &SentenceGenerator, syms: Seq<Symbol<$T>>, k: int) -> int decreases k {
    if k <= 0 { 0 } else { sat(pcost(sg, syms, k - 1) + sym_cost(sg, syms[k - 1])) }
}
pub open spec fn cost_of(sg: &SentenceGenerator, p: PIdx<$T>) -> int { pcost(sg, sg.grm.prods()[p.0 as int], sg.grm.prods()[p.0 as int].len() as int) }
// derive(PartialOrd) on Option: None is less than every Some, two Somes compare by their payload
#[verifier::external_body]
pub fn opt_lt(a: Option<u16>, b: Option<u16>) -> (r: bool)
    ensures r == match (a, b) { (None, Some(_)) => true, (Some(x), Some(y)) => x < y, _ => false }
{ unimplemented!() }
#[verifier::external_body]
pub fn opt_le(a: Option<u16>, b: Option<u16>) -> (r: bool)
    ensures r == match (a, b) { (None, _) => true, (Some(x), Some(y)) => x <= y, _ => false }
{ unimplemented!() }

pub open spec fn least(sg: &SentenceGenerator, ps: Seq<PIdx<$T>>, c: int) -> bool { forall|k: int| 0 <= k < ps.len() ==> c <= cost_of(sg, #[trigger] ps[k]) }

impl<'a> SentenceGenerator<'a> {
    // the sum of one production (the inner loop of both closures)
    fn prod_sum(&self, pidx: PIdx<$T>) -> (sc: u16)
        requires self.wf(), (pidx.0 as nat) < self.grm.nprods(),
        ensures sc == cost_of(self, pidx), // OBL: C17.sentence.a_production_costs_the_saturating_sum_of_its_symbols
    {
        //@probe
        //@body file=cfgrammar/src/lib/yacc/grammar.rs fn=min_sentence block=`let mut sc(: u16)? = 0;` end=`^\s*\}$`
        //@rule n=* `let mut sc = 0;` => `let mut sc: u16 = 0;`
        //@rule n=1 `^(\s*)for sym in self\.grm\.prod\(pidx\)\.iter\(\) \{$` =>>
        let syms_ = self.grm.prod(pidx);
        for si_ in 0..syms_.len()
            invariant self.wf(), syms_@ == self.grm.prods()[pidx.0 as int], (pidx.0 as nat) < self.grm.nprods(),
                sc == pcost(self, syms_@, si_ as int), // OBL: C17.sentence.a_production_costs_the_saturating_sum_of_its_symbols.so_far
        {
            //@probe
            let sym = &syms_[si_];
            proof { assert(self.grm.prods()[pidx.0 as int][si_ as int] == *sym); }
        //@end
        //@rule n=1 `u16::from\(` => `u16_from(`
        //@endbody
        sc
    }

    //@ctx cheapest_prod: the rule exists and has at least one production (every rule of a grammar has)
    fn cheapest_prod(&self, p_ridx: RIdx<$T>) -> (r: PIdx<$T>)
        requires self.wf(), (p_ridx.0 as nat) < self.grm.nrules(), self.grm.rule_prods()[p_ridx.0 as int].len() > 0,
        ensures
            self.grm.rule_prods()[p_ridx.0 as int].contains(r), // OBL: C17.sentence.the_production_chosen_is_one_of_the_rules
            forall|k: int| 0 <= k < self.grm.rule_prods()[p_ridx.0 as int].len() ==> cost_of(self, r) <= cost_of(self, #[trigger] self.grm.rule_prods()[p_ridx.0 as int][k]), // OBL: C17.sentence.no_production_of_the_rule_is_cheaper_than_the_one_chosen
    {
        //@probe
        //@body file=cfgrammar/src/lib/yacc/grammar.rs fn=min_sentence block=`let mut low_sc = None;` end=`^\s*low_idx\.unwrap\(\)$`
        //@rule n=1 `let mut low_sc = None;` => `let mut low_sc: Option<u16> = None;`
        //@rule n=1 `let mut low_idx = None;` => `let mut low_idx: Option<PIdx<$T>> = None;`
        //@cut n=1 `for sym in self\.grm\.prod\(pidx\)\.iter\(\) \{` =>>
                // (the inner loop is the function prod_sum above)
        //@end
        //@rule n=1 `let mut sc(: u16)? = 0;` => `let sc = self.prod_sum(pidx);`
        //@rule n=1 `^(\s*)for &pidx in self\.grm\.rule_to_prods\(p_ridx\)\.iter\(\) \{$` =>>
        let ps_ = self.grm.rule_to_prods(p_ridx);
        for pi_ in 0..ps_.len()
            invariant self.wf(), ps_@ == self.grm.rule_prods()[p_ridx.0 as int], (p_ridx.0 as nat) < self.grm.nrules(),
                low_sc is Some == (pi_ > 0), low_idx is Some == (pi_ > 0),
                pi_ > 0 ==> ps_@.contains(low_idx->Some_0) && low_sc->Some_0 == cost_of(self, low_idx->Some_0),
                forall|k: int| 0 <= k < pi_ ==> low_sc->Some_0 <= cost_of(self, #[trigger] ps_@[k]), // OBL: C17.sentence.no_production_seen_so_far_is_cheaper
        {
            //@probe
            let pidx = ps_[pi_];
            proof { assert(self.grm.rule_prods()[p_ridx.0 as int][pi_ as int] == pidx); }
        //@end
        //@rule n=1 `if low_sc\.is_none\(\) \|\| Some\(sc\) < low_sc \{` => `if low_sc.is_none() || opt_lt(Some(sc), low_sc) {`
        //@endbody
    }

    // min_sentences: every production of least cost, in the rule's order
    fn cheapest_prods(&self, p_ridx: RIdx<$T>) -> (r: Vec<PIdx<$T>>)
        requires self.wf(), (p_ridx.0 as nat) < self.grm.nrules(),
        ensures
            forall|j: int| 0 <= j < r@.len() ==> self.grm.rule_prods()[p_ridx.0 as int].contains(#[trigger] r@[j]) && least(self, self.grm.rule_prods()[p_ridx.0 as int], cost_of(self, r@[j])), // OBL: C17.sentence.every_production_taken_is_one_of_the_rules_cheapest
            forall|k: int| 0 <= k < self.grm.rule_prods()[p_ridx.0 as int].len() && least(self, self.grm.rule_prods()[p_ridx.0 as int], cost_of(self, #[trigger] self.grm.rule_prods()[p_ridx.0 as int][k]))
                ==> r@.contains(self.grm.rule_prods()[p_ridx.0 as int][k]), // OBL: C17.sentence.every_cheapest_production_of_the_rule_is_taken
    {
        //@probe
        //@body file=cfgrammar/src/lib/yacc/grammar.rs fn=min_sentences block=`let mut low_sc = None;` end=`^\s*low_idxs$`
        //@rule n=1 `let mut low_sc = None;` => `let mut low_sc: Option<u16> = None;`
        //@rule n=1 `let mut low_idxs = vec!\[\];` => `let mut low_idxs: Vec<PIdx<$T>> = Vec::new();`
        //@cut n=1 `for sym in self\.grm\.prod\(pidx\)\.iter\(\) \{` =>>
                // (the inner loop is the function prod_sum above: the same text as in min_sentence, up to the names of the match variables)
        //@end
        //@rule n=1 `let mut sc(: u16)? = 0;` => `let sc = self.prod_sum(pidx);`
        //@rule n=1 `^(\s*)for &pidx in self\.grm\.rule_to_prods\(p_ridx\)\.iter\(\) \{$` =>>
        let ps_ = self.grm.rule_to_prods(p_ridx);
        for pi_ in 0..ps_.len()
            invariant self.wf(), ps_@ == self.grm.rule_prods()[p_ridx.0 as int], (p_ridx.0 as nat) < self.grm.nrules(),
                low_sc is Some == (pi_ > 0), pi_ == 0 ==> low_idxs@.len() == 0, pi_ > 0 ==> low_idxs@.len() > 0,
                forall|j: int| 0 <= j < low_idxs@.len() ==> ps_@.contains(#[trigger] low_idxs@[j]) && cost_of(self, low_idxs@[j]) == low_sc->Some_0,
                forall|k: int| 0 <= k < pi_ ==> low_sc->Some_0 <= cost_of(self, #[trigger] ps_@[k]), // OBL: C17.sentence.no_production_seen_so_far_is_cheaper
                forall|k: int| 0 <= k < pi_ && cost_of(self, #[trigger] ps_@[k]) == low_sc->Some_0 ==> low_idxs@.contains(ps_@[k]), // OBL: C17.sentence.every_cheapest_production_seen_so_far_is_kept
        {
            //@probe
            let pidx = ps_[pi_];
            proof { assert(self.grm.rule_prods()[p_ridx.0 as int][pi_ as int] == pidx); }
            let ghost li0_ = low_idxs@;
        //@end
        //@rule n=1 `if low_sc\.is_none\(\) \|\| Some\(sc\) <= low_sc \{` => `if low_sc.is_none() || opt_le(Some(sc), low_sc) {`
        //@rule n=1 `if Some\(sc\) < low_sc \{` => `if opt_lt(Some(sc), low_sc) {`
        //@rule n=1 `^(\s*)low_idxs$` =>>
            proof {
                if ps_@.len() > 0 {
                    let w = low_idxs@[0];
                    let k2 = choose|k2: int| 0 <= k2 < ps_@.len() && ps_@[k2] == w;
                    assert forall|k: int| 0 <= k < ps_@.len() && least(self, ps_@, cost_of(self, #[trigger] ps_@[k])) implies low_idxs@.contains(ps_@[k]) by {
                        assert(cost_of(self, ps_@[k]) <= cost_of(self, ps_@[k2]));
                    }
                }
            }
            low_idxs
        //@end
        //@rule n=1 `low_idxs\.push\(pidx\);` =>>
                    low_idxs.push(pidx);
                    proof {
                        assert(low_idxs@.last() == pidx);
                        assert forall|k: int| 0 <= k <= pi_ && cost_of(self, #[trigger] ps_@[k]) == sc implies low_idxs@.contains(ps_@[k]) by {
                            if k < pi_ { let j = choose|j: int| 0 <= j < li0_.len() && li0_[j] == ps_@[k]; assert(low_idxs@[j] == ps_@[k]); } else { assert(low_idxs@[low_idxs@.len() - 1] == ps_@[k]); }
                        }
                    }
        //@end
        //@endbody
    }
}
//@use prelude/tail.rs
