//@unit c06_rank props=C06 widths=u32
//@use prelude/head.rs

// ---- stand-ins ----
// one repair sequence (Vec<ParseRepair<..>>) and one candidate (the Vec of equivalent sequences that
// a success node stands for): handled by value-semantic handles; contents are never inspected here
#[verifier::external_body] #[derive(Clone, Copy)] pub struct RSeq { _x: usize }
#[verifier::external_body] #[derive(Clone, Copy)] pub struct RprSeqs { _x: usize }
impl RprSeqs {
    pub uninterp spec fn v(&self) -> Seq<RSeq>;
    // `&rpr_seqs[0]`
    #[verifier::external_body] pub fn first(&self) -> (r: RSeq)
        requires self.v().len() > 0, // OBLG: C06.rank.candidate_has_a_repair_sequence
        ensures r == self.v()[0]
    { unimplemented!() }
}
#[verifier::external_body] pub struct PStack { _x: usize }          // Vec<StIdx<StorageT>>
impl PStack { pub uninterp spec fn s(&self) -> Seq<StIdx<$T>>; }
#[verifier::external_body] pub fn slice_to_owned(p: &PStack) -> (r: PStack) ensures r.s() == p.s() { unimplemented!() }
#[verifier::external_body] pub struct Instant { _x: usize }
// `Instant::now() >= finish_by` at the k-th look at the clock
pub uninterp spec fn expired(k: int) -> bool;
#[verifier::external_body] pub fn clock_expired(finish_by: &Instant, Ghost(k): Ghost<int>) -> (r: bool) ensures r == expired(k) { unimplemented!() }
pub const TRY_PARSE_AT_MOST: usize = 250;
//@expect file=lrpar/src/lib/cpctplus.rs re=`const TRY_PARSE_AT_MOST: usize = 250;`

#[verifier::external_body] pub struct Parser { _x: usize }
// what applying a repair sequence at laidx to a parse stack gives (apply_repairs, unit c05_apply) ...
pub uninterp spec fn ap_la(p: &Parser, laidx: usize, st: Seq<StIdx<$T>>, r: RSeq) -> usize;
pub uninterp spec fn ap_st(p: &Parser, laidx: usize, st: Seq<StIdx<$T>>, r: RSeq) -> Seq<StIdx<$T>>;
// ... and how far plain LR parsing gets from (laidx, stack) when told to stop at `end` (lr_upto, unit c07_lr)
pub uninterp spec fn up_la(p: &Parser, laidx: usize, end: usize, st: Seq<StIdx<$T>>) -> usize;
pub uninterp spec fn up_st(p: &Parser, laidx: usize, end: usize, st: Seq<StIdx<$T>>) -> Seq<StIdx<$T>>;
// (the two optional outputs -- action stack and span stack -- are `&mut None` at both call sites and are dropped by a dialect rule)
#[verifier::external_body]
pub fn apply_repairs(parser: &Parser, laidx: usize, pstack: &mut PStack, repairs: RSeq) -> (r: usize)
    ensures r == ap_la(parser, laidx, old(pstack).s(), repairs), final(pstack).s() == ap_st(parser, laidx, old(pstack).s(), repairs)
{ unimplemented!() }
impl Parser {
    #[verifier::external_body]
    pub fn lr_upto(&self, lexeme_prefix: Option<usize>, laidx: usize, end_laidx: usize, pstack: &mut PStack) -> (r: usize)
        ensures r == up_la(self, laidx, end_laidx, old(pstack).s()), final(pstack).s() == up_st(self, laidx, end_laidx, old(pstack).s())
    { unimplemented!() }
}
pub struct Cnd(pub PStack, pub usize, pub RprSeqs);
// dialect: `v.into_iter().filter(..).collect()` / `flat_map(..).collect()` move elements; here a kept element is copied
#[verifier::external_body] pub fn keep(out: &mut Vec<Cnd>, v: &Vec<Cnd>, k: usize)
    requires k < v@.len() ensures final(out)@ == old(out)@.push(v@[k as int]) { unimplemented!() }
#[verifier::external_body] pub fn append_all(out: &mut Vec<RSeq>, x: RprSeqs)
    ensures final(out)@ == old(out)@ + x.v() { unimplemented!() }

// ---------------- specification (from the property text) ----------------
// how far a candidate lets parsing continue: its first sequence is applied at the error point and
// LR parsing runs on, for every candidate up to the same point: TRY_PARSE_AT_MOST lexemes after the error; a candidate
// whose repairs themselves end at or beyond that point has got as far as the window reaches
pub open spec fn reach(p: &Parser, in_laidx: usize, in_st: Seq<StIdx<$T>>, c: RprSeqs) -> usize {
    let a = ap_la(p, in_laidx, in_st, c.v()[0]);
    let end = (in_laidx + TRY_PARSE_AT_MOST) as usize;
    if a < end { up_la(p, a, end, ap_st(p, in_laidx, in_st, c.v()[0])) } else { end }
}
pub open spec fn best(p: &Parser, in_laidx: usize, in_st: Seq<StIdx<$T>>, cs: Seq<RprSeqs>) -> usize
    decreases cs.len()
{
    if cs.len() == 0 { 0 } else {
        let b = best(p, in_laidx, in_st, cs.drop_last());
        let r = reach(p, in_laidx, in_st, cs.last());
        if r >= b { r } else { b }
    }
}
// the sequences of exactly those candidates that get as far as m, candidates in their given order
pub open spec fn reported(p: &Parser, in_laidx: usize, in_st: Seq<StIdx<$T>>, cs: Seq<RprSeqs>, m: usize) -> Seq<RSeq>
    decreases cs.len()
{
    if cs.len() == 0 { Seq::empty() } else {
        reported(p, in_laidx, in_st, cs.drop_last(), m) + (if reach(p, in_laidx, in_st, cs.last()) == m { cs.last().v() } else { Seq::empty() })
    }
}
pub open spec fn any_expired(n: int) -> bool { exists|k: int| 0 <= k < n && expired(k) }

pub open spec fn keep_seq(cn: Seq<Cnd>, m: usize) -> Seq<Cnd>
    decreases cn.len()
{ if cn.len() == 0 { Seq::empty() } else { let q = keep_seq(cn.drop_last(), m); if cn.last().1 == m { q.push(cn.last()) } else { q } } }
pub open spec fn flat_seq(cn: Seq<Cnd>) -> Seq<RSeq>
    decreases cn.len()
{ if cn.len() == 0 { Seq::empty() } else { flat_seq(cn.drop_last()) + cn.last().2.v() } }
pub open spec fn agrees(p: &Parser, in_laidx: usize, in_st: Seq<StIdx<$T>>, cs: Seq<RprSeqs>, cn: Seq<Cnd>, n: int) -> bool {
    forall|k: int| 0 <= k < n ==> (#[trigger] cn[k]).1 == reach(p, in_laidx, in_st, cs[k]) && cn[k].2 == cs[k]
}
pub proof fn lemma_reported(p: &Parser, in_laidx: usize, in_st: Seq<StIdx<$T>>, cs: Seq<RprSeqs>, cn: Seq<Cnd>, m: usize)
    requires cs.len() == cn.len(), agrees(p, in_laidx, in_st, cs, cn, cs.len() as int)
    ensures flat_seq(keep_seq(cn, m)) == reported(p, in_laidx, in_st, cs, m)
    decreases cs.len()
{
    if cs.len() > 0 {
        lemma_reported(p, in_laidx, in_st, cs.drop_last(), cn.drop_last(), m);
        if cn.last().1 == m {
            let q = keep_seq(cn.drop_last(), m);
            assert(q.push(cn.last()).drop_last() == q);
        }
    }
}

//@ctx rank_cnds: every candidate holds at least one repair sequence (collect_repairs never yields an empty candidate); the look-ahead window in_laidx + TRY_PARSE_AT_MOST does not overflow usize
fn rank_cnds(parser: &Parser, finish_by: Instant, in_laidx: usize, in_pstack: &PStack, in_cnds: Vec<RprSeqs>) -> (r: Vec<RSeq>)
    requires in_laidx + TRY_PARSE_AT_MOST <= usize::MAX,
        forall|k: int| 0 <= k < in_cnds@.len() ==> (#[trigger] in_cnds@[k]).v().len() > 0,
    ensures
        any_expired(in_cnds@.len() as int) ==> r@.len() == 0, // OBL: C06.rank.nothing_reported_when_out_of_time
        !any_expired(in_cnds@.len() as int) ==> r@ == reported(parser, in_laidx, in_pstack.s(), in_cnds@, best(parser, in_laidx, in_pstack.s(), in_cnds@)), // OBL: C06.rank.reports_exactly_the_candidates_that_parse_as_far_as_the_best
{
    //@probe
    let ghost st0 = in_pstack.s();
    //@body file=lrpar/src/lib/cpctplus.rs fn=rank_cnds
    //@rule n=1 `let mut cnds = Vec::new\(\);` => `let mut cnds: Vec<Cnd> = Vec::new();`
    //@rule n=1 `let mut furthest = 0;` => `let mut furthest: usize = 0;`
    // dialect: consuming iteration as an index loop (the candidate handle is copied out)
    //@rule n=1 `^(\s*)for rpr_seqs in in_cnds \{$` =>>
    let mut ci_: usize = 0;
    while ci_ < in_cnds.len()
        invariant ci_ <= in_cnds@.len(), cnds@.len() == ci_, st0 == in_pstack.s(), in_laidx + TRY_PARSE_AT_MOST <= usize::MAX,
            forall|k: int| 0 <= k < in_cnds@.len() ==> (#[trigger] in_cnds@[k]).v().len() > 0,
            !any_expired(ci_ as int),
            agrees(parser, in_laidx, st0, in_cnds@, cnds@, ci_ as int), // OBL: C06.rank.every_candidate_measured_over_the_same_window
            furthest == best(parser, in_laidx, st0, in_cnds@.take(ci_ as int)), // OBL: C06.rank.furthest_is_the_best_reach
        decreases in_cnds@.len() - ci_,
    {
        //@probe
        let rpr_seqs = in_cnds[ci_];
        let ghost ci0_ = ci_ as int;
        ci_ = ci_ + 1;
        proof { assert(in_cnds@.take(ci_ as int).drop_last() == in_cnds@.take(ci0_)); }
    //@end
    //@rule n=1 `Instant::now\(\) >= finish_by` => `clock_expired(&finish_by, Ghost(ci0_))`
    //@rule n=1 `return vec!\[\];` => `proof { assert(any_expired(in_cnds@.len() as int)); } return Vec::new();`
    //@rule n=1 `in_pstack\.to_owned\(\)` => `slice_to_owned(in_pstack)`
    //@rule n=2 `^\s*&mut None,\n` => ``
    //@rule n=1 `parser\.lr_upto\(None, laidx, end_laidx, &mut pstack, &mut None, &mut None\)` => `parser.lr_upto(None, laidx, end_laidx, &mut pstack)`
    //@rule n=1 `&rpr_seqs\[0\]` => `rpr_seqs.first()`
    //@rule n=1 `cnds\.push\(\(pstack, laidx, rpr_seqs\)\);` => `cnds.push(Cnd(pstack, laidx, rpr_seqs));`
    // dialect: `cnds = cnds.into_iter().filter(|(_, x, _)| COND).collect::<Vec<_>>();` as a loop keeping the elements for which COND holds (x bound to the second component)
    //@rule n=1 `^(\s*)cnds = cnds\n\s*\.into_iter\(\)\n\s*\.filter\(\|\(_, x, _\)\| (.*)\)\n\s*\.collect::<Vec<_>>\(\);` =>>
    proof {
        assert(in_cnds@.take(ci_ as int) == in_cnds@);
        assert forall|k: int| 0 <= k < in_cnds@.len() implies !expired(k) by { if expired(k) { assert(any_expired(ci_ as int)); } }
    }
    let mut kept_: Vec<Cnd> = Vec::new();
    let mut fk_: usize = 0;
    while fk_ < cnds.len()
        invariant fk_ <= cnds@.len(), kept_@ == keep_seq(cnds@.take(fk_ as int), furthest),
        decreases cnds@.len() - fk_,
    {
        //@probe
        let x = &cnds[fk_].1;
        proof { assert(cnds@.take(fk_ + 1).drop_last() == cnds@.take(fk_ as int)); }
        if \2 { keep(&mut kept_, &cnds, fk_); }
        fk_ = fk_ + 1;
    }
    proof { assert(cnds@.take(fk_ as int) == cnds@); lemma_reported(parser, in_laidx, st0, in_cnds@, cnds@, furthest); }
    cnds = kept_;
    //@end
    // dialect: `cnds.into_iter().flat_map(|(_, _, x)| x).collect::<Vec<_>>()` as a loop appending the third component of every element
    //@rule n=1 `^(\s*)cnds\.into_iter\(\)\.flat_map\(\|\(_, _, x\)\| x\)\.collect::<Vec<_>>\(\)$` =>>
    let mut out_: Vec<RSeq> = Vec::new();
    let mut ok_: usize = 0;
    while ok_ < cnds.len()
        invariant ok_ <= cnds@.len(), out_@ == flat_seq(cnds@.take(ok_ as int)),
        decreases cnds@.len() - ok_,
    {
        //@probe
        let x = cnds[ok_].2;
        proof { assert(cnds@.take(ok_ + 1).drop_last() == cnds@.take(ok_ as int)); }
        append_all(&mut out_, x);
        ok_ = ok_ + 1;
    }
    proof { assert(cnds@.take(ok_ as int) == cnds@); }
    out_
    //@end
    //@endbody
}
//@undecided the ranking of candidates over *all* their sequences (only the first sequence of a candidate is tried: they are equivalent by construction of the merged search graph, not decided here)
//@use prelude/tail.rs
