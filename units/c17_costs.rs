//@unit c17_costs props=C17 widths=u32
//@use prelude/head.rs
//@use prelude/grammar.rs

// rule_min_costs (cfgrammar/src/lib/yacc/grammar.rs): the cost of a minimal sentence of every rule.
// "Exactly": the reported cost is the token cost of some derivation tree of the rule, no derivation
// tree of the rule is cheaper, a rule without any derivation tree gets u16::MAX, and the fixed-point
// loop terminates.
pub type CS = Seq<Option<u16>>;

//@use units/c17_derives.inc
// ---------------- the fixed point: no production offers its rule anything cheaper ----------------
// the rules among the first k symbols of production p all have a cost
pub open spec fn known(g: &YaccGrammar, C: CS, p: int, k: int) -> bool {
    forall|j: int| 0 <= j < k ==> (#[trigger] g.prods()[p][j] matches Symbol::Rule(q) ==> C[q.0 as int] is Some)
}
pub open spec fn psum(g: &YaccGrammar, tc: TC, C: CS, p: int, k: int) -> int
    decreases k
{
    if k <= 0 { 0 } else {
        psum(g, tc, C, p, k - 1) + match g.prods()[p][k - 1] {
            Symbol::Token(t) => tc[t.0 as int] as int,
            Symbol::Rule(q) => if C[q.0 as int] is Some { C[q.0 as int]->Some_0 as int } else { 0 },
        }
    }
}
pub open spec fn local_closed(g: &YaccGrammar, tc: TC, C: CS, p: int) -> bool {
    known(g, C, p, g.prods()[p].len() as int) ==> C[g.rule_of()[p].0 as int] is Some && C[g.rule_of()[p].0 as int]->Some_0 <= psum(g, tc, C, p, g.prods()[p].len() as int)
}
pub open spec fn closed(g: &YaccGrammar, tc: TC, C: CS) -> bool { forall|p: int| 0 <= p < g.nprods() ==> #[trigger] local_closed(g, tc, C, p) }

pub open spec fn inputs_ok(g: &YaccGrammar, tc: TC, C: CS) -> bool { g.wf() && tc.len() == g.ntok() && C.len() == g.nrules() }

// at a fixed point every derivation tree costs at least what its rule is listed with
pub proof fn lemma_lower(g: &YaccGrammar, tc: TC, C: CS, r: int, c: int, h: nat)
    requires inputs_ok(g, tc, C), closed(g, tc, C), 0 <= r < g.nrules(), derives(g, tc, r, c, h)
    ensures C[r] is Some, C[r]->Some_0 <= c
    decreases h, 0nat
{
    let p = choose|p: int| #[trigger] prod_of(g, r, p) && pderives(g, tc, p, g.prods()[p].len() as int, c, (h - 1) as nat);
    lemma_plower(g, tc, C, p, g.prods()[p].len() as int, c, (h - 1) as nat);
    assert(local_closed(g, tc, C, p));
}
pub proof fn lemma_plower(g: &YaccGrammar, tc: TC, C: CS, p: int, k: int, c: int, h: nat)
    requires inputs_ok(g, tc, C), closed(g, tc, C), 0 <= p < g.nprods(), 0 <= k <= g.prods()[p].len(), pderives(g, tc, p, k, c, h)
    ensures known(g, C, p, k), psum(g, tc, C, p, k) <= c
    decreases h, (k + 1) as nat
{
    if k > 0 {
        let c1 = choose|c1: int| #[trigger] part_of(c1, c) && pderives(g, tc, p, k - 1, c1, h) && match g.prods()[p][k - 1] {
            Symbol::Token(t) => c - c1 == tc[t.0 as int],
            Symbol::Rule(q) => derives(g, tc, q.0 as int, c - c1, h),
        };
        lemma_plower(g, tc, C, p, k - 1, c1, h);
        match g.prods()[p][k - 1] {
            Symbol::Token(t) => {}
            Symbol::Rule(q) => { lemma_lower(g, tc, C, q.0 as int, c - c1, h); }
        }
        assert forall|j: int| 0 <= j < k implies (#[trigger] g.prods()[p][j] matches Symbol::Rule(q) ==> C[q.0 as int] is Some) by {
            if j < k - 1 { assert(known(g, C, p, k - 1)); }
        }
    }
}

// ---------------- the termination measure: costs only ever go down ----------------
pub open spec fn weight(o: Option<u16>) -> int { if o is Some { o->Some_0 as int } else { 0x1_0000 } }
pub open spec fn msum(C: CS, n: int) -> int decreases n { if n <= 0 { 0 } else { msum(C, n - 1) + weight(C[n - 1]) } }
pub proof fn lemma_msum_update(C: CS, i: int, v: Option<u16>, n: int)
    requires 0 <= i < C.len(), 0 <= n <= C.len()
    ensures msum(C.update(i, v), n) == msum(C, n) + (if i < n { weight(v) - weight(C[i]) } else { 0 }), msum(C, n) >= 0
    decreases n
{
    if n > 0 { lemma_msum_update(C, i, v, n - 1); }
}

// ---------------- stand-ins ----------------
// derive(PartialOrd) on Option: None is less than every Some, two Somes compare by their payload
#[verifier::external_body]
pub fn opt_lt(a: Option<u16>, b: Option<u16>) -> (r: bool)
    ensures r == match (a, b) { (None, Some(_)) => true, (Some(x), Some(y)) => x < y, _ => false }
{ unimplemented!() }
// `.expect("Overflow occurred when calculating rule costs")`: a cost that does not fit u16 is refused with that message
#[verifier::external_body]
pub fn or_refuse(o: Option<u16>) -> (r: u16) ensures o is Some, r == o->Some_0 { unimplemented!() }
// `costs.into_iter().map(|c| c.unwrap_or(u16::MAX)).collect()`
#[verifier::external_body]
pub fn finish(costs: Vec<Option<u16>>) -> (r: Vec<u16>)
    ensures r@.len() == costs@.len(), forall|i: int| 0 <= i < r@.len() ==> #[trigger] r@[i] == (if costs@[i] is Some { costs@[i]->Some_0 } else { u16::MAX })
{ unimplemented!() }
#[verifier::external_body]
pub fn none_vec(n: usize) -> (r: Vec<Option<u16>>) ensures r@.len() == n, forall|i: int| 0 <= i < n ==> #[trigger] r@[i] is None { unimplemented!() }

//@ctx rule_min_costs: token_costs has one entry per token (SentenceGenerator::new pushes one per tidx of iter_tidxs)
//@ctx rule_min_costs: a production cost that does not fit u16 is refused with the panic "Overflow occurred when calculating rule costs" (allowed divergence; the result is then not reported at all)
fn rule_min_costs(grm: &YaccGrammar, token_costs: &[u8]) -> (r: Vec<u16>)
    requires grm.wf(), token_costs@.len() == grm.ntok(),
    ensures
        r@.len() == grm.nrules(),
        forall|i: int| 0 <= i < grm.nrules() && #[trigger] r@[i] != u16::MAX ==> exists|h: nat| derives(grm, token_costs@, i, r@[i] as int, h), // OBL: C17.costs.min_cost_is_reached_by_a_derivation
        forall|i: int, c: int, h: nat| 0 <= i < grm.nrules() && #[trigger] derives(grm, token_costs@, i, c, h) ==> r@[i] <= c, // OBL: C17.costs.no_derivation_is_cheaper
{
    //@probe
    let ghost tc = token_costs@;
    let ghost mut hs: Seq<nat> = Seq::new(grm.nrules(), |i: int| 0nat);
    //@body file=cfgrammar/src/lib/yacc/grammar.rs fn=rule_min_costs
    //@rule n=1 `let mut costs: Vec<Option<u16>> = vec!\[None; usize::from\(grm\.rules_len\(\)\)\];` => `let mut costs: Vec<Option<u16>> = none_vec(usize::from(grm.rules_len()));`
    //@rule n=1 `^(\s*)loop \{$` =>>
    loop
        invariant
            grm.wf(), tc == token_costs@, tc.len() == grm.ntok(), costs@.len() == grm.nrules(), hs.len() == grm.nrules(),
            forall|r: int| 0 <= r < grm.nrules() && (#[trigger] costs@[r]) is Some ==> derives(grm, tc, r, costs@[r]->Some_0 as int, hs[r]), // OBL: C17.costs.every_listed_cost_is_reached_by_a_derivation
        ensures
            closed(grm, tc, costs@), // OBL: C17.costs.loop_ends_at_a_fixed_point
        decreases msum(costs@, grm.nrules() as int), // OBL: C17.costs.min_costs_terminate
    {
        //@probe
        let ghost C0 = costs@;
        proof { lemma_msum_update(C0, 0, C0[0], C0.len() as int); }
    //@end
    //@atend n=1 `^(\s*)for i in 0\.\.costs\.len\(\) \{$` =>>
            proof {
                assert(!changed ==> forall|k: int| 0 <= k < grm.rule_prods()[i as int].len() ==> local_closed(grm, tc, C0, (#[trigger] grm.rule_prods()[i as int][k]).0 as int));
            }
    //@end
    //@rule n=1 `^(\s*)for i in 0\.\.costs\.len\(\) \{$` =>>
        let n_ = costs.len();
        for i in 0..n_
            invariant
                grm.wf(), tc == token_costs@, tc.len() == grm.ntok(), costs@.len() == grm.nrules(), hs.len() == grm.nrules(), n_ == grm.nrules(), C0.len() == n_,
                forall|r: int| 0 <= r < grm.nrules() && (#[trigger] costs@[r]) is Some ==> derives(grm, tc, r, costs@[r]->Some_0 as int, hs[r]), // OBL: C17.costs.every_listed_cost_is_reached_by_a_derivation
                !changed ==> costs@ == C0, // OBL: C17.costs.changed_flag_tracks_every_change
                msum(costs@, n_ as int) <= msum(C0, n_ as int), changed ==> msum(costs@, n_ as int) < msum(C0, n_ as int), // OBL: C17.costs.every_change_lowers_a_cost
                !changed ==> forall|r: int, k: int| 0 <= r < i && 0 <= k < grm.rule_prods()[r].len() ==> local_closed(grm, tc, C0, (#[trigger] grm.rule_prods()[r][k]).0 as int), // OBL: C17.costs.unchanged_pass_leaves_every_production_closed
        {
            //@probe
    //@end
    //@rule n=1 `^(\s*)'a: for pidx in grm\.rule_to_prods\(RIdx\(narrow_\$T\(i\)\)\)\.iter\(\) \{$` =>>
            let ghost ch0_ = changed;
            let ps_ = grm.rule_to_prods(RIdx(narrow_$T(i)));
            let mut pk_next_: usize = 0;
            #[verifier::loop_isolation(false)]
            'a: while pk_next_ < ps_.len()
                invariant
                    pk_next_ <= ps_@.len(), costs@.len() == grm.nrules(), hs.len() == grm.nrules(),
                    forall|r: int| 0 <= r < grm.nrules() && (#[trigger] costs@[r]) is Some ==> derives(grm, tc, r, costs@[r]->Some_0 as int, hs[r]),
                    !changed ==> costs@ == C0, ch0_ ==> changed,
                    msum(costs@, n_ as int) <= msum(C0, n_ as int), changed ==> msum(costs@, n_ as int) < msum(C0, n_ as int),
                    !changed ==> forall|k: int| 0 <= k < pk_next_ ==> local_closed(grm, tc, C0, (#[trigger] ps_@[k]).0 as int),
                decreases ps_@.len() - pk_next_,
            {
                //@probe
                // dialect rule 5: for pidx in <slice>.iter(); the counter advances first so that `continue 'a` keeps its meaning
                let pidx = &ps_[pk_next_];
                pk_next_ = pk_next_ + 1;
                let ghost p = pidx.0 as int;
                let ghost mut hp: nat = 0;
                assert(grm.rule_of()[p].0 == i);
    //@end
    //@rule n=1 `^(\s*)for sym in grm\.prod\(\*pidx\) \{$` =>>
                let prod_ = grm.prod(*pidx);
                let mut sk_next_: usize = 0;
                #[verifier::loop_isolation(false)]
                while sk_next_ < prod_.len()
                    invariant
                        sk_next_ <= prod_@.len(), prod_@ == grm.prods()[p],
                        known(grm, costs@, p, sk_next_ as int), c == psum(grm, tc, costs@, p, sk_next_ as int),
                        pderives(grm, tc, p, sk_next_ as int, c as int, hp), // OBL: C17.costs.running_cost_is_reached_by_the_symbols_so_far
                    decreases prod_@.len() - sk_next_,
                {
                    //@probe
                    // dialect rule 5: for sym in <slice>
                    let sym = &prod_[sk_next_];
                    sk_next_ = sk_next_ + 1;
                    let ghost c_before = c;
                    let ghost hp_before = hp;
    //@end
    //@rule n=1 `None => continue 'a,` => `None => { proof { let j_ = sk_next_ - 1; assert(grm.prods()[p][j_] is Rule && costs@[grm.prods()[p][j_]->Rule_0.0 as int] is None); assert(!known(grm, costs@, p, grm.prods()[p].len() as int)); } continue 'a; }`
    //@rule n=1 `c = c\s*\.checked_add\(sc\)\s*\.expect\("Overflow occurred when calculating rule costs"\);` =>>
                    c = or_refuse(c.checked_add(sc));
                    proof {
                        match prod_@[sk_next_ - 1] {
                            Symbol::Token(t) => { }
                            Symbol::Rule(q) => {
                                let hq = hs[q.0 as int];
                                if hq > hp { hp = hq; }
                                lemma_mono(grm, tc, q.0 as int, sc as int, hq, hp);
                            }
                        }
                        lemma_pmono(grm, tc, p, sk_next_ - 1, c_before as int, hp_before, hp);
                        assert(part_of(c_before as int, c as int));
                    }
    //@end
    //@rule n=1 `if costs\[i\]\.is_none\(\) \|\| Some\(c\) < costs\[i\] \{` => `if costs[i].is_none() || opt_lt(Some(c), costs[i]) {`
    //@rule n=1 `^(\s*)costs\[i\] = Some\(c\);$` =>>
                    let ghost Cb = costs@;
                    costs[i] = Some(c);
                    proof {
                        hs = hs.update(i as int, hp + 1);
                        lemma_msum_update(Cb, i as int, Some(c), n_ as int);
                        assert(costs@ == Cb.update(i as int, Some(c)));
                        assert(prod_of(grm, i as int, p));
                        assert(derives(grm, tc, i as int, c as int, hp + 1));
                    }
    //@end
    //@rule n=1 `^(\s*)if !changed \{\n\s*break;\n\s*\}$` =>>
        if !changed {
            proof {
                assert forall|p: int| 0 <= p < grm.nprods() implies #[trigger] local_closed(grm, tc, costs@, p) by {
                    let r = grm.rule_of()[p].0 as int;
                    assert(grm.in_rule_prods(r, p));
                    let k = choose|k: int| 0 <= k < grm.rule_prods()[r].len() && (#[trigger] grm.rule_prods()[r][k]).0 == p;
                    assert(local_closed(grm, tc, C0, grm.rule_prods()[r][k].0 as int));
                }
            }
            break;
        }
        proof { lemma_msum_update(costs@, 0, costs@[0], n_ as int); }
    //@end
    //@rule n=1 `^(\s*)costs\.into_iter\(\)\.map\(\|c\| c\.unwrap_or\(u16::MAX\)\)\.collect\(\)$` =>>
    proof {
        assert forall|i: int, c: int, h: nat| 0 <= i < grm.nrules() && #[trigger] derives(grm, tc, i, c, h) implies costs@[i] is Some && costs@[i]->Some_0 <= c by {
            lemma_lower(grm, tc, costs@, i, c, h);
        }
    }
    finish(costs)
    //@end
    //@endbody
}
//@use prelude/tail.rs
