//@unit c08_reduce props=C08,C05 widths=u32
//@use prelude/head.rs
//@use prelude/grammar.rs

#[derive(Clone, Copy)] pub struct Span { pub st: usize, pub en: usize }
impl Span {
    pub open spec fn spec_start(&self) -> usize { self.st }
    pub open spec fn spec_end(&self) -> usize { self.en }
    // span.rs: Span::new panics if end < start
    pub fn new(start: usize, end: usize) -> (r: Span)
        requires start <= end, // OBLG: C08.span_new_start_le_end
        ensures r.st == start, r.en == end,
    { Span { st: start, en: end } }
    #[verifier::when_used_as_spec(spec_start)]
    pub fn start(&self) -> (r: usize) ensures r == self.st { self.st }
    #[verifier::when_used_as_spec(spec_end)]
    pub fn end(&self) -> (r: usize) ensures r == self.en { self.en }
}
#[verifier::external_body] pub struct ActionT { _x: usize }   // value returned by a user action
#[verifier::external_body] pub struct LexemeT { _x: usize }
impl Clone for LexemeT { #[verifier::external_body] fn clone(&self) -> (r: Self) ensures r == *self { unimplemented!() } }
impl Copy for LexemeT {}
impl LexemeT {
    pub uninterp spec fn sspan(&self) -> Span;
    #[verifier::external_body] pub fn span(&self) -> (r: Span) ensures r == self.sspan() { unimplemented!() }
}
#[verifier::external_body] pub struct ParamT { _x: usize }
#[verifier::external_body] pub struct LexerRef { _x: usize }
pub enum AStackType { ActionType(ActionT), Lexeme(LexemeT) }
impl ParamT { #[verifier::external_body] pub fn clone(&self) -> (r: ParamT) ensures r == *self { unimplemented!() } }

#[verifier::external_body] pub struct StateTable { _x: usize }
impl StateTable {
    pub uninterp spec fn sgoto(&self, s: StIdx<$T>, r: RIdx<$T>) -> Option<StIdx<$T>>;
    #[verifier::external_body]
    pub fn goto(&self, s: StIdx<$T>, r: RIdx<$T>) -> (g: Option<StIdx<$T>>) ensures g == self.sgoto(s, r) { unimplemented!() }
}

// One record per action invocation: the ghost log the property is about.
pub struct Call { pub pidx: PIdx<$T>, pub ridx: RIdx<$T>, pub span: Span, pub args: Seq<AStackType>, pub param: ParamT }
// The action stack together with the log of calls made so far (the log is ghost state
// threaded through the only operation that invokes an action).
#[verifier::external_body] pub struct AStack { _x: usize }
impl AStack {
    pub uninterp spec fn vals(&self) -> Seq<AStackType>;
    pub uninterp spec fn log(&self) -> Seq<Call>;
    #[verifier::external_body]
    pub fn len(&self) -> (r: usize) ensures r == self.vals().len() { unimplemented!() }
    #[verifier::external_body]
    pub fn push(&mut self, v: AStackType) ensures final(self).vals() == old(self).vals().push(v), final(self).log() == old(self).log() { unimplemented!() }
}
pub uninterp spec fn result_of(c: Call) -> ActionT;
#[verifier::external_body] pub struct Actions { _x: usize }     // &[ActionFn]
impl Actions { pub uninterp spec fn n(&self) -> nat; }
// dialect rule 6: `self.actions[usize::from(pidx)](ridx, self.lexer, span, astack.drain(from..), self.param.clone())`
// indexing panics unless pidx < actions.len(); drain(from..) panics unless from <= len
#[verifier::external_body]
pub fn call_action(actions: &Actions, pidx: PIdx<$T>, ridx: RIdx<$T>, lexer: &LexerRef, span: Span, astack: &mut AStack, from: usize, param: ParamT) -> (v: ActionT)
    requires (pidx.0 as nat) < actions.n(), // OBLG: C08.action_index_in_range
             from <= old(astack).vals().len(), // OBLG: C08.drain_start_in_range
    ensures
        final(astack).vals() == old(astack).vals().subrange(0, from as int),
        final(astack).log() == old(astack).log().push(Call { pidx, ridx, span, args: old(astack).vals().subrange(from as int, old(astack).vals().len() as int), param }),
        v == result_of(final(astack).log().last()),
{ unimplemented!() }
// `v.drain(k..);` as a statement: removes v[k..]; panics unless k <= len
pub fn drain_from<A>(v: &mut Vec<A>, k: usize)
    requires k <= old(v)@.len(), // OBLG: C08.drain_start_in_range
    ensures final(v)@ == old(v)@.subrange(0, k as int),
{ v.truncate(k); }

pub struct Parser { pub grm: YaccGrammar, pub stable: StateTable, pub actions: Actions, pub lexer: LexerRef, pub param: ParamT }
impl Parser {
    pub uninterp spec fn snext(&self, laidx: int) -> LexemeT;
    // contract of Parser::next_lexeme: a function of the lexeme list and the index
    #[verifier::external_body] pub fn next_lexeme(&self, laidx: usize) -> (r: LexemeT) ensures r == self.snext(laidx as int) { unimplemented!() }
}

// ---------------- specification ----------------
// d[i] = Some((a, b)): stack entry i derived at least one lexeme, the first starting at
// a and the last ending at b (inserted lexemes count);  None: it derived no lexeme.
pub type Derived = Seq<Option<(int, int)>>;
pub open spec fn first_some(d: Derived, lo: int, hi: int) -> Option<(int, int)>
    decreases hi - lo
{ if lo >= hi { None } else if d[lo] is Some { d[lo] } else { first_some(d, lo + 1, hi) } }
pub open spec fn last_some(d: Derived, lo: int, hi: int) -> Option<(int, int)>
    decreases hi - lo
{ if lo >= hi { None } else if d[hi - 1] is Some { d[hi - 1] } else { last_some(d, lo, hi - 1) } }
// end of the last lexeme derived by entries [0, i), or 0
pub open spec fn pos_before(d: Derived, i: int) -> int { match last_some(d, 0, i) { Some(p) => p.1, None => 0 } }
// the span the property prescribes for a node whose children are entries [k, n)
#[verifier::opaque]
pub open spec fn node_derived(d: Derived, k: int, n: int) -> Option<(int, int)> {
    match (first_some(d, k, n), last_some(d, k, n)) { (Some(f), Some(l)) => Some((f.0, l.1)), _ => None }
}
// stack discipline linking spans to what the entries derived
#[verifier::opaque]
pub open spec fn spans_inv(spans: Seq<Span>, d: Derived) -> bool {
    &&& spans.len() == d.len()
    &&& forall|i: int| 0 <= i < d.len() ==> match #[trigger] d[i] {
            Some(p) => spans[i].st == p.0 && spans[i].en == p.1 && pos_before(d, i) <= p.0 <= p.1,
            None => spans[i].st == pos_before(d, i) && spans[i].en == pos_before(d, i),
        }
}
pub proof fn lemma_prefix_ext(d1: Derived, d2: Derived, lo: int, i: int)
    requires 0 <= lo <= i <= d1.len(), i <= d2.len(), forall|j: int| lo <= j < i ==> d1[j] == d2[j]
    ensures last_some(d1, lo, i) == last_some(d2, lo, i), first_some(d1, lo, i) == first_some(d2, lo, i)
    decreases i - lo
{
    if lo < i { lemma_prefix_ext(d1, d2, lo, i - 1); lemma_prefix_ext(d1, d2, lo + 1, i); }
}
// last_some over a suffix range agrees with last_some over the whole prefix when it finds something
pub proof fn lemma_last_some_prefix(d: Derived, lo: int, hi: int)
    requires 0 <= lo <= hi <= d.len()
    ensures last_some(d, lo, hi) is Some ==> last_some(d, lo, hi) == last_some(d, 0, hi),
            last_some(d, lo, hi) is None ==> last_some(d, 0, hi) == last_some(d, 0, lo),
    decreases hi - lo
{
    if lo < hi { if d[hi - 1] is Some { } else { lemma_last_some_prefix(d, lo, hi - 1); } }
}
pub proof fn lemma_none_iff(d: Derived, lo: int, hi: int)
    requires 0 <= lo <= hi <= d.len()
    ensures (first_some(d, lo, hi) is None) == (forall|i: int| lo <= i < hi ==> d[i] is None),
            (last_some(d, lo, hi) is None) == (forall|i: int| lo <= i < hi ==> d[i] is None),
            first_some(d, lo, hi) matches Some(f) ==> exists|j: int| lo <= j < hi && d[j] == Some(f) && forall|i: int| lo <= i < j ==> d[i] is None,
            last_some(d, lo, hi) matches Some(l) ==> exists|j: int| lo <= j < hi && d[j] == Some(l) && forall|i: int| j < i < hi ==> d[i] is None,
    decreases hi - lo
{
    if lo < hi {
        lemma_none_iff(d, lo + 1, hi);
        lemma_none_iff(d, lo, hi - 1);
        if d[lo] is Some { assert(d[lo] == Some(d[lo].unwrap())); }
        else if first_some(d, lo + 1, hi) is Some {
            let f = first_some(d, lo + 1, hi).unwrap();
            let j = choose|j: int| lo + 1 <= j < hi && d[j] == Some(f) && forall|i: int| lo + 1 <= i < j ==> d[i] is None;
            assert(lo <= j < hi && d[j] == Some(f) && forall|i: int| lo <= i < j ==> d[i] is None);
        }
        if d[hi - 1] is Some { assert(d[hi - 1] == Some(d[hi - 1].unwrap())); }
        else if last_some(d, lo, hi - 1) is Some {
            let l = last_some(d, lo, hi - 1).unwrap();
            let j = choose|j: int| lo <= j < hi - 1 && d[j] == Some(l) && forall|i: int| j < i < hi - 1 ==> d[i] is None;
            assert(lo <= j < hi && d[j] == Some(l) && forall|i: int| j < i < hi ==> d[i] is None);
        }
    }
}
// entry i ends where the next one may begin
pub proof fn lemma_entry(spans: Seq<Span>, d: Derived, i: int)
    requires spans_inv(spans, d), 0 <= i < d.len()
    ensures spans[i].en == pos_before(d, i + 1), pos_before(d, i) <= spans[i].st <= spans[i].en, spans.len() == d.len(),
{
    reveal(spans_inv);
    assert(d[i] is Some || d[i] is None);
}
pub proof fn lemma_inv_len(spans: Seq<Span>, d: Derived)
    requires spans_inv(spans, d)
    ensures spans.len() == d.len()
{ reveal(spans_inv); }
pub proof fn lemma_mono(spans: Seq<Span>, d: Derived, i: int, j: int)
    requires spans_inv(spans, d), 0 <= i <= j <= d.len()
    ensures pos_before(d, i) <= pos_before(d, j)
    decreases j - i
{
    if i < j { lemma_mono(spans, d, i, j - 1); lemma_entry(spans, d, j - 1); }
}
// what the reduce step has to produce
pub proof fn lemma_reduce_span(spans: Seq<Span>, d: Derived, k: int, st: int, en: int)
    requires spans_inv(spans, d), 0 <= k <= d.len(),
        k < d.len() ==> st == spans[k].st && en == spans[d.len() - 1].en,
        k == d.len() ==> st == pos_before(d, k) && en == pos_before(d, k),
    ensures
        st <= en,
        node_derived(d, k, d.len() as int) is None ==> st == en && st == pos_before(d, k),
        node_derived(d, k, d.len() as int) matches Some(p) ==> en == p.1 && (d[k] is Some ==> st == p.0) && pos_before(d, k) <= p.0 <= p.1,
{
    let n = d.len() as int;
    reveal(spans_inv); reveal(node_derived);
    lemma_none_iff(d, k, n);
    lemma_last_some_prefix(d, k, n);
    if k < n {
        lemma_entry(spans, d, k); lemma_entry(spans, d, n - 1);
        lemma_mono(spans, d, k + 1, n - 1 + 1);
        lemma_mono(spans, d, k, n);
        if k < n - 1 { lemma_mono(spans, d, k + 1, n - 1); }
        if node_derived(d, k, n) is Some {
            let f = first_some(d, k, n).unwrap();
            let l = last_some(d, k, n).unwrap();
            let jf = choose|j: int| k <= j < n && d[j] == Some(f) && forall|i: int| k <= i < j ==> d[i] is None;
            let jl = choose|j: int| k <= j < n && d[j] == Some(l) && forall|i: int| j < i < n ==> d[i] is None;
            lemma_entry(spans, d, jf); lemma_entry(spans, d, jl);
            lemma_mono(spans, d, k, jf);
            assert(jf <= jl);
            lemma_mono(spans, d, jf + 1, jl + 1);
            if jf < jl { lemma_mono(spans, d, jf + 1, jl); }
            // everything after jl derived nothing: the last span ends where jl ends
            lemma_last_some_prefix(d, jl + 1, n);
            lemma_none_iff(d, jl + 1, n);
            assert(pos_before(d, n) == l.1);
        }
    }
}
pub proof fn lemma_new_inv(spans: Seq<Span>, d: Derived, k: int, sp: Span)
    requires spans_inv(spans, d), 0 <= k <= d.len(),
        node_derived(d, k, d.len() as int) is None ==> sp.st == sp.en && sp.st == pos_before(d, k),
        node_derived(d, k, d.len() as int) matches Some(p) ==> sp.st == p.0 && sp.en == p.1 && pos_before(d, k) <= p.0 <= p.1,
    ensures spans_inv(spans.subrange(0, k).push(sp), d.subrange(0, k).push(node_derived(d, k, d.len() as int)))
{
    reveal(spans_inv); reveal(node_derived);
    let d2 = d.subrange(0, k).push(node_derived(d, k, d.len() as int));
    let s2 = spans.subrange(0, k).push(sp);
    assert forall|i: int| 0 <= i < d2.len() implies match #[trigger] d2[i] {
            Some(p) => s2[i].st == p.0 && s2[i].en == p.1 && pos_before(d2, i) <= p.0 <= p.1,
            None => s2[i].st == pos_before(d2, i) && s2[i].en == pos_before(d2, i),
        } by {
        lemma_prefix_ext(d, d2, 0, i);
        if i < k { assert(d2[i] == d[i] && s2[i] == spans[i]); assert(d[i] is Some || d[i] is None); }
    }
}

pub open spec fn n_(p: &Parser, pidx: PIdx<$T>) -> int { p.grm.prods()[pidx.0 as int].len() as int }
pub open spec fn k_(p: &Parser, pidx: PIdx<$T>, len: int) -> int { len - n_(p, pidx) }
pub open spec fn rule_of_(p: &Parser, pidx: PIdx<$T>) -> RIdx<$T> { p.grm.rule_of()[pidx.0 as int] }
pub open spec fn nd_(p: &Parser, pidx: PIdx<$T>, d: Derived) -> Option<(int, int)> { node_derived(d, k_(p, pidx, d.len() as int), d.len() as int) }
// the region of the recorded finding: the production's first symbol derived nothing but a later one did
pub open spec fn leading_empty_(p: &Parser, pidx: PIdx<$T>, d: Derived) -> bool { n_(p, pidx) > 0 && d[k_(p, pidx, d.len() as int)] is None && nd_(p, pidx, d) is Some }
//@ctx reduce step: LR stack discipline (C01 territory): one span and one value per symbol on the parse stack above the start state; the production's symbols are on top; the goto entry exists; the action table has one entry per production
//@ctx reduce step: the spans on the stack are the spans of what the entries derived (spans_inv); this clause is re-established by the step (C08.stack_spans_stay_consistent) and by the shift step
//@undecided span starts at the first lexeme when the production's first symbols derive nothing (leading empty children): recorded as known finding, see known_findings.json
fn reduce_step_lr(self_: &Parser, pidx: PIdx<$T>, pstack: &mut Vec<StIdx<$T>>, astack: &mut AStack, spans: &mut Vec<Span>, Ghost(d): Ghost<Derived>)
    requires
        self_.grm.wf(), (pidx.0 as nat) < self_.grm.nprods(), self_.actions.n() == self_.grm.nprods(),
        old(spans)@.len() == old(astack).vals().len(), old(pstack)@.len() == old(spans)@.len() + 1,
        self_.grm.prods()[pidx.0 as int].len() <= old(spans)@.len(),
        self_.stable.sgoto(old(pstack)@[old(pstack)@.len() - 1 - self_.grm.prods()[pidx.0 as int].len()], self_.grm.rule_of()[pidx.0 as int]) is Some,
        spans_inv(old(spans)@, d),
    ensures
        final(astack).log().len() == old(astack).log().len() + 1 && final(astack).log().subrange(0, old(astack).log().len() as int) == old(astack).log(), // OBL: C08.action_called_exactly_once
        final(astack).log().last().pidx == pidx && final(astack).log().last().ridx == rule_of_(self_, pidx) && final(astack).log().last().param == self_.param, // OBL: C08.action_gets_rule_and_parameter
        final(astack).log().last().args == old(astack).vals().subrange(k_(self_, pidx, old(spans)@.len() as int), old(astack).vals().len() as int), // OBL: C08.action_gets_one_argument_per_symbol_in_order
        final(astack).vals() == old(astack).vals().subrange(0, k_(self_, pidx, old(spans)@.len() as int)).push(AStackType::ActionType(result_of(final(astack).log().last()))), // OBL: C08.value_replaces_its_children
        final(pstack)@ == old(pstack)@.subrange(0, k_(self_, pidx, old(spans)@.len() as int) + 1).push(self_.stable.sgoto(old(pstack)@[k_(self_, pidx, old(spans)@.len() as int)], rule_of_(self_, pidx)).unwrap()), // OBL: C08.parse_stack_pops_production_and_pushes_goto
        final(spans)@ == old(spans)@.subrange(0, k_(self_, pidx, old(spans)@.len() as int)).push(final(astack).log().last().span), // OBL: C08.span_stack_aligned_and_span_passed_is_span_pushed
        nd_(self_, pidx, d) is None ==> final(spans)@.last().st == final(spans)@.last().en, // OBL: C08.span_zero_length_when_nothing_derived
        nd_(self_, pidx, d) is Some ==> final(spans)@.last().en == nd_(self_, pidx, d).unwrap().1, // OBL: C08.span_ends_at_end_of_last_lexeme
        (nd_(self_, pidx, d) is Some && !leading_empty_(self_, pidx, d)) ==> final(spans)@.last().st == nd_(self_, pidx, d).unwrap().0, // OBL: C08.span_starts_at_start_of_first_lexeme
        leading_empty_(self_, pidx, d) ==> final(spans)@.last().st == nd_(self_, pidx, d).unwrap().0, // OBL: C08.span_starts_at_start_of_first_lexeme.leading_empty_children
        !leading_empty_(self_, pidx, d) ==> spans_inv(final(spans)@, d.subrange(0, k_(self_, pidx, d.len() as int)).push(nd_(self_, pidx, d))), // OBL: C08.stack_spans_stay_consistent
{
    //@probe
    proof { lemma_inv_len(spans@, d); }
    let ghost n = self_.grm.prods()[pidx.0 as int].len() as int;
    let ghost k = spans@.len() - n;
    //@body file=lrpar/src/lib/parser.rs fn=lr block=`let ridx = self\.grm\.prod_to_rule\(pidx\);` end=`^\s*astack\.push\(v\);`
    //@rule n=* `\bself\.` => `self_.`
    //@rule n=1 `pstack\.drain\(pop_idx\.\.\);` => `drain_from(pstack, pop_idx);`
    //@rule n=1 `^(\s*)let span = if spans\.is_empty\(\) \{$` =>>
                    proof {
                        let ghost_k = k;
                        if spans@.len() > 0 { lemma_entry(spans@, d, spans@.len() - 1); }
                        if k < spans@.len() { lemma_reduce_span(spans@, d, k, spans@[k].st as int, spans@[spans@.len() - 1].en as int); }
                        else { lemma_reduce_span(spans@, d, k, pos_before(d, k), pos_before(d, k)); }
                    }
                    let ghost spans0 = spans@;
                    let span = if spans.is_empty() {
    //@end
    //@rule n=1 `^(\s*)spans\.push\(span\);$` =>>
                    spans.push(span);
                    proof {
                        if !leading_empty_(self_, pidx, d) { lemma_new_inv(spans0, d, k, span); }
                    }
    //@end
    //@rule n=1 `self_\.actions\[usize::from\(pidx\)\]\(\s*ridx,\s*self_\.lexer,\s*span,\s*astack\.drain\(pop_idx - 1\.\.\),\s*self_\.param\.clone\(\),\s*\)` => `call_action(&self_.actions, pidx, ridx, &self_.lexer, span, astack, pop_idx - 1, self_.param.clone())`
    //@endbody
}
fn reduce_step_upto(self_: &Parser, pidx: PIdx<$T>, pstack: &mut Vec<StIdx<$T>>, astack_uw: &mut AStack, spans_uw: &mut Vec<Span>, Ghost(d): Ghost<Derived>)
    requires
        self_.grm.wf(), (pidx.0 as nat) < self_.grm.nprods(), self_.actions.n() == self_.grm.nprods(),
        old(spans_uw)@.len() == old(astack_uw).vals().len(), old(pstack)@.len() == old(spans_uw)@.len() + 1,
        self_.grm.prods()[pidx.0 as int].len() <= old(spans_uw)@.len(),
        self_.stable.sgoto(old(pstack)@[old(pstack)@.len() - 1 - self_.grm.prods()[pidx.0 as int].len()], self_.grm.rule_of()[pidx.0 as int]) is Some,
        spans_inv(old(spans_uw)@, d),
    ensures
        final(astack_uw).log().len() == old(astack_uw).log().len() + 1 && final(astack_uw).log().subrange(0, old(astack_uw).log().len() as int) == old(astack_uw).log(), // OBL: C08.upto.action_called_exactly_once
        final(astack_uw).log().last().pidx == pidx && final(astack_uw).log().last().ridx == rule_of_(self_, pidx) && final(astack_uw).log().last().param == self_.param, // OBL: C08.upto.action_gets_rule_and_parameter
        final(astack_uw).log().last().args == old(astack_uw).vals().subrange(k_(self_, pidx, old(spans_uw)@.len() as int), old(astack_uw).vals().len() as int), // OBL: C08.upto.action_gets_one_argument_per_symbol_in_order
        final(astack_uw).vals() == old(astack_uw).vals().subrange(0, k_(self_, pidx, old(spans_uw)@.len() as int)).push(AStackType::ActionType(result_of(final(astack_uw).log().last()))), // OBL: C08.upto.value_replaces_its_children
        final(pstack)@ == old(pstack)@.subrange(0, k_(self_, pidx, old(spans_uw)@.len() as int) + 1).push(self_.stable.sgoto(old(pstack)@[k_(self_, pidx, old(spans_uw)@.len() as int)], rule_of_(self_, pidx)).unwrap()), // OBL: C08.upto.parse_stack_pops_production_and_pushes_goto
        final(spans_uw)@ == old(spans_uw)@.subrange(0, k_(self_, pidx, old(spans_uw)@.len() as int)).push(final(astack_uw).log().last().span), // OBL: C08.upto.span_stack_aligned_and_span_passed_is_span_pushed
        nd_(self_, pidx, d) is None ==> final(spans_uw)@.last().st == final(spans_uw)@.last().en, // OBL: C08.upto.span_zero_length_when_nothing_derived
        nd_(self_, pidx, d) is Some ==> final(spans_uw)@.last().en == nd_(self_, pidx, d).unwrap().1, // OBL: C08.upto.span_ends_at_end_of_last_lexeme
        (nd_(self_, pidx, d) is Some && !leading_empty_(self_, pidx, d)) ==> final(spans_uw)@.last().st == nd_(self_, pidx, d).unwrap().0, // OBL: C08.upto.span_starts_at_start_of_first_lexeme
        leading_empty_(self_, pidx, d) ==> final(spans_uw)@.last().st == nd_(self_, pidx, d).unwrap().0, // OBL: C08.upto.span_starts_at_start_of_first_lexeme.leading_empty_children
        !leading_empty_(self_, pidx, d) ==> spans_inv(final(spans_uw)@, d.subrange(0, k_(self_, pidx, d.len() as int)).push(nd_(self_, pidx, d))), // OBL: C08.upto.stack_spans_stay_consistent
{
    //@probe
    proof { lemma_inv_len(spans_uw@, d); }
    let ghost n = self_.grm.prods()[pidx.0 as int].len() as int;
    let ghost k = spans_uw@.len() - n;
    // lr_upto's copy of the reduce step; the `if let Some(..) = *astack` / `*spans` wrappers
    // are dropped: this is the case where both stacks are present (recovery replay with actions)
    //@body file=lrpar/src/lib/parser.rs fn=lr_upto block=`let ridx = self\.grm\.prod_to_rule\(pidx\);` end=`let pop_idx = pstack\.len\(\)`
    //@rule n=* `\bself\.` => `self_.`
    //@endbody
    //@body file=lrpar/src/lib/parser.rs fn=lr_upto block=`let span = if spans_uw\.is_empty\(\) \{` end=`^\s*astack_uw\.push\(v\);`
    //@rule n=* `\bself\.` => `self_.`
    //@rule n=1 `self_\.actions\[usize::from\(pidx\)\]\(\s*ridx,\s*self_\.lexer,\s*span,\s*astack_uw\.drain\(pop_idx - 1\.\.\),\s*self_\.param\.clone\(\),\s*\)` => `call_action(&self_.actions, pidx, ridx, &self_.lexer, span, astack_uw, pop_idx - 1, self_.param.clone())`
    //@rule n=1 `^(\s*)let span = if spans_uw\.is_empty\(\) \{$` =>>
                    proof {
                        if spans_uw@.len() > 0 { lemma_entry(spans_uw@, d, spans_uw@.len() - 1); }
                        if k < spans_uw@.len() { lemma_reduce_span(spans_uw@, d, k, spans_uw@[k].st as int, spans_uw@[spans_uw@.len() - 1].en as int); }
                        else { lemma_reduce_span(spans_uw@, d, k, pos_before(d, k), pos_before(d, k)); }
                    }
                    let ghost spans0 = spans_uw@;
                    let span = if spans_uw.is_empty() {
    //@end
    //@rule n=1 `^(\s*)spans_uw\.push\(span\);$` =>>
                    spans_uw.push(span);
                    proof {
                        if !leading_empty_(self_, pidx, d) { lemma_new_inv(spans0, d, k, span); }
                    }
    //@end
    //@endbody
    //@body file=lrpar/src/lib/parser.rs fn=lr_upto block=`^\s*pstack\.drain\(pop_idx\.\.\);` end=`pstack\.push\(self\.stable\.goto\(prior, ridx\)\.unwrap\(\)\);`
    //@rule n=* `\bself\.` => `self_.`
    //@rule n=1 `pstack\.drain\(pop_idx\.\.\);` => `drain_from(pstack, pop_idx);`
    //@endbody
}

//@ctx shift step: the next lexeme does not start before the end of anything already on the stack and its span has start <= end (lexemes come from the lexer in input order; inserted lexemes are zero-length at the start of the next real lexeme)
fn shift_step_lr(self_: &Parser, state_id: StIdx<$T>, laidx0: usize, pstack: &mut Vec<StIdx<$T>>, astack: &mut AStack, spans: &mut Vec<Span>, Ghost(d): Ghost<Derived>) -> (laidx: usize)
    requires laidx0 < usize::MAX, spans_inv(old(spans)@, d),
        pos_before(d, d.len() as int) <= self_.snext(laidx0 as int).sspan().st <= self_.snext(laidx0 as int).sspan().en,
    ensures
        laidx == laidx0 + 1, // OBL: C08.shift_consumes_one_lexeme
        final(pstack)@ == old(pstack)@.push(state_id), // OBL: C08.shift_pushes_target_state
        final(astack).vals() == old(astack).vals().push(AStackType::Lexeme(self_.snext(laidx0 as int))) && final(astack).log() == old(astack).log(), // OBL: C08.shift_pushes_the_lexeme_and_calls_no_action
        final(spans)@ == old(spans)@.push(self_.snext(laidx0 as int).sspan()), // OBL: C08.shift_pushes_the_lexemes_span
        spans_inv(final(spans)@, d.push(Some((self_.snext(laidx0 as int).sspan().st as int, self_.snext(laidx0 as int).sspan().en as int)))), // OBL: C08.stack_spans_stay_consistent.shift
{
    //@probe
    let mut laidx = laidx0;
    //@body file=lrpar/src/lib/parser.rs fn=lr block=`let la_lexeme = self\.next_lexeme\(laidx\);` end=`^\s*laidx \+= 1;`
    //@rule n=* `\bself\.` => `self_.`
    //@endbody
    proof {
        reveal(spans_inv);
        let sp = self_.snext(laidx0 as int).sspan();
        let d2 = d.push(Some((sp.st as int, sp.en as int)));
        assert forall|i: int| 0 <= i < d2.len() implies match #[trigger] d2[i] {
                Some(p) => spans@[i].st == p.0 && spans@[i].en == p.1 && pos_before(d2, i) <= p.0 <= p.1,
                None => spans@[i].st == pos_before(d2, i) && spans@[i].en == pos_before(d2, i),
            } by {
            lemma_prefix_ext(d, d2, 0, i);
            if i < d.len() { assert(d2[i] == d[i]); assert(d[i] is Some || d[i] is None); }
        }
    }
    laidx
}

// lr_upto's shift arm: the lexeme shifted is the inserted one (lexeme_prefix) if given, else the
// next real lexeme; value stack and span stack must both receive *that* lexeme.
pub open spec fn shifted_(p: &Parser, prefix: Option<LexemeT>, laidx: int) -> LexemeT { match prefix { Some(l) => l, None => p.snext(laidx) } }
fn shift_step_upto(self_: &Parser, state_id: StIdx<$T>, lexeme_prefix: Option<LexemeT>, laidx0: usize, pstack: &mut Vec<StIdx<$T>>, astack_uw: &mut AStack, spans_uw: &mut Vec<Span>, Ghost(d): Ghost<Derived>) -> (laidx: usize)
    requires laidx0 < usize::MAX, spans_inv(old(spans_uw)@, d),
        pos_before(d, d.len() as int) <= shifted_(self_, lexeme_prefix, laidx0 as int).sspan().st <= shifted_(self_, lexeme_prefix, laidx0 as int).sspan().en,
    ensures
        laidx == laidx0 + 1, // OBL: C08.upto.shift_consumes_one_lexeme
        final(pstack)@ == old(pstack)@.push(state_id), // OBL: C08.upto.shift_pushes_target_state
        final(astack_uw).vals() == old(astack_uw).vals().push(AStackType::Lexeme(shifted_(self_, lexeme_prefix, laidx0 as int))) && final(astack_uw).log() == old(astack_uw).log(), // OBL: C08.upto.shift_pushes_the_lexeme_and_calls_no_action
        final(spans_uw)@ == old(spans_uw)@.push(shifted_(self_, lexeme_prefix, laidx0 as int).sspan()), // OBL: C08.upto.shift_pushes_the_span_of_the_lexeme_it_pushes C05.replay_shift_pushes_the_span_of_the_lexeme_it_pushes
        spans_inv(final(spans_uw)@, d.push(Some((shifted_(self_, lexeme_prefix, laidx0 as int).sspan().st as int, shifted_(self_, lexeme_prefix, laidx0 as int).sspan().en as int)))), // OBL: C08.upto.stack_spans_stay_consistent.shift
{
    //@probe
    let mut laidx = laidx0;
    //@body file=lrpar/src/lib/parser.rs fn=lr_upto block=`Action::Shift\(state_id\) => \{` through=brace
    //@rule n=* `\bself\.` => `self_.`
    //@rule n=1 `^\s*Action::Shift\(state_id\) => \{` => `{`
    //@rule n=1 `if let Some\(ref mut astack_uw\) = \*astack \{ if let Some\(spans_uw\) = spans \{` => `{ {`
    //@endbody
    proof {
        reveal(spans_inv);
        let sp = shifted_(self_, lexeme_prefix, laidx0 as int).sspan();
        let d2 = d.push(Some((sp.st as int, sp.en as int)));
        assert forall|i: int| 0 <= i < d2.len() implies match #[trigger] d2[i] {
                Some(p) => spans_uw@[i].st == p.0 && spans_uw@[i].en == p.1 && pos_before(d2, i) <= p.0 <= p.1,
                None => spans_uw@[i].st == pos_before(d2, i) && spans_uw@[i].en == pos_before(d2, i),
            } by {
            lemma_prefix_ext(d, d2, 0, i);
            if i < d.len() { assert(d2[i] == d[i]); assert(d[i] is Some || d[i] is None); }
        }
    }
    laidx
}
//@use prelude/tail.rs
