//@unit c17_follows props=C17 widths=u32
//@use prelude/head.rs
//@use prelude/grammar.rs
//@use prelude/vob.rs
//@use prelude/bits.rs

pub type FS = Seq<Seq<bool>>;
// YaccFirsts as verified in unit c17_firsts (accessor contracts copied from there)
pub struct YaccFirsts { pub firsts: Vec<Vob>, pub epsilons: Vob }
impl YaccFirsts {
    pub open spec fn F(&self) -> FS { vv(self.firsts@) }
    pub open spec fn E(&self) -> Seq<bool> { self.epsilons@ }
    pub open spec fn fwf(&self, g: &YaccGrammar) -> bool {
        &&& self.firsts@.len() == g.nrules() && self.epsilons@.len() == g.nrules()
        &&& forall|r: int| 0 <= r < g.nrules() ==> (#[trigger] self.firsts@[r])@.len() == g.ntok()
        &&& forall|r: int| 0 <= r < g.nrules() ==> #[trigger] self.F()[r] == self.firsts@[r]@
    }
    #[verifier::external_body]
    pub fn is_epsilon_set(&self, ridx: RIdx<$T>) -> (r: bool) requires (ridx.0 as nat) < self.epsilons@.len() ensures r == self.E()[ridx.0 as int] { unimplemented!() }
    #[verifier::external_body]
    pub fn firsts(&self, ridx: RIdx<$T>) -> (r: &Vob) requires (ridx.0 as nat) < self.firsts@.len() ensures r@ == self.firsts@[ridx.0 as int]@ { unimplemented!() }
}
// grm.firsts() is YaccFirsts::new(grm) (contract proved in unit c17_firsts)
#[verifier::external_body]
pub fn grm_firsts(grm: &YaccGrammar) -> (r: YaccFirsts) requires grm.wf() ensures r.fwf(grm), r.F() == spec_firsts(grm).F(), r.E() == spec_firsts(grm).E() { unimplemented!() }
// the value of YaccFirsts::new(grm): closed and least by unit c17_firsts
pub uninterp spec fn spec_firsts(grm: &YaccGrammar) -> YaccFirsts;
// grammar.rs: start_rule_idx() is prod_to_rule(start_prod)
#[verifier::external_body]
pub fn start_rule_idx(grm: &YaccGrammar) -> (r: RIdx<$T>) requires grm.wf() ensures r == grm.rule_of()[grm.startp().0 as int] { unimplemented!() }

pub struct YaccFollows { pub follows: Vec<Vob> }

// ---------------- specification: FOLLOW as the least closed family ----------------
pub open spec fn nullable_sym(g: &YaccGrammar, E: Seq<bool>, p: int, j: int) -> bool {
    g.prods()[p][j] is Rule && E[g.prods()[p][j]->Rule_0.0 as int]
}
// symbols i .. j-1 of production p are all rules that can derive the empty string
pub open spec fn gap_nullable(g: &YaccGrammar, E: Seq<bool>, p: int, i: int, j: int) -> bool {
    forall|k: int| i <= k < j ==> #[trigger] nullable_sym(g, E, p, k)
}
pub open spec fn rule_of_(g: &YaccGrammar, p: int) -> int { g.rule_of()[p].0 as int }
pub open spec fn sym_rule(g: &YaccGrammar, p: int, i: int) -> int { g.prods()[p][i]->Rule_0.0 as int }
pub open spec fn sym_first(g: &YaccGrammar, F: FS, p: int, i: int, t: int) -> bool {
    g.prods()[p][i] is Rule && F[g.prods()[p][i]->Rule_0.0 as int][t]
}
pub open spec fn sym_is_token(g: &YaccGrammar, p: int, i: int) -> bool { g.prods()[p][i] is Token }
pub open spec fn sym_is_rule(g: &YaccGrammar, p: int, i: int) -> bool { g.prods()[p][i] is Rule }
// what the symbols after position i contribute to FOLLOW of the rule at position i
pub open spec fn after_ok(g: &YaccGrammar, F: FS, E: Seq<bool>, L: FS, p: int, i: int, upto: int) -> bool {
    // a token reached across nullable symbols follows it
    &&& forall|j: int| i < j < upto && gap_nullable(g, E, p, i + 1, j) && #[trigger] sym_is_token(g, p, j) ==> L[sym_rule(g, p, i)][g.prods()[p][j]->Token_0.0 as int]
    // so does everything that can begin a rule reached across nullable symbols
    &&& forall|j: int, t: int| i < j < upto && 0 <= t < g.ntok() && gap_nullable(g, E, p, i + 1, j) && #[trigger] sym_first(g, F, p, j, t) ==> L[sym_rule(g, p, i)][t]
}
// if everything after position i can vanish, whatever follows the production's rule follows it
pub open spec fn tail_ok(g: &YaccGrammar, E: Seq<bool>, L: FS, p: int, i: int) -> bool {
    gap_nullable(g, E, p, i + 1, g.prods()[p].len() as int) ==> forall|t: int| 0 <= t < g.ntok() && #[trigger] L[rule_of_(g, p)][t] ==> L[sym_rule(g, p, i)][t]
}
pub open spec fn follow_local(g: &YaccGrammar, F: FS, E: Seq<bool>, L: FS, p: int) -> bool {
    forall|i: int| 0 <= i < g.prods()[p].len() && #[trigger] sym_is_rule(g, p, i) ==> after_ok(g, F, E, L, p, i, g.prods()[p].len() as int) && tail_ok(g, E, L, p, i)
}
pub open spec fn lshape(g: &YaccGrammar, L: FS) -> bool { L.len() == g.nrules() && forall|r: int| 0 <= r < g.nrules() ==> (#[trigger] L[r]).len() == g.ntok() }
pub open spec fn follow_closed(g: &YaccGrammar, F: FS, E: Seq<bool>, L: FS) -> bool {
    &&& lshape(g, L)
    &&& L[rule_of_(g, g.startp().0 as int)][g.eof().0 as int]            // end of input follows the start rule
    &&& forall|p: int| 0 <= p < g.nprods() ==> #[trigger] follow_local(g, F, E, L, p)
}
pub open spec fn lbelow(g: &YaccGrammar, L: FS, L2: FS) -> bool {
    forall|r: int, t: int| 0 <= r < g.nrules() && 0 <= t < g.ntok() && #[trigger] L[r][t] ==> L2[r][t]
}
pub open spec fn follow_least(g: &YaccGrammar, F: FS, E: Seq<bool>, L: FS) -> bool {
    forall|L2: FS| #[trigger] follow_closed(g, F, E, L2) ==> lbelow(g, L, L2)
}

impl YaccFollows {
    pub open spec fn L(&self) -> FS { vv(self.follows@) }
    pub open spec fn lwf(&self, g: &YaccGrammar) -> bool { lwf_(g, self.follows@) }
}
pub open spec fn lwf_(g: &YaccGrammar, v: Seq<Vob>) -> bool {
    &&& v.len() == g.nrules()
    &&& forall|r: int| 0 <= r < g.nrules() ==> (#[trigger] v[r])@.len() == g.ntok()
    &&& lshape(g, vv(v))
    &&& forall|r: int| 0 <= r < g.nrules() ==> #[trigger] vv(v)[r] == v[r]@
}
// bits were added to row r only, each of them required by every closed family
pub proof fn lemma_row_keeps_least(g: &YaccGrammar, F: FS, E: Seq<bool>, L0: FS, L1: FS, r: int)
    requires lshape(g, L0), lshape(g, L1), follow_least(g, F, E, L0), 0 <= r < g.nrules(),
        forall|r2: int, t2: int| 0 <= r2 < g.nrules() && r2 != r && 0 <= t2 < g.ntok() ==> (#[trigger] L1[r2][t2]) == L0[r2][t2],
        forall|t: int| 0 <= t < g.ntok() && L0[r][t] ==> #[trigger] L1[r][t],
        forall|L2: FS, t: int| #[trigger] follow_closed(g, F, E, L2) && 0 <= t < g.ntok() && #[trigger] L1[r][t] && !L0[r][t] ==> L2[r][t],
    ensures follow_least(g, F, E, L1), unset(L1) <= unset(L0), L1 != L0 ==> unset(L1) < unset(L0), lbelow(g, L0, L1),
{
    assert forall|L2: FS| #[trigger] follow_closed(g, F, E, L2) implies lbelow(g, L1, L2) by {
        assert(lbelow(g, L0, L2));
        assert forall|r2: int, t2: int| 0 <= r2 < g.nrules() && 0 <= t2 < g.ntok() && #[trigger] L1[r2][t2] implies L2[r2][t2] by {
            if r2 == r && !L0[r][t2] { } else { assert(L0[r2][t2]); }
        }
    }
    assert forall|r2: int, t2: int| 0 <= r2 < L0.len() && 0 <= t2 < L0[r2].len() && L0[r2][t2] implies L1[r2][t2] by { }
    lemma_unset_mono(L0, L1);
    if L1 != L0 {
        if !(exists|r2: int, t2: int| 0 <= r2 < L0.len() && 0 <= t2 < L0[r2].len() && L1[r2][t2] && !L0[r2][t2]) {
            assert(L1 =~~= L0) by {
                assert forall|r2: int| 0 <= r2 < L1.len() implies #[trigger] L1[r2] =~= L0[r2] by {
                    assert forall|t2: int| 0 <= t2 < L1[r2].len() implies L1[r2][t2] == L0[r2][t2] by {
                        if L1[r2][t2] && !L0[r2][t2] { }
                    }
                }
            }
        }
    }
}
pub proof fn lemma_gap_mono(g: &YaccGrammar, E: Seq<bool>, p: int, i: int, j: int, j2: int)
    requires gap_nullable(g, E, p, i, j2), j <= j2
    ensures gap_nullable(g, E, p, i, j)
{ }
//@use units/c17_follows_new.inc
//@use prelude/tail.rs
