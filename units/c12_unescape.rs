//@unit c12_unescape props=C12 widths=u32
//@use prelude/head.rs
//@use prelude/cursor.rs

// lrlex/src/lib/parser.rs: the nested fn unescape() of parse_start_states, the scanner that rewrites the POSIX-lex
// escapes of a rule's regular expression.  Decides for C12: for every regex text it returns (no slice is out of
// range or off a character boundary, both loops terminate).  What the rewritten text denotes is C11's business.
// `re_str` (the text of the regex) is modelled like the specification text: an abstract string with a length and
// a character-boundary predicate; `re_str.char_indices()` is a cursor over its boundaries.
pub struct CharIdx { pub pos: usize }
impl CharIdx {
    #[verifier::external_body]
    pub fn new(s: &Src) -> (r: CharIdx) ensures r.pos == 0, s.is_boundary(0), s.slen() <= isize::MAX { unimplemented!() }
    // `.next()` of str::char_indices: the position and the character at the cursor, which moves to the next boundary
    #[verifier::external_body]
    pub fn next(&mut self, s: &Src) -> (r: Option<(usize, char)>)
        requires old(self).pos <= s.slen(), s.is_boundary(old(self).pos as int),
        ensures (r is None) == (old(self).pos == s.slen()), r is None ==> final(self).pos == old(self).pos,
            r matches Some(t) ==> t.0 == old(self).pos && t.1 == s.ch(t.0 as int) && final(self).pos == t.0 + spec_len_utf8(t.1) && final(self).pos <= s.slen() && s.is_boundary(final(self).pos as int),
    { unimplemented!() }
}
// regex_syntax::is_meta_character and RE_LEX_ESC_LITERAL.is_match: total functions of their argument
#[verifier::external_body] pub fn is_meta_character(c: char) -> (r: bool) { unimplemented!() }
#[verifier::external_body] pub fn esc_literal_is_match(s: &Str) -> (r: bool) { unimplemented!() }
pub struct LexFlags { pub posix_escapes: Option<bool> }
impl StrBuf { #[verifier::external_body] pub fn push_lit(&mut self, s: Lit) { unimplemented!() } }
// a backslash is one byte long
pub proof fn lemma_backslash() ensures spec_len_utf8('\\') == 1, spec_len_utf8('b') == 1 { }

// where the scanner is when it holds an escape `\c`: i is the backslash, j the character after it
pub open spec fn at_escape(s: &Src, i: usize, j: usize, c: char, pos: usize) -> bool {
    s.is_boundary(i as int) && s.is_boundary(j as int) && j == i + 1 && j < s.slen() && c == s.ch(j as int) && pos == j + spec_len_utf8(c) && pos <= s.slen() && s.is_boundary(pos as int)
}

//@ctx unescape: Cow<str> is modelled as Option<owned string>: None stands for `return re` (the text is returned as it came), Some(s) for Cow::from(s)
fn unescape(re_str: &Src, lex_flags: &LexFlags) -> (r: Option<StrBuf>)
{
    //@probe
    proof { lemma_backslash(); }
    //@body file=lrlex/src/lib/parser.rs fn=unescape
    //@rule n=1 `^(\s*)\{ let assert_cond_ = regex_syntax::is_meta_character\('<'\)\.not\(\); assert\(assert_cond_\); \}$` => ``
    //@rule n=1 `let re_str: &str = re\.borrow\(\);` => ``
    //@rule n=1 `let mut re_chars = re_str\.char_indices\(\);` => `let mut re_chars = CharIdx::new(re_str);`
    //@rule n=* `re_chars\.next\(\)` => `re_chars.next(re_str)`
    //@rule n=* `regex_syntax::is_meta_character\(` => `is_meta_character(`
    //@rule n=* `RE_LEX_ESC_LITERAL\.is_match\(s\)` => `esc_literal_is_match(&s)`
    //@rule n=1 `let s = &re_str\[j\.\.\];` => `let s = re_str.slice(j, re_str.len());`
    //@rule n=* `unescaped\.push_str\(&re_str\[([^\[\]]+?)\.\.([^\[\]]+?)\]\);` => `unescaped.push_str(re_str.slice(\1, \2));`
    //@rule n=2 `unescaped\.push_str\(&re_str\[last_pos\.\.\]\);` => `unescaped.push_str(re_str.slice(last_pos, re_str.len()));`
    //@rule n=* `\b(c)\.len_utf8\(\)` => `len_utf8(\1)`
    //@rule n=1 `return re;` => `return None;`
    //@rule n=1 `^(\s*)Cow::from\(unescaped\)$` => `\1Some(unescaped)`
    //@rule n=1 `let mut unescaped = String::new\(\);` => `let mut unescaped = StrBuf::new();`
    //@builtin strlit
    //@rule n=1 `unescaped\.push_str\(if let Some\(true\) = lex_flags\.posix_escapes \{` => `unescaped.push_lit(if let Some(true) = lex_flags.posix_escapes {`
    // dialect: `let mut cursor = loop { .. break <value> .. }` -> a variable assigned before each `break`
    //@rule n=1 `^(\s*)let mut cursor = loop \{$` =>>
    let mut cursor: Option<(usize, Str, usize, char)> = None;
    loop
        invariant_except_break cursor is None,
        invariant re_chars.pos <= re_str.slen(), re_str.is_boundary(re_chars.pos as int), re_str.slen() <= isize::MAX,
        ensures re_chars.pos <= re_str.slen(), re_str.is_boundary(re_chars.pos as int), re_str.slen() <= isize::MAX,
            cursor matches Some(t) ==> at_escape(re_str, t.0, t.2, t.3, re_chars.pos), // OBL: C12.lex.unescape.first_escape_found_is_a_backslash_and_its_character
        decreases re_str.slen() - re_chars.pos, // OBL: C12.lex.unescape.search_loop_terminates
    {
        //@probe
    //@end
    //@rule n=1 `break Some\(\(i, s, j, c2\)\);` => `cursor = Some((i, s, j, c2)); break;`
    //@rule n=1 `^(\s*)break None;$` => `\1break;`
    //@rule n=1 `^(\s*)\};\n(\s*)\n?(\s*)if cursor\.is_none\(\) \{` => `\1}\n\3if cursor.is_none() {`
    // dialect: `'outer: while let Some(..) = cursor` -> a loop that leaves when the pattern does not match
    //@rule n=1 `^(\s*)'outer: while let Some\(\(i, s, j, c\)\) = cursor \{$` =>>
    #[verifier::loop_isolation(false)]
    'outer: loop
        invariant last_pos <= re_str.slen(), re_str.is_boundary(last_pos as int), re_chars.pos <= re_str.slen(), re_str.is_boundary(re_chars.pos as int),
            cursor matches Some(t) ==> at_escape(re_str, t.0, t.2, t.3, re_chars.pos) && last_pos <= t.0, // OBL: C12.lex.unescape.copy_position_never_passes_the_escape_in_hand
            cursor is None ==> last_pos <= re_chars.pos,
        decreases re_str.slen() - re_chars.pos + (if cursor is Some { 1int } else { 0int }), // OBL: C12.lex.unescape.rewrite_loop_terminates
    {
        //@probe
        let (i, s, j, c) = match cursor { Some(t_) => t_, None => break };
        let ghost pos_at_escape_ = re_chars.pos;
    //@end
    //@rule n=1 `^(\s*)loop \{\n(\s*)if let Some\(\(step1_pos, step1\)\) = re_chars\.next\(re_str\) \{` =>>
                    #[verifier::loop_isolation(false)]
                    loop
                        invariant last_pos <= re_chars.pos, re_chars.pos <= re_str.slen(), re_str.is_boundary(re_chars.pos as int), pos_at_escape_ <= re_chars.pos,
                        decreases re_str.slen() - re_chars.pos, // OBL: C12.lex.unescape.scan_loop_terminates
                    {
                        //@probe
                        if let Some((step1_pos, step1)) = re_chars.next(re_str) {
    //@end
    //@rule n=1 `cursor = re_chars\.next\(re_str\)\.map\(\|\(step2_pos, step2\)\| \{\s*\(step1_pos, &re_str\[step2_pos\.\.\], step2_pos, step2\)\s*\}\);` =>>
                                cursor = match re_chars.next(re_str) {
                                    Some((step2_pos, step2)) => Some((step1_pos, re_str.slice(step2_pos, re_str.len()), step2_pos, step2)),
                                    None => None,
                                };
    //@end
    //@endbody
}
// ---- parse_start_state_ops ----
#[derive(Clone, Copy)] pub enum StartStateOperation { ReplaceStack, Push, Pop }
// `s.chars().next().unwrap_or_default()`: the first character, or '\0' for the empty string
#[verifier::external_body]
pub fn first_char_or_default(s: &Src) -> (r: char)
    ensures s.slen() == 0 ==> r == '\0', s.slen() > 0 ==> r == s.ch(0) && spec_len_utf8(r) <= s.slen() && s.is_boundary(spec_len_utf8(r)), s.is_boundary(0), s.slen() <= isize::MAX,
{ unimplemented!() }
// `&s[d..]`
#[verifier::external_body]
pub fn tail_from(s: &Src, d: usize) -> (r: Str)
    requires d <= s.slen(), // OBLG: C12.slice_start_in_range
        s.is_boundary(d as int), // OBLG: C12.slice_start_on_char_boundary
{ unimplemented!() }
pub proof fn lemma_plus_minus() ensures spec_len_utf8('+') == 1, spec_len_utf8('-') == 1 { }
pub struct LexParser { pub _x: usize }
impl LexParser {
    fn parse_start_state_ops(&self, start_state_str: &Src) -> (r: (Str, StartStateOperation))
    {
        //@probe
        proof { lemma_plus_minus(); }
        //@body file=lrlex/src/lib/parser.rs fn=parse_start_state_ops
        //@rule n=1 `start_state_str\.chars\(\)\.next\(\)\.unwrap_or_default\(\)` => `first_char_or_default(start_state_str)`
        //@rule n=1 `\(&start_state_str\[left_delta\.\.\], operation\)` => `(tail_from(start_state_str, left_delta), operation)`
        //@rule n=1 `let \(left_delta, operation\) = match` => `let (left_delta, operation): (usize, StartStateOperation) = match`
        //@endbody
    }
}
//@use prelude/tail.rs
