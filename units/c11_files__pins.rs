//@unit c11_files__pins props=C11 widths=u32
//@use prelude/head.rs
// the source files the property is anchored in, pinned whole (test modules, comments and layout apart): a change to anything in
// them that is neither under contract nor pinned by name still makes this unit undecided, which sends the check to the
// property's bounded sweep of the real code
//@pinfile file=lrlex/src/lib/parser.rs sha=ee184a9fe8ea3991
//@pinfile file=lrlex/src/lib/lexer.rs sha=fd89bb00760c980b
//@pinfile file=cfgrammar/src/lib/header.rs sha=8ea0aca562d3de28
//@use prelude/tail.rs
