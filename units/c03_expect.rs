//@unit c03_expect props=C03 widths=u32
//@use prelude/head.rs

#[verifier::external_body] pub struct Conflicts { _x: usize }
impl Conflicts {
    pub uninterp spec fn ssr(&self) -> nat;
    pub uninterp spec fn srr(&self) -> nat;
    // contracts: plain field reads of the two conflict lists (statetable.rs sr_len / rr_len)
    #[verifier::external_body] pub fn sr_len(&self) -> (r: usize) ensures r == self.ssr() { unimplemented!() }
    #[verifier::external_body] pub fn rr_len(&self) -> (r: usize) ensures r == self.srr() { unimplemented!() }
}
#[verifier::external_body] pub struct StateTable { _x: usize }
impl StateTable {
    pub uninterp spec fn sconflicts(&self) -> Option<&Conflicts>;
    // statetable.rs: `None` exactly when both conflict lists are empty
    #[verifier::external_body]
    pub fn conflicts(&self) -> (r: Option<&Conflicts>)
        ensures r == self.sconflicts(), r matches Some(c) ==> c.ssr() + c.srr() > 0,
    { unimplemented!() }
}
#[verifier::external_body] pub struct Grm { _x: usize }
impl Grm {
    pub uninterp spec fn sexpect(&self) -> Option<usize>;
    pub uninterp spec fn sexpectrr(&self) -> Option<usize>;
    #[verifier::external_body] pub fn expect(&self) -> (r: Option<usize>) ensures r == self.sexpect() { unimplemented!() }
    #[verifier::external_body] pub fn expectrr(&self) -> (r: Option<usize>) ensures r == self.sexpectrr() { unimplemented!() }
}
pub struct Builder { pub error_on_conflicts: bool }

// ---------------- specification (from the property text) ----------------
pub open spec fn counts(st: &StateTable) -> (nat, nat) { match st.sconflicts() { Some(c) => (c.ssr(), c.srr()), None => (0, 0) } }
pub open spec fn or0(o: Option<usize>) -> nat { match o { Some(n) => n as nat, None => 0 } }
// "a compile-time build fails iff their counts differ from %expect / %expect-rr (default 0)"
pub open spec fn must_fail(b: &Builder, grm: &Grm, st: &StateTable) -> bool {
    b.error_on_conflicts && (or0(grm.sexpect()) != counts(st).0 || or0(grm.sexpectrr()) != counts(st).1)
}
impl Builder {
    fn expect_check(&self, grm: &Grm, stable: &StateTable) -> (r: Result<(), ()>)
        ensures
            (r is Err) == must_fail(self, grm, stable), // OBL: C03.build_fails_iff_conflict_counts_differ_from_expect
    {
        //@probe
        // (1) a table without conflicts (this block is the repair of the finding recorded until then)
        //@body file=lrpar/src/lib/ctbuilder.rs fn=build block=`^\s*if self\.error_on_conflicts && stable\.conflicts\(\)\.is_none\(\) \{$` through=brace
        //@cut n=1 `return Err\(` =>>
                        return Err(())
        //@end
        //@rule n=1 `grm\.expect\(\)\.unwrap_or\(0\), grm\.expectrr\(\)\.unwrap_or\(0\)` => `unwrap_or0(grm.expect()), unwrap_or0(grm.expectrr())`
        //@endbody
        // (2) a table with conflicts
        //@body file=lrpar/src/lib/ctbuilder.rs fn=build block=`^\s*if self\.error_on_conflicts$` through=brace
        //@cut n=1 `_ => \{` =>>
                        _ => { return Err(()); }
        //@end
        //@endbody
        Ok(())
    }
}
pub fn unwrap_or0(o: Option<usize>) -> (r: usize) ensures r == or0(o) { match o { Some(n) => n, None => 0 } }
//@use prelude/tail.rs
