//@unit c12_header props=C12 widths=u32
//@use prelude/head.rs
//@use prelude/cursor.rs

// ---- facts about the four regexes of header.rs (trusted; tied to the source text) ----
//@expect file=cfgrammar/src/lib/header.rs re=`Regex::new\(r"\^\[\\p\{Pattern_White_Space\}\]\*"\)`
#[verifier::external_body]
pub fn RE_LEADING_WS() -> (r: Re) ensures r.anchored(), r.always() { unimplemented!() }
//@expect file=cfgrammar/src/lib/header.rs re=`RegexBuilder::new\(r"\^\[A-Z\]\[A-Z_\]\*"\)`
#[verifier::external_body]
pub fn RE_NAME() -> (r: Re) ensures r.anchored(), r.min_len() == 1 { unimplemented!() }
//@expect file=cfgrammar/src/lib/header.rs re=`Regex::new\(r"\^\[0-9\]\+"\)`
#[verifier::external_body]
pub fn RE_DIGITS() -> (r: Re) ensures r.anchored(), r.min_len() == 1 { unimplemented!() }
//@expect file=cfgrammar/src/lib/header.rs re=`Regex::new\(r#"\^\\"\(\\\\\.\|\[\^"\\\\\]\)\*\\""#\)`
#[verifier::external_body]
pub fn RE_STRING() -> (r: Re) ensures r.anchored(), r.min_len() == 2, r.ascii_delims() { unimplemented!() }
//@expect file=cfgrammar/src/lib/header.rs re=`const MAGIC: &str = "%grmtools";`
// the nesting limit is a small constant (so that the recursion of parse_setting_at is shallow whatever the input)
//@expect file=cfgrammar/src/lib/header.rs re=`const MAX_ARRAY_NESTING: usize = 64;`
pub const MAX_ARRAY_NESTING: usize = 64;
#[verifier::external_body]
pub fn MAGIC() -> (r: Lit) ensures r.slen() == 9 { unimplemented!() }

// str::parse::<u64> may fail on any digit string (overflow)
#[verifier::external_body]
pub fn parse_u64(s: &Str) -> (r: Result<u64, ()>) { unimplemented!() }

pub struct Namespaced { pub namespace: Option<(StrBuf, Span)>, pub member: (StrBuf, Span) }
pub enum Setting {
    Unitary(Namespaced),
    Constructor { ctor: Namespaced, arg: Namespaced },
    Num(u64, Span),
    String(StrBuf, Span),
    Array(Vec<Setting>, Span, Span),
}
pub enum Value { Flag(bool, Span), Setting(Setting) }
pub struct HeaderValue(pub Span, pub Value);
#[derive(Clone, Copy)]
pub enum HeaderErrorKind {
    MissingGrmtoolsSection, IllegalName, ExpectedToken(char), UnexpectedToken(char, Lit),
    DuplicateEntry, InvalidEntry(Lit), ConversionError(Lit, Lit),
}
pub struct HeaderError { pub kind: HeaderErrorKind, pub locations: Vec<Span> }
pub open spec fn err_ok(src: &Src, e: HeaderError) -> bool { e.locations@.len() > 0 && spans_ok(src, e.locations@) }
pub open spec fn errs_ok(src: &Src, v: Seq<HeaderError>) -> bool { forall|k: int| 0 <= k < v.len() ==> err_ok(src, #[trigger] v[k]) }

// MarkMap<String, HeaderValue<Span>> and its entry API: contents never inspected here.
#[verifier::external_body]
pub struct Header { _h: usize }
#[verifier::external_body]
pub struct OccupiedEntry { _h: usize }
#[verifier::external_body]
pub struct VacantEntry { _h: usize }
pub enum Entry { Occupied(OccupiedEntry), Vacant(VacantEntry) }
impl Header {
    #[verifier::external_body]
    pub fn new() -> (r: Header) { unimplemented!() }
    #[verifier::external_body]
    pub fn entry(&mut self, key: StrBuf) -> (r: Entry) { unimplemented!() }
}
//@ctx parse: a HeaderValue read back from the header map carries the key span that was inserted with it (all inserted spans are proved valid)
impl OccupiedEntry {
    pub uninterp spec fn src_of(&self) -> &Src;
    #[verifier::external_body]
    pub fn get(&self) -> (r: &HeaderValue) { unimplemented!() }
}
impl VacantEntry {
    #[verifier::external_body]
    pub fn insert(self, v: HeaderValue) { unimplemented!() }
}
// add_duplicate_occurrence: appends dup_loc to an existing error or pushes a new one
// (the contract is the consequence, proved as lemma_assumed_contracts_follow, of the one the real body is verified against in unit c12_dupocc)
#[verifier::external_body]
pub fn add_duplicate_occurrence(errs: &mut Vec<HeaderError>, kind: HeaderErrorKind, orig_loc: Span, dup_loc: Span, Ghost(src): Ghost<&Src>)
    requires errs_ok(src, old(errs)@), span_ok(src, dup_loc),
    ensures final(errs)@.len() > 0, span_ok(src, orig_loc) ==> errs_ok(src, final(errs)@),
{ unimplemented!() }

pub struct GrmtoolsSectionParser { pub src: Src, pub required: bool }

impl GrmtoolsSectionParser {
    fn parse_ws(&self, i: usize) -> (j: usize)
        requires self.src.ok(i as int),
        ensures i <= j, self.src.ok(j as int), // OBL: C12.header.parse_ws.cursor_monotone_in_range_on_boundary
    {
        //@probe
        //@body file=cfgrammar/src/lib/header.rs fn=parse_ws
        //@use prelude/cursor_rules.rs
        //@rule n=1 `self\.src\.re_find\(RE_LEADING_WS\(\), i\)\s*\.map\(\|m\| m\.end\(\) \+ i\)\s*\.unwrap_or\(i\)` => `match self.src.re_find(RE_LEADING_WS(), i) { Some(m) => m.end() + i, None => i }`
        //@endbody
    }

    //@ctx lookahead_is: the literal looked for is non-empty (every call site passes a non-empty literal; the length is computed by dialect rule strlit)
    fn lookahead_is(&self, s: Lit, i: usize) -> (r: Option<usize>)
        requires self.src.ok(i as int),
        ensures r matches Some(j) ==> j == i + s.slen() && self.src.ok(j as int), // OBL: C12.header.lookahead_is.cursor_in_range_on_boundary
                (r is Some) == self.src.spec_starts_with(i as int, s), // OBL: C12.header.lookahead_is.some_iff_text_starts_with_literal
    {
        //@probe
        //@body file=cfgrammar/src/lib/header.rs fn=lookahead_is
        //@use prelude/cursor_rules.rs
        //@endbody
    }

    fn parse_name(&self, i: usize) -> (r: Result<(StrBuf, usize), HeaderError>)
        requires self.src.ok(i as int),
        ensures
            r matches Ok((_, j)) ==> i < j && self.src.ok(j as int), // OBL: C12.header.parse_name.ok_advances_on_boundary
            r matches Err(e) ==> err_ok(&self.src, e), // OBL: C12.header.parse_name.error_spans_renderable
    {
        //@probe
        //@body file=cfgrammar/src/lib/header.rs fn=parse_name
        //@use prelude/cursor_rules.rs
        //@endbody
    }

    fn parse_namespaced(&self, i0: usize) -> (r: Result<(Namespaced, usize), HeaderError>)
        requires self.src.ok(i0 as int),
        ensures
            r matches Ok((_, j)) ==> i0 < j && self.src.ok(j as int), // OBL: C12.header.parse_namespaced.ok_advances_on_boundary
            r matches Err(e) ==> err_ok(&self.src, e), // OBL: C12.header.parse_namespaced.error_spans_renderable
    {
        //@probe
        let mut i = i0;
        //@body file=cfgrammar/src/lib/header.rs fn=parse_namespaced
        //@use prelude/cursor_rules.rs
        //@endbody
    }

    fn parse_setting(&self, i: usize) -> (r: Result<(Setting, usize), HeaderError>)
        requires self.src.ok(i as int),
        ensures
            r matches Ok((_, j)) ==> i < j && self.src.ok(j as int), // OBL: C12.header.parse_setting.ok_advances_on_boundary
            r matches Err(e) ==> err_ok(&self.src, e), // OBL: C12.header.parse_setting.error_spans_renderable
    {
        //@probe
        //@body file=cfgrammar/src/lib/header.rs fn=parse_setting
        //@endbody
    }

    // `mut i: usize` is written as parameter i0 + `let mut i = i0;` (same semantics) so that
    // contracts and loop invariants can name the entry value.
    fn parse_setting_at(&self, i0: usize, depth: usize) -> (r: Result<(Setting, usize), HeaderError>)
        requires self.src.ok(i0 as int),
            depth <= MAX_ARRAY_NESTING, // OBL: C12.header.parse_setting.recursion_is_never_deeper_than_the_nesting_limit
        ensures
            r matches Ok((_, j)) ==> i0 < j && self.src.ok(j as int), // OBL: C12.header.parse_setting.ok_advances_on_boundary
            r matches Err(e) ==> err_ok(&self.src, e), // OBL: C12.header.parse_setting.error_spans_renderable
        decreases self.src.slen() - i0, // OBL: C12.header.parse_setting.recursion_terminates
    {
        //@probe
        let mut i = i0;
        //@body file=cfgrammar/src/lib/header.rs fn=parse_setting_at
        //@use prelude/cursor_rules.rs
        //@rule n=1 `^(\s*)loop \{$` =>>
                        loop
                            invariant self.src.ok(j as int), i0 <= i < j, self.src.ok(i as int), self.src.ok(open_pos as int), i <= open_pos, depth < MAX_ARRAY_NESTING, // OBL: C12.header.parse_setting.recursion_is_never_deeper_than_the_nesting_limit
                            decreases self.src.slen() - j, // OBL: C12.header.parse_setting.array_loop_terminates
                        {
                            //@probe
        //@end
        //@endbody
    }

    pub fn parse_key_value(&self, i0: usize) -> (r: Result<(StrBuf, Span, Value, usize), HeaderError>)
        requires self.src.ok(i0 as int),
        ensures
            r matches Ok((_, ksp, _, j)) ==> i0 < j && self.src.ok(j as int) && span_ok(&self.src, ksp), // OBL: C12.header.parse_key_value.ok_advances_on_boundary
            r matches Err(e) ==> err_ok(&self.src, e), // OBL: C12.header.parse_key_value.error_spans_renderable
    {
        //@probe
        let mut i = i0;
        //@body file=cfgrammar/src/lib/header.rs fn=parse_key_value
        //@use prelude/cursor_rules.rs
        //@endbody
    }

    pub fn parse(&self) -> (r: Result<(Header, usize), Vec<HeaderError>>)
        ensures
            r matches Ok((_, j)) ==> self.src.ok(j as int), // OBL: C12.header.parse.ok_cursor_in_range_on_boundary
            r matches Err(errs) ==> errs@.len() > 0, // OBL: C12.header.parse.err_list_non_empty
            r matches Err(errs) ==> errs_ok(&self.src, errs@), // OBL: C12.header.parse.error_spans_renderable
    {
        //@probe
        proof { self.src.axiom_ends(); }
        //@body file=cfgrammar/src/lib/header.rs fn=parse
        //@use prelude/cursor_rules.rs
        //@rule n=1 `\(MAGIC,` => `(MAGIC(),`
        //@rule n=1 `^(\s*)while self\.lookahead_is\(lit\("\}", 1\), i\)\.is_none\(\) && i < self\.src\.len\(\) \{$` =>>
                while self.lookahead_is(lit("}", 1), i).is_none() && i < self.src.len()
                    invariant self.src.ok(i as int), self.src.ok(section_start_pos as int), section_start_pos <= i, errs_ok(&self.src, errs@),
                    decreases self.src.slen() - i, // OBL: C12.header.parse.entry_loop_terminates
                {
                    //@probe
        //@end
        //@rule n=1 `let HeaderValue\(orig_loc, _\): &HeaderValue<Span> = orig\.get\(\);` => `let HeaderValue(orig_loc, _): &HeaderValue = orig.get(); assume(span_ok(&self.src, *orig_loc));`
        //@rule n=1 `(\*orig_loc,\s*key_loc,)` => `\1 Ghost(&self.src),`
        //@endbody
    }
}
//@use prelude/tail.rs
