//@unit c06_dijkstra props=C06,C07 widths=u32
//@use prelude/head.rs

// ---- stand-ins ----
// a search node (PathFNode): only its cost and whether it is a success node matter here
#[verifier::external_body] pub struct Node { _x: usize }
impl Node {
    pub uninterp spec fn cost(&self) -> u16;
    pub uninterp spec fn succ(&self) -> bool;
    #[verifier::external_body] pub fn clone(&self) -> (r: Node) ensures r.cost() == self.cost(), r.succ() == self.succ() { unimplemented!() }
}
// the three closures of dijkstra(): neighbours / merge / success
#[verifier::external_body] pub struct Cx { _x: usize }
impl Cx {
    // neighbours(explore_all, n, out): appends (cost of m, m) for every neighbour m; false when out of time.
    // A neighbour never costs less than the node it comes from (units c06_moves: insert/delete add a token cost, shift adds nothing)
    #[verifier::external_body] pub fn neighbours(&self, explore_all: bool, n: &Node, out: &mut Vec<(u16, Node)>) -> (r: bool)
        requires old(out)@.len() == 0,
        ensures forall|k: int| 0 <= k < final(out)@.len() ==> (#[trigger] final(out)@[k]).0 == final(out)@[k].1.cost() && final(out)@[k].1.cost() >= n.cost(),
    { unimplemented!() }
    #[verifier::external_body] pub fn success(&self, n: &Node) -> (r: bool) ensures r == n.succ() { unimplemented!() }
}
// IndexMap<N, N>: one bucket of nodes
#[verifier::external_body] pub struct Bucket { _x: usize }
impl Bucket {
    pub uninterp spec fn nodes(&self) -> Seq<Node>;
    #[verifier::external_body] pub fn new() -> (r: Bucket) ensures r.nodes().len() == 0 { unimplemented!() }
    #[verifier::external_body] pub fn single(n: Node) -> (r: Bucket) ensures r.nodes() == seq![n] { unimplemented!() }
    #[verifier::external_body] pub fn is_empty(&self) -> (r: bool) ensures r == (self.nodes().len() == 0) { unimplemented!() }
    // `pop()`: removes the last entry (key and value are the same node)
    #[verifier::external_body] pub fn pop(&mut self) -> (r: Option<(Node, Node)>)
        ensures old(self).nodes().len() == 0 ==> r is None && final(self).nodes() == old(self).nodes(),
            old(self).nodes().len() > 0 ==> r is Some && r.unwrap().1 == old(self).nodes().last() && final(self).nodes() == old(self).nodes().drop_last(),
    { unimplemented!() }
    // `match b.entry(nbr.clone()) { Vacant(e) => e.insert(nbr), Occupied(e) => merge(e.get_mut(), nbr) }`:
    // the node is added, or merged into an equal node that is already there (merge keeps that node's cost and success status:
    // equal nodes have the same stack, position and cost)
    #[verifier::external_body] pub fn upsert(&mut self, cx: &Cx, nbr: Node)
        ensures final(self).nodes().len() >= old(self).nodes().len(),
            forall|k: int| 0 <= k < final(self).nodes().len() ==> (#[trigger] final(self).nodes()[k]).cost() == nbr.cost() || (exists|q: int| 0 <= q < old(self).nodes().len() && old(self).nodes()[q].cost() == final(self).nodes()[k].cost()),
    { unimplemented!() }
}
// `todo[i].pop()` / `todo[i].upsert(..)` through `&mut todo[i]`, `todo.resize(n, IndexMap::new())`, `todo.drain(c..c+1).next().unwrap()`
#[verifier::external_body]
pub fn bucket_pop(todo: &mut Vec<Bucket>, i: usize) -> (r: Option<(Node, Node)>)
    requires i < old(todo)@.len(), // OBLG: C07.dijkstra.bucket_index_in_range
    ensures final(todo)@.len() == old(todo)@.len(), forall|j: int| 0 <= j < old(todo)@.len() && j != i ==> final(todo)@[j] == old(todo)@[j],
        old(todo)@[i as int].nodes().len() > 0 ==> r is Some && r.unwrap().1 == old(todo)@[i as int].nodes().last() && final(todo)@[i as int].nodes() == old(todo)@[i as int].nodes().drop_last(),
        old(todo)@[i as int].nodes().len() == 0 ==> r is None,
{ unimplemented!() }
#[verifier::external_body]
pub fn bucket_upsert(todo: &mut Vec<Bucket>, i: usize, cx: &Cx, nbr: Node)
    requires i < old(todo)@.len(), // OBLG: C07.dijkstra.bucket_index_in_range
    ensures final(todo)@.len() == old(todo)@.len(), forall|j: int| 0 <= j < old(todo)@.len() && j != i ==> final(todo)@[j] == old(todo)@[j],
        forall|k: int| 0 <= k < final(todo)@[i as int].nodes().len() ==> (#[trigger] final(todo)@[i as int].nodes()[k]).cost() == nbr.cost() || (exists|q: int| 0 <= q < old(todo)@[i as int].nodes().len() && old(todo)@[i as int].nodes()[q].cost() == final(todo)@[i as int].nodes()[k].cost()),
{ unimplemented!() }
#[verifier::external_body]
pub fn resize_buckets(todo: &mut Vec<Bucket>, n: usize)
    requires n >= old(todo)@.len(),
    ensures final(todo)@.len() == n, forall|j: int| 0 <= j < old(todo)@.len() ==> final(todo)@[j] == old(todo)@[j], forall|j: int| old(todo)@.len() <= j < n ==> (#[trigger] final(todo)@[j]).nodes().len() == 0,
{ unimplemented!() }
#[verifier::external_body]
pub fn take_bucket(todo: &mut Vec<Bucket>, i: usize) -> (r: Bucket)
    requires i < old(todo)@.len(), // OBLG: C07.dijkstra.bucket_index_in_range
    ensures r.nodes() == old(todo)@[i as int].nodes(),
{ unimplemented!() }
// `todo.len() + off + 1` (assumed not to overflow: a vector that long cannot be allocated)
#[verifier::external_body]
pub fn grown_len(len: usize, off: usize) -> (r: usize) ensures r == len + off + 1 { unimplemented!() }
// the (cost, node) pair i of `next.drain(..)` (a copy of the opaque node)
#[verifier::external_body]
pub fn nth_drained(v: &Vec<(u16, Node)>, i: usize) -> (r: (u16, Node))
    requires i < v@.len() ensures r.0 == v@[i as int].0, r.1.cost() == v@[i as int].1.cost(), r.1.succ() == v@[i as int].1.succ() { unimplemented!() }

// every node of bucket k costs k
pub open spec fn buckets_ok(todo: Seq<Bucket>) -> bool {
    forall|k: int, q: int| 0 <= k < todo.len() && 0 <= q < todo[k].nodes().len() ==> (#[trigger] todo[k].nodes()[q]).cost() == k
}

//@ctx dijkstra: the three closures are the stand-in Cx; termination of the search is bounded by the recovery time budget (neighbours returns false), not by a measure: partial correctness
#[verifier::exec_allows_no_decreases_clause]
fn dijkstra(start_node: Node, cx: &Cx) -> (r: Vec<Node>)
    requires start_node.cost() == 0,
    ensures
        forall|i: int| 0 <= i < r@.len() ==> (#[trigger] r@[i]).succ(), // OBL: C06.dijkstra.only_success_nodes_are_returned
        forall|i: int, j: int| 0 <= i < r@.len() && 0 <= j < r@.len() ==> (#[trigger] r@[i]).cost() == (#[trigger] r@[j]).cost(), // OBL: C06.all_reported_repairs_have_the_same_total_cost
{
    //@probe
    //@body file=lrpar/src/lib/dijkstra.rs fn=dijkstra
    // `drain(..)` leaves the vector empty (inserted after each of the two drain loops)
    //@after n=1 nth=1 `^\s*for \(nbr_cost, nbr\) in next\.drain\(\.\.\) \{` =>>
        next.clear();
    //@end
    //@after n=1 nth=2 `^\s*for \(nbr_cost, nbr\) in next\.drain\(\.\.\) \{` =>>
        next.clear();
    //@end
    //@rule n=1 `let mut scs_nodes = Vec::new\(\);` => `let mut scs_nodes: Vec<Node> = Vec::new();`
    //@rule n=1 `let mut todo: Vec<IndexMap<N, N>> = vec!\[indexmap!\[start_node\.clone\(\) => start_node\]\];` => `let mut todo: Vec<Bucket> = Vec::new(); todo.push(Bucket::single(start_node));`
    //@rule n=1 `let mut next = Vec::new\(\);` => `let mut next: Vec<(u16, Node)> = Vec::new();`
    //@rule n=* `\bsuccess\(&n\)` => `cx.success(&n)`
    //@rule n=* `\bneighbours\((true|false), &n, &mut next\)` => `cx.neighbours(\1, &n, &mut next)`
    //@rule n=1 `^(\s*)loop \{$` =>>
    loop
        invariant_except_break todo@.len() > 0, (c as int) < todo@.len(), buckets_ok(todo@), scs_nodes@.len() == 0, next@.len() == 0,
        invariant forall|k: int| 0 <= k < c ==> (#[trigger] todo@[k]).nodes().len() == 0, // OBL: C06.dijkstra.no_cheaper_node_is_left_unexamined_when_a_bucket_is_taken_up
            todo@.len() <= 0x1_0000,
        ensures todo@.len() > 0, (c as int) < todo@.len(), buckets_ok(todo@), next@.len() == 0,
            scs_nodes@.len() == 1 && scs_nodes@[0].succ() && scs_nodes@[0].cost() == c,
    {
        //@probe
    //@end
    //@rule n=1 `^(\s*)_ => return Vec::new\(\),$` =>>
                _ => {
                    // out of buckets: the search gives up only when no node is left anywhere
                    assert(forall|k: int| 0 <= k < todo@.len() ==> (#[trigger] todo@[k]).nodes().len() == 0); // OBL: C06.dijkstra.the_search_only_gives_up_when_every_bucket_is_empty
                    return Vec::new();
                }
    //@end
    //@rule n=1 `todo\[usize::from\(c\)\]\.is_empty\(\)` => `todo[c as usize].is_empty()`
    //@rule n=* `usize::from\(c\)` => `(c as usize)`
    //@rule n=* `usize::from\(next_c\)` => `(next_c as usize)`
    //@rule n=1 `todo\[\(c as usize\)\]\.pop\(\)` => `bucket_pop(&mut todo, (c as usize))`
    // dialect: `for (nbr_cost, nbr) in next.drain(..)` as an index loop over the drained elements (cleared afterwards)
    //@rule first `^(\s*)for \(nbr_cost, nbr\) in next\.drain\(\.\.\) \{$` =>>
        let mut ni_: usize = 0;
        while ni_ < next.len()
            invariant ni_ <= next@.len(), todo@.len() > 0, (c as int) < todo@.len(), buckets_ok(todo@), scs_nodes@.len() == 0,
                forall|k: int| 0 <= k < next@.len() ==> (#[trigger] next@[k]).0 == next@[k].1.cost() && next@[k].1.cost() >= c,
                forall|k: int| 0 <= k < c ==> (#[trigger] todo@[k]).nodes().len() == 0, // OBL: C06.dijkstra.a_neighbour_never_lands_in_a_cheaper_bucket
                todo@.len() <= 0x1_0000,
            decreases next@.len() - ni_,
        {
            //@probe
            let (nbr_cost, nbr) = nth_drained(&next, ni_);
            ni_ = ni_ + 1;
    //@end
    //@rule n=1 `usize::from\(nbr_cost\)` => `(nbr_cost as usize)`
    //@rule n=1 `todo\.resize\(off \+ 1, IndexMap::new\(\)\);` => `resize_buckets(&mut todo, off + 1);`
    //@cut n=1 `match todo\[off\]\.entry\(nbr\.clone\(\)\) \{` =>>
            bucket_upsert(&mut todo, off, cx, nbr);
    //@end
    //@rule n=1 `let mut scs_todo = todo\s*\.drain\(\(c as usize\)\.\.\(c as usize\) \+ 1\)\s*\.next\(\)\s*\.unwrap\(\);` => `let mut scs_todo = take_bucket(&mut todo, (c as usize));`
    // dialect: `while let Some((_, n)) = scs_todo.pop()` as loop + match
    //@rule n=1 `^(\s*)while let Some\(\(_, n\)\) = scs_todo\.pop\(\) \{$` =>>
    loop
        invariant next@.len() == 0,
            forall|i: int| 0 <= i < scs_nodes@.len() ==> (#[trigger] scs_nodes@[i]).succ() && scs_nodes@[i].cost() == c,
            forall|q: int| 0 <= q < scs_todo.nodes().len() ==> (#[trigger] scs_todo.nodes()[q]).cost() == c, // OBL: C06.dijkstra.second_phase_only_looks_at_nodes_of_the_least_cost
        ensures scs_todo.nodes().len() == 0, // OBL: C06.dijkstra.every_node_of_the_least_cost_is_examined
    {
        //@probe
        let n = match scs_todo.pop() { Some((_, n)) => n, None => { break; } };
    //@end
    //@rule n=1 `^(\s*)for \(nbr_cost, nbr\) in next\.drain\(\.\.\) \{$` =>>
        let mut mi_: usize = 0;
        while mi_ < next.len()
            invariant mi_ <= next@.len(),
                forall|k: int| 0 <= k < next@.len() ==> (#[trigger] next@[k]).0 == next@[k].1.cost(),
                forall|i: int| 0 <= i < scs_nodes@.len() ==> (#[trigger] scs_nodes@[i]).succ() && scs_nodes@[i].cost() == c,
                forall|q: int| 0 <= q < scs_todo.nodes().len() ==> (#[trigger] scs_todo.nodes()[q]).cost() == c,
            decreases next@.len() - mi_,
        {
            //@probe
            let (nbr_cost, nbr) = nth_drained(&next, mi_);
            mi_ = mi_ + 1;
    //@end
    //@cut n=1 `match scs_todo\.entry\(nbr\.clone\(\)\) \{` =>>
                scs_todo.upsert(cx, nbr);
    //@end
    //@endbody
}
//@undecided completeness (no cheaper repair exists; every least-cost success node is found): the closure of the explored set under `neighbours`, with nodes identified up to the merge relation, is not stated here
//@use prelude/tail.rs
