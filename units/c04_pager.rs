//@unit c04_pager props=C04,C02,C16,C15 widths=u32
//@use prelude/head.rs
//@use prelude/vob.rs
//@use prelude/grammar.rs

impl FromSpecImpl<StIdx<usize>> for usize { open spec fn obeys_from_spec() -> bool { true } open spec fn from_spec(s: StIdx<usize>) -> usize { s.0 } }
impl From<StIdx<usize>> for usize { fn from(s: StIdx<usize>) -> (r: usize) { s.0 } }
impl Vob { #[verifier::external_body] pub fn set_all(&mut self, b: bool) ensures final(self)@.len() == old(self)@.len(), forall|i: int| 0 <= i < old(self)@.len() ==> final(self)@[i] == b { unimplemented!() } }

// ---- item sets: a map from core items (production, dot) to lookahead sets ----
pub type Key = (PIdx<$T>, SIdx<$T>);
pub type IS = Map<Key, Seq<bool>>;
#[verifier::external_body] pub struct Firsts { _x: usize }
impl YaccGrammar { #[verifier::external_body] pub fn firsts(&self) -> (r: Firsts) { unimplemented!() } }

// every item names a production of the grammar with the dot inside it
pub open spec fn items_wf(g: &YaccGrammar, m: IS) -> bool {
    forall|k: Key| #[trigger] m.contains_key(k) ==> (k.0.0 as nat) < g.nprods() && k.1.0 <= g.prods()[k.0.0 as int].len()
}
// closure and transition of LR(1) item sets (itemset.rs close / goto): their definitions are not needed here
pub uninterp spec fn close_spec(g: &YaccGrammar, m: IS) -> IS;
pub uninterp spec fn goto_spec(g: &YaccGrammar, m: IS, sym: Symbol<$T>) -> IS;
// sym follows the dot of some item of m
pub open spec fn next_sym(g: &YaccGrammar, m: IS, sym: Symbol<$T>) -> bool {
    exists|k: Key| #[trigger] m.contains_key(k) && k.1.0 < g.prods()[k.0.0 as int].len() && g.prods()[k.0.0 as int][k.1.0 as int] == sym
}
// a has the core of b and at least its lookaheads
#[verifier::opaque]
pub open spec fn subsumes(a: IS, b: IS) -> bool {
    a.dom() =~= b.dom() && forall|k: Key, i: int| #![trigger b[k][i]] b.contains_key(k) && 0 <= i < b[k].len() && b[k][i] ==> i < a[k].len() && a[k][i]
}
pub proof fn lemma_subsumes_refl(a: IS) ensures subsumes(a, a) { reveal(subsumes); }
pub proof fn lemma_subsumes_trans(a: IS, b: IS, c: IS) requires subsumes(a, b), subsumes(b, c) ensures subsumes(a, c) { reveal(subsumes); }

#[verifier::external_body] pub struct Itemset { _x: usize }
impl Itemset {
    pub uninterp spec fn m(&self) -> IS;
    #[verifier::external_body] pub fn new(g: &YaccGrammar) -> (r: Itemset) ensures r.m() == Map::<Key, Seq<bool>>::empty() { unimplemented!() }
    #[verifier::external_body] pub fn add(&mut self, pidx: PIdx<$T>, dot: SIdx<$T>, ctx: &Vob) -> (r: bool)
        ensures final(self).m().dom() == old(self).m().dom().insert((pidx, dot)) { unimplemented!() }
    #[verifier::external_body] pub fn close(&self, g: &YaccGrammar, firsts: &Firsts) -> (r: Itemset)
        requires g.wf(), items_wf(g, self.m()),
        ensures r.m() == close_spec(g, self.m()), items_wf(g, r.m()) { unimplemented!() }
    #[verifier::external_body] pub fn goto(&self, g: &YaccGrammar, sym: &Symbol<$T>) -> (r: Itemset)
        requires g.wf(), items_wf(g, self.m()),
        ensures r.m() == goto_spec(g, self.m(), *sym), items_wf(g, r.m()) { unimplemented!() }
    // `a == b` (derived PartialEq on the map)
    #[verifier::external_body] pub fn eq(&self, other: &Itemset) -> (r: bool) ensures r == (self.m() == other.m()) { unimplemented!() }
    // unit c02_weakly: true exactly for Pager's condition, which includes having the same core
    #[verifier::external_body] pub fn weakly_compatible(&self, other: &Itemset) -> (r: bool) ensures r ==> self.m().dom() =~= other.m().dom() { unimplemented!() }
    // dialect rule 5: `.items.keys()` as an arbitrary-order duplicate-free list of the domain
    #[verifier::external_body] pub fn keys_vec(&self) -> (r: Vec<Key>)
        ensures r@.no_duplicates(), forall|k: Key| r@.contains(k) <==> self.m().contains_key(k) { unimplemented!() }
}
pub open spec fn cores(v: Seq<Itemset>) -> Seq<IS> { Seq::new(v.len(), |i: int| v[i].m()) }
// `core_states[k].weakly_merge(&nstate)`: pointwise union of the lookaheads of two item sets with the same core
// ("If other is not weakly compatible with self, this function's effects and return value are undefined")
#[verifier::external_body]
pub fn merge_at(v: &mut Vec<Itemset>, k: usize, other: &Itemset) -> (changed: bool)
    requires k < old(v)@.len(), // OBLG: C04.pager.state_index_in_range
             old(v)@[k as int].m().dom() =~= other.m().dom(), // OBLG: C02.pager.merge_only_states_with_the_same_core
    ensures final(v)@.len() == old(v)@.len(),
        forall|j: int| 0 <= j < old(v)@.len() && j != k ==> final(v)@[j] == old(v)@[j],
        subsumes(final(v)@[k as int].m(), old(v)@[k as int].m()), subsumes(final(v)@[k as int].m(), other.m()),
        final(v)@[k as int].m().dom() =~= old(v)@[k as int].m().dom(),
        !changed ==> final(v)@[k as int].m() == old(v)@[k as int].m(),
{ unimplemented!() }
// element i of a Vec<(Symbol, Itemset)> that is being drained from the front (the item set is an opaque handle: a copy)
#[verifier::external_body]
pub fn nth_drained(v: &Vec<(Symbol<$T>, Itemset)>, i: usize) -> (r: (Symbol<$T>, Itemset))
    requires i < v@.len() ensures r.0 == v@[i as int].0, r.1.m() == v@[i as int].1.m() { unimplemented!() }

// HashMap<Symbol, StIdx<usize>>
#[verifier::external_body] pub struct EdgeMap { _x: usize }
impl EdgeMap {
    pub uninterp spec fn m(&self) -> Map<Symbol<$T>, usize>;
    #[verifier::external_body] pub fn new() -> (r: EdgeMap) ensures r.m() == Map::<Symbol<$T>, usize>::empty() { unimplemented!() }
}
// `edges[i].insert(sym, st)`: overwrites
#[verifier::external_body]
pub fn edges_insert(v: &mut Vec<EdgeMap>, i: usize, sym: Symbol<$T>, st: StIdx<usize>)
    requires i < old(v)@.len(), // OBLG: C04.pager.state_index_in_range
    ensures final(v)@.len() == old(v)@.len(), final(v)@[i as int].m() == old(v)@[i as int].m().insert(sym, st.0),
        forall|j: int| 0 <= j < old(v)@.len() && j != i ==> final(v)@[j] == old(v)@[j],
{ unimplemented!() }
// `vec![Vec::new(); n]` and `v[i].push(x)`
#[verifier::external_body] pub fn vecvec_new(n: usize) -> (r: Vec<Vec<StIdx<usize>>>) ensures r@.len() == n, forall|i: int| 0 <= i < n ==> (#[trigger] r@[i])@.len() == 0 { unimplemented!() }
#[verifier::external_body]
pub fn vecvec_push(v: &mut Vec<Vec<StIdx<usize>>>, i: usize, x: StIdx<usize>)
    requires i < old(v)@.len(), // OBLG: C04.pager.symbol_index_in_range
    ensures final(v)@.len() == old(v)@.len(), final(v)@[i as int]@ == old(v)@[i as int]@.push(x),
        forall|j: int| 0 <= j < old(v)@.len() && j != i ==> final(v)@[j] == old(v)@[j],
{ unimplemented!() }
// `closed_states.iter().skip(off).position(Option::is_none)`
#[verifier::external_body]
pub fn first_none_from(v: &Vec<Option<Itemset>>, off: usize) -> (r: Option<usize>)
    ensures r matches Some(i) ==> off + i < v@.len() && v@[off + i] is None,
            r is None ==> forall|j: int| off <= j < v@.len() ==> v@[j] is Some,
{ unimplemented!() }

// ---------------- specification ----------------
pub open spec fn pending(c: Seq<Option<Itemset>>) -> nat
    decreases c.len()
{ if c.len() == 0 { 0 } else { pending(c.drop_last()) + (if c.last() is None { 1nat } else { 0nat }) } }
pub proof fn lemma_pending_exists(c: Seq<Option<Itemset>>)
    requires pending(c) > 0 ensures exists|i: int| 0 <= i < c.len() && c[i] is None
    decreases c.len()
{ if c.len() > 0 { if c.last() is None { assert(c[c.len() - 1] is None); } else { lemma_pending_exists(c.drop_last()); let i = choose|i: int| 0 <= i < c.drop_last().len() && c.drop_last()[i] is None; assert(c[i] is None); } } }
pub proof fn lemma_pending_update(c: Seq<Option<Itemset>>, i: int, x: Option<Itemset>)
    requires 0 <= i < c.len()
    ensures pending(c.update(i, x)) + (if c[i] is None { 1int } else { 0int }) == pending(c) + (if x is None { 1int } else { 0int })
    decreases c.len()
{
    let c2 = c.update(i, x);
    if i == c.len() - 1 { assert(c2.drop_last() =~= c.drop_last()); }
    else { assert(c2.drop_last() =~= c.drop_last().update(i, x)); lemma_pending_update(c.drop_last(), i, x); }
}
pub proof fn lemma_pending_push(c: Seq<Option<Itemset>>, x: Option<Itemset>)
    ensures pending(c.push(x)) == pending(c) + (if x is None { 1nat } else { 0nat })
{ assert(c.push(x).drop_last() =~= c); }

// the goto edges of one processed state: every symbol after a dot of its closed item set has an edge,
// and the edge leads to a state whose core item set subsumes the transition on that symbol
#[verifier::opaque]
pub open spec fn st_ok(g: &YaccGrammar, core: Seq<IS>, closed_s: IS, edges_s: Map<Symbol<$T>, usize>) -> bool {
    forall|sym: Symbol<$T>| #[trigger] next_sym(g, closed_s, sym) ==> edges_s.contains_key(sym) && edges_s[sym] < core.len() && subsumes(core[edges_s[sym] as int], goto_spec(g, closed_s, sym))
}
pub open spec fn grown(core0: Seq<IS>, core1: Seq<IS>) -> bool {
    core0.len() <= core1.len() && forall|t: int| 0 <= t < core0.len() ==> subsumes(#[trigger] core1[t], core0[t])
}
pub proof fn lemma_st_ok_grown(g: &YaccGrammar, core0: Seq<IS>, core1: Seq<IS>, closed_s: IS, edges_s: Map<Symbol<$T>, usize>)
    requires st_ok(g, core0, closed_s, edges_s), grown(core0, core1)
    ensures st_ok(g, core1, closed_s, edges_s)
{
    reveal(st_ok);
    assert forall|sym: Symbol<$T>| #[trigger] next_sym(g, closed_s, sym) implies edges_s.contains_key(sym) && edges_s[sym] < core1.len() && subsumes(core1[edges_s[sym] as int], goto_spec(g, closed_s, sym)) by {
        let t = edges_s[sym] as int;
        assert(subsumes(core1[t], core0[t]));
        lemma_subsumes_trans(core1[t], core0[t], goto_spec(g, closed_s, sym));
    }
}
// the automaton under construction: what holds of every state that is not waiting to be (re)processed
pub open spec fn graph_inv(g: &YaccGrammar, core: Seq<Itemset>, closed: Seq<Option<Itemset>>, edges: Seq<EdgeMap>) -> bool {
    &&& core.len() == closed.len() && core.len() == edges.len() && core.len() >= 1
    &&& forall|s: int| 0 <= s < core.len() ==> items_wf(g, (#[trigger] core[s]).m())
    &&& forall|s: int| 0 <= s < core.len() && (#[trigger] closed[s]) is Some ==> closed[s].unwrap().m() == close_spec(g, core[s].m()) && items_wf(g, closed[s].unwrap().m())
    &&& forall|s: int| 0 <= s < core.len() && (#[trigger] closed[s]) is Some ==> st_ok(g, cores(core), closed[s].unwrap().m(), edges[s].m())
    &&& forall|s: int, sym: Symbol<$T>| 0 <= s < core.len() && (#[trigger] edges[s].m().contains_key(sym)) ==> edges[s].m()[sym] < core.len()
}
// candidate lists only hold existing states
pub open spec fn cnds_ok(c: Seq<Vec<StIdx<usize>>>, n: int) -> bool { forall|i: int, j: int| 0 <= i < c.len() && 0 <= j < c[i]@.len() ==> (#[trigger] c[i]@[j]).0 < n }


pub proof fn lemma_pending_zero(c: Seq<Option<Itemset>>) requires pending(c) == 0 ensures forall|i: int| 0 <= i < c.len() ==> (#[trigger] c[i]) is Some decreases c.len()
{ if c.len() > 0 { lemma_pending_zero(c.drop_last()); assert forall|i: int| 0 <= i < c.len() implies (#[trigger] c[i]) is Some by { if i < c.len() - 1 { assert(c.drop_last()[i] is Some); } } } }
pub proof fn lemma_pending_le(c: Seq<Option<Itemset>>) ensures pending(c) <= c.len() decreases c.len() { if c.len() > 0 { lemma_pending_le(c.drop_last()); } }

// `closed_states[i] = x` and `closed_states.push(x)` with their effect on the number of unprocessed states (verified helpers:
// the dialect turns the assignments into these calls so that no proof text has to sit next to them)
pub fn closed_set(v: &mut Vec<Option<Itemset>>, i: usize, x: Option<Itemset>)
    requires i < old(v)@.len(), // OBLG: C04.pager.state_index_in_range
    ensures final(v)@ == old(v)@.update(i as int, x), pending(final(v)@) <= final(v)@.len(), final(v)@.len() <= usize::MAX,
        pending(final(v)@) + (if old(v)@[i as int] is None { 1int } else { 0int }) == pending(old(v)@) + (if x is None { 1int } else { 0int }),
{
    proof { lemma_pending_update(v@, i as int, x); }
    v[i] = x;
    proof { lemma_pending_le(v@); }
    let len_ = v.len();
}
pub fn closed_push(v: &mut Vec<Option<Itemset>>, x: Option<Itemset>)
    ensures final(v)@ == old(v)@.push(x), pending(final(v)@) <= final(v)@.len(), final(v)@.len() <= usize::MAX,
        pending(final(v)@) == pending(old(v)@) + (if x is None { 1nat } else { 0nat }),
{
    proof { lemma_pending_push(v@, x); }
    v.push(x);
    proof { lemma_pending_le(v@); }
    let len_ = v.len();
}
// `edges[i].entry(sym).or_insert(st)`: keeps an existing edge
#[verifier::external_body]
pub fn edges_or_insert(v: &mut Vec<EdgeMap>, i: usize, sym: Symbol<$T>, st: StIdx<usize>)
    requires i < old(v)@.len(), // OBLG: C04.pager.state_index_in_range
    ensures final(v)@.len() == old(v)@.len(), final(v)@[i as int].m() == (if old(v)@[i as int].m().contains_key(sym) { old(v)@[i as int].m() } else { old(v)@[i as int].m().insert(sym, st.0) }),
        forall|j: int| 0 <= j < old(v)@.len() && j != i ==> final(v)@[j] == old(v)@[j],
{ unimplemented!() }

// ---- the invariant of the transition loop of one state (state si, closed item set cl, transitions ns, the first ni handled) ----
pub type NS = Seq<(Symbol<$T>, Itemset)>;
pub open spec fn step_inv(g: &YaccGrammar, core: Seq<Itemset>, closed: Seq<Option<Itemset>>, edges: Seq<EdgeMap>, si: int, cl: IS, ns: NS, ni: int) -> bool {
    &&& 0 <= si < core.len() && core.len() == closed.len() && core.len() == edges.len() && 0 <= ni <= ns.len()
    &&& items_wf(g, cl)
    &&& forall|j: int| 0 <= j < ns.len() ==> next_sym(g, cl, (#[trigger] ns[j]).0) && ns[j].1.m() == goto_spec(g, cl, ns[j].0) && items_wf(g, ns[j].1.m())
    &&& forall|sym: Symbol<$T>| next_sym(g, cl, sym) ==> exists|j: int| 0 <= j < ns.len() && (#[trigger] ns[j]).0 == sym
    &&& (closed[si] matches Some(c) ==> c.m() == cl)
    &&& forall|s: int| 0 <= s < core.len() ==> items_wf(g, (#[trigger] core[s]).m())
    &&& forall|s: int| 0 <= s < core.len() && (#[trigger] closed[s]) is Some ==> closed[s].unwrap().m() == close_spec(g, core[s].m()) && items_wf(g, closed[s].unwrap().m())
    &&& forall|s: int| 0 <= s < core.len() && s != si && (#[trigger] closed[s]) is Some ==> st_ok(g, cores(core), closed[s].unwrap().m(), edges[s].m())
    &&& forall|s: int, sym: Symbol<$T>| 0 <= s < core.len() && (#[trigger] edges[s].m().contains_key(sym)) ==> edges[s].m()[sym] < core.len()
    &&& forall|j: int| 0 <= j < ni ==> edges[si].m().contains_key((#[trigger] ns[j]).0) && subsumes(core[edges[si].m()[ns[j].0] as int].m(), ns[j].1.m())
}
// the symbol of a transition is a symbol of the grammar
pub proof fn lemma_step_facts(g: &YaccGrammar, core: Seq<Itemset>, closed: Seq<Option<Itemset>>, edges: Seq<EdgeMap>, si: int, cl: IS, ns: NS, ni: int)
    requires g.wf(), step_inv(g, core, closed, edges, si, cl, ns, ni), 0 <= ni < ns.len()
    ensures match ns[ni].0 { Symbol::Rule(r) => (r.0 as nat) < g.nrules(), Symbol::Token(t) => (t.0 as nat) < g.ntok() }, items_wf(g, ns[ni].1.m())
{
    let sym = ns[ni].0;
    assert(next_sym(g, cl, sym));
    let k = choose|k: Key| #[trigger] cl.contains_key(k) && k.1.0 < g.prods()[k.0.0 as int].len() && g.prods()[k.0.0 as int][k.1.0 as int] == sym;
    assert(g.prods()[k.0.0 as int][k.1.0 as int] == sym);
}
pub open spec fn exact_done(core1: Seq<Itemset>, edges1: Seq<EdgeMap>, edges2: Seq<EdgeMap>, si: int, ns: NS, ni0: int) -> bool {
    exists|cnd: int| 0 <= cnd < core1.len() && (#[trigger] core1[cnd]).m() == ns[ni0].1.m() && edges2.len() == edges1.len()
        && edges2[si].m() == edges1[si].m().insert(ns[ni0].0, cnd as usize) && cnd as usize == cnd
        && (forall|j: int| 0 <= j < edges1.len() && j != si ==> edges2[j] == edges1[j])
}
// two transitions on the same symbol are the same item set
pub proof fn lemma_same_sym(g: &YaccGrammar, core: Seq<Itemset>, closed: Seq<Option<Itemset>>, edges: Seq<EdgeMap>, si: int, cl: IS, ns: NS, ni: int, a: int, b: int)
    requires step_inv(g, core, closed, edges, si, cl, ns, ni), 0 <= a < ns.len(), 0 <= b < ns.len(), ns[a].0 == ns[b].0
    ensures ns[a].1.m() == ns[b].1.m()
{ }
pub proof fn lemma_step_exact(g: &YaccGrammar, core1: Seq<Itemset>, edges1: Seq<EdgeMap>, edges2: Seq<EdgeMap>, closed1: Seq<Option<Itemset>>, si: int, cl: IS, ns: NS, ni0: int)
    requires step_inv(g, core1, closed1, edges1, si, cl, ns, ni0), 0 <= ni0 < ns.len(),
        exact_done(core1, edges1, edges2, si, ns, ni0), // OBLG: C04.pager.edge_is_overwritten_with_the_identical_state_found
    ensures step_inv(g, core1, closed1, edges2, si, cl, ns, ni0 + 1)
{
    let cnd = choose|cnd: int| 0 <= cnd < core1.len() && (#[trigger] core1[cnd]).m() == ns[ni0].1.m() && edges2.len() == edges1.len()
        && edges2[si].m() == edges1[si].m().insert(ns[ni0].0, cnd as usize) && cnd as usize == cnd
        && (forall|j: int| 0 <= j < edges1.len() && j != si ==> edges2[j] == edges1[j]);
    let sym = ns[ni0].0;
    lemma_subsumes_refl(core1[cnd].m());
    assert forall|j: int| 0 <= j < ni0 + 1 implies edges2[si].m().contains_key((#[trigger] ns[j]).0) && subsumes(core1[edges2[si].m()[ns[j].0] as int].m(), ns[j].1.m()) by {
        if ns[j].0 == sym { lemma_same_sym(g, core1, closed1, edges1, si, cl, ns, ni0, j, ni0); }
        else { assert(edges1[si].m().contains_key(ns[j].0)); }
    }
    assert forall|s: int, sy: Symbol<$T>| 0 <= s < core1.len() && (#[trigger] edges2[s].m().contains_key(sy)) implies edges2[s].m()[sy] < core1.len() by {
        if s == si { if sy != sym { assert(edges1[s].m().contains_key(sy)); } } else { assert(edges1[s].m().contains_key(sy)); }
    }
}
pub proof fn lemma_cores_grown_update(core1: Seq<Itemset>, core2: Seq<Itemset>, k: int)
    requires core2.len() == core1.len(), 0 <= k < core1.len(), forall|j: int| 0 <= j < core1.len() && j != k ==> core2[j] == core1[j], subsumes(core2[k].m(), core1[k].m())
    ensures grown(cores(core1), cores(core2))
{
    assert forall|t: int| 0 <= t < cores(core1).len() implies subsumes(#[trigger] cores(core2)[t], cores(core1)[t]) by {
        if t != k { lemma_subsumes_refl(core1[t].m()); }
    }
}
pub proof fn lemma_step_merge(g: &YaccGrammar, core1: Seq<Itemset>, core2: Seq<Itemset>, edges1: Seq<EdgeMap>, edges2: Seq<EdgeMap>, closed1: Seq<Option<Itemset>>, closed2: Seq<Option<Itemset>>, si: int, cl: IS, ns: NS, ni0: int, k: int)
    requires step_inv(g, core1, closed1, edges1, si, cl, ns, ni0), 0 <= ni0 < ns.len(), 0 <= k < core1.len(), k as usize == k,
        edges2.len() == edges1.len(), edges2[si].m() == edges1[si].m().insert(ns[ni0].0, k as usize), forall|j: int| 0 <= j < edges1.len() && j != si ==> edges2[j] == edges1[j], // OBLG: C04.pager.edge_is_overwritten_with_the_state_just_merged_into
        core2.len() == core1.len(), forall|j: int| 0 <= j < core1.len() && j != k ==> core2[j] == core1[j],
        subsumes(core2[k].m(), core1[k].m()), subsumes(core2[k].m(), ns[ni0].1.m()), core2[k].m().dom() =~= core1[k].m().dom(),
        closed2.len() == closed1.len(), forall|j: int| 0 <= j < closed1.len() && j != k ==> closed2[j] == closed1[j],
        closed2[k] == closed1[k] || closed2[k] is None,
        closed2[k] is Some ==> core2[k].m() == core1[k].m(), // OBLG: C04.pager.a_state_that_gained_lookaheads_is_queued_again
    ensures step_inv(g, core2, closed2, edges2, si, cl, ns, ni0 + 1)
{
    let sym = ns[ni0].0;
    lemma_cores_grown_update(core1, core2, k);
    assert forall|s: int| 0 <= s < core2.len() implies items_wf(g, (#[trigger] core2[s]).m()) by {
        if s == k { assert(items_wf(g, core1[k].m())); assert forall|kk: Key| #[trigger] core2[k].m().contains_key(kk) implies (kk.0.0 as nat) < g.nprods() && kk.1.0 <= g.prods()[kk.0.0 as int].len() by { assert(core1[k].m().contains_key(kk)); } }
        else { assert(items_wf(g, core1[s].m())); }
    }
    assert forall|s: int| 0 <= s < core2.len() && (#[trigger] closed2[s]) is Some implies closed2[s].unwrap().m() == close_spec(g, core2[s].m()) && items_wf(g, closed2[s].unwrap().m()) by {
        assert(closed1[s] is Some);
    }
    assert forall|s: int| 0 <= s < core2.len() && s != si && (#[trigger] closed2[s]) is Some implies st_ok(g, cores(core2), closed2[s].unwrap().m(), edges2[s].m()) by {
        assert(closed1[s] is Some);
        lemma_st_ok_grown(g, cores(core1), cores(core2), closed1[s].unwrap().m(), edges1[s].m());
    }
    assert forall|s: int, sy: Symbol<$T>| 0 <= s < core2.len() && (#[trigger] edges2[s].m().contains_key(sy)) implies edges2[s].m()[sy] < core2.len() by {
        if s == si { if sy != sym { assert(edges1[s].m().contains_key(sy)); } } else { assert(edges1[s].m().contains_key(sy)); }
    }
    assert forall|j: int| 0 <= j < ni0 + 1 implies edges2[si].m().contains_key((#[trigger] ns[j]).0) && subsumes(core2[edges2[si].m()[ns[j].0] as int].m(), ns[j].1.m()) by {
        if ns[j].0 == sym {
            lemma_same_sym(g, core1, closed1, edges1, si, cl, ns, ni0, j, ni0);
        } else {
            assert(edges1[si].m().contains_key(ns[j].0));
            let t = edges1[si].m()[ns[j].0] as int;
            if t == k { lemma_subsumes_trans(core2[k].m(), core1[k].m(), ns[j].1.m()); }
        }
    }
}
pub proof fn lemma_step_new(g: &YaccGrammar, core1: Seq<Itemset>, core2: Seq<Itemset>, edges1: Seq<EdgeMap>, edges2: Seq<EdgeMap>, closed1: Seq<Option<Itemset>>, closed2: Seq<Option<Itemset>>, si: int, cl: IS, ns: NS, ni0: int)
    requires step_inv(g, core1, closed1, edges1, si, cl, ns, ni0), 0 <= ni0 < ns.len(), core1.len() as usize == core1.len(),
        core2.len() == core1.len() + 1, forall|j: int| 0 <= j < core1.len() ==> core2[j] == core1[j], core2[core1.len() as int].m() == ns[ni0].1.m(),
        closed2.len() == closed1.len() + 1, forall|j: int| 0 <= j < closed1.len() ==> closed2[j] == closed1[j], closed2[closed1.len() as int] is None,
        edges2.len() == edges1.len() + 1, edges2[si].m() == edges1[si].m().insert(ns[ni0].0, core1.len() as usize), forall|j: int| 0 <= j < edges1.len() && j != si ==> edges2[j] == edges1[j], // OBLG: C04.pager.edge_is_overwritten_with_the_new_state
        edges2[edges1.len() as int].m() == Map::<Symbol<$T>, usize>::empty(),
    ensures step_inv(g, core2, closed2, edges2, si, cl, ns, ni0 + 1)
{
    let sym = ns[ni0].0;
    let n = core1.len() as int;
    assert(grown(cores(core1), cores(core2))) by {
        assert forall|t: int| 0 <= t < cores(core1).len() implies subsumes(#[trigger] cores(core2)[t], cores(core1)[t]) by { lemma_subsumes_refl(core1[t].m()); }
    }
    assert forall|s: int| 0 <= s < core2.len() implies items_wf(g, (#[trigger] core2[s]).m()) by { if s < n { assert(items_wf(g, core1[s].m())); } }
    assert forall|s: int| 0 <= s < core2.len() && (#[trigger] closed2[s]) is Some implies closed2[s].unwrap().m() == close_spec(g, core2[s].m()) && items_wf(g, closed2[s].unwrap().m()) by { assert(closed1[s] is Some); }
    assert forall|s: int| 0 <= s < core2.len() && s != si && (#[trigger] closed2[s]) is Some implies st_ok(g, cores(core2), closed2[s].unwrap().m(), edges2[s].m()) by {
        assert(closed1[s] is Some);
        lemma_st_ok_grown(g, cores(core1), cores(core2), closed1[s].unwrap().m(), edges1[s].m());
    }
    assert forall|s: int, sy: Symbol<$T>| 0 <= s < core2.len() && (#[trigger] edges2[s].m().contains_key(sy)) implies edges2[s].m()[sy] < core2.len() by {
        if s == n { } else if s == si { if sy != sym { assert(edges1[s].m().contains_key(sy)); } } else { assert(edges1[s].m().contains_key(sy)); }
    }
    lemma_subsumes_refl(ns[ni0].1.m());
    assert forall|j: int| 0 <= j < ni0 + 1 implies edges2[si].m().contains_key((#[trigger] ns[j]).0) && subsumes(core2[edges2[si].m()[ns[j].0] as int].m(), ns[j].1.m()) by {
        if ns[j].0 == sym { lemma_same_sym(g, core1, closed1, edges1, si, cl, ns, ni0, j, ni0); }
        else { assert(edges1[si].m().contains_key(ns[j].0)); }
    }
}

pub struct Built { pub core_states: Vec<Itemset>, pub closed_states: Vec<Option<Itemset>>, pub edges: Vec<EdgeMap> }

//@ctx pager_stategraph: the grammar is well formed (cfgrammar's numbering guarantees); termination of the work-list loop (Pager's argument: lookahead sets only grow within a finite lattice) is not decided: the function is checked for partial correctness
#[verifier::exec_allows_no_decreases_clause]
fn pager_stategraph(grm: &YaccGrammar) -> (r: Built)
    requires grm.wf(),
    ensures
        graph_inv(grm, r.core_states@, r.closed_states@, r.edges@), // OBL: C04.pager.every_edge_leads_to_a_state_subsuming_the_transition C02.pager.every_edge_leads_to_a_state_subsuming_the_transition C16.pager.closed_state_is_the_closure_of_its_core_state C15.pager.graph_invariant_holds_for_every_hash_map_order
        forall|s: int| 0 <= s < r.closed_states@.len() ==> (#[trigger] r.closed_states@[s]) is Some, // OBL: C04.pager.no_state_left_unprocessed C02.pager.no_state_left_unprocessed
{
    //@probe
    //@body file=lrtable/src/lib/pager.rs fn=pager_stategraph block=`^\s*let firsts = grm\.firsts\(\);$` endx=`^\s*let \(gc_states, gc_edges\) = gc\($`
    //@rule n=* `^(\s*)closed_states\[([^\]]+)\] = (.+);$` => `\1closed_set(&mut closed_states, \2, \3);`
    //@rule n=* `^(\s*)closed_states\.push\((.+)\);$` => `\1closed_push(&mut closed_states, \2);`
    //@rule n=1 `let mut closed_states = Vec::new\(\);` => `let mut closed_states: Vec<Option<Itemset>> = Vec::new();`
    //@rule n=1 `let mut core_states = Vec::new\(\);` => `let mut core_states: Vec<Itemset> = Vec::new();`
    //@rule n=1 `let mut edges: Vec<HashMap<Symbol<\$T>, StIdx<usize>>> = Vec::new\(\);` => `let mut edges: Vec<EdgeMap> = Vec::new();`
    //@rule n=* `HashMap::new\(\)` => `EdgeMap::new()`
    //@rule n=1 `let mut new_states = Vec::new\(\);` => `let mut new_states: Vec<(Symbol<$T>, Itemset)> = Vec::new();`
    //@rule n=1 `SIdx\(\(0 as \$T\)\)` => `SIdx(0 as $T)`
    //@rule n=1 `^(\s*)edges\.push\(EdgeMap::new\(\)\);\n\n` =>>
    edges.push(EdgeMap::new());
    proof {
        reveal(st_ok);
        assert(items_wf(grm, core_states@[0].m())) by { assert(core_states@[0].m().dom() =~= Set::<Key>::empty().insert((grm.startp(), SIdx(0 as $T)))); }
    }

    //@end
    //@rule n=1 `let mut cnd_rule_weaklies: Vec<Vec<StIdx<usize>>> =\s*vec!\[Vec::new\(\); usize::from\(grm\.rules_len\(\)\)\];` => `let mut cnd_rule_weaklies: Vec<Vec<StIdx<usize>>> = vecvec_new(usize::from(grm.rules_len()));`
    //@rule n=1 `let mut cnd_token_weaklies: Vec<Vec<StIdx<usize>>> =\s*vec!\[Vec::new\(\); usize::from\(grm\.tokens_len\(\)\)\.checked_add\(1\)\.unwrap\(\)\];` => `let mut cnd_token_weaklies: Vec<Vec<StIdx<usize>>> = vecvec_new(usize::from(grm.tokens_len()).checked_add(1).unwrap());`
    //@rule n=1 `let mut todo = 1;` => `let mut todo: usize = 1;`
    //@rule n=1 `let mut todo_off = 0;` => `let mut todo_off: usize = 0;`
    //@rule n=1 `^(\s*)while todo > 0 \{$` =>>
    while todo > 0
        invariant grm.wf(), graph_inv(grm, core_states@, closed_states@, edges@), todo == pending(closed_states@), // OBL: C04.pager.todo_counts_the_unprocessed_states C02.pager.todo_counts_the_unprocessed_states C16.pager.todo_counts_the_unprocessed_states
            new_states@.len() == 0, seen_rules@.len() == grm.nrules(), seen_tokens@.len() == grm.ntok(),
            cnd_rule_weaklies@.len() == grm.nrules(), cnd_token_weaklies@.len() == grm.ntok() + 1,
            cnds_ok(cnd_rule_weaklies@, core_states@.len() as int), cnds_ok(cnd_token_weaklies@, core_states@.len() as int),
    {
        //@probe
        proof { lemma_pending_exists(closed_states@); }
    //@end
    //@rule n=2 `debug_assert_eq!\(core_states\.len\(\), closed_states\.len\(\)\);` => `assert(core_states.len() == closed_states.len());`
    //@rule n=1 `closed_states\s*\.iter\(\)\s*\.skip\(todo_off\)\s*\.position\(Option::is_none\)` => `first_none_from(&closed_states, todo_off)`
    //@rule n=1 `closed_states\.iter\(\)\.position\(Option::is_none\)` => `first_none_from(&closed_states, 0)`
    //@rule n=1 `^(\s*)todo -= 1;$` =>>
        todo -= 1;
        let ghost core0_ = core_states@;
        let ghost mut cl: IS = Map::empty();
    //@end
    // (inserted after the key loop, inside the block that holds cl_state) phase 1 saw every symbol that follows a dot of the closed state
    //@after n=1 `^\s*for &\(pidx, dot\) in cl_state\.items\.keys\(\) \{` =>>
            proof {
                assert forall|sym: Symbol<$T>| next_sym(grm, cl, sym) implies exists|j: int| 0 <= j < new_states@.len() && new_states@[j].0 == sym by {
                    let k = choose|k: Key| #[trigger] cl.contains_key(k) && k.1.0 < grm.prods()[k.0.0 as int].len() && grm.prods()[k.0.0 as int][k.1.0 as int] == sym;
                    assert(keys_@.contains(k));
                    let q = choose|q: int| 0 <= q < keys_@.len() && keys_@[q] == k;
                    assert(keys_@[q].1.0 < grm.prods()[keys_@[q].0.0 as int].len());
                }
            }
    //@end
    // (inserted after the transition loop) `drain(..)` leaves the vector empty; the processed state now satisfies the graph invariant
    //@after n=1 `^\s*'a: for \(sym, nstate\) in new_states\.drain\(\.\.\) \{` =>>
        new_states.clear();
        proof {
            if closed_states@[state_i as int] is Some {
                reveal(st_ok);
                assert forall|sym: Symbol<$T>| #[trigger] next_sym(grm, cl, sym) implies edges@[state_i as int].m().contains_key(sym) && edges@[state_i as int].m()[sym] < cores(core_states@).len()
                        && subsumes(cores(core_states@)[edges@[state_i as int].m()[sym] as int], goto_spec(grm, cl, sym)) by {
                    let j = choose|j: int| 0 <= j < nsg_.len() && nsg_[j].0 == sym;
                    assert(edges@[state_i as int].m().contains_key(nsg_[j].0));
                }
            }
        }
    //@end
    //@rule n=* `&closed_states\[state_i\]\.as_ref\(\)\.unwrap\(\)` => `closed_states[state_i].as_ref().unwrap()`
    //@rule n=1 `^(\s*)let cl_state = (.+);$` => `\1let cl_state = \2;\n\1proof { cl = cl_state.m(); }`
    // dialect rule 5 + index loop: `for &(pidx, dot) in cl_state.items.keys()`
    //@rule n=1 `^(\s*)for &\(pidx, dot\) in cl_state\.items\.keys\(\) \{$` =>>
            let keys_ = cl_state.keys_vec();
            let mut ki_: usize = 0;
            while ki_ < keys_.len()
                invariant ki_ <= keys_@.len(), grm.wf(), items_wf(grm, cl), cl == cl_state.m(),
                    forall|k: Key| keys_@.contains(k) <==> cl.contains_key(k),
                    seen_rules@.len() == grm.nrules(), seen_tokens@.len() == grm.ntok(),
                    forall|j: int| 0 <= j < new_states@.len() ==> next_sym(grm, cl, (#[trigger] new_states@[j]).0) && new_states@[j].1.m() == goto_spec(grm, cl, new_states@[j].0) && items_wf(grm, new_states@[j].1.m()),
                    forall|rr: int| 0 <= rr < grm.nrules() ==> (#[trigger] seen_rules@[rr] <==> exists|j: int| 0 <= j < new_states@.len() && new_states@[j].0 == Symbol::Rule(RIdx(rr as $T))),
                    forall|tt: int| 0 <= tt < grm.ntok() ==> (#[trigger] seen_tokens@[tt] <==> exists|j: int| 0 <= j < new_states@.len() && new_states@[j].0 == Symbol::Token(TIdx(tt as $T))),
                    forall|q: int| 0 <= q < ki_ && (#[trigger] keys_@[q]).1.0 < grm.prods()[keys_@[q].0.0 as int].len() ==> exists|j: int| 0 <= j < new_states@.len() && new_states@[j].0 == grm.prods()[keys_@[q].0.0 as int][keys_@[q].1.0 as int], // OBL: C04.pager.every_symbol_after_a_dot_gets_a_transition
                decreases keys_@.len() - ki_,
            {
                //@probe
                let (pidx, dot) = keys_[ki_];
                let ghost ki0_ = ki_ as int;
                ki_ = ki_ + 1;
                proof { assert(keys_@.contains(keys_@[ki0_])); assert(cl.contains_key((pidx, dot))); }
    //@end
    // dialect: the derived `==` of the index newtypes compares the numbers
    //@rule n=1 `if dot == grm\.prod_len\(pidx\) \{` => `if dot.0 == grm.prod_len(pidx).0 {`
    //@rule n=1 `seen_rules\[usize::from\(s_ridx\)\]` => `seen_rules.index(usize::from(s_ridx))`
    //@rule n=1 `seen_tokens\[usize::from\(s_tidx\)\]` => `seen_tokens.index(usize::from(s_tidx))`
    //@rule n=1 `^(\s*)new_states\.push\(\(sym, nstate\)\);` =>>
                proof { assert(next_sym(grm, cl, sym)); }
                let ghost ns0_ = new_states@;
                new_states.push((sym, nstate));
                proof {
                    assert forall|j: int| 0 <= j < ns0_.len() implies new_states@[j] == ns0_[j] by { }
                    assert(new_states@[ns0_.len() as int].0 == sym);
                }
    //@end
    // dialect: `'a: for (sym, nstate) in new_states.drain(..)` as an index loop over the drained elements (cleared afterwards); `continue 'a` from the inner loop as a flag + break
    //@rule n=1 `^(\s*)'a: for \(sym, nstate\) in new_states\.drain\(\.\.\) \{$` =>>
        let ghost nsg_ = new_states@;
        let mut ni_: usize = 0;
        while ni_ < new_states.len()
            invariant ni_ <= new_states@.len(), nsg_ == new_states@, grm.wf(), state_i < core_states@.len(), items_wf(grm, cl),
                core_states@.len() == closed_states@.len(), core_states@.len() == edges@.len(),
                todo == pending(closed_states@), seen_rules@.len() == grm.nrules(), seen_tokens@.len() == grm.ntok(),
                cnd_rule_weaklies@.len() == grm.nrules(), cnd_token_weaklies@.len() == grm.ntok() + 1,
                cnds_ok(cnd_rule_weaklies@, core_states@.len() as int), cnds_ok(cnd_token_weaklies@, core_states@.len() as int),
                step_inv(grm, core_states@, closed_states@, edges@, state_i as int, cl, nsg_, ni_ as int), // OBL: C04.pager.edge_of_the_state_being_processed_is_the_one_just_chosen C02.pager.edge_of_the_state_being_processed_is_the_one_just_chosen
        {
            //@probe
            let (sym, nstate) = nth_drained(&new_states, ni_);
            let ghost ni0_ = ni_ as int;
            ni_ = ni_ + 1;
            let mut matched_ = false;
            let ghost core1_ = core_states@;
            let ghost edges1_ = edges@;
            let ghost closed1_ = closed_states@;
            proof { lemma_pending_le(closed_states@); lemma_step_facts(grm, core1_, closed1_, edges1_, state_i as int, cl, nsg_, ni0_); }
    //@end
    //@rule n=1 `let mut m = None;` => `let mut m: Option<StIdx<usize>> = None;`
    // after the exact-match loop: `continue 'a` happened iff matched_
    //@after n=1 nth=1 `^\s*for cnd in cnd_states\.iter\(\)\.cloned\(\) \{` =>>
                if matched_ {
                    proof { lemma_step_exact(grm, core1_, edges1_, edges@, closed1_, state_i as int, cl, nsg_, ni0_); }
                    continue;
                }
    //@end
    //@rule n=1 `^(\s*)for cnd in cnd_states\.iter\(\)\.cloned\(\) \{\n(\s*)if core_states\[usize::from\(cnd\)\] == nstate \{` =>>
                let mut c1_: usize = 0;
                while c1_ < cnd_states.len()
                    invariant_except_break c1_ <= cnd_states@.len(), !matched_, edges@ == edges1_,
                    invariant core_states@ == core1_, closed_states@ == closed1_, state_i < edges1_.len(), edges1_.len() == core1_.len(), nstate.m() == nsg_[ni0_].1.m(), sym == nsg_[ni0_].0,
                        forall|j: int| 0 <= j < cnd_states@.len() ==> (#[trigger] cnd_states@[j]).0 < core_states@.len(),
                    ensures matched_ ==> exact_done(core1_, edges1_, edges@, state_i as int, nsg_, ni0_),
                        !matched_ ==> edges@ == edges1_,
                    decreases cnd_states@.len() - c1_,
                {
                    //@probe
                    let cnd = cnd_states[c1_];
                    c1_ = c1_ + 1;
                    if core_states[usize::from(cnd)].eq(&nstate) {
    //@end
    //@rule n=1 `continue 'a;` => `matched_ = true; proof { assert(exact_done(core1_, edges1_, edges@, state_i as int, nsg_, ni0_)) by { assert(edges@[state_i as int].m() == edges1_[state_i as int].m().insert(nsg_[ni0_].0, cnd.0)); } } break;`
    //@rule n=1 `^(\s*)for cnd in cnd_states\.iter\(\)\.cloned\(\) \{\n(\s*)if core_states\[usize::from\(cnd\)\]\.weakly_compatible\(&nstate\) \{` =>>
                let mut c2_: usize = 0;
                while c2_ < cnd_states.len()
                    invariant_except_break c2_ <= cnd_states@.len(), m is None,
                    invariant core_states@ == core1_, forall|j: int| 0 <= j < cnd_states@.len() ==> (#[trigger] cnd_states@[j]).0 < core_states@.len(),
                    ensures m matches Some(k) ==> k.0 < core1_.len() && core1_[k.0 as int].m().dom() =~= nstate.m().dom(),
                    decreases cnd_states@.len() - c2_,
                {
                    //@probe
                    let cnd = cnd_states[c2_];
                    c2_ = c2_ + 1;
                    if core_states[usize::from(cnd)].weakly_compatible(&nstate) {
    //@end
    //@rule n=* `edges\[state_i\]\.insert\((\w+), (\w+)\);` => `edges_insert(&mut edges, state_i, \1, \2);`
    //@rule n=* `edges\[state_i\]\.entry\((\w+)\)\.or_insert\((\w+)\);` => `edges_or_insert(&mut edges, state_i, \1, \2);`
    //@rule n=1 `core_states\[usize::from\(k\)\]\.weakly_merge\(&nstate\)` => `merge_at(&mut core_states, usize::from(k), &nstate)`
    //@rule n=1 `cnd_rule_weaklies\[usize::from\(s_ridx\)\]\.push\(stidx\);` => `vecvec_push(&mut cnd_rule_weaklies, usize::from(s_ridx), stidx);`
    //@rule n=1 `cnd_token_weaklies\[usize::from\(s_tidx\)\]\.push\(stidx\);` => `vecvec_push(&mut cnd_token_weaklies, usize::from(s_tidx), stidx);`
    // proof glue at the end of the two arms of `match m`
    //@after n=1 `^\s*if merge_at\(&mut core_states, usize::from\(k\), &nstate\) \{` =>>
                    proof { lemma_step_merge(grm, core1_, core_states@, edges1_, edges@, closed1_, closed_states@, state_i as int, cl, nsg_, ni0_, k.0 as int); }
    //@end
    //@rule n=1 `^(\s*)core_states\.push\(nstate\);\n(\s*)todo \+= 1;` =>>
                    core_states.push(nstate);
                    todo += 1;
                    proof {
                        lemma_step_new(grm, core1_, core_states@, edges1_, edges@, closed1_, closed_states@, state_i as int, cl, nsg_, ni0_);
                    }
    //@end
    //@endbody
    proof { lemma_pending_zero(closed_states@); }
    Built { core_states, closed_states, edges }
}
//@undecided termination of the work list; close()/goto() are uninterpreted (itemset.rs is not under contract); that weak compatibility preserves LR(1)-ness (Pager's theorem) is not decided
//@use prelude/tail.rs
