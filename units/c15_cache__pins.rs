//@unit c15_cache__pins props=C15 widths=u32
//@use prelude/head.rs
// not under contract: the code generator of CTParserBuilder (judged by the two-build comparison of the c15 sweep when one changes)
//@pin file=lrpar/src/lib/ctbuilder.rs fn=rebuild_cache sha=e44754e1d257e7f4
//@pin file=lrpar/src/lib/ctbuilder.rs fn=gen_parse_function sha=7307bea4a3a81cf1
//@pin file=lrpar/src/lib/ctbuilder.rs fn=gen_rule_consts sha=a7b100393ce23f1a
//@pin file=lrpar/src/lib/ctbuilder.rs fn=gen_token_epp sha=5dbc290e78500f96
//@pin file=lrpar/src/lib/ctbuilder.rs fn=gen_user_actions sha=fa059b4980ab20d9
//@pin file=lrpar/src/lib/ctbuilder.rs fn=gen_wrappers sha=c7a1a043cccc2e33
//@pin file=lrpar/src/lib/ctbuilder.rs fn=build sha=e5a3f0ca186519b7
//@use prelude/tail.rs
