//@unit c02_weakly props=C02,C15 widths=u32
//@use prelude/head.rs
//@use prelude/vob.rs

pub type Key = (PIdx<$T>, SIdx<$T>);
// Itemset.items: HashMap<(PIdx, SIdx), Vob> with an FNV hasher.  Only the map view matters;
// iteration order is NOT specified (keys_vec returns the keys in an arbitrary order).
#[verifier::external_body] pub struct ItemMap { _x: usize }
impl ItemMap {
    pub uninterp spec fn m(&self) -> Map<Key, Seq<bool>>;
    #[verifier::external_body]
    pub fn len(&self) -> (r: usize) ensures r == self.m().len(), self.m().dom().finite() { unimplemented!() }
    #[verifier::external_body]
    pub fn contains_key(&self, k: &Key) -> (r: bool) ensures r == self.m().contains_key(*k) { unimplemented!() }
    // `map[&k]` panics when the key is missing
    #[verifier::external_body]
    pub fn idx(&self, k: &Key) -> (r: &Vob)
        requires self.m().contains_key(*k), // OBLG: C02.item_lookup_key_present
        ensures r@ == self.m()[*k]
    { unimplemented!() }
    // dialect rule 5: `.keys()` as an arbitrary-order duplicate-free list of the domain
    #[verifier::external_body]
    pub fn keys_vec(&self) -> (r: Vec<Key>)
        ensures r@.len() == self.m().len(), r@.no_duplicates(), forall|k: Key| r@.contains(k) <==> self.m().contains_key(k)
    { unimplemented!() }
}
pub struct Itemset { pub items: ItemMap }

// vob_intersect: "two identically sized bitvecs intersect": contract proved in unit c02_merge (word level)
pub open spec fn inter(a: Seq<bool>, b: Seq<bool>) -> bool { exists|i: int| 0 <= i < a.len() && i < b.len() && a[i] && b[i] }
#[verifier::external_body]
fn vob_intersect(v1: &Vob, v2: &Vob) -> (r: bool) ensures r == inter(v1@, v2@) { unimplemented!() }

// ---------------- specification: Pager's weak compatibility (Pager 1977 p.255, Chen 2009 p.50) ----------------
pub open spec fn same_core(s: Map<Key, Seq<bool>>, o: Map<Key, Seq<bool>>) -> bool { s.dom() =~= o.dom() }
// for two core items i != j: their contexts do not cross (1), or they already share a
// lookahead inside one of the two states (2, 3)
pub open spec fn pair_ok(s: Map<Key, Seq<bool>>, o: Map<Key, Seq<bool>>, i: Key, j: Key) -> bool {
    !(inter(s[i], o[j]) || inter(s[j], o[i])) || inter(s[i], s[j]) || inter(o[i], o[j])
}
pub open spec fn weakly_compatible_spec(s: Map<Key, Seq<bool>>, o: Map<Key, Seq<bool>>) -> bool {
    same_core(s, o) && forall|i: Key, j: Key| s.contains_key(i) && s.contains_key(j) && i != j ==> #[trigger] pair_ok(s, o, i, j)
}
pub proof fn lemma_pair_sym(s: Map<Key, Seq<bool>>, o: Map<Key, Seq<bool>>, i: Key, j: Key)
    ensures pair_ok(s, o, i, j) == pair_ok(s, o, j, i)
{ }
pub proof fn lemma_len1(S: Set<Key>, i: Key, j: Key)
    requires S.finite(), S.len() == 1, S.contains(i), S.contains(j)
    ensures i == j
{
    if i != j {
        let T = S.remove(i);
        assert(T.len() == 0);
        assert(T.contains(j));
        let U = T.remove(j);
        assert(U.len() == T.len() - 1);
    }
}
pub proof fn lemma_same_dom(s: Map<Key, Seq<bool>>, o: Map<Key, Seq<bool>>)
    requires s.dom().finite(), o.dom().finite(), s.len() == o.len(), forall|k: Key| s.contains_key(k) ==> o.contains_key(k)
    ensures s.dom() =~= o.dom()
{
    vstd::set_lib::lemma_subset_equality(s.dom(), o.dom());
}

impl Itemset {
    //@ctx weakly_compatible: item sets are never empty (every state has at least one core item); with an empty one `len - 1` would underflow
    fn weakly_compatible(&self, other: &Itemset) -> (r: bool)
        requires self.items.m().len() >= 1,
        ensures r == weakly_compatible_spec(self.items.m(), other.items.m()), // OBL: C02.weakly_compatible_is_pagers_condition_for_every_key_order C15.weakly_compatible_independent_of_hash_order
    {
        //@probe
        let ghost s = self.items.m();
        let ghost o = other.items.m();
        //@body file=lrtable/src/lib/pager.rs fn=weakly_compatible
        //@rule n=1 `^(\s*)for &\(pidx, dot\) in self\.items\.keys\(\) \{$` =>>
        let ks0_ = self.items.keys_vec();
        for ki_ in 0..ks0_.len()
            invariant s == self.items.m(), o == other.items.m(), ks0_@.len() == s.len(), forall|k: Key| ks0_@.contains(k) <==> s.contains_key(k),
                forall|q: int| 0 <= q < ki_ ==> o.contains_key(#[trigger] ks0_@[q]),
        {
            //@probe
            let (pidx, dot) = ks0_[ki_];
            proof { assert(ks0_@.contains(ks0_@[ki_ as int])); }
        //@end
        //@rule n=1 `^(\s*)if len == 1 \{$` =>>
        proof {
            // every key of self is a key of other and the sizes agree: the cores are the same
            assert forall|k: Key| s.contains_key(k) implies o.contains_key(k) by {
                assert(ks0_@.contains(k));
                let q = choose|q: int| 0 <= q < ks0_@.len() && ks0_@[q] == k;
                assert(o.contains_key(ks0_@[q]));
            }
            lemma_same_dom(s, o);
        }
        if len == 1 {
        //@end
        //@rule n=1 `^(\s*)return true;\n(\s*)\}\n` =>>
            proof {
                // a single core item: there are no pairs
                assert forall|i: Key, j: Key| s.contains_key(i) && s.contains_key(j) && i != j implies #[trigger] pair_ok(s, o, i, j) by {
                    if s.contains_key(i) && s.contains_key(j) && i != j {
                        assert(s.dom().contains(i) && s.dom().contains(j));
                        lemma_len1(s.dom(), i, j);
                    }
                }
            }
            return true;
        }
        //@end
        //@rule n=1 `let keys: Vec<_> = self\.items\.keys\(\)\.collect\(\);` => `let keys = self.items.keys_vec();`
        //@rule n=1 `^(\s*)for \(i, i_key\) in keys\.iter\(\)\.enumerate\(\)\.take\(len - 1\) \{$` =>>
        let mut i_next_: usize = 0;
        while i_next_ < len - 1
            invariant s == self.items.m(), o == other.items.m(), same_core(s, o), len == s.len(), len >= 1,
                keys@.len() == len, keys@.no_duplicates(), forall|k: Key| keys@.contains(k) <==> s.contains_key(k), i_next_ <= len - 1,
                forall|a: int, b: int| 0 <= a < i_next_ && a < b < len ==> #[trigger] pair_ok(s, o, keys@[a], keys@[b]), // OBL: C02.weakly_compatible.all_pairs_checked
            decreases len - 1 - i_next_,
        {
            //@probe
            let i = i_next_;
            i_next_ = i_next_ + 1;
            let i_key = &keys[i];
            proof { assert(keys@.contains(keys@[i as int])); }
        //@end
        //@rule n=1 `^(\s*)for j_key in keys\.iter\(\)\.take\(len\)\.skip\(i \+ 1\) \{$` =>>
            let mut j_next_: usize = i + 1;
            while j_next_ < len
                invariant s == self.items.m(), o == other.items.m(), same_core(s, o), len == s.len(), i < len - 1,
                    keys@.len() == len, keys@.no_duplicates(), forall|k: Key| keys@.contains(k) <==> s.contains_key(k), i < j_next_ <= len,
                    *i_key == keys@[i as int], s.contains_key(*i_key), o.contains_key(*i_key),
                    forall|b: int| i < b < j_next_ ==> #[trigger] pair_ok(s, o, keys@[i as int], keys@[b]),
                decreases len - j_next_,
            {
                //@probe
                let j_key = &keys[j_next_];
                let ghost jj = j_next_ as int;
                j_next_ = j_next_ + 1;
                proof { assert(keys@.contains(keys@[jj])); assert(s.dom().contains(*j_key) && o.dom().contains(*j_key)); }
        //@end
        //@rule n=* `(self|other)\.items\[\*(\w+)\]` => `\1.items.idx(\2)`
        //@rule n=1 `^(\s*)return false;\n(\s*)\}\n(\s*)\}\n\n(\s*)true\n` =>>
                proof {
                    // a pair violating Pager's condition: not weakly compatible, whatever the order
                    assert(!pair_ok(s, o, *i_key, *j_key));
                    assert(*i_key != *j_key) by { assert(keys@[i as int] != keys@[jj]); }
                }
                return false;
            }
        }
        proof {
            assert forall|x: Key, y: Key| s.contains_key(x) && s.contains_key(y) && x != y implies #[trigger] pair_ok(s, o, x, y) by {
                if s.contains_key(x) && s.contains_key(y) && x != y {
                    assert(keys@.contains(x) && keys@.contains(y));
                    let a = choose|a: int| 0 <= a < keys@.len() && keys@[a] == x;
                    let b = choose|b: int| 0 <= b < keys@.len() && keys@[b] == y;
                    if a < b { assert(pair_ok(s, o, keys@[a], keys@[b])); }
                    else { assert(pair_ok(s, o, keys@[b], keys@[a])); lemma_pair_sym(s, o, x, y); }
                }
            }
        }
        true
        //@end
        //@endbody
    }
}
//@use prelude/tail.rs
