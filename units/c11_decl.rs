//@unit c11_decl props=C11,C12,C09 widths=u32
//@use prelude/head.rs
//@use prelude/strs.rs

// ---- declarations section: %s / %x lines ----
// What the two declaration regexes (pinned below) say about a word: 1 for ^%[sS][a-zA-Z0-9]*$,
// 2 for ^%[xX][a-zA-Z0-9]*$, 0 otherwise.  POSIX: an s-word declares inclusive start
// conditions, an x-word exclusive ones.
pub uninterp spec fn decl_kind(off: int, len: int) -> int;
//@expect file=lrlex/src/lib/parser.rs re=`static RE_INCLUSIVE_START_STATE_DECLARATION: LazyLock<Regex> =\s*LazyLock::new\(\|\| Regex::new\(r"\^%\[sS\]\[a-zA-Z0-9\]\*\$"\)\.unwrap\(\)\);`
//@expect file=lrlex/src/lib/parser.rs re=`static RE_EXCLUSIVE_START_STATE_DECLARATION: LazyLock<Regex> =\s*LazyLock::new\(\|\| Regex::new\(r"\^%\[xX\]\[a-zA-Z0-9\]\*\$"\)\.unwrap\(\)\);`
#[verifier::external_body] pub fn re_inclusive_decl(d: Str) -> (r: bool) ensures r == (decl_kind(d.off as int, d.len as int) == 1), r ==> d.len >= 2 { unimplemented!() }
#[verifier::external_body] pub fn re_exclusive_decl(d: Str) -> (r: bool) ensures r == (decl_kind(d.off as int, d.len as int) == 2), r ==> d.len >= 2 { unimplemented!() }
pub uninterp spec fn trim_end_len(off: int, len: int) -> int;     // length left by trim_end_matches(whitespace)
pub uninterp spec fn first_ws(off: int, len: int) -> Option<int>; // RE_WS.find(..).map(start)
pub uninterp spec fn line_len_spec(i: int) -> int;                // distance from i to the next line separator (or the end)
impl Str {
    #[verifier::external_body] pub fn trim_end_ws(&self) -> (r: Str) ensures r.off == self.off, r.len == trim_end_len(self.off as int, self.len as int), r.len <= self.len { unimplemented!() }
    // trim_matches(whitespace): a sub-slice
    #[verifier::external_body] pub fn trim_ws(&self) -> (r: Str) ensures self.off <= r.off, r.off + r.len <= self.off + self.len { unimplemented!() }
    #[verifier::external_body] pub fn find_ws(&self) -> (r: Option<usize>) ensures (r is None) == (first_ws(self.off as int, self.len as int) is None), r matches Some(j) ==> j < self.len && first_ws(self.off as int, self.len as int) == Some(j as int) { unimplemented!() }
    pub fn is_empty(&self) -> (r: bool) ensures r == (self.len == 0) { self.len == 0 }
    // RE_WS.split(s): the maximal pieces between white-space characters, in order; consecutive
    // pieces are separated by at least one byte
    #[verifier::external_body] pub fn split_ws(&self) -> (r: Vec<Str>)
        ensures r@.len() >= 1, forall|k: int| 0 <= k < r@.len() ==> self.off <= (#[trigger] r@[k]).off && r@[k].off + r@[k].len <= self.off + self.len,
                forall|k: int| 0 <= k < r@.len() - 1 ==> (#[trigger] r@[k]).off + r@[k].len < r@[k + 1].off,
    { unimplemented!() }
}
pub struct StartStateD { pub id: usize, pub name: Str, pub exclusive: bool, pub name_span: Span }
impl StartStateD { pub fn new(id: usize, name: Str, exclusive: bool, name_span: Span) -> (r: StartStateD) ensures r.id == id, r.name == name, r.exclusive == exclusive, r.name_span == name_span { StartStateD { id, name, exclusive, name_span } } }
pub open spec fn reads(sp: Span, n: Str) -> bool { sp.st == n.off && sp.en == n.off + n.len }
pub struct DeclParser { pub slen: usize, pub start_states: Vec<StartStateD>, pub decl_log: Ghost<Seq<(bool, usize, usize, usize)>> }
impl DeclParser {
    pub fn mk_error(&self, kind: LexErrorKind, off: usize) -> (r: LexBuildError) { LexBuildError { kind, spans: vec![Span::new(off, off)] } }
    #[verifier::external_body] pub fn line_len_at(&self, i: usize) -> (r: usize) requires i <= self.slen ensures r <= self.slen - i, r == line_len_spec(i as int) { unimplemented!() }
    pub fn src_sl(&self, a: usize, b: usize) -> (r: Str)
        requires a <= b, b <= self.slen, // OBLG: C11.slice_range_in_range
        ensures r.off == a, r.len == b - a
    { Str { off: a, len: b - a } }
    // the span handed over is where errors about this name will point: it has to read the name
    #[verifier::external_body] pub fn validate_start_state(&self, span: Span, name: Str, errs: &mut Vec<LexBuildError>) -> (r: Result<bool, LexBuildError>)
        requires reads(span, name), // OBLG: C11.start_state_name_span_reads_the_name_in_the_source
    { unimplemented!() }
    #[verifier::external_body] pub fn parse_ws(&self, i: usize) -> (r: Result<usize, LexBuildError>)
        requires i <= self.slen, // OBLG: C11.cursor_stays_within_the_source
        ensures r matches Ok(j) ==> i <= j <= self.slen
    { unimplemented!() }
    // stand-in for the call of declare_start_states from parse_declaration: logs what it was asked to declare
    #[verifier::external_body] pub fn declare_start_states_call(&mut self, exclusive: bool, i: usize, declaration_len: usize, line_len: usize, errs: &mut Vec<LexBuildError>) -> (r: Result<usize, LexBuildError>)
        requires 1 <= declaration_len <= line_len, i + line_len <= old(self).slen, // OBLG: C12.lex.declaration_word_not_empty
        ensures r matches Ok(k) ==> k > i,   // proved for declare_start_states below
            final(self).decl_log@ == old(self).decl_log@.push((exclusive, i, declaration_len, line_len)), final(self).slen == old(self).slen, final(self).start_states@.len() >= old(self).start_states@.len()
    { unimplemented!() }
}
// the declaration word of the line starting at i, as parse_declaration finds it
pub open spec fn decl_len_spec(i: int) -> int {
    match first_ws(i, trim_end_len(i, line_len_spec(i))) { Some(j) => j, None => line_len_spec(i) }
}
pub open spec fn decl_word_kind(i: int) -> int { decl_kind(i, trim_end_len(i, decl_len_spec(i))) }

impl DeclParser {
    //@ctx parse_declaration: `i` is a cursor within the source
    fn parse_declaration(&mut self, i: usize, errs: &mut Vec<LexBuildError>) -> (r: Result<usize, LexBuildError>)
        requires i <= old(self).slen, old(self).slen <= isize::MAX,
        ensures
            !(decl_word_kind(i as int) == 1 || decl_word_kind(i as int) == 2) ==> r is Err && final(self).decl_log@ == old(self).decl_log@, // OBL: C11.only_s_and_x_words_declare_start_states
            r matches Ok(k) ==> k > i, // OBL: C12.lex.parse_declaration.ok_advances
            (decl_word_kind(i as int) == 1 || decl_word_kind(i as int) == 2) ==> final(self).decl_log@ == old(self).decl_log@.push((decl_word_kind(i as int) == 2, i, decl_len_spec(i as int) as usize, line_len_spec(i as int) as usize)), // OBL: C11.x_words_declare_exclusive_states_s_words_inclusive C09.x_words_declare_exclusive_states_s_words_inclusive
    {
        //@probe
        //@body file=lrlex/src/lib/parser.rs fn=parse_declaration
        //@rule n=1 `RE_LINE_SEP\s*\.find\(&self\.src\[i\.\.\]\)\s*\.map\(\|m\| m\.start\(\)\)\s*\.unwrap_or\(self\.src\.len\(\) - i\)` => `self.line_len_at(i)`
        //@rule n=* `self\.src\[([^\[\]]+?)\.\.([^\[\]]+?)\]` => `self.src_sl(\1, \2)`
        //@rule n=* `\.trim_end_matches\(matches_whitespace\)` => `.trim_end_ws()`
        //@rule n=1 `RE_WS\.find\(line\)\.map\(\|m\| m\.start\(\)\)` => `line.find_ws()`
        //@rule n=1 `RE_INCLUSIVE_START_STATE_DECLARATION\.is_match\(declaration\)` => `re_inclusive_decl(declaration)`
        //@rule n=1 `RE_EXCLUSIVE_START_STATE_DECLARATION\.is_match\(declaration\)` => `re_exclusive_decl(declaration)`
        //@rule n=2 `self\.declare_start_states\(` => `self.declare_start_states_call(`
        //@endbody
    }

    //@ctx declare_start_states: called with the word length and line length parse_declaration measured at cursor i
    fn declare_start_states(&mut self, exclusive: bool, i0: usize, declaration_len: usize, line_len: usize, errs: &mut Vec<LexBuildError>) -> (r: Result<usize, LexBuildError>)
        requires 1 <= declaration_len <= line_len, i0 + line_len <= old(self).slen, old(self).slen <= isize::MAX,
            forall|k: int| 0 <= k < old(self).start_states@.len() ==> (#[trigger] old(self).start_states@[k]).id == k,
        ensures
            r matches Ok(k) ==> k > i0, // OBL: C12.lex.declare_start_states.ok_advances
            final(self).slen == old(self).slen,
            final(self).start_states@.len() >= old(self).start_states@.len(),
            forall|k: int| 0 <= k < old(self).start_states@.len() ==> final(self).start_states@[k] == old(self).start_states@[k],
            forall|k: int| old(self).start_states@.len() <= k < final(self).start_states@.len() ==> reads((#[trigger] final(self).start_states@[k]).name_span, final(self).start_states@[k].name), // OBL: C11.start_state_name_span_reads_the_name_in_the_source.stored
            forall|k: int| old(self).start_states@.len() <= k < final(self).start_states@.len() ==> (#[trigger] final(self).start_states@[k]).exclusive == exclusive, // OBL: C11.declared_states_get_the_kind_of_their_declaration C09.declared_states_get_the_kind_of_their_declaration
            forall|k: int| 0 <= k < final(self).start_states@.len() ==> (#[trigger] final(self).start_states@[k]).id == k, // OBL: C11.start_state_ids_are_their_positions
            forall|k: int| old(self).start_states@.len() <= k < final(self).start_states@.len() ==> i0 + declaration_len <= (#[trigger] final(self).start_states@[k]).name.off && final(self).start_states@[k].name.off + final(self).start_states@[k].name.len <= i0 + line_len, // OBL: C11.declared_names_come_from_the_rest_of_the_declaration_line
            forall|a: int, b: int| old(self).start_states@.len() <= a < b < final(self).start_states@.len() ==> (#[trigger] final(self).start_states@[a]).name.off < (#[trigger] final(self).start_states@[b]).name.off, // OBL: C11.declared_states_in_source_order
    {
        //@probe
        let mut i = i0;
        let ghost n0 = self.start_states@.len();
        //@body file=lrlex/src/lib/parser.rs fn=declare_start_states
        //@rule n=* `self\.src\[([^\[\]]+?)\.\.([^\[\]]+?)\]` => `self.src_sl(\1, \2)`
        //@rule n=* `\.trim_matches\(matches_whitespace\)` => `.trim_ws()`
        // dialect: `RE_WS.split(X).map(|name| { BODY; (name, span) }).collect::<Vec<_>>()` as a loop over the pieces in order
        // (with `.filter(|name| !name.is_empty())`: the non-empty pieces)
        //@rule n=1 `^(\s*)let start_states = RE_WS\n\s*\.split\(declaration_parameters\)\s*\.filter\(\|name\| !name\.is_empty\(\)\)\n\s*\.map\(\|name\| \{$` =>>
        let pieces_ = declaration_parameters.split_ws();
        let mut start_states: Vec<(Str, Span)> = Vec::new();
        let mut pk_: usize = 0;
        while pk_ < pieces_.len()
            invariant pk_ <= pieces_@.len(), start_states@.len() == pk_, self.slen <= isize::MAX, i <= self.slen, pk_ > 0 ==> i >= i0 + declaration_len,
                i0 + declaration_len <= declaration_parameters.off, declaration_parameters.off + declaration_parameters.len <= i0 + line_len, i0 + line_len <= self.slen,
                forall|k: int| 0 <= k < pieces_@.len() ==> declaration_parameters.off <= (#[trigger] pieces_@[k]).off && pieces_@[k].off + pieces_@[k].len <= declaration_parameters.off + declaration_parameters.len,
                forall|k: int| 0 <= k < pk_ ==> (#[trigger] start_states@[k]).0 == pieces_@[k] && reads(start_states@[k].1, pieces_@[k]), // OBL: C11.start_state_name_span_reads_the_name_in_the_source.each_piece
            decreases pieces_@.len() - pk_,
        {
            //@probe
            let name = pieces_[pk_];
            pk_ = pk_ + 1;
        //@end
        //@rule n=1 `let off = name\.as_ptr\(\) as usize - self\.src\.as_ptr\(\) as usize;` => `let off = name.off; // dialect: the pointer difference is the offset of the sub-slice in self.src`
        //@rule n=1 `^(\s*)\(name, span\)\n\s*\}\)\n\s*\.collect::<Vec<_>>\(\);` =>>
            start_states.push((name, span));
        }
        //@end
        //@rule n=1 `^(\s*)for \(name, name_span\) in start_states \{$` =>>
        let mut sk_: usize = 0;
        while sk_ < start_states.len()
            invariant sk_ <= start_states@.len(), start_states@.len() == pieces_@.len(), self.slen == old(self).slen, i <= self.slen, i >= i0 + declaration_len,
                i0 + declaration_len <= declaration_parameters.off, declaration_parameters.off + declaration_parameters.len <= i0 + line_len,
                forall|k: int| 0 <= k < pieces_@.len() ==> declaration_parameters.off <= (#[trigger] pieces_@[k]).off && pieces_@[k].off + pieces_@[k].len <= declaration_parameters.off + declaration_parameters.len,
                forall|k: int| 0 <= k < pieces_@.len() - 1 ==> (#[trigger] pieces_@[k]).off + pieces_@[k].len < pieces_@[k + 1].off,
                forall|k: int| 0 <= k < start_states@.len() ==> (#[trigger] start_states@[k]).0 == pieces_@[k] && reads(start_states@[k].1, pieces_@[k]),
                self.start_states@.len() >= n0, n0 == old(self).start_states@.len(),
                forall|k: int| 0 <= k < n0 ==> self.start_states@[k] == old(self).start_states@[k],
                forall|k: int| 0 <= k < self.start_states@.len() ==> (#[trigger] self.start_states@[k]).id == k,
                forall|k: int| n0 <= k < self.start_states@.len() ==> reads((#[trigger] self.start_states@[k]).name_span, self.start_states@[k].name) && self.start_states@[k].exclusive == exclusive
                    && (exists|q: int| 0 <= q < sk_ && self.start_states@[k].name == pieces_@[q]),
                forall|a: int, b: int| n0 <= a < b < self.start_states@.len() ==> (#[trigger] self.start_states@[a]).name.off < (#[trigger] self.start_states@[b]).name.off,
                forall|k: int| n0 <= k < self.start_states@.len() && sk_ < pieces_@.len() ==> (#[trigger] self.start_states@[k]).name.off < pieces_@[sk_ as int].off,
            decreases start_states@.len() - sk_,
        {
            //@probe
            let (name, name_span) = start_states[sk_];
            let ghost sk0_ = sk_ as int;
            sk_ = sk_ + 1;
        //@end
        //@rule n=1 `StartState::new\(` => `StartStateD::new(`
        //@endbody
    }
}
//@use prelude/tail.rs
