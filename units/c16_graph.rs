//@unit c16_graph props=C16,C03 widths=u16 thorough_widths=u8,u16,u32
//@use prelude/head.rs

// lrtable/src/lib/stategraph.rs and statetable.rs: the query functions that hand out what the constructors stored -- the
// states, edges and start state of a StateGraph, the conflict lists of a StateTable.  Decides for C16 / C03: each query
// returns exactly the stored datum for the state asked about (never a neighbouring state's), the list of state indices is
// 0..number of states in order, an edge query on a state that does not exist is None, and the conflict counts are the
// lengths of the conflict lists that are handed out.
#[verifier::external_body] pub struct Itemset { _x: usize }
#[verifier::external_body] pub struct EdgeMap { _x: usize }      // HashMap<Symbol<StorageT>, StIdx<StorageT>>
impl EdgeMap {
    pub uninterp spec fn m(&self) -> Map<Symbol<$T>, StIdx<$T>>;
    pub uninterp spec fn slen(&self) -> nat;
    // HashMap::get
    #[verifier::external_body] pub fn get(&self, k: &Symbol<$T>) -> (r: Option<&StIdx<$T>>)
        ensures r matches Some(v) ==> self.m().contains_key(*k) && *v == self.m()[*k], r is None ==> !self.m().contains_key(*k)
    { unimplemented!() }
    #[verifier::external_body] pub fn len(&self) -> (r: usize) ensures r == self.slen() { unimplemented!() }
}
pub struct StateGraph { pub states: Vec<(Itemset, Itemset)>, pub start_state: StIdx<$T>, pub edges: Vec<EdgeMap> }
impl StateGraph {
    // what StateGraph::new establishes (unit c20_states): one edge map per state, the number of states fits the storage type
    pub open spec fn wf(&self) -> bool { self.states@.len() == self.edges@.len() && self.states@.len() < $TMAX }
}
// dialect rule 5: `v.get(i)` on a vector (slice::get)
pub fn vec_get(v: &Vec<EdgeMap>, i: usize) -> (r: Option<&EdgeMap>)
    ensures i < v@.len() ==> r == Some(&v@[i as int]), i >= v@.len() ==> r is None
{ if i < v.len() { Some(&v[i]) } else { None } }
pub open spec fn sum_edges(e: Seq<EdgeMap>, k: int) -> nat decreases k { if k <= 0 { 0 } else { sum_edges(e, k - 1) + e[k - 1].slen() } }

impl StateGraph {
    fn start_state(&self) -> (r: StIdx<$T>)
        ensures r == self.start_state, // OBL: C16.graph.start_state_is_the_stored_one
    {
        //@probe
        //@body file=lrtable/src/lib/stategraph.rs fn=start_state
        //@endbody
    }
    //@ctx iter_stidxs: the graph was built by StateGraph::new (the number of states fits the storage type)
    fn iter_stidxs(&self) -> (r: Vec<StIdx<$T>>)
        requires self.wf(),
        ensures r@.len() == self.states@.len(), forall|i: int| 0 <= i < r@.len() ==> (#[trigger] r@[i]).0 == i, // OBL: C16.graph.state_indices_are_zero_to_len_in_order
    {
        //@probe
        //@body file=lrtable/src/lib/stategraph.rs fn=iter_stidxs
        // dialect rule 5: `Box::new((0..n).map(|x| f(x)))` as the list of f(x) for x in 0..n
        //@rule n=1 `Box::new\(\(0\.\.self\.states\.len\(\)\)\.map\(\|x\| (StIdx\(narrow_\$T\(x\)\))\)\)` =>>
        let mut out_: Vec<StIdx<$T>> = Vec::new();
        for x in 0..self.states.len()
            invariant self.wf(), out_@.len() == x, forall|i: int| 0 <= i < out_@.len() ==> (#[trigger] out_@[i]).0 == i,
        {
            //@probe
            out_.push(\1);
        }
        out_
        //@end
        //@endbody
    }
    //@ctx closed_state / core_state / edges: the state asked about exists (the functions are documented to panic otherwise)
    fn closed_state(&self, stidx: StIdx<$T>) -> (r: &Itemset)
        requires (stidx.0 as int) < self.states@.len(),
        ensures *r == self.states@[stidx.0 as int].1, // OBL: C16.graph.closed_state_is_the_one_asked_for
    {
        //@probe
        //@body file=lrtable/src/lib/stategraph.rs fn=closed_state
        //@endbody
    }
    fn core_state(&self, stidx: StIdx<$T>) -> (r: &Itemset)
        requires (stidx.0 as int) < self.states@.len(),
        ensures *r == self.states@[stidx.0 as int].0, // OBL: C16.graph.core_state_is_the_one_asked_for
    {
        //@probe
        //@body file=lrtable/src/lib/stategraph.rs fn=core_state
        //@endbody
    }
    fn iter_closed_states(&self) -> (r: Vec<&Itemset>)
        ensures r@.len() == self.states@.len() && forall|k: int| 0 <= k < r@.len() ==> *(#[trigger] r@[k]) == self.states@[k].1, // OBL: C16.graph.the_closed_states_are_handed_out_in_state_order
    {
        //@probe
        //@body file=lrtable/src/lib/stategraph.rs fn=iter_closed_states
        //@rule n=1 `Box::new\(self\.states\.iter\(\)\.map\(\|\(_, x\)\| x\)\)` =>>
        // dialect rule 5: the iterator `v.iter().map(|P| x)` as the list of its items
        let mut out_: Vec<&Itemset> = Vec::new();
        let mut k_: usize = 0;
        while k_ < self.states.len()
            invariant k_ <= self.states@.len(), out_@.len() == k_, forall|k: int| 0 <= k < out_@.len() ==> *(#[trigger] out_@[k]) == self.states@[k].1,
            decreases self.states@.len() - k_,
        {
            //@probe
            let (_, x) = &self.states[k_];
            out_.push(x);
            k_ += 1;
        }
        out_
        //@end
        //@endbody
    }
    fn iter_core_states(&self) -> (r: Vec<&Itemset>)
        ensures r@.len() == self.states@.len() && forall|k: int| 0 <= k < r@.len() ==> *(#[trigger] r@[k]) == self.states@[k].0, // OBL: C16.graph.the_core_states_are_handed_out_in_state_order
    {
        //@probe
        //@body file=lrtable/src/lib/stategraph.rs fn=iter_core_states
        //@rule n=1 `Box::new\(self\.states\.iter\(\)\.map\(\|\(x, _\)\| x\)\)` =>>
        // dialect rule 5: the iterator `v.iter().map(|P| x)` as the list of its items
        let mut out_: Vec<&Itemset> = Vec::new();
        let mut k_: usize = 0;
        while k_ < self.states.len()
            invariant k_ <= self.states@.len(), out_@.len() == k_, forall|k: int| 0 <= k < out_@.len() ==> *(#[trigger] out_@[k]) == self.states@[k].0,
            decreases self.states@.len() - k_,
        {
            //@probe
            let (x, _) = &self.states[k_];
            out_.push(x);
            k_ += 1;
        }
        out_
        //@end
        //@endbody
    }
    fn all_states_len(&self) -> (r: StIdx<$T>)
        requires self.wf(),
        ensures r.0 == self.states@.len(), // OBL: C16.graph.number_of_states_is_not_truncated C20.graph.number_of_states_is_not_truncated
    {
        //@probe
        //@body file=lrtable/src/lib/stategraph.rs fn=all_states_len
        //@endbody
    }
    fn edge(&self, stidx: StIdx<$T>, sym: Symbol<$T>) -> (r: Option<StIdx<$T>>)
        ensures
            (stidx.0 as int) < self.edges@.len() ==> (r matches Some(t) ==> self.edges@[stidx.0 as int].m().contains_key(sym) && self.edges@[stidx.0 as int].m()[sym] == t)
                && (r is None ==> !self.edges@[stidx.0 as int].m().contains_key(sym)), // OBL: C16.graph.edge_is_the_stored_target_of_that_state_and_symbol
            (stidx.0 as int) >= self.edges@.len() ==> r is None, // OBL: C16.graph.no_edge_from_a_state_that_does_not_exist
    {
        //@probe
        //@body file=lrtable/src/lib/stategraph.rs fn=edge
        // dialect rule 5: `opt.and_then(|x| f(x)).cloned()` read as a match
        //@rule n=1 `self\.edges\s*\.get\(usize::from\(stidx\)\)\s*\.and_then\(\|x\| x\.get\(&sym\)\)\s*\.cloned\(\)` => `match vec_get(&self.edges, usize::from(stidx)) { Some(x) => match x.get(&sym) { Some(v_) => Some(*v_), None => None }, None => None }`
        //@endbody
    }
    fn edges(&self, stidx: StIdx<$T>) -> (r: &EdgeMap)
        requires (stidx.0 as int) < self.edges@.len(),
        ensures *r == self.edges@[stidx.0 as int], // OBL: C16.graph.edges_are_those_of_the_state_asked_for
    {
        //@probe
        //@body file=lrtable/src/lib/stategraph.rs fn=edges
        //@endbody
    }
    //@ctx all_edges_len: the total number of edges fits a usize
    fn all_edges_len(&self) -> (r: usize)
        requires sum_edges(self.edges@, self.edges@.len() as int) <= usize::MAX,
        ensures r == sum_edges(self.edges@, self.edges@.len() as int), // OBL: C16.graph.edge_count_is_the_sum_over_all_states
    {
        //@probe
        //@body file=lrtable/src/lib/stategraph.rs fn=all_edges_len
        // dialect rule 5: `v.iter().fold(init, |a, x| f(a, x))` as a loop
        //@rule n=1 `self\.edges\.iter\(\)\.fold\(0, \|a, x\| (a \+ x\.len\(\))\)` =>>
        let mut a: usize = 0;
        for ei_ in 0..self.edges.len()
            invariant a == sum_edges(self.edges@, ei_ as int), sum_edges(self.edges@, self.edges@.len() as int) <= usize::MAX,
        {
            //@probe
            let x = &self.edges[ei_];
            proof { lemma_sum_mono(self.edges@, ei_ as int + 1, self.edges@.len() as int); }
            a = \1;
        }
        a
        //@end
        //@endbody
    }
}
pub proof fn lemma_sum_mono(e: Seq<EdgeMap>, i: int, j: int)
    requires 0 <= i <= j
    ensures sum_edges(e, i) <= sum_edges(e, j)
    decreases j - i
{ if i < j { lemma_sum_mono(e, i, j - 1); } }

// ---- statetable.rs: Conflicts and the StateTable accessors ----
pub struct Conflicts { pub reduce_reduce: Vec<(TIdx<$T>, PIdx<$T>, PIdx<$T>, StIdx<$T>)>, pub shift_reduce: Vec<(TIdx<$T>, PIdx<$T>, StIdx<$T>)> }
impl Conflicts {
    // dialect rule 5: an `impl Iterator<Item = &T>` made by `v.iter()` is the list v, in order
    fn rr_conflicts(&self) -> (r: &Vec<(TIdx<$T>, PIdx<$T>, PIdx<$T>, StIdx<$T>)>)
        ensures r@ == self.reduce_reduce@, // OBL: C03.conflicts.reduce_reduce_conflicts_are_listed_as_stored
    {
        //@probe
        //@body file=lrtable/src/lib/statetable.rs fn=rr_conflicts
        //@rule n=1 `self\.reduce_reduce\.iter\(\)` => `&self.reduce_reduce`
        //@endbody
    }
    fn sr_conflicts(&self) -> (r: &Vec<(TIdx<$T>, PIdx<$T>, StIdx<$T>)>)
        ensures r@ == self.shift_reduce@, // OBL: C03.conflicts.shift_reduce_conflicts_are_listed_as_stored
    {
        //@probe
        //@body file=lrtable/src/lib/statetable.rs fn=sr_conflicts
        //@rule n=1 `self\.shift_reduce\.iter\(\)` => `&self.shift_reduce`
        //@endbody
    }
    fn rr_len(&self) -> (r: usize)
        ensures r == self.reduce_reduce@.len(), // OBL: C03.conflicts.reduce_reduce_count_is_the_number_listed
    {
        //@probe
        //@body file=lrtable/src/lib/statetable.rs fn=rr_len
        //@endbody
    }
    fn sr_len(&self) -> (r: usize)
        ensures r == self.shift_reduce@.len(), // OBL: C03.conflicts.shift_reduce_count_is_the_number_listed
    {
        //@probe
        //@body file=lrtable/src/lib/statetable.rs fn=sr_len
        //@endbody
    }
}
pub struct StateTable { pub start_state: StIdx<$T>, pub conflicts: Option<Conflicts> }
impl StateTable {
    fn start_state(&self) -> (r: StIdx<$T>)
        ensures r == self.start_state, // OBL: C16.table.start_state_is_the_stored_one
    {
        //@probe
        //@body file=lrtable/src/lib/statetable.rs fn=start_state
        //@endbody
    }
    fn conflicts(&self) -> (r: Option<&Conflicts>)
        ensures r is Some == self.conflicts is Some, r matches Some(c) ==> *c == self.conflicts->Some_0, // OBL: C03.conflicts.handed_out_exactly_when_the_table_has_some C16.table.conflicts_are_the_stored_ones
    {
        //@probe
        //@body file=lrtable/src/lib/statetable.rs fn=conflicts
        //@endbody
    }
}
//@use prelude/tail.rs
