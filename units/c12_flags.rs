//@unit c12_flags props=C12,C11 widths=u32
//@use prelude/head.rs

// LexFlags::try_from(&mut Header): the two conversion macros, each expanded once as a function
// (the macro arms are the extracted text; `$it` is the destination field, `$num_ty` its type).
// Decides for C12: converting a %grmtools section to lexer flags never panics -- a value of the
// wrong kind is a ConversionError at its location, and so is a number that does not fit the flag's type (C11: the flag in
// force is the number written, never a truncated one).
pub struct Loc { pub _x: usize }
impl Loc { #[verifier::external_body] pub fn clone(&self) -> (r: Loc) ensures r == *self { unimplemented!() } }
pub struct Namespaced { pub _x: usize }
pub enum Setting { Unitary(Namespaced), Constructor { ctor: Namespaced, arg: Namespaced }, Num(u64, Loc), String(usize, Loc), Array(Vec<Setting>, Loc, Loc) }
pub enum Value { Flag(bool, Loc), Setting(Setting) }
pub struct HeaderValue(pub Loc, pub Value);
#[derive(PartialEq, Eq, Clone, Copy)]
pub enum ConvTarget { LexFlags }
#[derive(PartialEq, Eq, Clone, Copy)]
pub enum ConvWhy { ExpectedBoolean, ExpectedNumeric, OutOfRange }
// `<u32>::try_from(n)` / `<usize>::try_from(n)` for n: u64 (checked, lossless)
pub fn try_u32(n: u64) -> (r: Option<u32>) ensures n <= u32::MAX ==> r == Some(n as u32), n > u32::MAX ==> r is None { if n <= u32::MAX as u64 { Some(n as u32) } else { None } }
pub fn try_usize(n: u64) -> (r: Option<usize>) ensures n <= usize::MAX ==> r == Some(n as usize), n > usize::MAX ==> r is None { if n <= usize::MAX as u64 { Some(n as usize) } else { None } }
pub enum HeaderErrorKind { MissingGrmtoolsSection, IllegalName, ExpectedToken(char), UnexpectedToken(char, usize), DuplicateEntry, InvalidEntry(usize), ConversionError(ConvTarget, ConvWhy) }
pub struct HeaderError { pub kind: HeaderErrorKind, pub locations: Vec<Loc> }
#[derive(PartialEq, Eq, Clone, Copy)]
pub struct Key { pub k: usize }

// the header is a map from keys to values plus a used-set (trusted model of Header<T>: get / mark_used)
pub struct Header { pub _x: usize }
impl Header {
    pub uninterp spec fn has(&self, k: Key) -> bool;
    pub uninterp spec fn val(&self, k: Key) -> HeaderValue;
    pub uninterp spec fn used(&self, k: Key) -> bool;
    #[verifier::external_body]
    pub fn get(&self, k: Key) -> (r: Option<&HeaderValue>)
        ensures r is Some == self.has(k), r is Some ==> *r.unwrap() == self.val(k)
    { unimplemented!() }
    #[verifier::external_body]
    pub fn mark_used(&mut self, k: &Key)
        ensures forall|j: Key| final(self).has(j) == old(self).has(j) && final(self).val(j) == old(self).val(j),
            forall|j: Key| #[trigger] final(self).used(j) == (old(self).used(j) || j == *k)
    { unimplemented!() }
}
pub open spec fn is_num(v: HeaderValue) -> bool { v.1 is Setting && v.1->Setting_0 is Num }
pub open spec fn num_of(v: HeaderValue) -> u64 { v.1->Setting_0->Num_0 }
pub open spec fn is_flag(v: HeaderValue) -> bool { v.1 is Flag }
pub open spec fn conv_err(e: HeaderError, at: Loc, why: ConvWhy) -> bool {
    e.kind == HeaderErrorKind::ConversionError(ConvTarget::LexFlags, why) && e.locations@.len() == 1 && e.locations@[0] == at
}

fn cvt_flag(header: &mut Header, name: Key, it: &mut Option<bool>) -> (r: Result<(), HeaderError>)
    ensures
        final(header).used(name), // OBL: C12.flags.every_converted_key_is_marked_used
        !old(header).has(name) ==> r is Ok && *final(it) is None, // OBL: C12.flags.absent_key_stays_unspecified
        old(header).has(name) && is_flag(old(header).val(name)) ==> r is Ok && *final(it) == Some(old(header).val(name).1->Flag_0), // OBL: C12.flags.boolean_value_is_taken_as_written
        old(header).has(name) && !is_flag(old(header).val(name)) ==> r is Err && conv_err(r->Err_0, old(header).val(name).0, ConvWhy::ExpectedBoolean), // OBL: C12.flags.wrong_kind_is_a_conversion_error_at_the_value
{
    //@body file=lrlex/src/lib/lexer.rs fn=try_from block=`header\.mark_used\(&stringify!\(\$it\)\.to_string\(\)\);` bnth=1 end=`^ {16}\}\s*$`
    //@rule n=1 `header\.mark_used\(&stringify!\(\$it\)\.to_string\(\)\);` => `header.mark_used(&name);`
    //@rule n=1 `\*\$it = match header\.get\(stringify!\(\$it\)\) \{` => `*it = match header.get(name) {`
    //@rule n=1 `HeaderErrorKind::ConversionError\("LexFlags", "Expected boolean"\)` => `HeaderErrorKind::ConversionError(ConvTarget::LexFlags, ConvWhy::ExpectedBoolean)`
    //@endbody
    ;
    Ok(())
}

fn cvt_num_u32(header: &mut Header, name: Key, it: &mut Option<u32>) -> (r: Result<(), HeaderError>)
    ensures
        final(header).used(name), // OBL: C12.flags.every_converted_key_is_marked_used
        !old(header).has(name) ==> r is Ok && *final(it) is None, // OBL: C12.flags.absent_key_stays_unspecified
        old(header).has(name) && is_num(old(header).val(name)) && num_of(old(header).val(name)) <= u32::MAX ==> r is Ok && *final(it) == Some(num_of(old(header).val(name)) as u32), // OBL: C12.flags.numeric_value_that_fits_is_taken_as_written C11.flags.numeric_value_that_fits_is_taken_as_written
        old(header).has(name) && is_num(old(header).val(name)) && num_of(old(header).val(name)) > u32::MAX ==> r is Err && conv_err(r->Err_0, old(header).val(name).0, ConvWhy::OutOfRange), // OBL: C12.flags.numeric_value_that_does_not_fit_is_a_conversion_error C11.flags.numeric_value_that_does_not_fit_is_a_conversion_error
        old(header).has(name) && !is_num(old(header).val(name)) ==> r is Err && conv_err(r->Err_0, old(header).val(name).0, ConvWhy::ExpectedNumeric), // OBL: C12.flags.wrong_kind_is_a_conversion_error_at_the_value
{
    //@body file=lrlex/src/lib/lexer.rs fn=try_from block=`header\.mark_used\(&stringify!\(\$it\)\.to_string\(\)\);` bnth=2 end=`^ {16}\}\s*$`
    //@rule n=1 `header\.mark_used\(&stringify!\(\$it\)\.to_string\(\)\);` => `header.mark_used(&name);`
    //@rule n=1 `\*\$it = match header\.get\(stringify!\(\$it\)\) \{` => `*it = match header.get(name) {`
    //@rule n=* `Some\(<\$num_ty>::try_from\(\*n\)\.map_err\(\|_\| HeaderError \{` => `Some(match try_u32(*n) { Some(v_) => v_, None => return Err(HeaderError {`
    //@rule n=* `HeaderErrorKind::ConversionError\(\s*"LexFlags",\s*"Number out of range",\s*\)` => `HeaderErrorKind::ConversionError(ConvTarget::LexFlags, ConvWhy::OutOfRange)`
    //@rule n=* `^(\s*)\}\)\?\)$` => `\1}) })`
    //@rule n=* `\$num_ty` => `u32`
    //@rule n=1 `HeaderErrorKind::ConversionError\("LexFlags", "Expected numeric"\)` => `HeaderErrorKind::ConversionError(ConvTarget::LexFlags, ConvWhy::ExpectedNumeric)`
    //@endbody
    ;
    Ok(())
}

fn cvt_num_usize(header: &mut Header, name: Key, it: &mut Option<usize>) -> (r: Result<(), HeaderError>)
    ensures
        final(header).used(name), // OBL: C12.flags.every_converted_key_is_marked_used
        !old(header).has(name) ==> r is Ok && *final(it) is None, // OBL: C12.flags.absent_key_stays_unspecified
        old(header).has(name) && is_num(old(header).val(name)) && num_of(old(header).val(name)) <= usize::MAX ==> r is Ok && *final(it) == Some(num_of(old(header).val(name)) as usize), // OBL: C12.flags.numeric_value_that_fits_is_taken_as_written C11.flags.numeric_value_that_fits_is_taken_as_written
        old(header).has(name) && is_num(old(header).val(name)) && num_of(old(header).val(name)) > usize::MAX ==> r is Err && conv_err(r->Err_0, old(header).val(name).0, ConvWhy::OutOfRange), // OBL: C12.flags.numeric_value_that_does_not_fit_is_a_conversion_error C11.flags.numeric_value_that_does_not_fit_is_a_conversion_error
        old(header).has(name) && !is_num(old(header).val(name)) ==> r is Err && conv_err(r->Err_0, old(header).val(name).0, ConvWhy::ExpectedNumeric), // OBL: C12.flags.wrong_kind_is_a_conversion_error_at_the_value
{
    //@body file=lrlex/src/lib/lexer.rs fn=try_from block=`header\.mark_used\(&stringify!\(\$it\)\.to_string\(\)\);` bnth=2 end=`^ {16}\}\s*$`
    //@rule n=1 `header\.mark_used\(&stringify!\(\$it\)\.to_string\(\)\);` => `header.mark_used(&name);`
    //@rule n=1 `\*\$it = match header\.get\(stringify!\(\$it\)\) \{` => `*it = match header.get(name) {`
    //@rule n=* `Some\(<\$num_ty>::try_from\(\*n\)\.map_err\(\|_\| HeaderError \{` => `Some(match try_usize(*n) { Some(v_) => v_, None => return Err(HeaderError {`
    //@rule n=* `HeaderErrorKind::ConversionError\(\s*"LexFlags",\s*"Number out of range",\s*\)` => `HeaderErrorKind::ConversionError(ConvTarget::LexFlags, ConvWhy::OutOfRange)`
    //@rule n=* `^(\s*)\}\)\?\)$` => `\1}) })`
    //@rule n=* `\$num_ty` => `usize`
    //@rule n=1 `HeaderErrorKind::ConversionError\("LexFlags", "Expected numeric"\)` => `HeaderErrorKind::ConversionError(ConvTarget::LexFlags, ConvWhy::ExpectedNumeric)`
    //@endbody
    ;
    Ok(())
}
//@expect file=lrlex/src/lib/lexer.rs re=`cvt_num!\(size_limit, usize\);\s*cvt_num!\(dfa_size_limit, usize\);\s*cvt_num!\(nest_limit, u32\);\s*Ok\(lex_flags\)`
//@use prelude/tail.rs
