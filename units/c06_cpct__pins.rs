//@unit c06_cpct__pins props=C06,C05,C07 widths=u32
//@use prelude/head.rs
// not under contract: the CPCT+ driver functions (judged by the exhaustive minimal-repair oracle and the progress sweep when one changes)
//@pin file=lrpar/src/lib/cpctplus.rs fn=recover sha=7bf51c7777e8b17b
// PathFNode's Hash (must agree with its Eq, which is under contract in unit c05_traverse)
//@pin file=lrpar/src/lib/cpctplus.rs fn=hash sha=fb9b997a4c77db67
//@pin file=lrpar/src/lib/cpctplus.rs fn=recoverer sha=be65bf0498c91a62
// Parser::lr is under contract for C07/C04 (unit c07_lr); for C05/C06 (which sequence is applied, what is reported) it is pinned
//@pin file=lrpar/src/lib/parser.rs fn=lr sha=77bcb0844d1d0539
//@use prelude/tail.rs
