//@unit c10_files__pins props=C10 widths=u32
//@use prelude/head.rs
// the source files the property is anchored in, pinned whole (test modules, comments and layout apart): a change to anything in
// them that is neither under contract nor pinned by name still makes this unit undecided, which sends the check to the
// property's bounded sweep of the real code
//@pinfile file=cfgrammar/src/lib/yacc/parser.rs sha=6ef477d7cbbde140
//@pinfile file=cfgrammar/src/lib/yacc/ast.rs sha=b152c25de197a916
//@pinfile file=cfgrammar/src/lib/yacc/grammar.rs sha=b2daa9fc80630f0d
//@pinfile file=cfgrammar/src/lib/mod.rs sha=acfd5c5d5cc2dfaf
//@use prelude/tail.rs
