//@unit c10_access props=C10 widths=u32
//@use prelude/head.rs

// cfgrammar/src/lib/yacc/grammar.rs: the look-ups of a built YaccGrammar.  Decides for C10: what a look-up returns is
// what the constructor stored for that production / rule / token (the constructor's side is units c10_grammar, c10_rule);
// a name is looked up as the FIRST rule / token with it; the index iterators count 0..len in order.  For C20: the numbers
// the iterators and the name look-ups make fit the storage type (the no_wrap obligations of dialect rule 3; C20 itself is decided by units c20_*).
#[verifier::external_body] pub struct Name { _x: usize }      // String / &str
impl Name {
    pub uninterp spec fn id(&self) -> int;
    #[verifier::external_body] pub fn as_str(&self) -> (r: &Name) ensures r.id() == self.id() { unimplemented!() }
}
// `x == n` on strings
#[verifier::external_body] pub fn name_eq(a: &Name, b: &Name) -> (r: bool) ensures r == (a.id() == b.id()) { unimplemented!() }
#[derive(Clone, Copy)] pub struct Span { pub st: usize, pub en: usize }
impl Span { pub fn new(st: usize, en: usize) -> (r: Span) ensures r == (Span { st: st, en: en }) { Span { st, en } } pub fn start(&self) -> (r: usize) ensures r == self.st { self.st } pub fn end(&self) -> (r: usize) ensures r == self.en { self.en } }
#[derive(Clone, Copy)] pub enum AssocKind { Left, Right, Nonassoc }
#[derive(Clone, Copy)] pub struct Precedence { pub level: usize, pub kind: AssocKind }
pub struct YaccGrammar {
    pub rules_len: RIdx<$T>, pub rule_names: Vec<(Name, Span)>, pub token_names: Vec<Option<(Span, Name)>>, pub token_precs: Vec<Option<Precedence>>,
    pub token_epp: Vec<Option<Name>>, pub tokens_len: TIdx<$T>, pub eof_token_idx: TIdx<$T>, pub prods_len: PIdx<$T>, pub start_prod: PIdx<$T>,
    pub prods: Vec<Vec<Symbol<$T>>>, pub rules_prods: Vec<Vec<PIdx<$T>>>, pub prods_rules: Vec<RIdx<$T>>, pub prod_precs: Vec<Option<Precedence>>,
    pub prod_spans: Vec<Span>, pub implicit_rule: Option<RIdx<$T>>, pub actions: Vec<Option<Name>>, pub action_spans: Vec<Option<Span>>, pub actiontypes: Vec<Option<Name>>,
}
pub open spec fn tname(t: Option<(Span, Name)>) -> Option<int> { match t { Some(x) => Some(x.1.id()), None => None } }
pub open spec fn first_rule_named(rs: Seq<(Name, Span)>, n: int, i: int) -> bool { 0 <= i < rs.len() && rs[i].0.id() == n && forall|j: int| 0 <= j < i ==> (#[trigger] rs[j]).0.id() != n }
pub open spec fn first_token_named(ts: Seq<Option<(Span, Name)>>, n: int, i: int) -> bool { 0 <= i < ts.len() && tname(ts[i]) == Some(n) && forall|j: int| 0 <= j < i ==> tname(#[trigger] ts[j]) != Some(n) }

impl YaccGrammar {
    // what the constructor establishes (unit c10_grammar: final_len): one entry per production / rule / token
    pub open spec fn wf(&self) -> bool {
        &&& self.prods@.len() == self.prods_len.0 && self.prods_rules@.len() == self.prods_len.0 && self.prod_precs@.len() == self.prods_len.0
        &&& self.prod_spans@.len() == self.prods_len.0 && self.actions@.len() == self.prods_len.0
        &&& self.rule_names@.len() == self.rules_len.0 && self.rules_prods@.len() == self.rules_len.0 && self.actiontypes@.len() == self.rules_len.0
        &&& self.token_names@.len() == self.tokens_len.0 && self.token_precs@.len() == self.tokens_len.0 && self.token_epp@.len() == self.tokens_len.0
        &&& self.start_prod.0 < self.prods_len.0
    }
    pub fn prods_len(&self) -> (r: PIdx<$T>) ensures r == self.prods_len, // OBL: C10.access.prods_len_is_the_number_stored
    {
        //@probe
        //@body file=cfgrammar/src/lib/yacc/grammar.rs fn=prods_len
        //@endbody
    }
    pub fn rules_len(&self) -> (r: RIdx<$T>) ensures r == self.rules_len, // OBL: C10.access.rules_len_is_the_number_stored
    {
        //@probe
        //@body file=cfgrammar/src/lib/yacc/grammar.rs fn=rules_len
        //@endbody
    }
    pub fn tokens_len(&self) -> (r: TIdx<$T>) ensures r == self.tokens_len, // OBL: C10.access.tokens_len_is_the_number_stored
    {
        //@probe
        //@body file=cfgrammar/src/lib/yacc/grammar.rs fn=tokens_len
        //@endbody
    }
    pub fn start_prod(&self) -> (r: PIdx<$T>) ensures r == self.start_prod, // OBL: C10.access.start_prod_is_the_one_stored
    {
        //@probe
        //@body file=cfgrammar/src/lib/yacc/grammar.rs fn=start_prod
        //@endbody
    }
    pub fn eof_token_idx(&self) -> (r: TIdx<$T>) ensures r == self.eof_token_idx, // OBL: C10.access.eof_token_is_the_one_stored
    {
        //@probe
        //@body file=cfgrammar/src/lib/yacc/grammar.rs fn=eof_token_idx
        //@endbody
    }
    pub fn implicit_rule(&self) -> (r: Option<RIdx<$T>>) ensures r == self.implicit_rule, // OBL: C10.access.implicit_rule_is_the_one_stored
    {
        //@probe
        //@body file=cfgrammar/src/lib/yacc/grammar.rs fn=implicit_rule
        //@endbody
    }
    //@ctx look-ups by index: the index is one the grammar handed out (below prods_len / rules_len / tokens_len); the documented panic otherwise
    pub fn prod(&self, pidx: PIdx<$T>) -> (r: &Vec<Symbol<$T>>)
        requires self.wf(), pidx.0 < self.prods_len.0,
        ensures *r == self.prods@[pidx.0 as int], // OBL: C10.access.prod_is_the_symbols_stored_for_that_production
    {
        //@probe
        //@body file=cfgrammar/src/lib/yacc/grammar.rs fn=prod
        //@endbody
    }
    pub fn prod_len(&self, pidx: PIdx<$T>) -> (r: SIdx<$T>)
        requires self.wf(), pidx.0 < self.prods_len.0, self.prods@[pidx.0 as int]@.len() <= $TMAX,
        ensures r.0 == self.prods@[pidx.0 as int]@.len(), // OBL: C10.access.prod_len_is_the_number_of_symbols_stored_for_that_production
    {
        //@probe
        //@body file=cfgrammar/src/lib/yacc/grammar.rs fn=prod_len
        //@endbody
    }
    pub fn prod_to_rule(&self, pidx: PIdx<$T>) -> (r: RIdx<$T>)
        requires self.wf(), pidx.0 < self.prods_len.0,
        ensures r == self.prods_rules@[pidx.0 as int], // OBL: C10.access.prod_to_rule_is_the_rule_stored_for_that_production
    {
        //@probe
        //@body file=cfgrammar/src/lib/yacc/grammar.rs fn=prod_to_rule
        //@endbody
    }
    pub fn prod_precedence(&self, pidx: PIdx<$T>) -> (r: Option<Precedence>)
        requires self.wf(), pidx.0 < self.prods_len.0,
        ensures r == self.prod_precs@[pidx.0 as int], // OBL: C10.access.prod_precedence_is_the_one_stored_for_that_production
    {
        //@probe
        //@body file=cfgrammar/src/lib/yacc/grammar.rs fn=prod_precedence
        //@endbody
    }
    pub fn prod_span(&self, pidx: PIdx<$T>) -> (r: Span)
        requires self.wf(), pidx.0 < self.prods_len.0,
        ensures r == self.prod_spans@[pidx.0 as int], // OBL: C10.access.prod_span_is_the_one_stored_for_that_production
    {
        //@probe
        //@body file=cfgrammar/src/lib/yacc/grammar.rs fn=prod_span
        //@endbody
    }
    pub fn action(&self, pidx: PIdx<$T>) -> (r: &Option<Name>)
        requires self.wf(), pidx.0 < self.prods_len.0,
        ensures *r == self.actions@[pidx.0 as int], // OBL: C10.access.action_is_the_one_stored_for_that_production
    {
        //@probe
        //@body file=cfgrammar/src/lib/yacc/grammar.rs fn=action
        //@endbody
    }
    //@ctx action_span: the production has an entry in action_spans (the start production has none: known finding C10 action_span)
    pub fn action_span(&self, pidx: PIdx<$T>) -> (r: Option<Span>)
        requires pidx.0 < self.action_spans@.len(),
        ensures r == self.action_spans@[pidx.0 as int], // OBL: C10.access.action_span_is_the_one_stored_for_that_production
    {
        //@probe
        //@body file=cfgrammar/src/lib/yacc/grammar.rs fn=action_span
        //@endbody
    }
    pub fn rule_to_prods(&self, ridx: RIdx<$T>) -> (r: &Vec<PIdx<$T>>)
        requires self.wf(), ridx.0 < self.rules_len.0,
        ensures *r == self.rules_prods@[ridx.0 as int], // OBL: C10.access.rule_to_prods_is_the_list_stored_for_that_rule
    {
        //@probe
        //@body file=cfgrammar/src/lib/yacc/grammar.rs fn=rule_to_prods
        //@endbody
    }
    pub fn rule_name_str(&self, ridx: RIdx<$T>) -> (r: &Name)
        requires self.wf(), ridx.0 < self.rules_len.0,
        ensures r.id() == self.rule_names@[ridx.0 as int].0.id(), // OBL: C10.access.rule_name_is_the_one_stored_for_that_rule
    {
        //@probe
        //@body file=cfgrammar/src/lib/yacc/grammar.rs fn=rule_name_str
        //@endbody
    }
    pub fn rule_name_span(&self, ridx: RIdx<$T>) -> (r: Span)
        requires self.wf(), ridx.0 < self.rules_len.0,
        ensures r == self.rule_names@[ridx.0 as int].1, // OBL: C10.access.rule_name_span_is_the_one_stored_for_that_rule
    {
        //@probe
        //@body file=cfgrammar/src/lib/yacc/grammar.rs fn=rule_name_span
        //@endbody
    }
    pub fn actiontype(&self, ridx: RIdx<$T>) -> (r: &Option<Name>)
        requires self.wf(), ridx.0 < self.rules_len.0,
        ensures *r == self.actiontypes@[ridx.0 as int], // OBL: C10.access.actiontype_is_the_one_stored_for_that_rule
    {
        //@probe
        //@body file=cfgrammar/src/lib/yacc/grammar.rs fn=actiontype
        //@endbody
    }
    pub fn start_rule_idx(&self) -> (r: RIdx<$T>)
        requires self.wf(),
        ensures r == self.prods_rules@[self.start_prod.0 as int], // OBL: C10.access.start_rule_is_the_rule_of_the_start_production
    {
        //@probe
        //@body file=cfgrammar/src/lib/yacc/grammar.rs fn=start_rule_idx
        //@endbody
    }
    pub fn token_name(&self, tidx: TIdx<$T>) -> (r: Option<&Name>)
        requires self.wf(), tidx.0 < self.tokens_len.0,
        ensures (r is Some) == (self.token_names@[tidx.0 as int] is Some), r matches Some(x) ==> Some(x.id()) == tname(self.token_names@[tidx.0 as int]), // OBL: C10.access.token_name_is_the_one_stored_for_that_token
    {
        //@probe
        //@body file=cfgrammar/src/lib/yacc/grammar.rs fn=token_name
        // dialect rule 5: `o.as_ref().map(|P| E)` as a match
        //@rule n=1 `(self\.token_names\[usize::from\(tidx\)\])\s*\.as_ref\(\)\s*\.map\(\|\(_, x\)\| (.*)\)\s*$` => `match &\1 { Some((_, x)) => Some(\2), None => None }`
        //@endbody
    }
    pub fn token_span(&self, tidx: TIdx<$T>) -> (r: Option<Span>)
        requires self.wf(), tidx.0 < self.tokens_len.0,
        ensures (r is Some) == (self.token_names@[tidx.0 as int] is Some), r matches Some(x) ==> x == self.token_names@[tidx.0 as int].unwrap().0, // OBL: C10.access.token_span_is_the_one_stored_for_that_token
    {
        //@probe
        //@body file=cfgrammar/src/lib/yacc/grammar.rs fn=token_span
        //@rule n=1 `(self\.token_names\[usize::from\(tidx\)\])\s*\.as_ref\(\)\s*\.map\(\|\(span, _\)\| (.*)\)\s*$` => `match &\1 { Some((span, _)) => Some(\2), None => None }`
        //@endbody
    }
    pub fn token_precedence(&self, tidx: TIdx<$T>) -> (r: Option<Precedence>)
        requires self.wf(), tidx.0 < self.tokens_len.0,
        ensures r == self.token_precs@[tidx.0 as int], // OBL: C10.access.token_precedence_is_the_one_stored_for_that_token
    {
        //@probe
        //@body file=cfgrammar/src/lib/yacc/grammar.rs fn=token_precedence
        //@endbody
    }
    pub fn token_epp(&self, tidx: TIdx<$T>) -> (r: Option<&Name>)
        requires self.wf(), tidx.0 < self.tokens_len.0,
        ensures (r is Some) == (self.token_epp@[tidx.0 as int] is Some), r matches Some(x) ==> x.id() == self.token_epp@[tidx.0 as int].unwrap().id(), // OBL: C10.access.token_epp_is_the_one_stored_for_that_token
    {
        //@probe
        //@body file=cfgrammar/src/lib/yacc/grammar.rs fn=token_epp
        // `Option<String>::as_deref()`: the string inside, if any
        //@rule n=1 `(self\.token_epp\[usize::from\(tidx\)\])\.as_deref\(\)` => `match &\1 { Some(x) => Some(x.as_str()), None => None }`
        //@endbody
    }
    //@ctx rule_idx / token_idx / the iterators: the grammar has no more rules / tokens / productions than the storage type counts (what the constructor's guards establish, unit c20_grammar)
    pub fn rule_idx(&self, n: &Name) -> (r: Option<RIdx<$T>>)
        requires self.wf(),
        ensures r matches Some(x) ==> first_rule_named(self.rule_names@, n.id(), x.0 as int), // OBL: C10.access.a_rule_name_is_looked_up_as_the_first_rule_with_it
            r is None ==> forall|j: int| 0 <= j < self.rule_names@.len() ==> (#[trigger] self.rule_names@[j]).0.id() != n.id(), // OBL: C10.access.no_rule_is_reported_only_when_none_has_that_name
    {
        //@probe
        //@body file=cfgrammar/src/lib/yacc/grammar.rs fn=rule_idx
        //@rule n=1 `self\.rule_names\s*\.iter\(\)\s*\.position\(\|\(x, _\)\| (x == n)\)\s*\.map\(\|x\| (RIdx\([^)]*\)\))\)` =>>
        // dialect rule 5: `v.iter().position(|P| C).map(|x| E)` as a loop returning E for the first index at which C holds
        let mut fi_: usize = 0;
        while fi_ < self.rule_names.len()
            invariant fi_ <= self.rule_names@.len(), self.wf(), forall|j: int| 0 <= j < fi_ ==> (#[trigger] self.rule_names@[j]).0.id() != n.id(),
            decreases self.rule_names@.len() - fi_,
        {
            //@probe
            let (x, _) = &self.rule_names[fi_];
            if name_eq(x, n) {
                let x = fi_;
                return Some(\2);
            }
            fi_ += 1;
        }
        None
        //@end
        //@endbody
    }
    pub fn token_idx(&self, n: &Name) -> (r: Option<TIdx<$T>>)
        requires self.wf(),
        ensures r matches Some(x) ==> first_token_named(self.token_names@, n.id(), x.0 as int), // OBL: C10.access.a_token_name_is_looked_up_as_the_first_token_with_it
            r is None ==> forall|j: int| 0 <= j < self.token_names@.len() ==> tname(#[trigger] self.token_names@[j]) != Some(n.id()), // OBL: C10.access.no_token_is_reported_only_when_none_has_that_name
    {
        //@probe
        //@body file=cfgrammar/src/lib/yacc/grammar.rs fn=token_idx
        //@rule n=1 `self\.token_names\s*\.iter\(\)\s*\.position\(\|x\| x\.as_ref\(\)\.is_some_and\(\|\(_, x\)\| (x == n)\)\)\s*\.map\(\|x\| (TIdx\([^)]*\)\))\)` =>>
        let mut fi_: usize = 0;
        while fi_ < self.token_names.len()
            invariant fi_ <= self.token_names@.len(), self.wf(), forall|j: int| 0 <= j < fi_ ==> tname(#[trigger] self.token_names@[j]) != Some(n.id()),
            decreases self.token_names@.len() - fi_,
        {
            //@probe
            let hit_ = match &self.token_names[fi_] { Some((_, x)) => name_eq(x, n), None => false };
            if hit_ {
                let x = fi_;
                return Some(\2);
            }
            fi_ += 1;
        }
        None
        //@end
        //@endbody
    }
    pub fn iter_pidxs(&self) -> (r: Vec<PIdx<$T>>)
        ensures r@.len() == self.prods_len.0 && forall|k: int| 0 <= k < r@.len() ==> (#[trigger] r@[k]).0 == k, // OBL: C10.access.the_production_numbers_are_0_to_prods_len_in_order
    {
        //@probe
        //@body file=cfgrammar/src/lib/yacc/grammar.rs fn=iter_pidxs
        //@use units/c10_access_iter.inc
        //@endbody
    }
    pub fn iter_rules(&self) -> (r: Vec<RIdx<$T>>)
        ensures r@.len() == self.rules_len.0 && forall|k: int| 0 <= k < r@.len() ==> (#[trigger] r@[k]).0 == k, // OBL: C10.access.the_rule_numbers_are_0_to_rules_len_in_order
    {
        //@probe
        //@body file=cfgrammar/src/lib/yacc/grammar.rs fn=iter_rules
        //@use units/c10_access_iter.inc
        //@endbody
    }
    pub fn iter_tidxs(&self) -> (r: Vec<TIdx<$T>>)
        ensures r@.len() == self.tokens_len.0 && forall|k: int| 0 <= k < r@.len() ==> (#[trigger] r@[k]).0 == k, // OBL: C10.access.the_token_numbers_are_0_to_tokens_len_in_order
    {
        //@probe
        //@body file=cfgrammar/src/lib/yacc/grammar.rs fn=iter_tidxs
        //@use units/c10_access_iter.inc
        //@endbody
    }
}
//@use prelude/tail.rs
