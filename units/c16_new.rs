//@unit c16_new props=C16,C03,C15,C20 widths=u16 thorough_widths=u8,u16,u32
//@use units/c16_spec.inc
//@ctx new: the StateGraph was built for this grammar by lrtable (sg.wf): item productions and edge targets/symbols are in range, contexts have one bit per token, edge symbols of a state are distinct
//@ctx new: fewer than 2^31 tokens (the i32 counter `distinct_reduces`; automatic for u8/u16 storage)
//@ctx new: five panic sites whose unreachability is LR theory about the item sets are assumed unreachable (assume_lr / unreachable_lr): assert!(final_state.is_none()), `_ => panic!("Internal error")`, `Action::Shift(x) => assert!(*ref_stidx == x)`, `Action::Accept => panic!("Internal error")`, assert!(final_state.is_some())
fn new(grm: &YaccGrammar, sg: &StateGraph) -> (r: Result<Tables, StateTableError>)
    requires
        grm.wf(), grm.ntok() < 0x8000_0000, sg.wf(grm),
    ensures r matches Ok(t) ==> ({
        &&& t.actions@.len() == sg.nstates() * grm.ntok() && cells_wf(grm, t.actions@) // OBL: C16.cells_hold_indices_of_this_grammar
        &&& sa_ok(t.actions@, t.state_actions@) // OBL: C16.actions_listed_iff_not_error
        &&& t.state_shifts@.len() == sg.nstates() * grm.ntok() && forall|s: int| 0 <= s < sg.nstates() ==> #[trigger] row_shifts_ok(t.actions@, t.state_shifts@, s * grm.ntok(), grm.ntok() as int) // OBL: C16.shifts_listed_iff_action_is_shift
        &&& t.core_reduces@.len() == sg.nstates() * grm.nprods() && forall|s: int| 0 <= s < sg.nstates() ==> #[trigger] row_core_ok(grm, t.actions@, t.core_reduces@, s * grm.ntok(), grm.ntok() as int, s * grm.nprods(), grm.nprods() as int) // OBL: C16.core_reduces_one_per_rule_and_length C15.core_reduces_one_per_pair_for_every_hash_order
        &&& t.reduce_states@.len() == sg.nstates() && forall|s: int| 0 <= s < sg.nstates() ==> (#[trigger] t.reduce_states@[s]) == row_reduce_only(grm, t.actions@, s * grm.ntok(), grm.ntok() as int) // OBL: C16.reduce_only_iff_single_rule_and_length
        &&& forall|s: int| 0 <= s < sg.nstates() ==> #[trigger] row_shift_edges(sg.edge_list(s), sg.edge_list(s).len() as int, t.actions@, s * grm.ntok(), grm.ntok() as int) // OBL: C16.shift_target_is_the_graph_edge_on_that_token
        &&& t.gotos@.len() == sg.nstates() * grm.nrules() && forall|s: int| 0 <= s < sg.nstates() ==> #[trigger] row_gotos_ok(sg.edge_list(s), sg.edge_list(s).len() as int, t.gotos@, s * grm.nrules(), grm.nrules() as int) // OBL: C16.goto_is_the_graph_edge_on_that_rule
    }),
{
    //@probe
    proof { key_model(); lemma_zero_cell(); }
    let ghost nt = grm.ntok() as int;
    let ghost np = grm.nprods() as int;
    let ghost nr = grm.nrules() as int;
    let ghost ns = sg.nstates() as int;
    proof {
        assert(ns * np <= 0xffff_ffff * 0xffff_ffff && ns * nt <= 0xffff_ffff * 0xffff_ffff && ns * nr <= 0xffff_ffff * 0xffff_ffff && ns * nt >= 0 && ns * np >= 0 && ns * nr >= 0) by(nonlinear_arith)
            requires 0 <= ns <= 0xffff_ffff, 0 <= np <= 0xffff_ffff, 0 <= nt <= 0xffff_ffff, 0 <= nr <= 0xffff_ffff;
        assert(nt * ns == ns * nt && nr * ns == ns * nr) by(nonlinear_arith);
    }
    //@body file=lrtable/src/lib/statetable.rs fn=new block=`let mut state_actions = Vob::<u64>::from_elem_with_storage_type` endx=`let actions_sv = SparseVec`
    //@atend n=1 `^(\s*)for \(stidx, state\) in sg$` =>>
            proof { lemma_edge_rows_below(sg, A0_, actions@, G0_, gotos@, fi_ as int, nt, nr, ns); lemma_row(fi_ as int, nt, ns); lemma_row(fi_ as int, nr, ns); }
    //@end
    //@rule n=1 `^(\s*)for \(stidx, state\) in sg\s*\.iter_closed_states\(\)\s*\.enumerate\(\)\s*\.map\(\|\(x, y\)\| \(StIdx\(narrow_\$T\(x\)\), y\)\)\s*\{$` =>>
        for fi_ in 0..usize::from(sg.all_states_len())
            invariant
                grm.wf(), sg.wf(grm), nt == grm.ntok(), np == grm.nprods(), nr == grm.nrules(), ns == sg.nstates(), nt < 0x8000_0000, ns < $TMAX,
                0 <= ns * nt <= 0xffff_ffff * 0xffff_ffff, 0 <= ns * np <= 0xffff_ffff * 0xffff_ffff, 0 <= ns * nr <= 0xffff_ffff * 0xffff_ffff,
                actions@.len() == ns * nt, gotos@.len() == ns * nr, cells_wf(grm, actions@),
                forall|j: int| fi_ * nr <= j < ns * nr ==> (#[trigger] gotos@[j]) == 0,
                sa_ok(actions@, state_actions@), // OBL: C16.actions_listed_iff_not_error.while_populating
                forall|s: int| 0 <= s < fi_ ==> #[trigger] row_shift_edges(sg.edge_list(s), sg.edge_list(s).len() as int, actions@, s * nt, nt), // OBL: C16.shift_target_is_the_graph_edge_on_that_token.rows_done
                forall|s: int| 0 <= s < fi_ ==> #[trigger] row_gotos_ok(sg.edge_list(s), sg.edge_list(s).len() as int, gotos@, s * nr, nr), // OBL: C16.goto_is_the_graph_edge_on_that_rule.rows_done
                forall|i: int| fi_ * nt <= i < ns * nt ==> !(dec(#[trigger] actions@[i]) is Shift), // OBL: C16.shift_target_is_the_graph_edge_on_that_token.no_shift_before_the_edges_are_read
        {
            //@probe
            // dialect rule 5: sg.iter_closed_states().enumerate().map(|(x, y)| (StIdx(x.as_()), y))
            let stidx = StIdx(narrow_$T(fi_));
            let state_items_ = sg.closed_items(fi_);
            proof { lemma_row(fi_ as int, nt, ns); lemma_row(fi_ as int, nr, ns); }
            let ghost A0_ = actions@;
            let ghost G0_ = gotos@;
    //@end
    //@rule n=1 `^(\s*)for \(&\(pidx, dot\), ctx\) in &state\.items \{$` =>>
            let mut ii_next_: usize = 0;
            while ii_next_ < state_items_.len()
                invariant ii_next_ <= state_items_@.len(),
                grm.wf(), sg.wf(grm), nt == grm.ntok(), np == grm.nprods(), nr == grm.nrules(), ns == sg.nstates(), nt < 0x8000_0000, ns < $TMAX,
                0 <= ns * nt <= 0xffff_ffff * 0xffff_ffff, 0 <= ns * np <= 0xffff_ffff * 0xffff_ffff, 0 <= ns * nr <= 0xffff_ffff * 0xffff_ffff,
                actions@.len() == ns * nt, gotos@.len() == ns * nr, cells_wf(grm, actions@),
                forall|j: int| fi_ * nr <= j < ns * nr ==> (#[trigger] gotos@[j]) == 0,
                sa_ok(actions@, state_actions@), // OBL: C16.actions_listed_iff_not_error.while_populating
                forall|i: int| 0 <= i < fi_ * nt ==> #[trigger] actions@[i] == A0_[i], gotos@ == G0_,
                forall|i: int| fi_ * nt <= i < ns * nt ==> !(dec(#[trigger] actions@[i]) is Shift), // OBL: C16.shift_target_is_the_graph_edge_on_that_token.no_shift_before_the_edges_are_read
                    fi_ < ns, stidx.0 == fi_, state_items_@ == sg.items(fi_ as int), 0 <= fi_ * nt, fi_ * nt + nt <= ns * nt,
                decreases state_items_@.len() - ii_next_,
            {
                //@probe
                // dialect rule 5: for (&(pidx, dot), ctx) in &state.items  (HashMap order arbitrary);
                // a while loop whose counter advances first, so that `continue` keeps its meaning
                let ii_ = ii_next_;
                ii_next_ = ii_next_ + 1;
                let (pidx, dot) = state_items_[ii_].0;
                let ctx = &state_items_[ii_].1;
                assert((pidx.0 as nat) < grm.nprods() && ctx@.len() == nt);
    //@end
    //@rule n=1 `^(\s*)for tidx in ctx\.iter_set_bits\(\.\.\) \{$` =>>
                let mut tidx_next_: usize = 0;
                while tidx_next_ < ctx.len()
                    invariant tidx_next_ <= ctx@.len(),
                grm.wf(), sg.wf(grm), nt == grm.ntok(), np == grm.nprods(), nr == grm.nrules(), ns == sg.nstates(), nt < 0x8000_0000, ns < $TMAX,
                0 <= ns * nt <= 0xffff_ffff * 0xffff_ffff, 0 <= ns * np <= 0xffff_ffff * 0xffff_ffff, 0 <= ns * nr <= 0xffff_ffff * 0xffff_ffff,
                actions@.len() == ns * nt, gotos@.len() == ns * nr, cells_wf(grm, actions@),
                forall|j: int| fi_ * nr <= j < ns * nr ==> (#[trigger] gotos@[j]) == 0,
                sa_ok(actions@, state_actions@), // OBL: C16.actions_listed_iff_not_error.while_populating
                forall|i: int| 0 <= i < fi_ * nt ==> #[trigger] actions@[i] == A0_[i], gotos@ == G0_,
                forall|i: int| fi_ * nt <= i < ns * nt ==> !(dec(#[trigger] actions@[i]) is Shift), // OBL: C16.shift_target_is_the_graph_edge_on_that_token.no_shift_before_the_edges_are_read
                        fi_ < ns, stidx.0 == fi_, 0 <= fi_ * nt, fi_ * nt + nt <= ns * nt, (pidx.0 as nat) < grm.nprods(), ctx@.len() == nt,
                    decreases ctx@.len() - tidx_next_,
                {
                    //@probe
                    // dialect rule 5: ctx.iter_set_bits(..) visits the set bits in increasing order
                    let tidx = tidx_next_;
                    tidx_next_ = tidx_next_ + 1;
                    if !ctx.index(tidx) { continue; }
    //@end
    //@rule n=1 `^(\s*)for \(&sym, ref_stidx\) in sg\.edges\(stidx\) \{$` =>>
            let edges_ = sg.edges_vec(stidx);
            for ei_ in 0..edges_.len()
                invariant
                grm.wf(), sg.wf(grm), nt == grm.ntok(), np == grm.nprods(), nr == grm.nrules(), ns == sg.nstates(), nt < 0x8000_0000, ns < $TMAX,
                0 <= ns * nt <= 0xffff_ffff * 0xffff_ffff, 0 <= ns * np <= 0xffff_ffff * 0xffff_ffff, 0 <= ns * nr <= 0xffff_ffff * 0xffff_ffff,
                actions@.len() == ns * nt, gotos@.len() == ns * nr, cells_wf(grm, actions@),
                forall|j: int| fi_ * nr + nr <= j < ns * nr ==> (#[trigger] gotos@[j]) == 0,
                sa_ok(actions@, state_actions@), // OBL: C16.actions_listed_iff_not_error.while_populating
                    fi_ < ns, stidx.0 == fi_, 0 <= fi_ * nt, fi_ * nt + nt <= ns * nt, 0 <= fi_ * nr, fi_ * nr + nr <= ns * nr,
                    edges_@ == sg.edge_list(fi_ as int), nt_len.0 == nr,
                    forall|i: int| 0 <= i < fi_ * nt ==> #[trigger] actions@[i] == A0_[i],
                    forall|j: int| 0 <= j < fi_ * nr ==> #[trigger] gotos@[j] == G0_[j],
                    forall|i: int| fi_ * nt + nt <= i < ns * nt ==> !(dec(#[trigger] actions@[i]) is Shift),
                    row_shift_edges(edges_@, ei_ as int, actions@, fi_ * nt, nt), // OBL: C16.shift_target_is_the_graph_edge_on_that_token.row_in_progress
                    row_gotos_ok(edges_@, ei_ as int, gotos@, fi_ * nr, nr), // OBL: C16.goto_is_the_graph_edge_on_that_rule.row_in_progress
            {
                //@probe
                // dialect rule 5: for (&sym, ref_stidx) in sg.edges(stidx)  (HashMap order arbitrary)
                let sym = edges_[ei_].0;
                let ref_stidx = &edges_[ei_].1;
                assert((ref_stidx.0 as nat) < ns);
    //@end
    //@rule n=1 `shift_reduce\.sort_by_key\(\|&\(tidx, _, stidx\)\| \(stidx, tidx\)\);` => `sort_by_state_and_token(&mut shift_reduce); assert(sr_sorted(shift_reduce@)); // OBL: C15.shift_reduce_conflicts_listed_by_state_and_token_whatever_the_edge_order`
    //@rule n=* `pidx\.cmp\(&r_pidx\)` => `pidx_cmp(pidx, r_pidx)`
    //@rule n=1 `^(\s*)match pidx_cmp\(pidx, r_pidx\) \{$` => `\1let ghost rr_before_ = reduce_reduce@;\n\1match pidx_cmp(pidx, r_pidx) {`
    //@after n=1 `match pidx_cmp\(pidx, r_pidx\) \{` =>>
                            proof { lemma_codec2(Action::Reduce(pidx)); lemma_codec2(Action::Reduce(r_pidx)); }
                            assert(dec(actions@[off as int]) == Action::Reduce(if pidx.0 <= r_pidx.0 { pidx } else { r_pidx })); // OBL: C03.reduce_reduce_keeps_the_production_declared_earlier
                            assert(pidx.0 == r_pidx.0 ==> reduce_reduce@ == rr_before_); // OBL: C03.reduce_reduce_not_reported_for_the_same_production
                            assert(pidx.0 != r_pidx.0 ==> reduce_reduce@ == rr_before_.push((TIdx(tidx as $T), if pidx.0 < r_pidx.0 { pidx } else { r_pidx }, if pidx.0 < r_pidx.0 { r_pidx } else { pidx }, stidx))); // OBL: C03.reduce_reduce_conflict_reported_once_with_both_productions
    //@end
    //@rule n=1 `if dot < grm\.prod_len\(pidx\) \{` => `if dot.0 < grm.prod_len(pidx).0 {`
    //@rule n=1 `\{ let assert_cond_ = gotos\[off\] == 0; assert\(assert_cond_\); \}` => `{ let assert_cond_ = gotos[off] == 0; assert(assert_cond_); } // OBL: C16.goto_cell_written_once`
    //@rule n=* `^(\s*)actions\[off\] = StateTable::encode\((.*)\);$` => `\1actions[off] = StateTable::encode(\2); proof { lemma_codec2(\2); }`
    //@rule n=1 `\{ let assert_cond_ = final_state\.is_none\(\); assert\(assert_cond_\); \}` => `assume_lr(final_state.is_none());`
    //@rule n=1 `\{ let assert_cond_ = final_state\.is_some\(\); assert\(assert_cond_\); \}` => `assume_lr(final_state.is_some());`
    //@rule n=1 `Action::Shift\(x\) => assert\(\*ref_stidx == x\),` => `Action::Shift(x) => { assume_lr(ref_stidx.0 == x.0); }`
    //@rule n=1 `_ => vpanic\(\),` => `_ => unreachable_lr(),`
    //@rule n=1 `Action::Accept => vpanic\(\),` => `Action::Accept => unreachable_lr(),`
    //@rule n=1 `^(\s*)resolve_shift_reduce\($` => `\1proof { lemma_reduce_cell(actions@[off as int]); }\n\1resolve_shift_reduce(`
    //@after n=1 `^\s*resolve_shift_reduce\(` =>>
                                proof { lemma_codec2(Action::Reduce(r_pidx)); lemma_codec2(Action::Shift(*ref_stidx)); lemma_codec2(Action::<$T>::Error); }
    //@end
    //@rule n=1 `^(\s*)for stidx in sg\.iter_stidxs\(\) \{$` =>>
        let ns_ = usize::from(sg.all_states_len());
        for si_ in 0..ns_
            invariant
                grm.wf(), nt == grm.ntok(), np == grm.nprods(), ns == sg.nstates(), nt < 0x8000_0000, ns < $TMAX, ns_ == ns,
                actions@ == A, A.len() == ns * nt, 0 <= ns * nt <= 0xffff_ffff * 0xffff_ffff, 0 <= ns * np <= 0xffff_ffff * 0xffff_ffff, sa_ok(A, state_actions@),
                edges_ok(sg, A, gotos@, nt, nr, ns), gotos@.len() == ns * nr,
                forall|i: int| 0 <= i < A.len() ==> (#[trigger] A[i] >> 2) <= $TMAX,
                forall|i: int| 0 <= i < A.len() ==> (dec(#[trigger] A[i]) matches Action::Reduce(p) ==> (p.0 as nat) < grm.nprods()),
                state_shifts@.len() == ns * nt, core_reduces@.len() == ns * np, reduce_states@.len() == ns,
                forall|s: int| 0 <= s < si_ ==> #[trigger] row_shifts_ok(A, state_shifts@, s * nt, nt),
                forall|s: int| 0 <= s < si_ ==> #[trigger] row_core_ok(grm, A, core_reduces@, s * nt, nt, s * np, np),
                forall|s: int| 0 <= s < si_ ==> (#[trigger] reduce_states@[s]) == row_reduce_only(grm, A, s * nt, nt),
                forall|i: int| si_ * nt <= i < ns * nt ==> !(#[trigger] state_shifts@[i]), // OBL: C16.shifts_listed_iff_action_is_shift.bits_only_set_from_final_cells
                forall|i: int| si_ * np <= i < ns * np ==> !(#[trigger] core_reduces@[i]), // OBL: C16.core_reduces_one_per_rule_and_length.bits_only_set_from_final_cells
                forall|s: int| si_ <= s < ns ==> !(#[trigger] reduce_states@[s]),
        {
            //@probe
            // dialect rule 5: sg.iter_stidxs() is (0..states.len()).map(|x| StIdx(x.as_()))
            let stidx = StIdx(narrow_$T(si_));
            let ghost shifts0 = state_shifts@;
            let ghost core0 = core_reduces@;
            let ghost red0 = reduce_states@;
            let ghost lo = si_ * nt;
            let ghost clo = si_ * np;
            proof { lemma_row(si_ as int, nt, ns); lemma_row(si_ as int, np, ns); key_model(); }
    //@end
    //@rule n=1 `^(\s*)for tidx in grm\.iter_tidxs\(\) \{$` =>>
            for ti_ in 0..usize::from(grm.tokens_len())
                invariant
                grm.wf(), nt == grm.ntok(), np == grm.nprods(), ns == sg.nstates(), nt < 0x8000_0000, ns < $TMAX, ns_ == ns,
                actions@ == A, A.len() == ns * nt, 0 <= ns * nt <= 0xffff_ffff * 0xffff_ffff, 0 <= ns * np <= 0xffff_ffff * 0xffff_ffff, sa_ok(A, state_actions@),
                edges_ok(sg, A, gotos@, nt, nr, ns), gotos@.len() == ns * nr,
                forall|i: int| 0 <= i < A.len() ==> (#[trigger] A[i] >> 2) <= $TMAX,
                forall|i: int| 0 <= i < A.len() ==> (dec(#[trigger] A[i]) matches Action::Reduce(p) ==> (p.0 as nat) < grm.nprods()),
                state_shifts@.len() == ns * nt, core_reduces@.len() == ns * np, reduce_states@.len() == ns,
                    si_ < ns, stidx.0 == si_, core_reduces@ == core0, reduce_states@ == red0,
                    lo == si_ * nt, 0 <= lo, lo + nt <= ns * nt,
                    forall|i: int| 0 <= i < ns * nt && !(lo <= i < lo + nt) ==> #[trigger] state_shifts@[i] == shifts0[i],
                    forall|i: int| lo <= i < lo + ti_ ==> (#[trigger] state_shifts@[i]) == (dec(A[i]) is Shift), // OBL: C16.shifts_listed_iff_action_is_shift.row_scan
                    forall|i: int| lo + ti_ <= i < lo + nt ==> !(#[trigger] state_shifts@[i]),
                    only_reduces ==> forall|i: int| lo <= i < lo + ti_ ==> !(dec(#[trigger] A[i]) is Shift) && !(dec(A[i]) is Accept), // OBL: C16.reduce_only_iff_single_rule_and_length.no_shift_or_accept_seen
                    !only_reduces ==> exists|i: int| lo <= i < lo + ti_ && ((dec(#[trigger] A[i]) is Shift) || (dec(A[i]) is Accept)), // OBL: C16.reduce_only_iff_single_rule_and_length.flag_cleared_only_by_shift_or_accept
                    nt_depth@.dom().finite(), nt_depth@.len() <= ti_,
                    nd_ok(grm, A, nt_depth@, lo, lo + ti_), // OBL: C16.core_reduces_one_per_rule_and_length.one_entry_per_pair
            {
                //@probe
                // dialect rule 5: grm.iter_tidxs() is (0..tokens_len).map(|x| TIdx(x.as_()))
                let tidx = TIdx(narrow_$T(ti_));
                let ghost nd0 = nt_depth@;
                proof { key_model(); }
    //@end
    //@rule n=1 `^(\s*)for &pidx in nt_depth\.values\(\) \{$` =>>
            let ghost shifts1 = state_shifts@;
            let es_ = hm_entries(&nt_depth);
            for vi_ in 0..es_.len()
                invariant
                grm.wf(), nt == grm.ntok(), np == grm.nprods(), ns == sg.nstates(), nt < 0x8000_0000, ns < $TMAX, ns_ == ns,
                actions@ == A, A.len() == ns * nt, 0 <= ns * nt <= 0xffff_ffff * 0xffff_ffff, 0 <= ns * np <= 0xffff_ffff * 0xffff_ffff, sa_ok(A, state_actions@),
                edges_ok(sg, A, gotos@, nt, nr, ns), gotos@.len() == ns * nr,
                forall|i: int| 0 <= i < A.len() ==> (#[trigger] A[i] >> 2) <= $TMAX,
                forall|i: int| 0 <= i < A.len() ==> (dec(#[trigger] A[i]) matches Action::Reduce(p) ==> (p.0 as nat) < grm.nprods()),
                state_shifts@.len() == ns * nt, core_reduces@.len() == ns * np, reduce_states@.len() == ns,
                    si_ < ns, stidx.0 == si_, state_shifts@ == shifts1, reduce_states@ == red0,
                    lo == si_ * nt, 0 <= lo, lo + nt <= ns * nt, clo == si_ * np, 0 <= clo, clo + np <= ns * np,
                    entries_ok(es_@, nt_depth@), nt_depth@.len() <= nt, nd_ok(grm, A, nt_depth@, lo, lo + nt),
                    forall|j: int| 0 <= j < ns * np && !(clo <= j < clo + np) ==> #[trigger] core_reduces@[j] == core0[j],
                    core_from_entries(core_reduces@, es_@, clo, np, vi_ as int), // OBL: C16.core_reduces_one_per_rule_and_length.bits_are_the_entries C15.core_reduces_set_for_every_entry_in_any_order
                    distinct_reduces == vi_, // OBL: C16.reduce_only_iff_single_rule_and_length.counter_is_number_of_pairs C15.reduce_counter_independent_of_hash_order
            {
                //@probe
                let pidx = es_[vi_].1;
    //@end
    //@after n=1 nth=3 `match StateTable::decode\(actions\[off\]\) \{` =>>
                proof {
                    let i0 = lo + ti_;
                    if dec(A[i0]) is Reduce {
                        let p0 = dec(A[i0])->Reduce_0;
                        assert(nt_depth@ =~= nd0.insert(key(grm, p0), p0));
                        assert(nt_depth@.dom() =~= nd0.dom().insert(key(grm, p0)));
                    }
                    lemma_nd_step(grm, A, nd0, nt_depth@, lo, i0);
                }
    //@end
    //@rule n=1 `^(\s*)if core_reduces\.set\(off, true\) \{$` =>>
                proof {
                    assert(nt_depth@.contains_key(es_@[vi_ as int].0));
                    assert(reduces(A, lo, lo + nt, pidx));
                    let i = choose|i: int| lo <= i < lo + nt && dec(#[trigger] A[i]) == Action::Reduce(pidx);
                    assert((pidx.0 as nat) < grm.nprods());
                    assert(off == clo + pidx.0);
                    assert(!core_reduces@[off as int]) by {
                        if core_reduces@[off as int] {
                            let e = choose|e: int| 0 <= e < vi_ && (#[trigger] es_@[e]).1.0 == off - clo;
                            assert(nt_depth@.contains_key(es_@[e].0));
                            assert(es_@[e].1 == pidx);
                        }
                    }
                }
                let ghost corep = core_reduces@;
                if core_reduces.set(off, true) {
    //@end
    //@rule n=1 `^(\s*)distinct_reduces \+= 1;\n(\s*)\}\n` =>>
                    distinct_reduces += 1;
                }
                proof { lemma_core_step(corep, core_reduces@, es_@, clo, np, vi_ as int, off as int); }
    //@end
    //@rule n=1 `^(\s*)reduce_states\.set\(usize::from\(stidx\), true\);\n(\s*)\}\n` =>>
                reduce_states.set(usize::from(stidx), true);
            }
            proof {
                lemma_row_core(grm, A, core_reduces@, es_@, nt_depth@, lo, nt, clo, np);
                lemma_reduce_only(grm, A, es_@, nt_depth@, lo, nt, only_reduces);
                lemma_rows_below(grm, A, shifts0, state_shifts@, core0, core_reduces@, si_ as int, nt, np, ns);
                lemma_row(si_ as int, nt, ns); lemma_row(si_ as int, np, ns);
            }
    //@end
    //@rule n=* `Vob::<u64>::from_elem_with_storage_type\(` => `Vob::from_elem(`
    //@rule n=1 `let mut nt_depth = HashMap::new\(\);` => `let ghost A = actions@; proof { lemma_edges_ok_intro(sg, A, gotos@, nt, nr, ns); } let mut nt_depth: HashMap<(RIdx<$T>, usize), PIdx<$T>> = HashMap::new();`
    //@endbody
    proof { lemma_edges_ok_elim(sg, actions@, gotos@, nt, nr, ns); }
    Ok(Tables { actions, gotos, state_actions, core_reduces, state_shifts, reduce_states })
}
//@use prelude/tail.rs
