//@unit c16_new props=C16,C03,C15,C20 widths=u16 thorough_widths=u8,u16,u32
//@use prelude/head.rs
use std::collections::HashMap;
use vstd::std_specs::hash::*;
//@use prelude/action.rs
//@use prelude/grammar.rs
//@use prelude/vob.rs

pub struct StateTable {}
impl StateTable {
    // contract proved in unit c16_codec
    #[verifier::external_body]
    pub fn decode(bits: usize) -> (r: Action<$T>) requires (bits >> 2) <= $TMAX ensures r == dec(bits) { unimplemented!() }
    // contract proved in unit c16_codec
    #[verifier::external_body]
    pub fn encode(action: Action<$T>) -> (r: usize) ensures r == enc(action) { unimplemented!() }
}
// contract proved in unit c03_resolve (same clauses, restated over the spec functions used here)
#[verifier::external_body]
fn resolve_shift_reduce(grm: &YaccGrammar, actions: &mut Vec<usize>, off: usize, tidx: TIdx<$T>, pidx: PIdx<$T>, stidx: StIdx<$T>,
        shift_reduce: &mut Vec<(TIdx<$T>, PIdx<$T>, StIdx<$T>)>, conflict_stidx: StIdx<$T>)
    requires off < old(actions)@.len(), old(actions)@[off as int] == enc(Action::Reduce(pidx)),
    ensures final(actions)@.len() == old(actions)@.len(),
        forall|i: int| 0 <= i < old(actions)@.len() && i != off ==> final(actions)@[i] == old(actions)@[i],
        final(actions)@[off as int] == enc(Action::Reduce(pidx)) || final(actions)@[off as int] == enc(Action::Shift(stidx)) || final(actions)@[off as int] == enc(Action::<$T>::Error),
{ unimplemented!() }
// contract proved in unit c16_codec
#[verifier::external_body]
fn actions_offset(tokens_len: TIdx<$T>, stidx: StIdx<$T>, tidx: TIdx<$T>) -> (r: usize)
    ensures r == (stidx.0 as usize) * (tokens_len.0 as usize) + (tidx.0 as usize) { unimplemented!() }

#[verifier::external_body]
pub struct StateGraph { _s: usize }
pub type Item = ((PIdx<$T>, SIdx<$T>), Vob);
impl StateGraph {
    pub uninterp spec fn nstates(&self) -> nat;
    pub uninterp spec fn items(&self, s: int) -> Seq<Item>;                    // closed state s, in HashMap iteration order
    pub uninterp spec fn edge_list(&self, s: int) -> Seq<(Symbol<$T>, StIdx<$T>)>;  // edges of state s, in HashMap iteration order
    // what lrtable's own construction guarantees about a StateGraph for `grm` (assumed)
    pub open spec fn wf(&self, grm: &YaccGrammar) -> bool {
        &&& self.nstates() <= $TMAX
        &&& forall|s: int, e: int| 0 <= s < self.nstates() && 0 <= e < self.items(s).len() ==>
                ((#[trigger] self.items(s)[e]).0.0.0 as nat) < grm.nprods() && self.items(s)[e].1@.len() == grm.ntok()
        &&& forall|s: int, e: int| 0 <= s < self.nstates() && 0 <= e < self.edge_list(s).len() ==>
                ((#[trigger] self.edge_list(s)[e]).1.0 as nat) < self.nstates()
                && (self.edge_list(s)[e].0 matches Symbol::Rule(r) ==> (r.0 as nat) < grm.nrules())
                && (self.edge_list(s)[e].0 matches Symbol::Token(t) ==> (t.0 as nat) < grm.ntok())
        // HashMap keys are distinct
        &&& forall|s: int, e1: int, e2: int| 0 <= s < self.nstates() && 0 <= e1 < e2 < self.edge_list(s).len() ==>
                (#[trigger] self.edge_list(s)[e1]).0 != (#[trigger] self.edge_list(s)[e2]).0
    }
    // contract proved in unit c20_states (StateGraph::new only builds graphs whose state count fits StorageT)
    #[verifier::external_body]
    pub fn all_states_len(&self) -> (r: StIdx<$T>) ensures r.0 == self.nstates(), self.nstates() <= $TMAX { unimplemented!() }
    // dialect rule 5: `sg.iter_closed_states().enumerate()` + `for (&(pidx, dot), ctx) in &state.items`
    #[verifier::external_body]
    pub fn closed_items(&self, s: usize) -> (r: &Vec<Item>) requires s < self.nstates() ensures r@ == self.items(s as int) { unimplemented!() }
    // dialect rule 5: `for (&sym, ref_stidx) in sg.edges(stidx)`
    #[verifier::external_body]
    pub fn edges_vec(&self, s: StIdx<$T>) -> (r: &Vec<(Symbol<$T>, StIdx<$T>)>) requires (s.0 as nat) < self.nstates() ensures r@ == self.edge_list(s.0 as int) { unimplemented!() }
}
// derive(Ord) on a one-field tuple struct compares the field
#[verifier::external_body]
pub fn pidx_cmp(a: PIdx<$T>, b: PIdx<$T>) -> (r: Ordering)
    ensures (r is Less) == (a.0 < b.0), (r is Equal) == (a.0 == b.0), (r is Greater) == (a.0 > b.0) { unimplemented!() }
// panics of StateTable::new whose unreachability is LR theory about the item sets (C01 territory): assumed
#[verifier::external_body]
pub fn assume_lr(b: bool) ensures b { unimplemented!() }
#[verifier::external_body]
pub fn unreachable_lr<A>() -> (r: A) ensures false { unimplemented!() }
pub enum StateTableErrorKind { AcceptReduceConflict(Option<PIdx<$T>>) }
pub struct StateTableError { pub kind: StateTableErrorKind, pub pidx: PIdx<$T> }

// assumed: derived Hash/Eq of (RIdx, usize) agree with structural equality
pub axiom fn key_model() ensures obeys_key_model::<(RIdx<$T>, usize)>();
// HashMap::values() as an arbitrary-order, duplicate-free list of the map's entries
// (dialect rule 5; the order is NOT specified: what is proved holds for every order)
#[verifier::external_body]
fn hm_entries(m: &HashMap<(RIdx<$T>, usize), PIdx<$T>>) -> (r: Vec<((RIdx<$T>, usize), PIdx<$T>)>)
    ensures entries_ok(r@, m@),
{ unimplemented!() }

// ---------------- specification (from the property text) ----------------
// Row s of a table with n columns occupies the flat indices [s*n, s*n+n); column t is
// index s*n+t.  All row predicates are stated over the flat range, lo = s*n.
pub open spec fn key(grm: &YaccGrammar, p: PIdx<$T>) -> (RIdx<$T>, usize) {
    (grm.rule_of()[p.0 as int], grm.prods()[p.0 as int].len() as usize)
}
// production p is reduced by the action of some token in the row [lo, hi)
pub open spec fn reduces(actions: Seq<usize>, lo: int, hi: int, p: PIdx<$T>) -> bool {
    exists|i: int| lo <= i < hi && dec(#[trigger] actions[i]) == Action::Reduce(p)
}
pub open spec fn row_shifts_ok(actions: Seq<usize>, shifts: Seq<bool>, lo: int, nt: int) -> bool {
    forall|i: int| lo <= i < lo + nt ==> (#[trigger] shifts[i]) == (dec(actions[i]) is Shift)
}
pub open spec fn row_clear(v: Seq<bool>, lo: int, n: int) -> bool { forall|i: int| lo <= i < lo + n ==> !(#[trigger] v[i]) }
pub open spec fn row_core_ok(grm: &YaccGrammar, actions: Seq<usize>, core: Seq<bool>, lo: int, nt: int, clo: int, np: int) -> bool {
    // nothing else: every listed production is one of the state's reductions
    &&& forall|j: int| clo <= j < clo + np && #[trigger] core[j] ==> reduces(actions, lo, lo + nt, PIdx((j - clo) as $T))
    // one production for each distinct (rule, length) pair among the reductions
    &&& forall|q: PIdx<$T>| #[trigger] reduces(actions, lo, lo + nt, q) ==> exists|j: int| clo <= j < clo + np && #[trigger] core[j] && key(grm, PIdx((j - clo) as $T)) == key(grm, q)
    // ... and only one
    &&& forall|j1: int, j2: int| clo <= j1 < clo + np && clo <= j2 < clo + np && #[trigger] core[j1] && #[trigger] core[j2]
            && key(grm, PIdx((j1 - clo) as $T)) == key(grm, PIdx((j2 - clo) as $T)) ==> j1 == j2
}
pub open spec fn row_reduce_only(grm: &YaccGrammar, actions: Seq<usize>, lo: int, nt: int) -> bool {
    &&& forall|i: int| lo <= i < lo + nt ==> !(dec(#[trigger] actions[i]) is Shift) && !(dec(actions[i]) is Accept)
    &&& exists|p: PIdx<$T>| #[trigger] reduces(actions, lo, lo + nt, p)
    &&& forall|p: PIdx<$T>, q: PIdx<$T>| #[trigger] reduces(actions, lo, lo + nt, p) && #[trigger] reduces(actions, lo, lo + nt, q) ==> key(grm, p) == key(grm, q)
}
pub proof fn lemma_row(s: int, n: int, ns: int)
    requires 0 <= s < ns, 0 <= n
    ensures 0 <= s * n, s * n + n <= ns * n, s * n + n == (s + 1) * n
{
    assert(s * n + n == (s + 1) * n) by(nonlinear_arith);
    assert((s + 1) * n <= ns * n) by(nonlinear_arith) requires s + 1 <= ns, n >= 0;
    assert(s * n >= 0) by(nonlinear_arith) requires s >= 0, n >= 0;
}
pub proof fn lemma_rows_ordered(s1: int, s2: int, n: int)
    requires 0 <= s1 < s2, 0 <= n
    ensures s1 * n + n <= s2 * n
{
    assert(s1 * n + n == (s1 + 1) * n) by(nonlinear_arith);
    assert((s1 + 1) * n <= s2 * n) by(nonlinear_arith) requires s1 + 1 <= s2, n >= 0;
}

pub type NtKey = (RIdx<$T>, usize);
// the nt_depth map after looking at the cells [lo, hi): one entry per (rule, length) pair
pub open spec fn nd_ok(grm: &YaccGrammar, A: Seq<usize>, nd: Map<NtKey, PIdx<$T>>, lo: int, hi: int) -> bool {
    &&& forall|k: NtKey| nd.contains_key(k) ==> reduces(A, lo, hi, #[trigger] nd[k]) && key(grm, nd[k]) == k
    &&& forall|q: PIdx<$T>| #[trigger] reduces(A, lo, hi, q) ==> nd.contains_key(key(grm, q))
}
pub open spec fn entries_ok(es: Seq<(NtKey, PIdx<$T>)>, nd: Map<NtKey, PIdx<$T>>) -> bool {
    &&& es.len() == nd.len()
    &&& forall|i: int| 0 <= i < es.len() ==> nd.contains_key(#[trigger] es[i].0) && nd[es[i].0] == es[i].1
    &&& forall|i: int, j: int| 0 <= i < j < es.len() ==> #[trigger] es[i].0 != #[trigger] es[j].0
    &&& forall|k: NtKey| nd.contains_key(k) ==> exists|i: int| 0 <= i < es.len() && (#[trigger] es[i]).0 == k
}
// one more cell has been looked at
pub proof fn lemma_nd_step(grm: &YaccGrammar, A: Seq<usize>, nd0: Map<NtKey, PIdx<$T>>, nd1: Map<NtKey, PIdx<$T>>, lo: int, hi: int)
    requires
        nd_ok(grm, A, nd0, lo, hi), 0 <= lo <= hi < A.len(),
        dec(A[hi]) matches Action::Reduce(p) ==> nd1 == nd0.insert(key(grm, p), p),
        !(dec(A[hi]) is Reduce) ==> nd1 == nd0,
    ensures nd_ok(grm, A, nd1, lo, hi + 1),
{
    assert forall|q: PIdx<$T>| #[trigger] reduces(A, lo, hi + 1, q) implies nd1.contains_key(key(grm, q)) by {
        let i = choose|i: int| lo <= i < hi + 1 && dec(#[trigger] A[i]) == Action::Reduce(q);
        if i < hi { assert(reduces(A, lo, hi, q)); }
    }
    assert forall|k: NtKey| nd1.contains_key(k) implies reduces(A, lo, hi + 1, #[trigger] nd1[k]) && key(grm, nd1[k]) == k by {
        if nd0.contains_key(k) && nd1[k] == nd0[k] {
            let i = choose|i: int| lo <= i < hi && dec(#[trigger] A[i]) == Action::Reduce(nd0[k]);
            assert(lo <= i < hi + 1 && dec(A[i]) == Action::Reduce(nd1[k]));
        } else {
            assert(dec(A[hi]) == Action::Reduce(nd1[k]));
        }
    }
}
// core row written from the entries
pub open spec fn core_from_entries(core: Seq<bool>, es: Seq<(NtKey, PIdx<$T>)>, clo: int, np: int, upto: int) -> bool {
    forall|j: int| clo <= j < clo + np ==> (#[trigger] core[j]) == (exists|e: int| 0 <= e < upto && (#[trigger] es[e]).1.0 == j - clo)
}
pub proof fn lemma_core_step(core0: Seq<bool>, core1: Seq<bool>, es: Seq<(NtKey, PIdx<$T>)>, clo: int, np: int, vi: int, off: int)
    requires core_from_entries(core0, es, clo, np, vi), 0 <= vi < es.len(), clo <= off < clo + np, off < core0.len(), 0 <= clo,
        core1 == core0.update(off, true), es[vi].1.0 == off - clo,
    ensures core_from_entries(core1, es, clo, np, vi + 1),
{
    assert forall|j: int| clo <= j < clo + np implies (#[trigger] core1[j]) == (exists|e: int| 0 <= e < vi + 1 && (#[trigger] es[e]).1.0 == j - clo) by {
        if j == off { assert(es[vi].1.0 == j - clo); }
        else {
            assert(core1[j] == core0[j]);
            if core0[j] { let e = choose|e: int| 0 <= e < vi && (#[trigger] es[e]).1.0 == j - clo; assert(0 <= e < vi + 1); }
            if exists|e: int| 0 <= e < vi + 1 && (#[trigger] es[e]).1.0 == j - clo {
                let e = choose|e: int| 0 <= e < vi + 1 && (#[trigger] es[e]).1.0 == j - clo;
                assert(e != vi);
                assert(0 <= e < vi);
            }
        }
    }
}
pub proof fn lemma_row_core(grm: &YaccGrammar, A: Seq<usize>, core: Seq<bool>, es: Seq<(NtKey, PIdx<$T>)>, nd: Map<NtKey, PIdx<$T>>, lo: int, nt: int, clo: int, np: int)
    requires
        grm.wf(), np == grm.nprods(), 0 <= lo, lo + nt <= A.len(), 0 <= clo, clo + np <= core.len(),
        forall|i: int| 0 <= i < A.len() ==> (dec(#[trigger] A[i]) matches Action::Reduce(p) ==> (p.0 as nat) < grm.nprods()),
        nd_ok(grm, A, nd, lo, lo + nt), entries_ok(es, nd), core_from_entries(core, es, clo, np, es.len() as int),
    ensures row_core_ok(grm, A, core, lo, nt, clo, np),
{
    assert forall|j: int| clo <= j < clo + np && #[trigger] core[j] implies reduces(A, lo, lo + nt, PIdx((j - clo) as $T)) by {
        let e = choose|e: int| 0 <= e < es.len() && (#[trigger] es[e]).1.0 == j - clo;
        assert(nd.contains_key(es[e].0));
        assert(es[e].1 == PIdx::<$T>((j - clo) as $T));
    }
    assert forall|q: PIdx<$T>| #[trigger] reduces(A, lo, lo + nt, q) implies exists|j: int| clo <= j < clo + np && #[trigger] core[j] && key(grm, PIdx((j - clo) as $T)) == key(grm, q) by {
        assert(nd.contains_key(key(grm, q)));
        let e = choose|e: int| 0 <= e < es.len() && (#[trigger] es[e]).0 == key(grm, q);
        let v = es[e].1;
        assert(reduces(A, lo, lo + nt, v));
        let i = choose|i: int| lo <= i < lo + nt && dec(#[trigger] A[i]) == Action::Reduce(v);
        assert((v.0 as nat) < grm.nprods());
        let j = clo + v.0;
        assert(core[j]);
        assert(PIdx::<$T>((j - clo) as $T) == v);
    }
    assert forall|j1: int, j2: int| clo <= j1 < clo + np && clo <= j2 < clo + np && #[trigger] core[j1] && #[trigger] core[j2]
            && key(grm, PIdx((j1 - clo) as $T)) == key(grm, PIdx((j2 - clo) as $T)) implies j1 == j2 by {
        let e1 = choose|e: int| 0 <= e < es.len() && (#[trigger] es[e]).1.0 == j1 - clo;
        let e2 = choose|e: int| 0 <= e < es.len() && (#[trigger] es[e]).1.0 == j2 - clo;
        assert(nd.contains_key(es[e1].0) && nd.contains_key(es[e2].0));
        assert(es[e1].1 == PIdx::<$T>((j1 - clo) as $T) && es[e2].1 == PIdx::<$T>((j2 - clo) as $T));
        assert(es[e1].0 == es[e2].0);
        if e1 < e2 { } else if e2 < e1 { }
    }
}
pub proof fn lemma_reduce_only(grm: &YaccGrammar, A: Seq<usize>, es: Seq<(NtKey, PIdx<$T>)>, nd: Map<NtKey, PIdx<$T>>, lo: int, nt: int, only_reduces: bool)
    requires
        nd_ok(grm, A, nd, lo, lo + nt), entries_ok(es, nd),
        only_reduces ==> forall|i: int| lo <= i < lo + nt ==> !(dec(#[trigger] A[i]) is Shift) && !(dec(A[i]) is Accept),
        !only_reduces ==> exists|i: int| lo <= i < lo + nt && ((dec(#[trigger] A[i]) is Shift) || (dec(A[i]) is Accept)),
    ensures (only_reduces && es.len() == 1) == row_reduce_only(grm, A, lo, nt),
{
    let flag = only_reduces && es.len() == 1;
    if flag {
        assert(nd.contains_key(es[0].0));
        assert(reduces(A, lo, lo + nt, es[0].1));
        assert forall|p: PIdx<$T>, q: PIdx<$T>| #[trigger] reduces(A, lo, lo + nt, p) && #[trigger] reduces(A, lo, lo + nt, q) implies key(grm, p) == key(grm, q) by {
            let e1 = choose|e: int| 0 <= e < es.len() && (#[trigger] es[e]).0 == key(grm, p);
            let e2 = choose|e: int| 0 <= e < es.len() && (#[trigger] es[e]).0 == key(grm, q);
        }
        assert(row_reduce_only(grm, A, lo, nt));
    }
    if row_reduce_only(grm, A, lo, nt) {
        let p = choose|p: PIdx<$T>| #[trigger] reduces(A, lo, lo + nt, p);
        assert(nd.contains_key(key(grm, p)));
        let e0 = choose|e: int| 0 <= e < es.len() && (#[trigger] es[e]).0 == key(grm, p);
        if es.len() >= 2 {
            assert(nd.contains_key(es[0].0) && nd.contains_key(es[1].0));
            assert(reduces(A, lo, lo + nt, es[0].1) && reduces(A, lo, lo + nt, es[1].1));
            assert(key(grm, es[0].1) == key(grm, es[1].1));
        }
        if !only_reduces {
            let i = choose|i: int| lo <= i < lo + nt && ((dec(#[trigger] A[i]) is Shift) || (dec(A[i]) is Accept));
        }
        assert(flag);
    }
}
// rows strictly below the current one are outside the frame that changed
pub proof fn lemma_rows_below(grm: &YaccGrammar, A: Seq<usize>, sh0: Seq<bool>, sh1: Seq<bool>, c0: Seq<bool>, c1: Seq<bool>, si: int, nt: int, np: int, ns: int)
    requires 0 <= si < ns, 0 <= nt, 0 <= np, sh0.len() == sh1.len() == ns * nt, c0.len() == c1.len() == ns * np,
        forall|i: int| 0 <= i < ns * nt && !(si * nt <= i < si * nt + nt) ==> #[trigger] sh1[i] == sh0[i],
        forall|j: int| 0 <= j < ns * np && !(si * np <= j < si * np + np) ==> #[trigger] c1[j] == c0[j],
        forall|s: int| 0 <= s < si ==> #[trigger] row_shifts_ok(A, sh0, s * nt, nt),
        forall|s: int| 0 <= s < si ==> #[trigger] row_core_ok(grm, A, c0, s * nt, nt, s * np, np),
    ensures
        forall|s: int| 0 <= s < si ==> #[trigger] row_shifts_ok(A, sh1, s * nt, nt),
        forall|s: int| 0 <= s < si ==> #[trigger] row_core_ok(grm, A, c1, s * nt, nt, s * np, np),
{
    assert forall|s: int| 0 <= s < si implies #[trigger] row_shifts_ok(A, sh1, s * nt, nt) by {
        lemma_rows_ordered(s, si, nt); lemma_row(s, nt, ns);
        assert(row_shifts_ok(A, sh0, s * nt, nt));
    }
    assert forall|s: int| 0 <= s < si implies #[trigger] row_core_ok(grm, A, c1, s * nt, nt, s * np, np) by {
        lemma_rows_ordered(s, si, np); lemma_row(s, np, ns);
        let clo = s * np;
        let lo = s * nt;
        assert(row_core_ok(grm, A, c0, lo, nt, clo, np));
        assert forall|j: int| clo <= j < clo + np && #[trigger] c1[j] implies reduces(A, lo, lo + nt, PIdx((j - clo) as $T)) by { assert(c0[j]); }
        assert forall|q: PIdx<$T>| #[trigger] reduces(A, lo, lo + nt, q) implies exists|j: int| clo <= j < clo + np && #[trigger] c1[j] && key(grm, PIdx((j - clo) as $T)) == key(grm, q) by {
            let j = choose|j: int| clo <= j < clo + np && #[trigger] c0[j] && key(grm, PIdx((j - clo) as $T)) == key(grm, q);
            assert(c1[j]);
        }
        assert forall|j1: int, j2: int| clo <= j1 < clo + np && clo <= j2 < clo + np && #[trigger] c1[j1] && #[trigger] c1[j2]
                && key(grm, PIdx((j1 - clo) as $T)) == key(grm, PIdx((j2 - clo) as $T)) implies j1 == j2 by { assert(c0[j1] && c0[j2]); }
    }
}

// the property's graph clause: a Shift cell holds the target of the state's edge on that token, a
// goto cell holds (target + 1) of the state's edge on that rule and 0 when there is none
pub open spec fn has_edge(el: Seq<(Symbol<$T>, StIdx<$T>)>, n: int, sym: Symbol<$T>, x: int) -> bool {
    exists|e: int| 0 <= e < n && (#[trigger] el[e]).0 == sym && el[e].1.0 == x
}
pub open spec fn row_shift_edges(el: Seq<(Symbol<$T>, StIdx<$T>)>, n: int, A: Seq<usize>, lo: int, nt: int) -> bool {
    forall|i: int| lo <= i < lo + nt && dec(#[trigger] A[i]) is Shift ==> has_edge(el, n, Symbol::Token(TIdx((i - lo) as $T)), dec(A[i])->Shift_0.0 as int)
}
pub open spec fn row_gotos_ok(el: Seq<(Symbol<$T>, StIdx<$T>)>, n: int, G: Seq<usize>, glo: int, nr: int) -> bool {
    &&& forall|j: int| glo <= j < glo + nr && (#[trigger] G[j]) != 0 ==> has_edge(el, n, Symbol::Rule(RIdx((j - glo) as $T)), G[j] - 1)
    &&& forall|e: int| 0 <= e < n && (#[trigger] el[e]).0 is Rule ==> G[glo + el[e].0->Rule_0.0] == el[e].1.0 + 1
}
pub closed spec fn edges_ok(sg: &StateGraph, A: Seq<usize>, G: Seq<usize>, nt: int, nr: int, ns: int) -> bool {
    &&& forall|s: int| 0 <= s < ns ==> #[trigger] row_shift_edges(sg.edge_list(s), sg.edge_list(s).len() as int, A, s * nt, nt)
    &&& forall|s: int| 0 <= s < ns ==> #[trigger] row_gotos_ok(sg.edge_list(s), sg.edge_list(s).len() as int, G, s * nr, nr)
}
pub proof fn lemma_edges_ok_intro(sg: &StateGraph, A: Seq<usize>, G: Seq<usize>, nt: int, nr: int, ns: int)
    requires
        forall|s: int| 0 <= s < ns ==> #[trigger] row_shift_edges(sg.edge_list(s), sg.edge_list(s).len() as int, A, s * nt, nt),
        forall|s: int| 0 <= s < ns ==> #[trigger] row_gotos_ok(sg.edge_list(s), sg.edge_list(s).len() as int, G, s * nr, nr),
    ensures edges_ok(sg, A, G, nt, nr, ns)
{ }
pub proof fn lemma_edges_ok_elim(sg: &StateGraph, A: Seq<usize>, G: Seq<usize>, nt: int, nr: int, ns: int)
    requires edges_ok(sg, A, G, nt, nr, ns)
    ensures
        forall|s: int| 0 <= s < ns ==> #[trigger] row_shift_edges(sg.edge_list(s), sg.edge_list(s).len() as int, A, s * nt, nt),
        forall|s: int| 0 <= s < ns ==> #[trigger] row_gotos_ok(sg.edge_list(s), sg.edge_list(s).len() as int, G, s * nr, nr),
{ }
// rows below row `fi` are untouched by the work on row `fi`
pub proof fn lemma_edge_rows_below(sg: &StateGraph, A0: Seq<usize>, A1: Seq<usize>, G0: Seq<usize>, G1: Seq<usize>, fi: int, nt: int, nr: int, ns: int)
    requires 0 <= fi < ns, 0 <= nt, 0 <= nr, A0.len() == A1.len() == ns * nt, G0.len() == G1.len() == ns * nr,
        forall|i: int| 0 <= i < fi * nt ==> #[trigger] A1[i] == A0[i],
        forall|j: int| 0 <= j < fi * nr ==> #[trigger] G1[j] == G0[j],
        forall|s: int| 0 <= s < fi ==> #[trigger] row_shift_edges(sg.edge_list(s), sg.edge_list(s).len() as int, A0, s * nt, nt),
        forall|s: int| 0 <= s < fi ==> #[trigger] row_gotos_ok(sg.edge_list(s), sg.edge_list(s).len() as int, G0, s * nr, nr),
        forall|s: int, e: int| 0 <= s < ns && 0 <= e < sg.edge_list(s).len() ==> ((#[trigger] sg.edge_list(s)[e]).0 matches Symbol::Rule(r) ==> (r.0 as int) < nr),
    ensures
        forall|s: int| 0 <= s < fi ==> #[trigger] row_shift_edges(sg.edge_list(s), sg.edge_list(s).len() as int, A1, s * nt, nt),
        forall|s: int| 0 <= s < fi ==> #[trigger] row_gotos_ok(sg.edge_list(s), sg.edge_list(s).len() as int, G1, s * nr, nr),
{
    assert forall|s: int| 0 <= s < fi implies #[trigger] row_shift_edges(sg.edge_list(s), sg.edge_list(s).len() as int, A1, s * nt, nt) by {
        lemma_rows_ordered(s, fi, nt); lemma_row(s, nt, ns);
        assert(row_shift_edges(sg.edge_list(s), sg.edge_list(s).len() as int, A0, s * nt, nt));
    }
    assert forall|s: int| 0 <= s < fi implies #[trigger] row_gotos_ok(sg.edge_list(s), sg.edge_list(s).len() as int, G1, s * nr, nr) by {
        lemma_rows_ordered(s, fi, nr); lemma_row(s, nr, ns);
        assert(row_gotos_ok(sg.edge_list(s), sg.edge_list(s).len() as int, G0, s * nr, nr));
    }
}

pub struct Tables { pub actions: Vec<usize>, pub gotos: Vec<usize>, pub state_actions: Vob, pub core_reduces: Vob, pub state_shifts: Vob, pub reduce_states: Vob }

// every cell's payload fits StorageT and every Reduce cell names a production of the grammar
pub open spec fn cells_wf(grm: &YaccGrammar, A: Seq<usize>) -> bool {
    &&& forall|i: int| 0 <= i < A.len() ==> (#[trigger] A[i] >> 2) <= $TMAX
    &&& forall|i: int| 0 <= i < A.len() ==> (dec(#[trigger] A[i]) matches Action::Reduce(p) ==> (p.0 as nat) < grm.nprods())
}
// the property's first clause: listed as having an action  <=>  the action is not an error
pub open spec fn sa_ok(A: Seq<usize>, sa: Seq<bool>) -> bool {
    sa.len() == A.len() && forall|i: int| 0 <= i < A.len() ==> (#[trigger] sa[i]) == !(dec(A[i]) is Error)
}
pub proof fn lemma_codec2(a: Action<$T>)
    ensures dec(enc(a)) == a, (enc(a) >> 2) <= $TMAX, (enc(a) == 0usize) <==> (a is Error)
{
    lemma_codec(a);
    match a {
        Action::Shift(s) => { let v = s.0 as usize; assert((1usize | (v << 2)) >> 2 == v) by(bit_vector) requires v <= 0xffff_ffffusize; }
        Action::Reduce(p) => { let v = p.0 as usize; assert((2usize | (v << 2)) >> 2 == v) by(bit_vector) requires v <= 0xffff_ffffusize; }
        Action::Accept => { assert(3usize >> 2 == 0) by(bit_vector); }
        Action::Error => { assert(0usize >> 2 == 0) by(bit_vector); }
    }
}
// a well-formed Reduce cell is the encoding of what it decodes to
pub proof fn lemma_reduce_cell(bits: usize)
    requires (bits >> 2) <= $TMAX, dec(bits) is Reduce
    ensures enc(dec(bits)) == bits
{
    let v = bits >> 2;
    assert(bits & 3 == 2);
    assert((2usize | (v << 2)) == bits) by(bit_vector) requires bits & 3 == 2, v == bits >> 2;
    assert((v as $T) as usize == v);
}
pub proof fn lemma_zero_cell()
    ensures dec(0usize) == Action::<$T>::Error, (0usize >> 2) == 0
{
    assert(0usize & 3 == 0) by(bit_vector);
    assert(0usize >> 2 == 0) by(bit_vector);
}

//@ctx new: the StateGraph was built for this grammar by lrtable (sg.wf): item productions and edge targets/symbols are in range, contexts have one bit per token, edge symbols of a state are distinct
//@ctx new: fewer than 2^31 tokens (the i32 counter `distinct_reduces`; automatic for u8/u16 storage)
//@ctx new: five panic sites whose unreachability is LR theory about the item sets are assumed unreachable (assume_lr / unreachable_lr): assert!(final_state.is_none()), `_ => panic!("Internal error")`, `Action::Shift(x) => assert!(*ref_stidx == x)`, `Action::Accept => panic!("Internal error")`, assert!(final_state.is_some())
fn new(grm: &YaccGrammar, sg: &StateGraph) -> (r: Result<Tables, StateTableError>)
    requires
        grm.wf(), grm.ntok() < 0x8000_0000, sg.wf(grm),
    ensures r matches Ok(t) ==> ({
        &&& t.actions@.len() == sg.nstates() * grm.ntok() && cells_wf(grm, t.actions@) // OBL: C16.cells_hold_indices_of_this_grammar
        &&& sa_ok(t.actions@, t.state_actions@) // OBL: C16.actions_listed_iff_not_error
        &&& t.state_shifts@.len() == sg.nstates() * grm.ntok() && forall|s: int| 0 <= s < sg.nstates() ==> #[trigger] row_shifts_ok(t.actions@, t.state_shifts@, s * grm.ntok(), grm.ntok() as int) // OBL: C16.shifts_listed_iff_action_is_shift
        &&& t.core_reduces@.len() == sg.nstates() * grm.nprods() && forall|s: int| 0 <= s < sg.nstates() ==> #[trigger] row_core_ok(grm, t.actions@, t.core_reduces@, s * grm.ntok(), grm.ntok() as int, s * grm.nprods(), grm.nprods() as int) // OBL: C16.core_reduces_one_per_rule_and_length C15.core_reduces_one_per_pair_for_every_hash_order
        &&& t.reduce_states@.len() == sg.nstates() && forall|s: int| 0 <= s < sg.nstates() ==> (#[trigger] t.reduce_states@[s]) == row_reduce_only(grm, t.actions@, s * grm.ntok(), grm.ntok() as int) // OBL: C16.reduce_only_iff_single_rule_and_length
        &&& forall|s: int| 0 <= s < sg.nstates() ==> #[trigger] row_shift_edges(sg.edge_list(s), sg.edge_list(s).len() as int, t.actions@, s * grm.ntok(), grm.ntok() as int) // OBL: C16.shift_target_is_the_graph_edge_on_that_token
        &&& t.gotos@.len() == sg.nstates() * grm.nrules() && forall|s: int| 0 <= s < sg.nstates() ==> #[trigger] row_gotos_ok(sg.edge_list(s), sg.edge_list(s).len() as int, t.gotos@, s * grm.nrules(), grm.nrules() as int) // OBL: C16.goto_is_the_graph_edge_on_that_rule
    }),
{
    //@probe
    proof { key_model(); lemma_zero_cell(); }
    let ghost nt = grm.ntok() as int;
    let ghost np = grm.nprods() as int;
    let ghost nr = grm.nrules() as int;
    let ghost ns = sg.nstates() as int;
    proof {
        assert(ns * np <= 0xffff_ffff * 0xffff_ffff && ns * nt <= 0xffff_ffff * 0xffff_ffff && ns * nr <= 0xffff_ffff * 0xffff_ffff && ns * nt >= 0 && ns * np >= 0 && ns * nr >= 0) by(nonlinear_arith)
            requires 0 <= ns <= 0xffff_ffff, 0 <= np <= 0xffff_ffff, 0 <= nt <= 0xffff_ffff, 0 <= nr <= 0xffff_ffff;
        assert(nt * ns == ns * nt && nr * ns == ns * nr) by(nonlinear_arith);
    }
    //@body file=lrtable/src/lib/statetable.rs fn=new block=`let mut state_actions = Vob::<u64>::from_elem_with_storage_type` endx=`let actions_sv = SparseVec`
    //@atend n=1 `^(\s*)for \(stidx, state\) in sg$` =>>
            proof { lemma_edge_rows_below(sg, A0_, actions@, G0_, gotos@, fi_ as int, nt, nr, ns); lemma_row(fi_ as int, nt, ns); lemma_row(fi_ as int, nr, ns); }
    //@end
    //@rule n=1 `^(\s*)for \(stidx, state\) in sg\s*\.iter_closed_states\(\)\s*\.enumerate\(\)\s*\.map\(\|\(x, y\)\| \(StIdx\(narrow_\$T\(x\)\), y\)\)\s*\{$` =>>
        for fi_ in 0..usize::from(sg.all_states_len())
            invariant
                grm.wf(), sg.wf(grm), nt == grm.ntok(), np == grm.nprods(), nr == grm.nrules(), ns == sg.nstates(), nt < 0x8000_0000, ns < $TMAX,
                0 <= ns * nt <= 0xffff_ffff * 0xffff_ffff, 0 <= ns * np <= 0xffff_ffff * 0xffff_ffff, 0 <= ns * nr <= 0xffff_ffff * 0xffff_ffff,
                actions@.len() == ns * nt, gotos@.len() == ns * nr, cells_wf(grm, actions@),
                forall|j: int| fi_ * nr <= j < ns * nr ==> (#[trigger] gotos@[j]) == 0,
                sa_ok(actions@, state_actions@), // OBL: C16.actions_listed_iff_not_error.while_populating
                forall|s: int| 0 <= s < fi_ ==> #[trigger] row_shift_edges(sg.edge_list(s), sg.edge_list(s).len() as int, actions@, s * nt, nt), // OBL: C16.shift_target_is_the_graph_edge_on_that_token.rows_done
                forall|s: int| 0 <= s < fi_ ==> #[trigger] row_gotos_ok(sg.edge_list(s), sg.edge_list(s).len() as int, gotos@, s * nr, nr), // OBL: C16.goto_is_the_graph_edge_on_that_rule.rows_done
                forall|i: int| fi_ * nt <= i < ns * nt ==> !(dec(#[trigger] actions@[i]) is Shift), // OBL: C16.shift_target_is_the_graph_edge_on_that_token.no_shift_before_the_edges_are_read
        {
            //@probe
            // dialect rule 5: sg.iter_closed_states().enumerate().map(|(x, y)| (StIdx(x.as_()), y))
            let stidx = StIdx(narrow_$T(fi_));
            let state_items_ = sg.closed_items(fi_);
            proof { lemma_row(fi_ as int, nt, ns); lemma_row(fi_ as int, nr, ns); }
            let ghost A0_ = actions@;
            let ghost G0_ = gotos@;
    //@end
    //@rule n=1 `^(\s*)for \(&\(pidx, dot\), ctx\) in &state\.items \{$` =>>
            let mut ii_next_: usize = 0;
            while ii_next_ < state_items_.len()
                invariant ii_next_ <= state_items_@.len(),
                grm.wf(), sg.wf(grm), nt == grm.ntok(), np == grm.nprods(), nr == grm.nrules(), ns == sg.nstates(), nt < 0x8000_0000, ns < $TMAX,
                0 <= ns * nt <= 0xffff_ffff * 0xffff_ffff, 0 <= ns * np <= 0xffff_ffff * 0xffff_ffff, 0 <= ns * nr <= 0xffff_ffff * 0xffff_ffff,
                actions@.len() == ns * nt, gotos@.len() == ns * nr, cells_wf(grm, actions@),
                forall|j: int| fi_ * nr <= j < ns * nr ==> (#[trigger] gotos@[j]) == 0,
                sa_ok(actions@, state_actions@), // OBL: C16.actions_listed_iff_not_error.while_populating
                forall|i: int| 0 <= i < fi_ * nt ==> #[trigger] actions@[i] == A0_[i], gotos@ == G0_,
                forall|i: int| fi_ * nt <= i < ns * nt ==> !(dec(#[trigger] actions@[i]) is Shift), // OBL: C16.shift_target_is_the_graph_edge_on_that_token.no_shift_before_the_edges_are_read
                    fi_ < ns, stidx.0 == fi_, state_items_@ == sg.items(fi_ as int), 0 <= fi_ * nt, fi_ * nt + nt <= ns * nt,
                decreases state_items_@.len() - ii_next_,
            {
                //@probe
                // dialect rule 5: for (&(pidx, dot), ctx) in &state.items  (HashMap order arbitrary);
                // a while loop whose counter advances first, so that `continue` keeps its meaning
                let ii_ = ii_next_;
                ii_next_ = ii_next_ + 1;
                let (pidx, dot) = state_items_[ii_].0;
                let ctx = &state_items_[ii_].1;
                assert((pidx.0 as nat) < grm.nprods() && ctx@.len() == nt);
    //@end
    //@rule n=1 `^(\s*)for tidx in ctx\.iter_set_bits\(\.\.\) \{$` =>>
                let mut tidx_next_: usize = 0;
                while tidx_next_ < ctx.len()
                    invariant tidx_next_ <= ctx@.len(),
                grm.wf(), sg.wf(grm), nt == grm.ntok(), np == grm.nprods(), nr == grm.nrules(), ns == sg.nstates(), nt < 0x8000_0000, ns < $TMAX,
                0 <= ns * nt <= 0xffff_ffff * 0xffff_ffff, 0 <= ns * np <= 0xffff_ffff * 0xffff_ffff, 0 <= ns * nr <= 0xffff_ffff * 0xffff_ffff,
                actions@.len() == ns * nt, gotos@.len() == ns * nr, cells_wf(grm, actions@),
                forall|j: int| fi_ * nr <= j < ns * nr ==> (#[trigger] gotos@[j]) == 0,
                sa_ok(actions@, state_actions@), // OBL: C16.actions_listed_iff_not_error.while_populating
                forall|i: int| 0 <= i < fi_ * nt ==> #[trigger] actions@[i] == A0_[i], gotos@ == G0_,
                forall|i: int| fi_ * nt <= i < ns * nt ==> !(dec(#[trigger] actions@[i]) is Shift), // OBL: C16.shift_target_is_the_graph_edge_on_that_token.no_shift_before_the_edges_are_read
                        fi_ < ns, stidx.0 == fi_, 0 <= fi_ * nt, fi_ * nt + nt <= ns * nt, (pidx.0 as nat) < grm.nprods(), ctx@.len() == nt,
                    decreases ctx@.len() - tidx_next_,
                {
                    //@probe
                    // dialect rule 5: ctx.iter_set_bits(..) visits the set bits in increasing order
                    let tidx = tidx_next_;
                    tidx_next_ = tidx_next_ + 1;
                    if !ctx.index(tidx) { continue; }
    //@end
    //@rule n=1 `^(\s*)for \(&sym, ref_stidx\) in sg\.edges\(stidx\) \{$` =>>
            let edges_ = sg.edges_vec(stidx);
            for ei_ in 0..edges_.len()
                invariant
                grm.wf(), sg.wf(grm), nt == grm.ntok(), np == grm.nprods(), nr == grm.nrules(), ns == sg.nstates(), nt < 0x8000_0000, ns < $TMAX,
                0 <= ns * nt <= 0xffff_ffff * 0xffff_ffff, 0 <= ns * np <= 0xffff_ffff * 0xffff_ffff, 0 <= ns * nr <= 0xffff_ffff * 0xffff_ffff,
                actions@.len() == ns * nt, gotos@.len() == ns * nr, cells_wf(grm, actions@),
                forall|j: int| fi_ * nr + nr <= j < ns * nr ==> (#[trigger] gotos@[j]) == 0,
                sa_ok(actions@, state_actions@), // OBL: C16.actions_listed_iff_not_error.while_populating
                    fi_ < ns, stidx.0 == fi_, 0 <= fi_ * nt, fi_ * nt + nt <= ns * nt, 0 <= fi_ * nr, fi_ * nr + nr <= ns * nr,
                    edges_@ == sg.edge_list(fi_ as int), nt_len.0 == nr,
                    forall|i: int| 0 <= i < fi_ * nt ==> #[trigger] actions@[i] == A0_[i],
                    forall|j: int| 0 <= j < fi_ * nr ==> #[trigger] gotos@[j] == G0_[j],
                    forall|i: int| fi_ * nt + nt <= i < ns * nt ==> !(dec(#[trigger] actions@[i]) is Shift),
                    row_shift_edges(edges_@, ei_ as int, actions@, fi_ * nt, nt), // OBL: C16.shift_target_is_the_graph_edge_on_that_token.row_in_progress
                    row_gotos_ok(edges_@, ei_ as int, gotos@, fi_ * nr, nr), // OBL: C16.goto_is_the_graph_edge_on_that_rule.row_in_progress
            {
                //@probe
                // dialect rule 5: for (&sym, ref_stidx) in sg.edges(stidx)  (HashMap order arbitrary)
                let sym = edges_[ei_].0;
                let ref_stidx = &edges_[ei_].1;
                assert((ref_stidx.0 as nat) < ns);
    //@end
    //@rule n=* `pidx\.cmp\(&r_pidx\)` => `pidx_cmp(pidx, r_pidx)`
    //@rule n=1 `^(\s*)match pidx_cmp\(pidx, r_pidx\) \{$` => `\1let ghost rr_before_ = reduce_reduce@;\n\1match pidx_cmp(pidx, r_pidx) {`
    //@after n=1 `match pidx_cmp\(pidx, r_pidx\) \{` =>>
                            proof { lemma_codec2(Action::Reduce(pidx)); lemma_codec2(Action::Reduce(r_pidx)); }
                            assert(dec(actions@[off as int]) == Action::Reduce(if pidx.0 <= r_pidx.0 { pidx } else { r_pidx })); // OBL: C03.reduce_reduce_keeps_the_production_declared_earlier
                            assert(pidx.0 == r_pidx.0 ==> reduce_reduce@ == rr_before_); // OBL: C03.reduce_reduce_not_reported_for_the_same_production
                            assert(pidx.0 != r_pidx.0 ==> reduce_reduce@ == rr_before_.push((TIdx(tidx as $T), if pidx.0 < r_pidx.0 { pidx } else { r_pidx }, if pidx.0 < r_pidx.0 { r_pidx } else { pidx }, stidx))); // OBL: C03.reduce_reduce_conflict_reported_once_with_both_productions
    //@end
    //@rule n=1 `if dot < grm\.prod_len\(pidx\) \{` => `if dot.0 < grm.prod_len(pidx).0 {`
    //@rule n=1 `\{ let assert_cond_ = gotos\[off\] == 0; assert\(assert_cond_\); \}` => `{ let assert_cond_ = gotos[off] == 0; assert(assert_cond_); } // OBL: C16.goto_cell_written_once`
    //@rule n=* `^(\s*)actions\[off\] = StateTable::encode\((.*)\);$` => `\1actions[off] = StateTable::encode(\2); proof { lemma_codec2(\2); }`
    //@rule n=1 `\{ let assert_cond_ = final_state\.is_none\(\); assert\(assert_cond_\); \}` => `assume_lr(final_state.is_none());`
    //@rule n=1 `\{ let assert_cond_ = final_state\.is_some\(\); assert\(assert_cond_\); \}` => `assume_lr(final_state.is_some());`
    //@rule n=1 `Action::Shift\(x\) => assert\(\*ref_stidx == x\),` => `Action::Shift(x) => { assume_lr(ref_stidx.0 == x.0); }`
    //@rule n=1 `_ => vpanic\(\),` => `_ => unreachable_lr(),`
    //@rule n=1 `Action::Accept => vpanic\(\),` => `Action::Accept => unreachable_lr(),`
    //@rule n=1 `^(\s*)resolve_shift_reduce\($` => `\1proof { lemma_reduce_cell(actions@[off as int]); }\n\1resolve_shift_reduce(`
    //@after n=1 `^\s*resolve_shift_reduce\(` =>>
                                proof { lemma_codec2(Action::Reduce(r_pidx)); lemma_codec2(Action::Shift(*ref_stidx)); lemma_codec2(Action::<$T>::Error); }
    //@end
    //@rule n=1 `^(\s*)for stidx in sg\.iter_stidxs\(\) \{$` =>>
        let ns_ = usize::from(sg.all_states_len());
        for si_ in 0..ns_
            invariant
                grm.wf(), nt == grm.ntok(), np == grm.nprods(), ns == sg.nstates(), nt < 0x8000_0000, ns < $TMAX, ns_ == ns,
                actions@ == A, A.len() == ns * nt, 0 <= ns * nt <= 0xffff_ffff * 0xffff_ffff, 0 <= ns * np <= 0xffff_ffff * 0xffff_ffff, sa_ok(A, state_actions@),
                edges_ok(sg, A, gotos@, nt, nr, ns), gotos@.len() == ns * nr,
                forall|i: int| 0 <= i < A.len() ==> (#[trigger] A[i] >> 2) <= $TMAX,
                forall|i: int| 0 <= i < A.len() ==> (dec(#[trigger] A[i]) matches Action::Reduce(p) ==> (p.0 as nat) < grm.nprods()),
                state_shifts@.len() == ns * nt, core_reduces@.len() == ns * np, reduce_states@.len() == ns,
                forall|s: int| 0 <= s < si_ ==> #[trigger] row_shifts_ok(A, state_shifts@, s * nt, nt),
                forall|s: int| 0 <= s < si_ ==> #[trigger] row_core_ok(grm, A, core_reduces@, s * nt, nt, s * np, np),
                forall|s: int| 0 <= s < si_ ==> (#[trigger] reduce_states@[s]) == row_reduce_only(grm, A, s * nt, nt),
                forall|i: int| si_ * nt <= i < ns * nt ==> !(#[trigger] state_shifts@[i]), // OBL: C16.shifts_listed_iff_action_is_shift.bits_only_set_from_final_cells
                forall|i: int| si_ * np <= i < ns * np ==> !(#[trigger] core_reduces@[i]), // OBL: C16.core_reduces_one_per_rule_and_length.bits_only_set_from_final_cells
                forall|s: int| si_ <= s < ns ==> !(#[trigger] reduce_states@[s]),
        {
            //@probe
            // dialect rule 5: sg.iter_stidxs() is (0..states.len()).map(|x| StIdx(x.as_()))
            let stidx = StIdx(narrow_$T(si_));
            let ghost shifts0 = state_shifts@;
            let ghost core0 = core_reduces@;
            let ghost red0 = reduce_states@;
            let ghost lo = si_ * nt;
            let ghost clo = si_ * np;
            proof { lemma_row(si_ as int, nt, ns); lemma_row(si_ as int, np, ns); key_model(); }
    //@end
    //@rule n=1 `^(\s*)for tidx in grm\.iter_tidxs\(\) \{$` =>>
            for ti_ in 0..usize::from(grm.tokens_len())
                invariant
                grm.wf(), nt == grm.ntok(), np == grm.nprods(), ns == sg.nstates(), nt < 0x8000_0000, ns < $TMAX, ns_ == ns,
                actions@ == A, A.len() == ns * nt, 0 <= ns * nt <= 0xffff_ffff * 0xffff_ffff, 0 <= ns * np <= 0xffff_ffff * 0xffff_ffff, sa_ok(A, state_actions@),
                edges_ok(sg, A, gotos@, nt, nr, ns), gotos@.len() == ns * nr,
                forall|i: int| 0 <= i < A.len() ==> (#[trigger] A[i] >> 2) <= $TMAX,
                forall|i: int| 0 <= i < A.len() ==> (dec(#[trigger] A[i]) matches Action::Reduce(p) ==> (p.0 as nat) < grm.nprods()),
                state_shifts@.len() == ns * nt, core_reduces@.len() == ns * np, reduce_states@.len() == ns,
                    si_ < ns, stidx.0 == si_, core_reduces@ == core0, reduce_states@ == red0,
                    lo == si_ * nt, 0 <= lo, lo + nt <= ns * nt,
                    forall|i: int| 0 <= i < ns * nt && !(lo <= i < lo + nt) ==> #[trigger] state_shifts@[i] == shifts0[i],
                    forall|i: int| lo <= i < lo + ti_ ==> (#[trigger] state_shifts@[i]) == (dec(A[i]) is Shift), // OBL: C16.shifts_listed_iff_action_is_shift.row_scan
                    forall|i: int| lo + ti_ <= i < lo + nt ==> !(#[trigger] state_shifts@[i]),
                    only_reduces ==> forall|i: int| lo <= i < lo + ti_ ==> !(dec(#[trigger] A[i]) is Shift) && !(dec(A[i]) is Accept), // OBL: C16.reduce_only_iff_single_rule_and_length.no_shift_or_accept_seen
                    !only_reduces ==> exists|i: int| lo <= i < lo + ti_ && ((dec(#[trigger] A[i]) is Shift) || (dec(A[i]) is Accept)), // OBL: C16.reduce_only_iff_single_rule_and_length.flag_cleared_only_by_shift_or_accept
                    nt_depth@.dom().finite(), nt_depth@.len() <= ti_,
                    nd_ok(grm, A, nt_depth@, lo, lo + ti_), // OBL: C16.core_reduces_one_per_rule_and_length.one_entry_per_pair
            {
                //@probe
                // dialect rule 5: grm.iter_tidxs() is (0..tokens_len).map(|x| TIdx(x.as_()))
                let tidx = TIdx(narrow_$T(ti_));
                let ghost nd0 = nt_depth@;
                proof { key_model(); }
    //@end
    //@rule n=1 `^(\s*)for &pidx in nt_depth\.values\(\) \{$` =>>
            let ghost shifts1 = state_shifts@;
            let es_ = hm_entries(&nt_depth);
            for vi_ in 0..es_.len()
                invariant
                grm.wf(), nt == grm.ntok(), np == grm.nprods(), ns == sg.nstates(), nt < 0x8000_0000, ns < $TMAX, ns_ == ns,
                actions@ == A, A.len() == ns * nt, 0 <= ns * nt <= 0xffff_ffff * 0xffff_ffff, 0 <= ns * np <= 0xffff_ffff * 0xffff_ffff, sa_ok(A, state_actions@),
                edges_ok(sg, A, gotos@, nt, nr, ns), gotos@.len() == ns * nr,
                forall|i: int| 0 <= i < A.len() ==> (#[trigger] A[i] >> 2) <= $TMAX,
                forall|i: int| 0 <= i < A.len() ==> (dec(#[trigger] A[i]) matches Action::Reduce(p) ==> (p.0 as nat) < grm.nprods()),
                state_shifts@.len() == ns * nt, core_reduces@.len() == ns * np, reduce_states@.len() == ns,
                    si_ < ns, stidx.0 == si_, state_shifts@ == shifts1, reduce_states@ == red0,
                    lo == si_ * nt, 0 <= lo, lo + nt <= ns * nt, clo == si_ * np, 0 <= clo, clo + np <= ns * np,
                    entries_ok(es_@, nt_depth@), nt_depth@.len() <= nt, nd_ok(grm, A, nt_depth@, lo, lo + nt),
                    forall|j: int| 0 <= j < ns * np && !(clo <= j < clo + np) ==> #[trigger] core_reduces@[j] == core0[j],
                    core_from_entries(core_reduces@, es_@, clo, np, vi_ as int), // OBL: C16.core_reduces_one_per_rule_and_length.bits_are_the_entries C15.core_reduces_set_for_every_entry_in_any_order
                    distinct_reduces == vi_, // OBL: C16.reduce_only_iff_single_rule_and_length.counter_is_number_of_pairs C15.reduce_counter_independent_of_hash_order
            {
                //@probe
                let pidx = es_[vi_].1;
    //@end
    //@after n=1 nth=3 `match StateTable::decode\(actions\[off\]\) \{` =>>
                proof {
                    let i0 = lo + ti_;
                    if dec(A[i0]) is Reduce {
                        let p0 = dec(A[i0])->Reduce_0;
                        assert(nt_depth@ =~= nd0.insert(key(grm, p0), p0));
                        assert(nt_depth@.dom() =~= nd0.dom().insert(key(grm, p0)));
                    }
                    lemma_nd_step(grm, A, nd0, nt_depth@, lo, i0);
                }
    //@end
    //@rule n=1 `^(\s*)if core_reduces\.set\(off, true\) \{$` =>>
                proof {
                    assert(nt_depth@.contains_key(es_@[vi_ as int].0));
                    assert(reduces(A, lo, lo + nt, pidx));
                    let i = choose|i: int| lo <= i < lo + nt && dec(#[trigger] A[i]) == Action::Reduce(pidx);
                    assert((pidx.0 as nat) < grm.nprods());
                    assert(off == clo + pidx.0);
                    assert(!core_reduces@[off as int]) by {
                        if core_reduces@[off as int] {
                            let e = choose|e: int| 0 <= e < vi_ && (#[trigger] es_@[e]).1.0 == off - clo;
                            assert(nt_depth@.contains_key(es_@[e].0));
                            assert(es_@[e].1 == pidx);
                        }
                    }
                }
                let ghost corep = core_reduces@;
                if core_reduces.set(off, true) {
    //@end
    //@rule n=1 `^(\s*)distinct_reduces \+= 1;\n(\s*)\}\n` =>>
                    distinct_reduces += 1;
                }
                proof { lemma_core_step(corep, core_reduces@, es_@, clo, np, vi_ as int, off as int); }
    //@end
    //@rule n=1 `^(\s*)reduce_states\.set\(usize::from\(stidx\), true\);\n(\s*)\}\n` =>>
                reduce_states.set(usize::from(stidx), true);
            }
            proof {
                lemma_row_core(grm, A, core_reduces@, es_@, nt_depth@, lo, nt, clo, np);
                lemma_reduce_only(grm, A, es_@, nt_depth@, lo, nt, only_reduces);
                lemma_rows_below(grm, A, shifts0, state_shifts@, core0, core_reduces@, si_ as int, nt, np, ns);
                lemma_row(si_ as int, nt, ns); lemma_row(si_ as int, np, ns);
            }
    //@end
    //@rule n=* `Vob::<u64>::from_elem_with_storage_type\(` => `Vob::from_elem(`
    //@rule n=1 `let mut nt_depth = HashMap::new\(\);` => `let ghost A = actions@; proof { lemma_edges_ok_intro(sg, A, gotos@, nt, nr, ns); } let mut nt_depth: HashMap<(RIdx<$T>, usize), PIdx<$T>> = HashMap::new();`
    //@endbody
    proof { lemma_edges_ok_elim(sg, actions@, gotos@, nt, nr, ns); }
    Ok(Tables { actions, gotos, state_actions, core_reduces, state_shifts, reduce_states })
}
//@use prelude/tail.rs
