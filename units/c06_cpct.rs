//@unit c06_cpct props=C06,C05,C07 widths=u32
//@use prelude/head.rs
//@use prelude/lrpar.rs

// ---- stand-ins ----
#[derive(Clone, Copy, PartialEq, Eq)] pub enum Repair { InsertTerm(TIdx<$T>), Delete, Shift }
#[verifier::external_body] pub struct MergeRest { _x: usize }     // Cactus<Cactus<RepairMerge>>
pub enum RepairMerge { Repair(Repair), Merge(Repair, MergeRest), Terminator }
#[verifier::external_body] pub struct Cactus { _x: usize }        // Cactus<RepairMerge>
impl Cactus {
    // values from this node towards the root (most recent repair first), as Cactus::vals() yields them
    pub uninterp spec fn svals(&self) -> Seq<RepairMerge>;
    #[verifier::external_body] pub fn vals_vec(&self) -> (r: &Vec<RepairMerge>) ensures r@ == self.svals() { unimplemented!() }
}
pub const PARSE_AT_LEAST: usize = 3;
pub fn min_(a: usize, b: usize) -> (r: usize) ensures r == (if a < b { a } else { b }) { if a < b { a } else { b } }
#[verifier::external_body] pub struct Grm { _x: usize }
impl Grm {
    pub uninterp spec fn savoid(&self, t: TIdx<$T>) -> bool;
    #[verifier::external_body] pub fn avoid_insert(&self, t: TIdx<$T>) -> (r: bool) ensures r == self.savoid(t) { unimplemented!() }
}
pub struct Parser { pub grm: Grm }
impl Parser {
    pub uninterp spec fn snext(&self, laidx: int) -> LexemeT;
    #[verifier::external_body] pub fn next_lexeme(&self, laidx: usize) -> (r: LexemeT) ensures r == self.snext(laidx as int) { unimplemented!() }
}
pub struct CPCTPlus { pub parser: Parser }

// ---------------- specification ----------------
pub open spec fn is_shift(x: RepairMerge) -> bool { x matches RepairMerge::Repair(Repair::Shift) || x matches RepairMerge::Merge(Repair::Shift, _) }
// the success criterion: the last PARSE_AT_LEAST repairs exist and are all shifts (merged or not)
pub open spec fn ends_with_shifts(v: Seq<RepairMerge>) -> bool { v.len() >= 3 && is_shift(v[0]) && is_shift(v[1]) && is_shift(v[2]) }

fn ends_with_parse_at_least_shifts(repairs: &Cactus) -> (r: bool)
    ensures r == ends_with_shifts(repairs.svals()), // OBL: C07.success_needs_three_trailing_shifts C05.success_needs_three_trailing_shifts
{
    //@probe
    //@body file=lrpar/src/lib/cpctplus.rs fn=ends_with_parse_at_least_shifts
    //@rule n=1 `^(\s*)for x in repairs\.vals\(\)\.take\(PARSE_AT_LEAST\) \{$` =>>
    // dialect rule 5: `for x in c.vals().take(k)` is a loop over the first min(len, k) values
    let vs_ = repairs.vals_vec();
    for xi_ in 0..min_(vs_.len(), PARSE_AT_LEAST)
        invariant vs_@ == repairs.svals(), shfts == xi_, forall|k: int| 0 <= k < xi_ ==> is_shift(#[trigger] vs_@[k]), // OBL: C07.success_needs_three_trailing_shifts.scan C05.success_needs_three_trailing_shifts.scan
    {
        //@probe
        let x = &vs_[xi_];
    //@end
    //@endbody
}

// whether a repair sequence inserts a token declared %avoid_insert (closure of simplify_repairs)
pub open spec fn has_avoid_insert(g: &Grm, v: Seq<ParseRepair>) -> bool {
    exists|k: int| 0 <= k < v.len() && (#[trigger] v[k] matches ParseRepair::Insert(t) && g.savoid(t))
}
fn contains_avoid_insert(parser: &Parser, rprs: &Vec<ParseRepair>) -> (r: bool)
    ensures r == has_avoid_insert(&parser.grm, rprs@), // OBL: C06.avoid_insert_sequences_recognised_wherever_the_insert_is
{
    //@probe
    //@body file=lrpar/src/lib/cpctplus.rs fn=simplify_repairs block=`let contains_avoid_insert = \|rprs` through=brace
    //@rule n=1 `^\s*let contains_avoid_insert = \|rprs: &Vec<ParseRepair<LexerTypesT::LexemeT, \$T>>\| -> bool \{\n` => ``
    //@rule n=1 `^(\s*)\};\s*$` => ``
    //@rule n=1 `^(\s*)for r in rprs\.iter\(\) \{$` =>>
        for ri_ in 0..rprs.len()
            invariant forall|k: int| 0 <= k < ri_ ==> !(#[trigger] rprs@[k] matches ParseRepair::Insert(t) && parser.grm.savoid(t)),
        {
            //@probe
            let r = &rprs[ri_];
    //@end
    //@endbody
}

// the comparator handed to sort_unstable_by: sequences with an %avoid_insert insert after all others,
// shorter first within each group
pub open spec fn before_(g: &Grm, x: Seq<ParseRepair>, y: Seq<ParseRepair>) -> Ordering {
    if has_avoid_insert(g, x) && !has_avoid_insert(g, y) { Ordering::Greater }
    else if !has_avoid_insert(g, x) && has_avoid_insert(g, y) { Ordering::Less }
    else if x.len() < y.len() { Ordering::Less } else if x.len() == y.len() { Ordering::Equal } else { Ordering::Greater }
}
// usize::cmp
pub fn usize_cmp(a: usize, b: usize) -> (r: Ordering) ensures r == (if a < b { Ordering::Less } else if a == b { Ordering::Equal } else { Ordering::Greater })
{ if a < b { Ordering::Less } else if a == b { Ordering::Equal } else { Ordering::Greater } }
fn sort_comparator(parser: &Parser, x: &Vec<ParseRepair>, y: &Vec<ParseRepair>) -> (r: Ordering)
    ensures r == before_(&parser.grm, x@, y@), // OBL: C06.ranking_avoid_insert_last_then_shorter_first
{
    //@probe
    //@body file=lrpar/src/lib/cpctplus.rs fn=simplify_repairs block=`all_rprs\.sort_unstable_by\(\|x, y\| \{` end=`^\s*\}\);`
    //@rule n=1 `^\s*all_rprs\.sort_unstable_by\(\|x, y\| \{\n` => ``
    //@rule n=1 `^(\s*)\}\);\s*$` => ``
    //@rule n=2 `contains_avoid_insert\((\w)\)` => `contains_avoid_insert(parser, \1)`
    //@rule n=1 `x\.len\(\)\.cmp\(&y\.len\(\)\)` => `usize_cmp(x.len(), y.len())`
    //@endbody
}

// reported repairs name the lexemes they delete / keep, in input order from the error point
pub open spec fn to_parse_repairs(p: &Parser, from: Seq<Repair>, n: int, laidx: int) -> (Seq<ParseRepair>, int)
    decreases n
{
    if n <= 0 { (Seq::empty(), laidx) } else {
        let (pre, la) = to_parse_repairs(p, from, n - 1, laidx);
        match from[n - 1] {
            Repair::InsertTerm(t) => (pre.push(ParseRepair::Insert(t)), la),
            Repair::Delete => (pre.push(ParseRepair::Delete(p.snext(la))), la + 1),
            Repair::Shift => (pre.push(ParseRepair::Shift(p.snext(la))), la + 1),
        }
    }
}
impl CPCTPlus {
    //@ctx repair_to_parse_repair: laidx + number of repairs does not overflow usize
    fn repair_to_parse_repair(&self, laidx0: usize, from: &Vec<Repair>) -> (r: Vec<ParseRepair>)
        requires laidx0 + from@.len() < usize::MAX,
        ensures r@ == to_parse_repairs(&self.parser, from@, from@.len() as int, laidx0 as int).0, // OBL: C05.reported_repairs_name_the_lexemes_in_input_order C06.reported_repairs_name_the_lexemes_in_input_order
    {
        //@probe
        let mut laidx = laidx0;
        //@body file=lrpar/src/lib/cpctplus.rs fn=repair_to_parse_repair
        //@rule n=1 `^(\s*)from\.iter\(\)\s*\.map\(\|y\| ` =>>
        // dialect rule 5: `from.iter().map(|y| ..).collect()` as a loop pushing onto the result
        let mut out_: Vec<ParseRepair> = Vec::new();
        for yi_ in 0..from.len()
            invariant laidx0 + from@.len() < usize::MAX,
                (out_@, laidx as int) == to_parse_repairs(&self.parser, from@, yi_ as int, laidx0 as int), // OBL: C05.reported_repairs_name_the_lexemes_in_input_order.each
                laidx <= laidx0 + yi_,
        {
            //@probe
            let y = &from[yi_];
            out_.push(
        //@end
        //@rule n=1 `\)\s*\.collect\(\)\s*$` =>>
            );
        }
        out_
        //@end
        //@endbody
    }
}

// ---- simplify_repairs: the trailing-shift stripper (the block run on every sequence) ----
pub open spec fn is_shift_pr(x: ParseRepair) -> bool { x matches ParseRepair::Shift(_) }
//@ctx strip_trailing_shifts: `rprs` is one element of `all_rprs.iter_mut()`; the dedup through a HashSet and the sort that follow are std (not under contract)
fn strip_trailing_shifts(rprs: &mut Vec<ParseRepair>)
    ensures
        final(rprs)@.len() <= old(rprs)@.len() && final(rprs)@ == old(rprs)@.take(final(rprs)@.len() as int), // OBL: C06.simplify.only_a_suffix_is_removed
        final(rprs)@.len() > 0 ==> !is_shift_pr(final(rprs)@.last()), // OBL: C06.no_reported_sequence_ends_in_a_shift
        forall|k: int| final(rprs)@.len() <= k < old(rprs)@.len() ==> is_shift_pr(#[trigger] old(rprs)@[k]), // OBL: C06.simplify.only_shifts_are_removed
{
    //@probe
    //@body file=lrpar/src/lib/cpctplus.rs fn=simplify_repairs block=`^\s*while !rprs\.is_empty\(\) \{` through=brace
    //@rule n=1 `^(\s*)while !rprs\.is_empty\(\) \{$` =>>
    while !rprs.is_empty()
        invariant_except_break rprs@.len() <= old(rprs)@.len(), rprs@ == old(rprs)@.take(rprs@.len() as int),
            forall|k: int| rprs@.len() <= k < old(rprs)@.len() ==> is_shift_pr(#[trigger] old(rprs)@[k]),
        ensures rprs@.len() <= old(rprs)@.len(), rprs@ == old(rprs)@.take(rprs@.len() as int),
            forall|k: int| rprs@.len() <= k < old(rprs)@.len() ==> is_shift_pr(#[trigger] old(rprs)@[k]),
            rprs@.len() > 0 ==> !is_shift_pr(rprs@.last()),
        decreases rprs@.len(),
    {
        //@probe
    //@end
    //@endbody
}
//@use prelude/tail.rs
