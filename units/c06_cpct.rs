//@unit c06_cpct props=C06,C05,C07 widths=u32
//@use prelude/head.rs
//@use prelude/lrpar.rs

// ---- stand-ins ----
#[derive(Clone, Copy, PartialEq, Eq)] pub enum Repair { InsertTerm(TIdx<$T>), Delete, Shift }
#[verifier::external_body] pub struct MergeRest { _x: usize }     // Cactus<Cactus<RepairMerge>>
pub enum RepairMerge { Repair(Repair), Merge(Repair, MergeRest), Terminator }
#[verifier::external_body] pub struct Cactus { _x: usize }        // Cactus<RepairMerge>
impl Cactus {
    // values from this node towards the root (most recent repair first), as Cactus::vals() yields them
    pub uninterp spec fn svals(&self) -> Seq<RepairMerge>;
    #[verifier::external_body] pub fn vals_vec(&self) -> (r: &Vec<RepairMerge>) ensures r@ == self.svals() { unimplemented!() }
}
pub const PARSE_AT_LEAST: usize = 3;
pub fn min_(a: usize, b: usize) -> (r: usize) ensures r == (if a < b { a } else { b }) { if a < b { a } else { b } }
#[verifier::external_body] pub struct Grm { _x: usize }
impl Grm {
    pub uninterp spec fn savoid(&self, t: TIdx<$T>) -> bool;
    #[verifier::external_body] pub fn avoid_insert(&self, t: TIdx<$T>) -> (r: bool) ensures r == self.savoid(t) { unimplemented!() }
}
pub struct Parser { pub grm: Grm }
impl Parser {
    pub uninterp spec fn snext(&self, laidx: int) -> LexemeT;
    #[verifier::external_body] pub fn next_lexeme(&self, laidx: usize) -> (r: LexemeT) ensures r == self.snext(laidx as int) { unimplemented!() }
}
pub struct CPCTPlus { pub parser: Parser }

// ---------------- specification ----------------
pub open spec fn is_shift(x: RepairMerge) -> bool { x matches RepairMerge::Repair(Repair::Shift) || x matches RepairMerge::Merge(Repair::Shift, _) }
// the success criterion: the last PARSE_AT_LEAST repairs exist and are all shifts (merged or not)
pub open spec fn ends_with_shifts(v: Seq<RepairMerge>) -> bool { v.len() >= 3 && is_shift(v[0]) && is_shift(v[1]) && is_shift(v[2]) }

fn ends_with_parse_at_least_shifts(repairs: &Cactus) -> (r: bool)
    ensures r == ends_with_shifts(repairs.svals()), // OBL: C07.success_needs_three_trailing_shifts C05.success_needs_three_trailing_shifts
{
    //@probe
    //@body file=lrpar/src/lib/cpctplus.rs fn=ends_with_parse_at_least_shifts
    //@rule n=1 `^(\s*)for x in repairs\.vals\(\)\.take\(PARSE_AT_LEAST\) \{$` =>>
    // dialect rule 5: `for x in c.vals().take(k)` is a loop over the first min(len, k) values
    let vs_ = repairs.vals_vec();
    for xi_ in 0..min_(vs_.len(), PARSE_AT_LEAST)
        invariant vs_@ == repairs.svals(), shfts == xi_, forall|k: int| 0 <= k < xi_ ==> is_shift(#[trigger] vs_@[k]), // OBL: C07.success_needs_three_trailing_shifts.scan C05.success_needs_three_trailing_shifts.scan
    {
        //@probe
        let x = &vs_[xi_];
    //@end
    //@endbody
}

// whether a repair sequence inserts a token declared %avoid_insert (closure of simplify_repairs)
pub open spec fn has_avoid_insert(g: &Grm, v: Seq<ParseRepair>) -> bool {
    exists|k: int| 0 <= k < v.len() && (#[trigger] v[k] matches ParseRepair::Insert(t) && g.savoid(t))
}
fn contains_avoid_insert(parser: &Parser, rprs: &Vec<ParseRepair>) -> (r: bool)
    ensures r == has_avoid_insert(&parser.grm, rprs@), // OBL: C06.avoid_insert_sequences_recognised_wherever_the_insert_is
{
    //@probe
    //@body file=lrpar/src/lib/cpctplus.rs fn=simplify_repairs block=`let contains_avoid_insert = \|rprs` through=brace
    //@rule n=1 `^\s*let contains_avoid_insert = \|rprs: &Vec<ParseRepair<LexerTypesT::LexemeT, \$T>>\| -> bool \{\n` => ``
    //@rule n=1 `^(\s*)\};\s*$` => ``
    //@rule n=1 `^(\s*)for r in rprs\.iter\(\) \{$` =>>
        for ri_ in 0..rprs.len()
            invariant forall|k: int| 0 <= k < ri_ ==> !(#[trigger] rprs@[k] matches ParseRepair::Insert(t) && parser.grm.savoid(t)),
        {
            //@probe
            let r = &rprs[ri_];
    //@end
    //@endbody
}

// the comparator handed to sort_unstable_by: sequences with an %avoid_insert insert after all others,
// shorter first within each group
pub open spec fn before_(g: &Grm, x: Seq<ParseRepair>, y: Seq<ParseRepair>) -> Ordering {
    if has_avoid_insert(g, x) && !has_avoid_insert(g, y) { Ordering::Greater }
    else if !has_avoid_insert(g, x) && has_avoid_insert(g, y) { Ordering::Less }
    else if x.len() < y.len() { Ordering::Less } else if x.len() == y.len() { Ordering::Equal } else { Ordering::Greater }
}
// usize::cmp
pub fn usize_cmp(a: usize, b: usize) -> (r: Ordering) ensures r == (if a < b { Ordering::Less } else if a == b { Ordering::Equal } else { Ordering::Greater })
{ if a < b { Ordering::Less } else if a == b { Ordering::Equal } else { Ordering::Greater } }
fn sort_comparator(parser: &Parser, x: &Vec<ParseRepair>, y: &Vec<ParseRepair>) -> (r: Ordering)
    ensures r == before_(&parser.grm, x@, y@), // OBL: C06.ranking_avoid_insert_last_then_shorter_first
{
    //@probe
    //@body file=lrpar/src/lib/cpctplus.rs fn=simplify_repairs block=`all_rprs\.sort_by\(\|x, y\| \{` end=`^\s*\}\);`
    //@rule n=1 `^\s*all_rprs\.sort_by\(\|x, y\| \{\n` => ``
    //@rule n=1 `^(\s*)\}\);\s*$` => ``
    //@rule n=2 `contains_avoid_insert\((\w)\)` => `contains_avoid_insert(parser, \1)`
    //@rule n=1 `x\.len\(\)\.cmp\(&y\.len\(\)\)` => `usize_cmp(x.len(), y.len())`
    //@endbody
}

// reported repairs name the lexemes they delete / keep, in input order from the error point
pub open spec fn to_parse_repairs(p: &Parser, from: Seq<Repair>, n: int, laidx: int) -> (Seq<ParseRepair>, int)
    decreases n
{
    if n <= 0 { (Seq::empty(), laidx) } else {
        let (pre, la) = to_parse_repairs(p, from, n - 1, laidx);
        match from[n - 1] {
            Repair::InsertTerm(t) => (pre.push(ParseRepair::Insert(t)), la),
            Repair::Delete => (pre.push(ParseRepair::Delete(p.snext(la))), la + 1),
            Repair::Shift => (pre.push(ParseRepair::Shift(p.snext(la))), la + 1),
        }
    }
}
impl CPCTPlus {
    //@ctx repair_to_parse_repair: laidx + number of repairs does not overflow usize
    fn repair_to_parse_repair(&self, laidx0: usize, from: &Vec<Repair>) -> (r: Vec<ParseRepair>)
        requires laidx0 + from@.len() < usize::MAX,
        ensures r@ == to_parse_repairs(&self.parser, from@, from@.len() as int, laidx0 as int).0, // OBL: C05.reported_repairs_name_the_lexemes_in_input_order C06.reported_repairs_name_the_lexemes_in_input_order
    {
        //@probe
        let mut laidx = laidx0;
        //@body file=lrpar/src/lib/cpctplus.rs fn=repair_to_parse_repair
        //@rule n=1 `^(\s*)from\.iter\(\)\s*\.map\(\|y\| ` =>>
        // dialect rule 5: `from.iter().map(|y| ..).collect()` as a loop pushing onto the result
        let mut out_: Vec<ParseRepair> = Vec::new();
        for yi_ in 0..from.len()
            invariant laidx0 + from@.len() < usize::MAX,
                (out_@, laidx as int) == to_parse_repairs(&self.parser, from@, yi_ as int, laidx0 as int), // OBL: C05.reported_repairs_name_the_lexemes_in_input_order.each
                laidx <= laidx0 + yi_,
        {
            //@probe
            let y = &from[yi_];
            out_.push(
        //@end
        //@rule n=1 `\)\s*\.collect\(\)\s*$` =>>
            );
        }
        out_
        //@end
        //@endbody
    }
}

// ---- simplify_repairs: the trailing-shift stripper (the block run on every sequence) ----
pub open spec fn is_shift_pr(x: ParseRepair) -> bool { x matches ParseRepair::Shift(_) }
//@ctx strip_trailing_shifts: `rprs` is one element of `all_rprs.iter_mut()`; the dedup through a HashSet and the sort that follow are std (not under contract)
fn strip_trailing_shifts(rprs: &mut Vec<ParseRepair>)
    ensures
        final(rprs)@.len() <= old(rprs)@.len() && final(rprs)@ == old(rprs)@.take(final(rprs)@.len() as int), // OBL: C06.simplify.only_a_suffix_is_removed
        final(rprs)@.len() > 0 ==> !is_shift_pr(final(rprs)@.last()), // OBL: C06.no_reported_sequence_ends_in_a_shift
        forall|k: int| final(rprs)@.len() <= k < old(rprs)@.len() ==> is_shift_pr(#[trigger] old(rprs)@[k]), // OBL: C06.simplify.only_shifts_are_removed
{
    //@probe
    //@body file=lrpar/src/lib/cpctplus.rs fn=simplify_repairs block=`^\s*while !rprs\.is_empty\(\) \{` through=brace
    //@rule n=1 `^(\s*)while !rprs\.is_empty\(\) \{$` =>>
    while !rprs.is_empty()
        invariant_except_break rprs@.len() <= old(rprs)@.len(), rprs@ == old(rprs)@.take(rprs@.len() as int),
            forall|k: int| rprs@.len() <= k < old(rprs)@.len() ==> is_shift_pr(#[trigger] old(rprs)@[k]),
        ensures rprs@.len() <= old(rprs)@.len(), rprs@ == old(rprs)@.take(rprs@.len() as int),
            forall|k: int| rprs@.len() <= k < old(rprs)@.len() ==> is_shift_pr(#[trigger] old(rprs)@[k]),
            rprs@.len() > 0 ==> !is_shift_pr(rprs@.last()),
        decreases rprs@.len(),
    {
        //@probe
    //@end
    //@endbody
}

// ---- simplify_repairs as a whole: strip, deduplicate through a HashSet, sort ----
#[verifier::opaque]
pub open spec fn stripped(a: Seq<ParseRepair>, b: Seq<ParseRepair>) -> bool {
    b.len() <= a.len() && b == a.take(b.len() as int) && (forall|k: int| b.len() <= k < a.len() ==> is_shift_pr(#[trigger] a[k])) && (b.len() > 0 ==> !is_shift_pr(b.last()))
}
#[verifier::opaque]
pub open spec fn hasv(v: Seq<Vec<ParseRepair>>, s: Seq<ParseRepair>) -> bool { exists|k: int| 0 <= k < v.len() && (#[trigger] v[k])@ == s }
// sequence x is reported in c, without its trailing shifts / sequence y of the report is one of those found, stripped
pub open spec fn kept_in(x: Seq<ParseRepair>, c: Seq<Vec<ParseRepair>>) -> bool { exists|j: int| 0 <= j < c.len() && stripped(x, (#[trigger] c[j])@) }
pub open spec fn found_in(o: Seq<Vec<ParseRepair>>, y: Seq<ParseRepair>) -> bool { exists|k: int| 0 <= k < o.len() && stripped((#[trigger] o[k])@, y) }
pub open spec fn nodup(v: Seq<Vec<ParseRepair>>) -> bool { forall|i: int, j: int| 0 <= i < j < v.len() ==> (#[trigger] v[i])@ != (#[trigger] v[j])@ }
// std::mem::swap(&mut v[i], tmp) (dialect rule 5: `for x in v.iter_mut()` works on element i in place)
#[verifier::external_body]
pub fn swap_elem(v: &mut Vec<Vec<ParseRepair>>, i: usize, tmp: &mut Vec<ParseRepair>)
    requires i < old(v)@.len(),
    ensures final(v)@ == old(v)@.update(i as int, *old(tmp)), *final(tmp) == old(v)@[i as int],
{ unimplemented!() }
fn strip_at(v: &mut Vec<Vec<ParseRepair>>, i: usize)
    requires i < old(v)@.len(),
    ensures final(v)@.len() == old(v)@.len(), stripped(old(v)@[i as int]@, final(v)@[i as int]@),
        forall|k: int| 0 <= k < old(v)@.len() && k != i ==> #[trigger] final(v)@[k] == old(v)@[k],
{
    proof { reveal(stripped); }
    let mut tmp: Vec<ParseRepair> = Vec::new();
    swap_elem(v, i, &mut tmp);
    strip_trailing_shifts(&mut tmp);
    swap_elem(v, i, &mut tmp);
}
#[verifier::external_body] pub struct SeqSet { _x: usize }     // IndexSet<Vec<ParseRepair>> (insertion-ordered; only its set semantics are used here)
impl SeqSet { pub uninterp spec fn v(&self) -> Set<Seq<ParseRepair>>; }
// `v.drain(..).collect::<HashSet<_>>()`: the set of the vector's elements; the vector is left empty
#[verifier::external_body]
pub fn drain_to_set(v: &mut Vec<Vec<ParseRepair>>) -> (hs: SeqSet)
    ensures final(v)@.len() == 0, forall|s: Seq<ParseRepair>| hs.v().contains(s) <==> hasv(old(v)@, s),
{ unimplemented!() }
// `v.extend(hs.drain())`: every element of the set, once, in an arbitrary order
#[verifier::external_body]
pub fn extend_from_set(v: &mut Vec<Vec<ParseRepair>>, hs: &mut SeqSet)
    requires old(v)@.len() == 0,
    ensures nodup(final(v)@), forall|s: Seq<ParseRepair>| hasv(final(v)@, s) <==> old(hs).v().contains(s),
{ unimplemented!() }
// `v.sort_by(cmp)` (stable) with the comparator verified above as sort_comparator: a permutation in comparator order
#[verifier::external_body]
pub fn sort_unstable_by_comparator(parser: &Parser, v: &mut Vec<Vec<ParseRepair>>)
    ensures final(v)@.len() == old(v)@.len(), nodup(old(v)@) ==> nodup(final(v)@),
        forall|s: Seq<ParseRepair>| hasv(final(v)@, s) <==> hasv(old(v)@, s),
        forall|i: int, j: int| 0 <= i < j < final(v)@.len() ==> before_(&parser.grm, (#[trigger] final(v)@[i])@, (#[trigger] final(v)@[j])@) != Ordering::Greater,
{ unimplemented!() }

// what the three steps of simplify_repairs add up to: o = the sequences found, a = o with every sequence stripped, c = a
// deduplicated and sorted
pub proof fn lemma_simplify(o: Seq<Vec<ParseRepair>>, a: Seq<Vec<ParseRepair>>, c: Seq<Vec<ParseRepair>>)
    requires a.len() == o.len(), forall|k: int| 0 <= k < o.len() ==> stripped((#[trigger] o[k])@, a[k]@),
        forall|s: Seq<ParseRepair>| hasv(c, s) <==> hasv(a, s),
    ensures
        forall|j: int| 0 <= j < c.len() && (#[trigger] c[j])@.len() > 0 ==> !is_shift_pr(c[j]@.last()),
        forall|k: int| 0 <= k < o.len() ==> kept_in((#[trigger] o[k])@, c),
        forall|j: int| 0 <= j < c.len() ==> found_in(o, (#[trigger] c[j])@),
        o.len() > 0 ==> c.len() > 0,
{
    reveal(hasv);
    assert forall|k: int| 0 <= k < o.len() implies kept_in((#[trigger] o[k])@, c) by {
        assert(hasv(a, a[k]@));
        assert(hasv(c, a[k]@));
        let j = choose|j: int| 0 <= j < c.len() && (#[trigger] c[j])@ == a[k]@;
        assert(stripped(o[k]@, c[j]@));
    }
    assert forall|j: int| 0 <= j < c.len() implies (found_in(o, (#[trigger] c[j])@)) && ((#[trigger] c[j])@.len() > 0 ==> !is_shift_pr(c[j]@.last())) by {
        assert(hasv(c, c[j]@));
        assert(hasv(a, c[j]@));
        let k = choose|k: int| 0 <= k < a.len() && (#[trigger] a[k])@ == c[j]@;
        assert(stripped(o[k]@, c[j]@));
        reveal(stripped);
    }
    if o.len() > 0 { assert(hasv(a, a[0]@)); assert(hasv(c, a[0]@)); }
}

fn simplify_repairs(parser: &Parser, all_rprs: &mut Vec<Vec<ParseRepair>>)
    ensures
        forall|j: int| 0 <= j < final(all_rprs)@.len() && (#[trigger] final(all_rprs)@[j])@.len() > 0 ==> !is_shift_pr(final(all_rprs)@[j]@.last()), // OBL: C06.simplify.no_reported_sequence_ends_in_a_shift
        nodup(final(all_rprs)@), // OBL: C06.simplify.no_sequence_is_reported_twice
        forall|i: int, j: int| 0 <= i < j < final(all_rprs)@.len() ==> before_(&parser.grm, (#[trigger] final(all_rprs)@[i])@, (#[trigger] final(all_rprs)@[j])@) != Ordering::Greater, // OBL: C06.simplify.avoid_insert_sequences_last_then_shorter_first
        forall|k: int| 0 <= k < old(all_rprs)@.len() ==> kept_in((#[trigger] old(all_rprs)@[k])@, final(all_rprs)@), // OBL: C06.simplify.every_sequence_is_kept_without_its_trailing_shifts
        forall|j: int| 0 <= j < final(all_rprs)@.len() ==> found_in(old(all_rprs)@, (#[trigger] final(all_rprs)@[j])@), // OBL: C06.simplify.nothing_is_reported_that_was_not_found
        old(all_rprs)@.len() > 0 ==> final(all_rprs)@.len() > 0, // OBL: C06.simplify.something_is_left_to_apply
{
    //@probe
    //@body file=lrpar/src/lib/cpctplus.rs fn=simplify_repairs
    //@cut n=1 `while !rprs\.is_empty\(\) \{` =>>
        // (the while loop is the function strip_trailing_shifts above, run on element ai_ in place)
        strip_at(all_rprs, ai_);
    //@end
    //@rule n=1 `^(\s*)for rprs in &mut all_rprs\.iter_mut\(\) \{$` =>>
    for ai_ in 0..all_rprs.len()
        invariant all_rprs@.len() == old(all_rprs)@.len(),
            forall|k: int| 0 <= k < ai_ ==> stripped((#[trigger] old(all_rprs)@[k])@, all_rprs@[k]@), // OBL: C06.simplify.every_sequence_loses_exactly_its_trailing_shifts
            forall|k: int| ai_ <= k < all_rprs@.len() ==> #[trigger] all_rprs@[k] == old(all_rprs)@[k],
    {
        //@probe
    //@end
    //@rule n=1 `let mut hs: IndexSet<Vec<ParseRepair<LexerTypesT::LexemeT, \$T>>> =\s*all_rprs\.drain\(\.\.\)\.collect\(\);` =>>
    let ghost a_ = all_rprs@;
    let mut hs: SeqSet = drain_to_set(all_rprs);
    //@end
    //@rule n=1 `all_rprs\.extend\(hs\.drain\(\.\.\)\);` => `extend_from_set(all_rprs, &mut hs);`
    //@cut n=1 `let contains_avoid_insert = \|rprs` =>>
        // (the closure contains_avoid_insert is the function of that name above)
    //@end
    //@cut n=1 `all_rprs\.sort_by\(` =>>
        // (the comparator closure is the function sort_comparator above)
        sort_unstable_by_comparator(parser, all_rprs)
    //@end
    //@endbody
    proof { lemma_simplify(old(all_rprs)@, a_, all_rprs@); } // OBL: C06.simplify.strip_then_deduplicate_then_sort
}
//@use prelude/tail.rs
