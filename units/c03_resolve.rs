//@unit c03_resolve props=C03,C16 widths=u32
//@use prelude/head.rs
//@use prelude/action.rs
//@use prelude/grammar.rs

pub struct StateTable {}
impl StateTable {
    // copy of the contract proved in unit c16_codec (encode is verified there against `enc`)
    #[verifier::external_body]
    pub fn encode(action: Action<$T>) -> (r: usize) ensures r == enc(action) { unimplemented!() }
}

pub enum Res { KeepReduce, Shift, Error }
// Yacc's shift/reduce rule, transcribed from the property statement:
//  (what the cell becomes, whether the pair is reported as a conflict)
pub open spec fn yacc_sr(t: Option<Precedence>, p: Option<Precedence>) -> (Res, bool) {
    if t is None || p is None { (Res::Shift, true) }
    else if t.unwrap().level > p.unwrap().level { (Res::Shift, false) }
    else if t.unwrap().level < p.unwrap().level { (Res::KeepReduce, false) }
    else { match t.unwrap().kind {
        AssocKind::Left => (Res::KeepReduce, false),
        AssocKind::Right => (Res::Shift, false),
        AssocKind::Nonassoc => (Res::Error, false) } }
}
pub open spec fn sr_cell(r: Res, pidx: PIdx<$T>, stidx: StIdx<$T>) -> usize {
    match r { Res::KeepReduce => enc(Action::Reduce(pidx)), Res::Shift => enc(Action::Shift(stidx)), Res::Error => enc(Action::<$T>::Error) }
}

//@ctx resolve_shift_reduce: the cell at `off` holds Reduce(pidx) (caller matched on it: statetable.rs Action::Reduce(r_pidx) arm)
//@ctx resolve_shift_reduce: a token and a production at the same precedence level have the same associativity (one %left/%right/%nonassoc line per level; unit c03_levels)
fn resolve_shift_reduce(
    grm: &YaccGrammar,
    actions: &mut [usize],
    off: usize,
    tidx: TIdx<$T>,
    pidx: PIdx<$T>,
    stidx: StIdx<$T>,
    shift_reduce: &mut Vec<(TIdx<$T>, PIdx<$T>, StIdx<$T>)>,
    conflict_stidx: StIdx<$T>,
)
    requires
        off < old(actions)@.len(),
        old(actions)@[off as int] == enc(Action::Reduce(pidx)),
        (grm.tprec(tidx) is Some && grm.pprec(pidx) is Some
            && grm.tprec(tidx).unwrap().level == grm.pprec(pidx).unwrap().level)
            ==> grm.tprec(tidx).unwrap().kind == grm.pprec(pidx).unwrap().kind,
    ensures
        final(actions)@.len() == old(actions)@.len(), // OBL: C03.sr_frame_len
        forall|i: int| 0 <= i < old(actions)@.len() && i != off ==> final(actions)@[i] == old(actions)@[i], // OBL: C03.sr_frame_cells
        final(actions)@[off as int] == sr_cell(yacc_sr(grm.tprec(tidx), grm.pprec(pidx)).0, pidx, stidx), // OBL: C03.sr_cell_is_yacc_choice
        yacc_sr(grm.tprec(tidx), grm.pprec(pidx)).1 ==> final(shift_reduce)@ == old(shift_reduce)@.push((tidx, pidx, conflict_stidx)), // OBL: C03.sr_reported_iff_default_rule
        !yacc_sr(grm.tprec(tidx), grm.pprec(pidx)).1 ==> final(shift_reduce)@ == old(shift_reduce)@, // OBL: C03.sr_not_reported_when_precedence_decides
{
    //@probe
    //@body file=lrtable/src/lib/statetable.rs fn=resolve_shift_reduce
    //@endbody
}
//@use prelude/tail.rs
