//@unit c16_gc props=C16,C02,C15 widths=u32
//@use prelude/head.rs

// ---- stand-ins ----
impl FromSpecImpl<StIdx<usize>> for usize { open spec fn obeys_from_spec() -> bool { true } open spec fn from_spec(s: StIdx<usize>) -> usize { s.0 } }
impl From<StIdx<usize>> for usize { fn from(s: StIdx<usize>) -> (r: usize) { s.0 } }
// HashSet<StIdx<usize>> as a finite set of state numbers; iteration order unspecified
#[verifier::external_body] pub struct StSet { _x: usize }
impl StSet {
    pub uninterp spec fn s(&self) -> Set<usize>;
    #[verifier::external_body] pub fn new() -> (r: StSet) ensures r.s() == Set::<usize>::empty(), r.s().finite() { unimplemented!() }
    #[verifier::external_body] pub fn insert(&mut self, x: StIdx<usize>) ensures final(self).s() == old(self).s().insert(x.0), old(self).s().finite() ==> final(self).s().finite() { unimplemented!() }
    #[verifier::external_body] pub fn remove(&mut self, x: &StIdx<usize>) ensures final(self).s() == old(self).s().remove(x.0), old(self).s().finite() ==> final(self).s().finite() { unimplemented!() }
    #[verifier::external_body] pub fn contains(&self, x: &StIdx<usize>) -> (r: bool) ensures r == self.s().contains(x.0) { unimplemented!() }
    #[verifier::external_body] pub fn is_empty(&self) -> (r: bool) requires self.s().finite() ensures r == (self.s().len() == 0), r == (self.s() =~= Set::<usize>::empty()) { unimplemented!() }
    #[verifier::external_body] pub fn len(&self) -> (r: usize) requires self.s().finite() ensures r == self.s().len() { unimplemented!() }
    // `*todo.iter().next().unwrap()`: some element, which one is not specified
    #[verifier::external_body] pub fn any(&self) -> (r: StIdx<usize>) requires self.s().finite(), self.s().len() > 0 ensures self.s().contains(r.0) { unimplemented!() }
    // `todo.extend(edge_map.values().filter(|x| !seen.contains(x)))`
    #[verifier::external_body]
    pub fn extend_unseen(&mut self, em: &EdgeMap, seen: &StSet)
        ensures final(self).s() == old(self).s().union(em.targets().difference(seen.s())), old(self).s().finite() ==> final(self).s().finite(),
    { unimplemented!() }
}
// HashMap<Symbol, StIdx<usize>>
#[verifier::external_body] pub struct EdgeMap { _x: usize }
impl EdgeMap {
    pub uninterp spec fn m(&self) -> Map<Symbol<$T>, usize>;
    pub open spec fn targets(&self) -> Set<usize> { self.m().values() }
}
// `st_edges.iter().map(|(&k, &v)| (k, offsets[usize::from(v)])).collect()`; indexing panics out of range
#[verifier::external_body]
pub fn remap_edges(em: &EdgeMap, offsets: &Vec<StIdx<usize>>) -> (r: EdgeMap)
    requires forall|v: usize| em.targets().contains(v) ==> v < offsets@.len(), // OBLG: C16.gc.edge_target_has_an_offset
    ensures r.m().dom() =~= em.m().dom(), forall|k: Symbol<$T>| em.m().contains_key(k) ==> #[trigger] r.m()[k] == offsets@[em.m()[k] as int].0,
{ unimplemented!() }
#[verifier::external_body] pub struct ZState { _x: usize }      // (core Itemset, closed Itemset)
// `states.drain(..).enumerate()` hands the states out in order
#[verifier::external_body]
pub fn take_state(states: &Vec<ZState>, i: usize) -> (r: ZState) requires i < states@.len() ensures r == states@[i as int] { unimplemented!() }
#[verifier::external_body]
pub fn take_edges(edges: &Vec<EdgeMap>, i: usize) -> (r: EdgeMap) requires i < edges@.len() ensures r == edges@[i as int] { unimplemented!() }

// ---------------- specification ----------------
pub open spec fn edge(E: Seq<EdgeMap>, a: int, b: int) -> bool { 0 <= a < E.len() && E[a].targets().contains(b as usize) && 0 <= b < E.len() }
pub open spec fn is_path(E: Seq<EdgeMap>, p: Seq<int>) -> bool {
    &&& p.len() >= 1
    &&& forall|i: int| 0 <= i < p.len() ==> 0 <= #[trigger] p[i] < E.len()
    &&& forall|i: int| 0 <= i < p.len() - 1 ==> edge(E, #[trigger] p[i], p[i + 1])
}
// reachable from the start state in zero or more steps
pub open spec fn reach(E: Seq<EdgeMap>, start: int, x: int) -> bool { exists|p: Seq<int>| #[trigger] is_path(E, p) && p[0] == start && p.last() == x }
// number of reachable states with a number below i: the new number of state i
pub open spec fn new_idx(E: Seq<EdgeMap>, start: int, i: int) -> int
    decreases i
{ if i <= 0 { 0 } else { new_idx(E, start, i - 1) + (if reach(E, start, i - 1) { 1int } else { 0int }) } }
pub open spec fn wf_graph(E: Seq<EdgeMap>, n: int) -> bool {
    E.len() == n && forall|a: int, v: usize| 0 <= a < n && (#[trigger] E[a].targets().contains(v)) ==> v < n
}
pub proof fn lemma_closed(E: Seq<EdgeMap>, start: int, seen: Set<usize>, p: Seq<int>, i: int)
    requires seen.contains(start as usize), 0 <= start < E.len(),
        forall|a: int, b: int| 0 <= a < E.len() && seen.contains(a as usize) && #[trigger] edge(E, a, b) ==> seen.contains(b as usize),
        is_path(E, p), p[0] == start, 0 <= i < p.len(),
    ensures seen.contains(p[i] as usize)
    decreases i
{
    if i > 0 { lemma_closed(E, start, seen, p, i - 1); assert(edge(E, p[i - 1], p[i])); }
}
pub proof fn lemma_reach_step(E: Seq<EdgeMap>, start: int, a: int, b: int)
    requires reach(E, start, a), edge(E, a, b)
    ensures reach(E, start, b)
{
    let p0 = choose|p: Seq<int>| #[trigger] is_path(E, p) && p[0] == start && p.last() == a;
    let p = p0.push(b);
    assert(is_path(E, p)) by {
        assert forall|i: int| 0 <= i < p.len() - 1 implies edge(E, #[trigger] p[i], p[i + 1]) by {
            if i < p0.len() - 1 { assert(p[i] == p0[i] && p[i + 1] == p0[i + 1]); } else { assert(p[i] == a && p[i + 1] == b); }
        }
    }
    assert(p[0] == start && p.last() == b);
}
pub proof fn lemma_reach_self(E: Seq<EdgeMap>, start: int)
    requires 0 <= start < E.len()
    ensures reach(E, start, start)
{ let p = seq![start]; assert(is_path(E, p)); assert(p[0] == start && p.last() == start); }
pub proof fn lemma_new_idx_le(E: Seq<EdgeMap>, start: int, i: int)
    requires 0 <= i
    ensures 0 <= new_idx(E, start, i) <= i
    decreases i
{ if i > 0 { lemma_new_idx_le(E, start, i - 1); } }
pub proof fn lemma_new_idx_mono(E: Seq<EdgeMap>, start: int, i: int, j: int)
    requires 0 <= i <= j
    ensures new_idx(E, start, i) <= new_idx(E, start, j)
    decreases j - i
{ if i < j { lemma_new_idx_mono(E, start, i, j - 1); } }
pub proof fn lemma_all_reach(E: Seq<EdgeMap>, start: int, seen: Set<usize>, n: int, i: int)
    requires 0 <= i <= n, forall|x: int| 0 <= x < n ==> (seen.contains(x as usize) <==> reach(E, start, x)), forall|x: usize| x < n ==> #[trigger] seen.contains(x)
    ensures new_idx(E, start, i) == i
    decreases i
{ if i > 0 { lemma_all_reach(E, start, seen, n, i - 1); assert(seen.contains((i - 1) as usize)); } }
// a subset of {0..n-1} has at most n elements; with exactly n it is all of them
pub proof fn lemma_below(s: Set<usize>, n: nat)
    requires s.finite(), forall|x: usize| #[trigger] s.contains(x) ==> x < n
    ensures s.len() <= n, s.len() == n ==> forall|x: usize| x < n ==> #[trigger] s.contains(x)
    decreases n
{
    if n == 0 { assert(s =~= Set::<usize>::empty()); }
    else {
        let last = (n - 1) as usize;
        let t = s.remove(last);
        lemma_below(t, (n - 1) as nat);
        if s.len() == n {
            assert(s.contains(last));
            assert forall|x: usize| x < n implies #[trigger] s.contains(x) by { if x < n - 1 { assert(t.contains(x)); } }
        }
    }
}

//@ctx gc: the start state is state 0 (pager_stategraph passes StIdx(0) and keeps using it after the collection)
//@ctx gc: every edge target is a state number of the graph being collected, the start state exists, and `edges` has one map per state (pager_stategraph pushes them together)
fn gc(states: Vec<ZState>, start_state: StIdx<usize>, edges: Vec<EdgeMap>) -> (r: (Vec<ZState>, Vec<EdgeMap>))
    requires states@.len() == edges@.len(), wf_graph(edges@, states@.len() as int), start_state.0 < states@.len(), start_state.0 == 0,
    ensures
        r.0@.len() == new_idx(edges@, start_state.0 as int, states@.len() as int) && r.1@.len() == r.0@.len(), // OBL: C16.gc_keeps_one_entry_per_reachable_state
        forall|i: int| 0 <= i < states@.len() && reach(edges@, start_state.0 as int, i) ==> #[trigger] r.0@[new_idx(edges@, start_state.0 as int, i)] == states@[i], // OBL: C16.gc_keeps_reachable_states_in_order C15.gc_result_independent_of_hash_set_order
        forall|i: int, k: Symbol<$T>| 0 <= i < states@.len() && reach(edges@, start_state.0 as int, i) && #[trigger] edges@[i].m().contains_key(k) ==>
                r.1@[new_idx(edges@, start_state.0 as int, i)].m().contains_key(k) && r.1@[new_idx(edges@, start_state.0 as int, i)].m()[k] == new_idx(edges@, start_state.0 as int, edges@[i].m()[k] as int), // OBL: C16.gc_renumbers_edge_targets_consistently C02.gc_renumbers_edge_targets_consistently
        forall|i: int| 0 <= i < states@.len() && reach(edges@, start_state.0 as int, i) ==> #[trigger] r.1@[new_idx(edges@, start_state.0 as int, i)].m().dom() =~= edges@[i].m().dom(), // OBL: C16.gc_keeps_exactly_the_edges_of_kept_states
        new_idx(edges@, start_state.0 as int, start_state.0 as int) == 0, // OBL: C16.gc_start_state_stays_first
{
    //@probe
    let ghost E = edges@;
    let ghost st = start_state.0 as int;
    let ghost n = states@.len() as int;
    let mut states = states;
    let mut edges = edges;
    let n_exec_ = states.len();
    //@body file=lrtable/src/lib/pager.rs fn=gc
    //@rule n=2 `HashSet::new\(\)` => `StSet::new()`
    //@rule n=1 `let mut offsets = Vec::with_capacity\(states\.len\(\)\);` => `let mut offsets: Vec<StIdx<usize>> = Vec::with_capacity(states.len());`
    //@rule n=1 `let mut gc_states = Vec::with_capacity\(seen\.len\(\)\);` => `let mut gc_states: Vec<ZState> = Vec::with_capacity(seen.len());`
    //@rule n=1 `let mut gc_edges = Vec::with_capacity\(seen\.len\(\)\);` => `let mut gc_edges: Vec<EdgeMap> = Vec::with_capacity(seen.len());`
    //@rule n=1 `let mut offset = 0;` => `let mut offset: usize = 0;`
    //@rule n=1 `^(\s*)while !todo\.is_empty\(\) \{$` =>>
    proof { lemma_reach_self(E, st); }
    while !todo.is_empty()
        invariant
            E == edges@, n == states@.len(), n <= usize::MAX, E.len() == n, wf_graph(E, n), st == start_state.0, 0 <= st < n,
            seen.s().finite(), todo.s().finite(),
            forall|x: usize| #![trigger seen.s().contains(x)] #![trigger todo.s().contains(x)] (seen.s().contains(x) || todo.s().contains(x)) ==> x < n && reach(E, st, x as int), // OBL: C16.gc.visited_states_are_reachable
            forall|x: usize| #[trigger] todo.s().contains(x) ==> !seen.s().contains(x),
            seen.s().contains(st as usize) || todo.s().contains(st as usize),
            forall|a: int, b: int| 0 <= a < n && seen.s().contains(a as usize) && #[trigger] edge(E, a, b) ==> seen.s().contains(b as usize) || todo.s().contains(b as usize), // OBL: C16.gc.seen_states_are_fully_expanded
        decreases n - seen.s().len(), // OBL: C16.gc.traversal_terminates
    {
        //@probe
        proof { lemma_below(seen.s(), n as nat); }
        let ghost seen0 = seen.s();
        let ghost todo0 = todo.s();
    //@end
    //@rule n=1 `let state_i = \*todo\.iter\(\)\.next\(\)\.unwrap\(\);` => `let state_i = todo.any();`
    //@rule n=1 `todo\.extend\(\s*edges\[usize::from\(state_i\)\]\s*\.values\(\)\s*\.filter\(\|x\| !seen\.contains\(x\)\),\s*\);` =>>
        let ghost seen_before = seen.s();
        todo.extend_unseen(&edges[usize::from(state_i)], &seen);
        proof {
            assert forall|x: usize| #![trigger seen.s().contains(x)] #![trigger todo.s().contains(x)] (seen.s().contains(x) || todo.s().contains(x)) implies x < n && reach(E, st, x as int) by {
                if E[state_i.0 as int].targets().contains(x) && !seen.s().contains(x) { assert(edge(E, state_i.0 as int, x as int)); lemma_reach_step(E, st, state_i.0 as int, x as int); }
            }
            assert forall|a: int, b: int| 0 <= a < n && seen.s().contains(a as usize) && #[trigger] edge(E, a, b) implies seen.s().contains(b as usize) || todo.s().contains(b as usize) by {
                if a == state_i.0 { assert(E[a].targets().contains(b as usize)); }
                else {
                    assert(seen.s() == seen0.insert(state_i.0));
                    assert(seen0.insert(state_i.0).contains(a as usize));
                    assert((a as usize) != state_i.0);
                    assert(seen0.contains(a as usize));
                    assert(seen0.contains(b as usize) || todo0.contains(b as usize));
                }
            }
            lemma_below(seen.s(), n as nat);
        }
    //@end
    //@rule n=1 `^(\s*)if states\.len\(\) == seen\.len\(\) \{$` =>>
    proof {
        // todo is empty: seen is closed under edges and holds the start state, so it is exactly the reachable set
        assert forall|a: int, b: int| 0 <= a < E.len() && seen.s().contains(a as usize) && #[trigger] edge(E, a, b) implies seen.s().contains(b as usize) by {
            assert(seen.s().contains(b as usize) || todo.s().contains(b as usize));
        }
        assert forall|x: int| 0 <= x < n implies (seen.s().contains(x as usize) <==> reach(E, st, x)) by {
            if reach(E, st, x) {
                let p = choose|p: Seq<int>| #[trigger] is_path(E, p) && p[0] == st && p.last() == x;
                lemma_closed(E, st, seen.s(), p, p.len() - 1);
            }
        }
        lemma_below(seen.s(), n as nat);
    }
    let ghost seen_set = seen.s();
    if states.len() == seen.len() {
        proof {
            assert forall|i: int| 0 <= i <= n implies #[trigger] new_idx(E, st, i) == i by { lemma_all_reach(E, st, seen_set, n, i); }
            assert forall|i: int, k: Symbol<$T>| 0 <= i < n && #[trigger] E[i].m().contains_key(k) implies (E[i].m()[k] as int) < n by {
                assert(E[i].targets().contains(E[i].m()[k]));
            }
        }
    //@end
    //@rule n=1 `^(\s*)for \(state_i, zstate\) in states\.drain\(\.\.\)\.enumerate\(\) \{$` =>>
    let mut si_next_: usize = 0;
    while si_next_ < states.len()
        invariant
            E == edges@, n == states@.len(), n <= usize::MAX, E.len() == n, st == start_state.0, si_next_ <= n, seen.s() == seen_set,
            forall|x: int| 0 <= x < n ==> (seen_set.contains(x as usize) <==> reach(E, st, x)),
            offsets@.len() == si_next_, offset == si_next_ - new_idx(E, st, si_next_ as int), // OBL: C16.gc.offsets_list_has_one_entry_per_state C02.gc.offsets_list_has_one_entry_per_state
            forall|j: int| 0 <= j < si_next_ ==> (#[trigger] offsets@[j]).0 == new_idx(E, st, j), // OBL: C16.gc.offset_of_a_state_is_its_new_number C02.gc.offset_of_a_state_is_its_new_number
            gc_states@.len() == new_idx(E, st, si_next_ as int),
            forall|j: int| 0 <= j < si_next_ && reach(E, st, j) ==> #[trigger] gc_states@[new_idx(E, st, j)] == states@[j],
        decreases n - si_next_,
    {
        //@probe
        // dialect rule 5: `for (state_i, zstate) in states.drain(..).enumerate()` (the body uses `continue`)
        let state_i = si_next_;
        si_next_ = si_next_ + 1;
        let zstate = take_state(&states, state_i);
        proof { lemma_new_idx_le(E, st, state_i as int); }
    //@end
    //@rule n=1 `^(\s*)gc_states\.push\(zstate\);$` =>>
        let ghost gs0 = gc_states@;
        gc_states.push(zstate);
        proof {
            assert forall|j: int| 0 <= j < si_next_ && reach(E, st, j) implies #[trigger] gc_states@[new_idx(E, st, j)] == states@[j] by {
                lemma_new_idx_le(E, st, j);
                if j < state_i { lemma_new_idx_mono(E, st, j + 1, state_i as int); assert(gc_states@[new_idx(E, st, j)] == gs0[new_idx(E, st, j)]); }
            }
        }
    //@end
    //@rule n=1 `^(\s*)for \(st_edge_i, st_edges\) in edges\.drain\(\.\.\)\.enumerate\(\) \{$` =>>
    let mut ei_next_: usize = 0;
    while ei_next_ < edges.len()
        invariant
            E == edges@, n == states@.len(), n <= usize::MAX, E.len() == n, wf_graph(E, n), st == start_state.0, ei_next_ <= n, seen.s() == seen_set,
            forall|x: int| 0 <= x < n ==> (seen_set.contains(x as usize) <==> reach(E, st, x)),
            offsets@.len() == n, forall|j: int| 0 <= j < n ==> (#[trigger] offsets@[j]).0 == new_idx(E, st, j),
            gc_edges@.len() == new_idx(E, st, ei_next_ as int),
            forall|j: int, k: Symbol<$T>| 0 <= j < ei_next_ && reach(E, st, j) && #[trigger] E[j].m().contains_key(k) ==>
                gc_edges@[new_idx(E, st, j)].m().contains_key(k) && gc_edges@[new_idx(E, st, j)].m()[k] == new_idx(E, st, E[j].m()[k] as int),
            forall|j: int| 0 <= j < ei_next_ && reach(E, st, j) ==> #[trigger] gc_edges@[new_idx(E, st, j)].m().dom() =~= E[j].m().dom(),
        decreases n - ei_next_,
    {
        //@probe
        let st_edge_i = ei_next_;
        ei_next_ = ei_next_ + 1;
        let st_edges = take_edges(&edges, st_edge_i);
        proof { lemma_new_idx_le(E, st, st_edge_i as int); }
    //@end
    //@rule n=1 `gc_edges\.push\(\s*st_edges\s*\.iter\(\)\s*\.map\(\|\(&k, &v\)\| \(k, offsets\[usize::from\(v\)\]\)\)\s*\.collect\(\),\s*\);` =>>
        proof {
            assert forall|v: usize| st_edges.targets().contains(v) implies v < offsets@.len() by { assert(E[st_edge_i as int].targets().contains(v)); }
        }
        let ghost ge0 = gc_edges@;
        gc_edges.push(remap_edges(&st_edges, &offsets));
        proof {
            assert forall|j: int, k: Symbol<$T>| 0 <= j < ei_next_ && reach(E, st, j) && #[trigger] E[j].m().contains_key(k) implies
                gc_edges@[new_idx(E, st, j)].m().contains_key(k) && gc_edges@[new_idx(E, st, j)].m()[k] == new_idx(E, st, E[j].m()[k] as int) by {
                lemma_new_idx_le(E, st, j);
                if j < st_edge_i { lemma_new_idx_mono(E, st, j + 1, st_edge_i as int); assert(gc_edges@[new_idx(E, st, j)] == ge0[new_idx(E, st, j)]); }
                else { assert(E[j].targets().contains(E[j].m()[k])); }
            }
            assert forall|j: int| 0 <= j < ei_next_ && reach(E, st, j) implies #[trigger] gc_edges@[new_idx(E, st, j)].m().dom() =~= E[j].m().dom() by {
                if j < st_edge_i { lemma_new_idx_mono(E, st, j + 1, st_edge_i as int); assert(gc_edges@[new_idx(E, st, j)] == ge0[new_idx(E, st, j)]); }
            }
        }
    //@end
    //@endbody
}
//@use prelude/tail.rs
