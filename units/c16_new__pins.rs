//@unit c16_new__pins props=C16 widths=u32
//@use prelude/head.rs
// not under contract: the query functions of StateTable and StateGraph (judged by the brute-force comparison of the c16 sweep when one changes)
//@pin file=lrtable/src/lib/statetable.rs fn=start_state sha=c96a94ae38cf9041
//@pin file=lrtable/src/lib/statetable.rs fn=conflicts sha=fc10d045686319f2
//@pin file=lrtable/src/lib/stategraph.rs fn=edge sha=22cfdb027f11d74f
//@pin file=lrtable/src/lib/stategraph.rs fn=edges sha=534471c70f71cd61
//@pin file=lrtable/src/lib/stategraph.rs fn=closed_state sha=66e6d87f237676e8
//@pin file=lrtable/src/lib/stategraph.rs fn=core_state sha=83f38b29b6ac2afb
//@pin file=lrtable/src/lib/stategraph.rs fn=iter_stidxs sha=bfbb21039eab8c2c
//@use prelude/tail.rs
