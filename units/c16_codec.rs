//@unit c16_codec props=C16,C20 widths=u32 thorough_widths=u8,u16,u32
//@use prelude/head.rs
//@use prelude/action.rs

pub struct StateTable {}
impl StateTable {
    //@ctx decode: the payload of the cell fits the index storage type (cells are only written through encode, whose argument is a StIdx/PIdx of that type)
    fn decode(bits: usize) -> (r: Action<$T>)
        requires (bits >> 2) <= $TMAX,
        ensures r == dec(bits), // OBL: C16.decode_is_dec
    {
        //@probe
        //@body file=lrtable/src/lib/statetable.rs fn=decode
        //@rule n=1 `let val = bits >> 2;` =>>
        let val = bits >> 2;
        assert(action == 0 || action == 1 || action == 2 || action == 3) by(bit_vector) requires action == bits & 0b11;
        //@end
        //@endbody
    }

    fn encode(action: Action<$T>) -> (r: usize)
        ensures r == enc(action), // OBL: C16.encode_is_enc
                dec(r) == action, // OBL: C16.decode_inverts_encode
                (r == 0usize) <==> (action is Error), // OBL: C16.zero_iff_error
    {
        //@probe
        proof { lemma_codec(action); }
        //@body file=lrtable/src/lib/statetable.rs fn=encode
        //@endbody
    }
}

fn actions_offset(tokens_len: TIdx<$T>, stidx: StIdx<$T>, tidx: TIdx<$T>) -> (r: usize)
    ensures r == (stidx.0 as usize) * (tokens_len.0 as usize) + (tidx.0 as usize), // OBL: C16.offset_is_row_major
{
    //@probe
    proof { assert((stidx.0 as usize) * (tokens_len.0 as usize) <= 0xffff_ffff * 0xffff_ffff) by(nonlinear_arith)
        requires stidx.0 <= 0xffff_ffff, tokens_len.0 <= 0xffff_ffff; }
    //@body file=lrtable/src/lib/statetable.rs fn=actions_offset
    //@endbody
}

// goto(): entries are target+1, 0 = none.  SparseVec::get is a stand-in returning the cell.
#[verifier::external_body]
pub struct SparseVec { _x: usize }
impl SparseVec {
    pub uninterp spec fn rows(&self) -> nat;
    pub uninterp spec fn cols(&self) -> nat;
    pub uninterp spec fn cell(&self, r: int, c: int) -> usize;
    #[verifier::external_body]
    pub fn get(&self, r: usize, c: usize) -> (v: Option<usize>)
        ensures (r < self.rows() && c < self.cols()) ==> v == Some(self.cell(r as int, c as int)),
                !(r < self.rows() && c < self.cols()) ==> v is None,
    { unimplemented!() }
}
pub struct GotoTable { pub gotos: SparseVec }
impl GotoTable {
    //@ctx goto: stidx/ridx are in range of the table and every non-zero goto cell is target+1 with target < number of states <= StorageT::MAX (what the edges loop of StateTable::new writes)
    pub fn goto(&self, stidx: StIdx<$T>, ridx: RIdx<$T>) -> (r: Option<StIdx<$T>>)
        requires (stidx.0 as nat) < self.gotos.rows(), (ridx.0 as nat) < self.gotos.cols(),
                 self.gotos.cell(stidx.0 as int, ridx.0 as int) <= $TMAX,
        ensures self.gotos.cell(stidx.0 as int, ridx.0 as int) == 0 ==> r is None, // OBL: C16.goto_zero_is_none
                self.gotos.cell(stidx.0 as int, ridx.0 as int) != 0 ==> r == Some(StIdx((self.gotos.cell(stidx.0 as int, ridx.0 as int) - 1) as $T)), // OBL: C16.goto_is_cell_minus_one
    {
        //@probe
        //@body file=lrtable/src/lib/statetable.rs fn=goto
        //@endbody
    }
}
//@use prelude/tail.rs
