//@unit c11_lex__pins props=C11,C09 widths=u32
//@use prelude/head.rs
// not under contract: the rest of the lex specification parser and the lexer-definition accessors (judged by the c11 sweep of generated specifications when one changes)
//@pin file=lrlex/src/lib/parser.rs fn=new_with_lex_flags sha=a76f5cdc9df63758
//@pin file=lrlex/src/lib/parser.rs fn=validate_start_state sha=5fad04a1130600f8
//@pin file=lrlex/src/lib/parser.rs fn=validate_start_state_name sha=66b2134cf6b64e66
//@pin file=lrlex/src/lib/parser.rs fn=parse_start_state_ops sha=d3d14a9de1aad6b3
//@pin file=lrlex/src/lib/parser.rs fn=unescape sha=6e67076af2e6e3bd
//@pin file=lrlex/src/lib/parser.rs fn=add_duplicate_occurrence sha=b02837fbe7096836
//@pin file=lrlex/src/lib/parser.rs fn=get_start_state_by_name sha=cd400f97ff97934b
//@pin file=lrlex/src/lib/parser.rs fn=matches_whitespace sha=b207bc6cc0894cff
//@pin file=lrlex/src/lib/lexer.rs fn=set_rule_ids nth=1 sha=2c86bc8838716c67
//@pin file=lrlex/src/lib/lexer.rs fn=state_matches sha=3a6847763eb28663
//@pin file=lrlex/src/lib/lexer.rs fn=lexer sha=87697c1513a9020e
//@use prelude/tail.rs
