//@unit c11_lex__pins props=C11,C09 widths=u32
//@use prelude/head.rs
// not under contract: the rest of the lex specification parser and the lexer-definition accessors (judged by the c11 sweep of generated specifications when one changes)
//@pin file=lrlex/src/lib/parser.rs fn=new_with_lex_flags sha=a76f5cdc9df63758
//@pin file=lrlex/src/lib/parser.rs fn=parse_start_state_ops sha=d3d14a9de1aad6b3
//@pin file=lrlex/src/lib/parser.rs fn=unescape sha=6e67076af2e6e3bd
//@pin file=lrlex/src/lib/parser.rs fn=matches_whitespace sha=b207bc6cc0894cff
//@pin file=lrlex/src/lib/lexer.rs fn=set_rule_ids nth=1 sha=2c86bc8838716c67
//@pin file=lrlex/src/lib/lexer.rs fn=state_matches sha=3a6847763eb28663
//@pin file=lrlex/src/lib/lexer.rs fn=lexer sha=87697c1513a9020e
//@use prelude/tail.rs
