//@unit c10_validate props=C10,C12,C15 widths=u32
//@use prelude/head.rs

// ---- stand-ins for the AST's string-keyed collections (only the identity of a name matters) ----
#[verifier::external_body] pub struct Name { _x: usize }            // String
impl Name { pub uninterp spec fn id(&self) -> int;
    #[verifier::external_body] pub fn clone(&self) -> (r: Name) ensures r.id() == self.id() { unimplemented!() } }
#[derive(Clone, Copy)] pub struct Span { pub st: usize, pub en: usize }
impl Span { pub fn new(start: usize, end: usize) -> (r: Span) requires start <= end ensures r.st == start, r.en == end { Span { st: start, en: end } } } // OBLG: C12.span_new_start_le_end
pub enum ASym { Rule(Name, Span), Token(Name, Span) }                 // yacc::ast::Symbol (renamed: head.rs has cfgrammar::Symbol)
pub struct Production { pub symbols: Vec<ASym>, pub precedence: Option<Name> }
pub struct RuleD { pub pidxs: Vec<usize> }
// IndexMap<String, Rule>: key set + the values in insertion order
#[verifier::external_body] pub struct RuleMap { _x: usize }
impl RuleMap {
    pub uninterp spec fn names(&self) -> Set<int>;
    pub uninterp spec fn vals(&self) -> Seq<RuleD>;
    #[verifier::external_body] pub fn contains_key(&self, k: &Name) -> (r: bool) ensures r == self.names().contains(k.id()) { unimplemented!() }
    #[verifier::external_body] pub fn values_vec(&self) -> (r: &Vec<RuleD>) ensures r@ == self.vals() { unimplemented!() }
}
// IndexSet<String> / HashMap<String, _> used as sets of names
#[verifier::external_body] pub struct NameSet { _x: usize }
impl NameSet {
    pub uninterp spec fn names(&self) -> Set<int>;
    #[verifier::external_body] pub fn contains(&self, k: &Name) -> (r: bool) ensures r == self.names().contains(k.id()) { unimplemented!() }
    #[verifier::external_body] pub fn contains_key(&self, k: &Name) -> (r: bool) ensures r == self.names().contains(k.id()) { unimplemented!() }
}
// HashMap<String, (Span, (String, Span))>: dialect rule 5, `.iter()` as an arbitrary-order list of (key, span of the key)
#[verifier::external_body] pub struct EppMap { _x: usize }
impl EppMap {
    pub uninterp spec fn names(&self) -> Set<int>;
    #[verifier::external_body] pub fn entries_vec(&self) -> (r: Vec<(Name, Span)>)
        ensures forall|i: int| self.names().contains(i) <==> exists|k: int| 0 <= k < r@.len() && (#[trigger] r@[k]).0.id() == i { unimplemented!() }
}
#[verifier::external_body] pub struct Opaque { _x: usize }              // the fields validation does not look at
pub enum YaccGrammarErrorKind { NoStartRule, InvalidStartRule(Name), UnknownToken(Name), NoPrecForToken(Name), UnknownRuleRef(Name), UnknownEPP(Name) }
pub struct YaccGrammarError { pub kind: YaccGrammarErrorKind, pub spans: Vec<Span> }

pub struct GrammarAST {
    pub start: Option<(Name, Span)>, pub rules: RuleMap, pub prods: Vec<Production>, pub tokens: NameSet, pub spans: Vec<Span>,
    pub precs: NameSet, pub implicit_tokens: Option<NameSet>, pub epp: EppMap, pub expect_unused: Vec<ASym>, pub rest: Opaque,
}

// ---------------- specification (the doc comment of complete_and_validate, items 1-5, plus %expect-unused) ----------------
pub open spec fn resolves(a: &GrammarAST, s: ASym) -> bool {
    match s { ASym::Rule(n, _) => a.rules.names().contains(n.id()), ASym::Token(n, _) => a.tokens.names().contains(n.id()) }
}
pub open spec fn prod_ok(a: &GrammarAST, p: Production) -> bool {
    &&& (p.precedence matches Some(n) ==> a.tokens.names().contains(n.id()) && a.precs.names().contains(n.id()))
    &&& forall|k: int| 0 <= k < p.symbols@.len() ==> resolves(a, #[trigger] p.symbols@[k])
}
pub open spec fn rule_ok(a: &GrammarAST, r: RuleD) -> bool {
    forall|k: int| 0 <= k < r.pidxs@.len() ==> prod_ok(a, a.prods@[(#[trigger] r.pidxs@[k]) as int])
}
pub open spec fn validated(a: &GrammarAST) -> bool {
    &&& a.start matches Some(s) && a.rules.names().contains(s.0.id())
    &&& forall|i: int| 0 <= i < a.rules.vals().len() ==> rule_ok(a, #[trigger] a.rules.vals()[i])
    &&& forall|i: int| a.epp.names().contains(i) ==> a.tokens.names().contains(i) || (a.implicit_tokens matches Some(it) && it.names().contains(i))
    &&& forall|k: int| 0 <= k < a.expect_unused@.len() ==> resolves(a, #[trigger] a.expect_unused@[k])
}
// every production index stored in a rule is an index into prods (add_prod pushes prods.len() before pushing the production)
pub open spec fn ast_wf(a: &GrammarAST) -> bool {
    forall|i: int, k: int| 0 <= i < a.rules.vals().len() && 0 <= k < a.rules.vals()[i].pidxs@.len() ==> (#[trigger] a.rules.vals()[i].pidxs@[k]) < a.prods@.len()
}

impl GrammarAST {
    #[verifier::external_body] pub fn get_rule(&self, key: &Name) -> (r: Option<&RuleD>) ensures (r is Some) == self.rules.names().contains(key.id()) { unimplemented!() }
    fn has_token(&self, s: &Name) -> (r: bool)
        ensures r == self.tokens.names().contains(s.id())
    {
        //@body file=cfgrammar/src/lib/yacc/ast.rs fn=has_token
        //@endbody
    }

    //@ctx complete_and_validate: the AST was built through add_rule / add_prod (production indices stored in rules are in range)
    fn complete_and_validate(&mut self) -> (r: Result<(), YaccGrammarError>)
        requires ast_wf(old(self)),
        ensures
            r is Ok ==> validated(old(self)), // OBL: C10.a_validated_ast_has_a_start_rule_and_every_name_resolves
            r matches Err(e) ==> e.spans@.len() > 0, // OBL: C12.yacc.validate.errors_carry_a_span
            *final(self) == *old(self), // OBL: C15.validation_does_not_register_or_renumber_anything C10.validation_does_not_register_or_renumber_anything
    {
        //@probe
        //@body file=cfgrammar/src/lib/yacc/ast.rs fn=complete_and_validate
        //@rule n=1 `^(\s*)for rule in self\.rules\.values\(\) \{$` =>>
        let rules_ = self.rules.values_vec();
        let mut ri_: usize = 0;
        while ri_ < rules_.len()
            invariant ri_ <= rules_@.len(), rules_@ == self.rules.vals(), ast_wf(self), *self == *old(self),
                self.start matches Some(s) && self.rules.names().contains(s.0.id()),
                forall|i: int| 0 <= i < ri_ ==> rule_ok(self, #[trigger] rules_@[i]), // OBL: C10.validate.every_rule_checked
            decreases rules_@.len() - ri_,
        {
            //@probe
            let rule = &rules_[ri_];
            ri_ = ri_ + 1;
        //@end
        //@rule n=1 `^(\s*)for &pidx in &rule\.pidxs \{$` =>>
            let mut pi_: usize = 0;
            while pi_ < rule.pidxs.len()
                invariant pi_ <= rule.pidxs@.len(), ast_wf(self), *self == *old(self), rules_@ == self.rules.vals(), 0 < ri_ <= rules_@.len(), *rule == rules_@[ri_ - 1],
                    forall|k: int| 0 <= k < pi_ ==> prod_ok(self, self.prods@[(#[trigger] rule.pidxs@[k]) as int]), // OBL: C10.validate.every_production_checked
                decreases rule.pidxs@.len() - pi_,
            {
                //@probe
                let pidx = rule.pidxs[pi_];
                pi_ = pi_ + 1;
                proof { assert(rules_@[ri_ - 1].pidxs@[pi_ - 1] < self.prods@.len()); }
        //@end
        //@rule n=1 `^(\s*)for sym in &prod\.symbols \{$` =>>
                let mut si_: usize = 0;
                while si_ < prod.symbols.len()
                    invariant si_ <= prod.symbols@.len(), *self == *old(self),
                        forall|k: int| 0 <= k < si_ ==> resolves(self, #[trigger] prod.symbols@[k]), // OBL: C10.validate.every_symbol_checked
                    decreases prod.symbols@.len() - si_,
                {
                    //@probe
                    let sym = &prod.symbols[si_];
                    si_ = si_ + 1;
        //@end
        //@rule n=* `\bSymbol::(Rule|Token)\(` => `ASym::\1(`
        //@rule n=1 `^(\s*)match \*sym \{$` => `\1match sym {`
        //@rule n=1 `ASym::Rule\(ref name, span\) => \{` => `ASym::Rule(name, span) => { let span = *span;`
        //@rule n=1 `ASym::Token\(ref name, span\) => \{` => `ASym::Token(name, span) => { let span = *span;`
        // dialect rule 5: `for (k, (sp, _)) in self.epp.iter()` over an arbitrary-order list of (key, key span)
        //@rule n=1 `^(\s*)for \(k, \(sp, _\)\) in self\.epp\.iter\(\) \{$` =>>
        let epps_ = self.epp.entries_vec();
        let mut ei_: usize = 0;
        while ei_ < epps_.len()
            invariant ei_ <= epps_@.len(), *self == *old(self),
                forall|q: int| 0 <= q < ei_ ==> self.tokens.names().contains((#[trigger] epps_@[q]).0.id()) || (self.implicit_tokens matches Some(it) && it.names().contains(epps_@[q].0.id())), // OBL: C10.validate.every_epp_key_checked
            decreases epps_@.len() - ei_,
        {
            //@probe
            let k = &epps_[ei_].0;
            let sp = &epps_[ei_].1;
            ei_ = ei_ + 1;
        //@end
        //@rule n=1 `if let Some\(ref it\) = self\.implicit_tokens` => `if let Some(it) = &self.implicit_tokens`
        //@rule n=1 `^(\s*)for sym in &self\.expect_unused \{$` =>>
        let mut ui_: usize = 0;
        while ui_ < self.expect_unused.len()
            invariant ui_ <= self.expect_unused@.len(), *self == *old(self),
                forall|k: int| 0 <= k < ui_ ==> resolves(self, #[trigger] self.expect_unused@[k]), // OBL: C10.validate.every_expect_unused_symbol_checked
            decreases self.expect_unused@.len() - ui_,
        {
            //@probe
            let sym = &self.expect_unused[ui_];
            ui_ = ui_ + 1;
        //@end
        //@endbody
    }
}
//@undecided that YaccGrammar::new_from_ast_with_validity_info only runs on a validated AST is its caller's guard (ast_validation errs empty), not restated here
//@use prelude/tail.rs
