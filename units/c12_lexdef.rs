//@unit c12_lexdef props=C12 widths=u32
//@use prelude/head.rs

// lrlex/src/lib/lexer.rs: the two ways of turning the text of a lex specification into a lexer definition -- from_str
// (flags from the %grmtools section) and new_with_options (flags handed in).  Decides for C12: neither panics whatever the
// three parsers they chain (the %grmtools section parser, the flag reader, the specification parser) return, and an Err
// they return carries at least one error.
#[verifier::external_body] pub struct Header { _x: usize }
#[verifier::external_body] #[derive(Debug)] pub struct HeaderError { _x: usize }
#[verifier::external_body] pub struct LexBuildError { _x: usize }
#[verifier::external_body] pub struct LexFlags { _x: usize }
#[verifier::external_body] pub struct RulesEtc { _x: usize }       // the parser's rules and start states
pub struct LexParser { pub p: RulesEtc }
pub struct LRNonStreamingLexerDef { pub p: RulesEtc, pub lex_flags: LexFlags }
impl LexFlags {
    #[verifier::external_body] pub fn clone(&self) -> (r: LexFlags) ensures r == *self { unimplemented!() }
    // LexFlags::try_from(&mut header)
    #[verifier::external_body] pub fn try_from(header: &mut Header) -> (r: Result<LexFlags, HeaderError>) { unimplemented!() }
}
pub struct GrmtoolsSectionParser<'a> { pub src: &'a str, pub required: bool }
impl<'a> GrmtoolsSectionParser<'a> {
    pub fn new(src: &'a str, required: bool) -> (r: Self) { GrmtoolsSectionParser { src, required } }
    // header.rs, under contract in unit c12_header: a value or a non-empty list of errors
    #[verifier::external_body] pub fn parse(&self) -> (r: Result<(Header, usize), Vec<HeaderError>>)
        ensures r matches Err(e) ==> e@.len() > 0
    { unimplemented!() }
}
// `.map_err(|mut errs| errs.drain(..).map(LexBuildError::from).collect::<Vec<_>>())`: every header error, converted
#[verifier::external_body] pub fn header_errs_to_lex_errs<T>(r: Result<T, Vec<HeaderError>>) -> (o: Result<T, Vec<LexBuildError>>)
    ensures r is Ok == o is Ok, r matches Ok(v) ==> o->Ok_0 == v, r matches Err(e) ==> o->Err_0@.len() == e@.len()
{ unimplemented!() }
// `.map_err(|e| vec![e.into()])`
#[verifier::external_body] pub fn header_err_to_lex_errs<T>(r: Result<T, HeaderError>) -> (o: Result<T, Vec<LexBuildError>>)
    ensures r is Ok == o is Ok, r matches Ok(v) ==> o->Ok_0 == v, r is Err ==> o->Err_0@.len() == 1
{ unimplemented!() }
// parser.rs LexParser::new_with_lex_flags (pinned; its pieces are under contract in the c11 / c12 lex units): a parser or a non-empty list of errors
#[verifier::external_body] pub fn new_with_lex_flags(src: &str, pos: usize, flags: LexFlags) -> (r: Result<LexParser, Vec<LexBuildError>>)
    ensures r matches Err(e) ==> e@.len() > 0
{ unimplemented!() }

fn from_str(s: &str) -> (r: Result<LRNonStreamingLexerDef, Vec<LexBuildError>>)
    ensures r matches Err(e) ==> e@.len() > 0, // OBL: C12.lexdef.from_str_returns_a_value_or_a_non_empty_list_of_errors
{
    //@probe
    //@body file=lrlex/src/lib/lexer.rs fn=from_str nth=2
    //@rule n=1 `GrmtoolsSectionParser::new\(s, false\)\s*\.parse\(\)\s*\.map_err\(\|mut errs\| errs\.drain\(\.\.\)\.map\(LexBuildError::from\)\.collect::<Vec<_>>\(\)\)\?;` => `header_errs_to_lex_errs(GrmtoolsSectionParser::new(s, false).parse())?;`
    //@rule n=1 `LexFlags::try_from\(&mut header\)\.map_err\(\|e\| vec!\[e\.into\(\)\]\)\?;` => `header_err_to_lex_errs(LexFlags::try_from(&mut header))?;`
    // dialect rule 5: `res.map(|p| E)` read as a match
    //@rule n=1 `LexParser::<LexerTypesT>::new_with_lex_flags\(s\.to_string\(\), pos, flags\.clone\(\)\)\.map\(\|p\| \{` => `match new_with_lex_flags(s, pos, flags.clone()) { Err(e_) => Err(e_), Ok(p) => Ok({`
    //@rule n=1 `rules: p\.rules,\s*start_states: p\.start_states,` => `p: p.p,`
    //@rule n=1 `phantom: PhantomData,` => ``
    //@rule n=1 `^(\s*)\}\)$` => `\1}) }`
    //@endbody
}
fn new_with_options(s: &str, lex_flags: LexFlags) -> (r: Result<LRNonStreamingLexerDef, Vec<LexBuildError>>)
    ensures r matches Err(e) ==> e@.len() > 0, // OBL: C12.lexdef.new_with_options_returns_a_value_or_a_non_empty_list_of_errors
{
    //@probe
    //@body file=lrlex/src/lib/lexer.rs fn=new_with_options
    //@rule n=* `GrmtoolsSectionParser::new\(s, false\)\s*\.parse\(\)\s*\.map_err\(\|mut errs\| errs\.drain\(\.\.\)\.map\(LexBuildError::from\)\.collect::<Vec<_>>\(\)\)\?;` => `header_errs_to_lex_errs(GrmtoolsSectionParser::new(s, false).parse())?;`
    //@rule n=1 `LexParser::<LexerTypesT>::new_with_lex_flags\(s\.to_string\(\), pos, lex_flags\.clone\(\)\)\.map\(\s*\|p\| LRNonStreamingLexerDef \{` => `match new_with_lex_flags(s, pos, lex_flags.clone()) { Err(e_) => Err(e_), Ok(p) => Ok(LRNonStreamingLexerDef {`
    //@rule n=1 `rules: p\.rules,\s*start_states: p\.start_states,` => `p: p.p,`
    //@rule n=1 `phantom: PhantomData,` => ``
    //@rule n=1 `^(\s*)\},\s*\)$` => `\1}) }`
    //@endbody
}
//@use prelude/tail.rs
