//@unit c10_decls props=C10,C12 widths=u32
//@use prelude/head.rs
//@use prelude/cursor.rs

// ---- stand-ins ----
#[verifier::external_body] pub struct Name { _x: usize }            // String
impl Name { pub uninterp spec fn id(&self) -> int; }
// IndexSet<String>: the names in insertion order, without duplicates
#[verifier::external_body] pub struct TokenSet { _x: usize }
impl TokenSet {
    pub uninterp spec fn seq(&self) -> Seq<int>;
    // `insert_full(n)`: (index of n, whether it was new); a new name goes to the end
    #[verifier::external_body] pub fn insert_full(&mut self, n: Name) -> (r: (usize, bool))
        requires old(self).seq().no_duplicates(),
        ensures final(self).seq().no_duplicates(),
            old(self).seq().contains(n.id()) ==> !r.1 && final(self).seq() == old(self).seq() && r.0 < old(self).seq().len() && old(self).seq()[r.0 as int] == n.id(),
            !old(self).seq().contains(n.id()) ==> r.1 && final(self).seq() == old(self).seq().push(n.id()) && r.0 == old(self).seq().len(),
    { unimplemented!() }
}
// HashSet<usize>
#[verifier::external_body] pub struct IdxSet { _x: usize }
impl IdxSet {
    pub uninterp spec fn s(&self) -> Set<usize>;
    #[verifier::external_body] pub fn insert(&mut self, x: usize) -> (r: bool) ensures final(self).s() == old(self).s().insert(x) { unimplemented!() }
}
pub struct GrammarAST { pub tokens: TokenSet, pub spans: Vec<Span>, pub token_directives: IdxSet }
#[derive(Clone, Copy)] pub enum YaccGrammarErrorKind { IllegalString, Other }
pub struct YaccGrammarError { pub kind: YaccGrammarErrorKind, pub spans: Vec<Span> }
pub open spec fn err_ok(src: &Src, e: YaccGrammarError) -> bool { e.spans@.len() > 0 && spans_ok(src, e.spans@) }
pub struct YaccParser { pub src: Src, pub ast: GrammarAST, pub num_newlines: usize }

impl YaccParser {
    // the scanners: contracts proved in unit c12_yacc (parse_ws, parse_token, lookahead_is)
    #[verifier::external_body]
    fn parse_ws(&mut self, i: usize, inc_newlines: bool) -> (r: Result<usize, YaccGrammarError>)
        requires old(self).src.ok(i as int), // OBLG: C12.yacc.cursor_in_range_on_boundary
            old(self).num_newlines <= i, // OBLG: C12.yacc.newline_counter_bounded_by_cursor
        ensures final(self).src == old(self).src, final(self).ast == old(self).ast, r matches Ok(j) ==> i <= j && old(self).src.ok(j as int) && final(self).num_newlines <= j, r matches Err(e) ==> err_ok(&old(self).src, e),
    { unimplemented!() }
    #[verifier::external_body]
    fn parse_token(&self, i: usize) -> (r: Result<(usize, Name, Span, bool), YaccGrammarError>)
        requires self.src.ok(i as int), // OBLG: C12.yacc.cursor_in_range_on_boundary
        ensures r matches Ok(t) ==> i < t.0 && self.src.ok(t.0 as int) && span_ok(&self.src, t.2), r matches Err(e) ==> err_ok(&self.src, e),
    { unimplemented!() }
    #[verifier::external_body]
    fn lookahead_is(&self, s: Lit, i: usize) -> (r: Option<usize>)
        requires self.src.ok(i as int), // OBLG: C12.yacc.cursor_in_range_on_boundary
        ensures r matches Some(j) ==> j == i + s.slen() && self.src.ok(j as int), (r is Some) == self.src.spec_starts_with(i as int, s),
    { unimplemented!() }
}

// ---------------- specification ----------------
// the index of a registered name
pub open spec fn index_of(s: Seq<int>, id: int) -> int { choose|k: int| 0 <= k < s.len() && s[k] == id }
// tokens and their spans are parallel vectors (SymbolIdx::symbol reads spans[idx] for token idx), and %token
// marks are indices of registered tokens
pub open spec fn ast_wf(a: &GrammarAST) -> bool {
    a.tokens.seq().no_duplicates() && a.spans@.len() == a.tokens.seq().len() && forall|x: usize| a.token_directives.s().contains(x) ==> x < a.tokens.seq().len()
}
pub open spec fn declared(a: &GrammarAST, id: int) -> bool {
    a.tokens.seq().contains(id) && a.token_directives.s().contains(index_of(a.tokens.seq(), id) as usize)
}
pub proof fn lemma_index_of(s: Seq<int>, k: int)
    requires s.no_duplicates(), 0 <= k < s.len()
    ensures index_of(s, s[k]) == k
{ let j = index_of(s, s[k]); assert(0 <= j < s.len() && s[j] == s[k]); }
pub proof fn lemma_declared_stable(a0: &GrammarAST, a1: &GrammarAST, id: int)
    requires declared(a0, id), a0.tokens.seq().no_duplicates(), a1.tokens.seq().no_duplicates(),
        a1.tokens.seq().len() >= a0.tokens.seq().len(), forall|k: int| 0 <= k < a0.tokens.seq().len() ==> a1.tokens.seq()[k] == a0.tokens.seq()[k],
        forall|x: usize| a0.token_directives.s().contains(x) ==> a1.token_directives.s().contains(x),
    ensures declared(a1, id)
{
    let k = index_of(a0.tokens.seq(), id);
    assert(0 <= k < a0.tokens.seq().len() && a0.tokens.seq()[k] == id);
    assert(a1.tokens.seq()[k] == id);
    lemma_index_of(a1.tokens.seq(), k);
}

impl YaccParser {
    //@ctx token_directive: the `%token` branch of parse_declarations; `i0` is the cursor at the directive
    fn token_directive(&mut self, i0: usize) -> (r: (Result<usize, YaccGrammarError>, Ghost<Seq<int>>))
        requires old(self).src.ok(i0 as int), ast_wf(&old(self).ast), old(self).num_newlines <= i0,
        ensures final(self).src == old(self).src,
            ast_wf(&final(self).ast), // OBL: C10.token_spans_stay_parallel_to_tokens
            forall|k: int| 0 <= k < old(self).ast.tokens.seq().len() ==> final(self).ast.tokens.seq()[k] == old(self).ast.tokens.seq()[k], // OBL: C10.registered_tokens_keep_their_index
            final(self).ast.tokens.seq().len() >= old(self).ast.tokens.seq().len(),
            r.0 matches Ok(k) ==> old(self).src.ok(k as int) && final(self).num_newlines <= k, // OBL: C12.yacc.token_directive.cursor_in_range_on_boundary
            r.0 matches Err(e) ==> err_ok(&old(self).src, e), // OBL: C12.yacc.token_directive.error_spans_renderable
            forall|q: int| 0 <= q < r.1@.len() ==> declared(&final(self).ast, #[trigger] r.1@[q]), // OBL: C10.every_token_named_in_a_token_directive_is_marked_declared
    {
        //@probe
        let mut i = i0;
        let ghost mut parsed_: Seq<int> = Seq::empty();
        //@body file=cfgrammar/src/lib/yacc/parser.rs fn=parse_declarations block=`^\s*if let Some\(j\) = self\.lookahead_is\(` through=brace
        //@builtin strlit
        //@rule n=1 `^(\s*)continue;\n(\s*)\}\s*$` => `\1return (Ok(i), Ghost(parsed_));\n\2}\n\2(Ok(i), Ghost(parsed_))`
        // dialect: `?` inside this wrapper returns the error together with the ghost list
        //@rule n=1 `= self\.parse_token\(i\)\?;` => `= match self.parse_token(i) { Ok(v_) => v_, Err(e_) => { return (Err(e_), Ghost(parsed_)); } };`
        //@rule n=1 `^(\s*)while i < self\.src\.len\(\) && self\.lookahead_is\(lit\("%", 1\), i\)\.is_none\(\) \{$` =>>
                while i < self.src.len() && self.lookahead_is(lit("%", 1), i).is_none()
                    invariant self.src == old(self).src, self.src.ok(i as int), ast_wf(&self.ast), self.num_newlines <= i,
                        self.ast.tokens.seq().len() >= old(self).ast.tokens.seq().len(),
                        forall|k: int| 0 <= k < old(self).ast.tokens.seq().len() ==> self.ast.tokens.seq()[k] == old(self).ast.tokens.seq()[k],
                        forall|q: int| 0 <= q < parsed_.len() ==> declared(&self.ast, #[trigger] parsed_[q]), // OBL: C10.every_token_named_in_a_token_directive_is_marked_declared.each
                    decreases self.src.slen() - i, // OBL: C12.yacc.token_directive.loop_terminates
                {
                    //@probe
                    let ghost ast0_ = self.ast;
        //@end
        //@rule n=1 `^(\s*)let \(idx, new_tok\) = self\.ast\.tokens\.insert_full\(n\);` =>>
                    let ghost nid_ = n.id();
                    let (idx, new_tok) = self.ast.tokens.insert_full(n);
        //@end
        //@after n=1 `^\s*if new_tok \{` =>>
                    proof { assert(self.ast.spans@.len() == self.ast.tokens.seq().len()); } // OBL: C10.a_span_is_pushed_exactly_for_a_new_token
        //@end
        // (before the last statement of the loop body) the name read by parse_token in this round is now marked declared
        //@rule n=1 `^(\s*)i = self\.parse_ws\(j, true\)\?;` =>>
                    proof {
                        let s1 = self.ast.tokens.seq();
                        assert(s1[idx as int] == nid_);
                        lemma_index_of(s1, idx as int);
                        assert(s1.contains(nid_));
                        assert(declared(&self.ast, nid_)); // OBL: C10.every_token_named_in_a_token_directive_is_marked_declared.this_round
                        assert forall|q: int| 0 <= q < parsed_.len() implies declared(&self.ast, #[trigger] parsed_[q]) by {
                            lemma_declared_stable(&ast0_, &self.ast, parsed_[q]);
                        }
                        parsed_ = parsed_.push(nid_);
                    }
                    i = self.parse_ws(j, true)?;
        //@end
        //@rule n=* `= self\.parse_ws\((\w+), (\w+)\)\?;` => `= match self.parse_ws(\1, \2) { Ok(v_) => v_, Err(e_) => { return (Err(e_), Ghost(parsed_)); } };`
        //@endbody
    }
}
//@undecided the other directives of parse_declarations (%left/%right/%nonassoc, %avoid_insert, %implicit_tokens, %epp, %expect*, %parse-param) are not under contract yet
//@use prelude/tail.rs
