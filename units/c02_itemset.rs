//@unit c02_itemset props=C02,C04,C16 widths=u32
//@use prelude/head.rs
//@use prelude/vob.rs
//@use prelude/grammar.rs

impl Vob {
    #[verifier::external_body] pub fn set_all(&mut self, b: bool) ensures final(self)@.len() == old(self)@.len(), forall|i: int| 0 <= i < old(self)@.len() ==> final(self)@[i] == b { unimplemented!() }
    // `v.iter_set_bits(..).next()`: the lowest set bit
    #[verifier::external_body] pub fn first_set_bit(&self) -> (r: Option<usize>)
        ensures r matches Some(i) ==> i < self@.len() && self@[i as int], r is None ==> forall|j: int| 0 <= j < self@.len() ==> !self@[j] { unimplemented!() }
}
// ---- FIRST sets (cfgrammar::yacc::firsts::YaccFirsts, units c17_firsts) ----
#[verifier::external_body] pub struct Firsts { _x: usize }
impl Firsts {
    pub uninterp spec fn first(&self, r: int) -> Seq<bool>;
    pub uninterp spec fn eps(&self, r: int) -> bool;
    pub open spec fn wf(&self, g: &YaccGrammar) -> bool { forall|r: int| 0 <= r < g.nrules() ==> (#[trigger] self.first(r)).len() == g.ntok() }
    #[verifier::external_body] pub fn firsts(&self, ridx: RIdx<$T>) -> (r: &Vob) ensures r@ == self.first(ridx.0 as int) { unimplemented!() }
    #[verifier::external_body] pub fn is_epsilon_set(&self, ridx: RIdx<$T>) -> (r: bool) ensures r == self.eps(ridx.0 as int) { unimplemented!() }
}

// ---- item sets ----
pub type Key = (PIdx<$T>, SIdx<$T>);
pub type IS = Map<Key, Seq<bool>>;
pub open spec fn or_seq(a: Seq<bool>, b: Seq<bool>) -> Seq<bool> { Seq::new(a.len(), |i: int| a[i] || (0 <= i < b.len() && b[i])) }
pub open spec fn subset(a: Seq<bool>, b: Seq<bool>) -> bool { forall|i: int| 0 <= i < a.len() && #[trigger] a[i] ==> i < b.len() && b[i] }
#[verifier::external_body] pub struct ItemMap { _x: usize }
impl ItemMap {
    pub uninterp spec fn m(&self) -> IS;
    // `items[&k]` panics when the key is missing
    #[verifier::external_body] pub fn idx(&self, k: &Key) -> (r: &Vob)
        requires self.m().contains_key(*k), // OBLG: C02.item_lookup_key_present
        ensures r@ == self.m()[*k]
    { unimplemented!() }
    #[verifier::external_body] pub fn contains_key(&self, k: &Key) -> (r: bool) ensures r == self.m().contains_key(*k) { unimplemented!() }
    #[verifier::external_body] pub fn len(&self) -> (r: usize) ensures r == self.m().len() { unimplemented!() }
    // dialect rule 5: `.keys()` / `&self.items` as an arbitrary-order duplicate-free list of the entries' keys
    #[verifier::external_body] pub fn keys_vec(&self) -> (r: Vec<Key>)
        ensures r@.no_duplicates(), forall|k: Key| r@.contains(k) <==> self.m().contains_key(k) { unimplemented!() }
}
pub struct Itemset { pub items: ItemMap }
impl Itemset {
    #[verifier::external_body] pub fn new(g: &YaccGrammar) -> (r: Itemset) ensures r.items.m() == Map::<Key, Seq<bool>>::empty() { unimplemented!() }
    #[verifier::external_body] pub fn clone(&self) -> (r: Itemset) ensures r.items.m() == self.items.m() { unimplemented!() }
    // add(): verified against this same contract (units/c02_add_contract.inc) in unit c02_add:
    // a new item gets a copy of ctx, an existing one is or-ed with it; true iff something changed
    #[verifier::external_body] pub fn add(&mut self, pidx: PIdx<$T>, dot: SIdx<$T>, ctx: &Vob) -> (r: bool)
//@use units/c02_add_contract.inc
    { unimplemented!() }
}
// the next key of an explicit `keys()` iterator (verified helper: index into the arbitrary-order list)
pub fn keys_next(v: &Vec<Key>, i: &mut usize) -> (r: Option<Key>)
    requires *old(i) <= v@.len(),
    ensures *old(i) < v@.len() ==> r == Some(v@[*old(i) as int]) && *final(i) == *old(i) + 1, *old(i) >= v@.len() ==> r is None && *final(i) == *old(i),
{ if *i < v.len() { let k = v[*i]; *i = *i + 1; Some(k) } else { None } }

// ---------------- specification ----------------
pub open spec fn items_wf(g: &YaccGrammar, m: IS) -> bool {
    forall|k: Key| #[trigger] m.contains_key(k) ==> (k.0.0 as nat) < g.nprods() && k.1.0 <= g.prods()[k.0.0 as int].len() && m[k].len() == g.ntok()
}
// a is contained in b: every item of a is an item of b with at least its lookaheads
pub open spec fn sub(a: IS, b: IS) -> bool { forall|k: Key| #[trigger] a.contains_key(k) ==> b.contains_key(k) && subset(a[k], b[k]) }
// transition: the items with `sym` after the dot, dot advanced, lookaheads kept
pub open spec fn is_goto(g: &YaccGrammar, m: IS, sym: Symbol<$T>, r: IS) -> bool {
    &&& forall|k: Key| #[trigger] m.contains_key(k) && k.1.0 < g.prods()[k.0.0 as int].len() && g.prods()[k.0.0 as int][k.1.0 as int] == sym
            ==> r.contains_key((k.0, SIdx((k.1.0 + 1) as $T))) && r[(k.0, SIdx((k.1.0 + 1) as $T))] == m[k]
    &&& forall|k2: Key| #[trigger] r.contains_key(k2) ==> k2.1.0 > 0 && m.contains_key((k2.0, SIdx((k2.1.0 - 1) as $T)))
            && (k2.1.0 - 1) < g.prods()[k2.0.0 as int].len() && g.prods()[k2.0.0 as int][k2.1.0 - 1] == sym
}

// ---------------- closure: specification ----------------
pub open spec fn single(n: nat, t: int) -> Seq<bool> { Seq::new(n, |i: int| i == t) }
// FIRST of a symbol string followed by a lookahead set
pub open spec fn first_seq(g: &YaccGrammar, f: &Firsts, b: Seq<Symbol<$T>>, la: Seq<bool>) -> Seq<bool>
    decreases b.len()
{
    if b.len() == 0 { la } else {
        match b[0] {
            Symbol::Token(t) => single(g.ntok(), t.0 as int),
            Symbol::Rule(r) => if f.eps(r.0 as int) { or_seq(f.first(r.0 as int), first_seq(g, f, b.drop_first(), la)) } else { f.first(r.0 as int) },
        }
    }
}
pub open spec fn beta(g: &YaccGrammar, k: Key) -> Seq<Symbol<$T>> { g.prods()[k.0.0 as int].subrange(k.1.0 + 1, g.prods()[k.0.0 as int].len() as int) }
// item k is closed in m: when a rule follows its dot, every production of that rule is there (dot 0) with the lookaheads k gives it
// some token is in the set
pub open spec fn nonempty(s: Seq<bool>) -> bool { exists|i: int| 0 <= i < s.len() && #[trigger] s[i] }
// (an LR(1) item is a production with a dot and ONE lookahead token: where no token can follow the rule after the dot --
// the rest of the production derives no sentence -- the closure rule demands nothing)
pub open spec fn closed_item(g: &YaccGrammar, f: &Firsts, m: IS, k: Key) -> bool {
    k.1.0 < g.prods()[k.0.0 as int].len() ==> (g.prods()[k.0.0 as int][k.1.0 as int] matches Symbol::Rule(r) ==> nonempty(first_seq(g, f, beta(g, k), m[k])) ==>
        forall|j: int| 0 <= j < g.rule_prods()[r.0 as int].len() ==> m.contains_key((#[trigger] g.rule_prods()[r.0 as int][j], SIdx(0 as $T)))
            && subset(first_seq(g, f, beta(g, k), m[k]), m[(g.rule_prods()[r.0 as int][j], SIdx(0 as $T))]))
}
pub open spec fn closed(g: &YaccGrammar, f: &Firsts, m: IS) -> bool { forall|k: Key| #[trigger] m.contains_key(k) ==> closed_item(g, f, m, k) }

pub open spec fn sym_ok(g: &YaccGrammar, s: Symbol<$T>) -> bool { match s { Symbol::Rule(r) => (r.0 as nat) < g.nrules(), Symbol::Token(t) => (t.0 as nat) < g.ntok() } }
pub open spec fn syms_ok(g: &YaccGrammar, b: Seq<Symbol<$T>>) -> bool { forall|i: int| 0 <= i < b.len() ==> sym_ok(g, #[trigger] b[i]) }
pub proof fn lemma_syms_ok_drop(g: &YaccGrammar, b: Seq<Symbol<$T>>) requires syms_ok(g, b), b.len() > 0 ensures syms_ok(g, b.drop_first()), sym_ok(g, b[0])
{ assert forall|i: int| 0 <= i < b.drop_first().len() implies sym_ok(g, #[trigger] b.drop_first()[i]) by { assert(b.drop_first()[i] == b[i + 1]); } }
pub proof fn lemma_subset_trans(a: Seq<bool>, b: Seq<bool>, c: Seq<bool>) requires subset(a, b), subset(b, c) ensures subset(a, c)
{ assert forall|i: int| 0 <= i < a.len() && #[trigger] a[i] implies i < c.len() && c[i] by { assert(b[i]); } }
pub proof fn lemma_or_assoc(a: Seq<bool>, b: Seq<bool>, c: Seq<bool>) requires a.len() == b.len(), b.len() == c.len() ensures or_seq(a, or_seq(b, c)) =~= or_seq(or_seq(a, b), c) { }
pub proof fn lemma_or_subset(a: Seq<bool>, b: Seq<bool>, c: Seq<bool>)
    requires subset(a, c), subset(b, c), a.len() == c.len()
    ensures subset(or_seq(a, b), c)
{ }
pub proof fn lemma_first_seq_len(g: &YaccGrammar, f: &Firsts, b: Seq<Symbol<$T>>, la: Seq<bool>)
    requires f.wf(g), la.len() == g.ntok(), syms_ok(g, b)
    ensures first_seq(g, f, b, la).len() == g.ntok()
    decreases b.len()
{ if b.len() > 0 { lemma_syms_ok_drop(g, b); lemma_first_seq_len(g, f, b.drop_first(), la); } }
// FIRST(b la) grows with la
pub proof fn lemma_first_seq_mono(g: &YaccGrammar, f: &Firsts, b: Seq<Symbol<$T>>, la1: Seq<bool>, la2: Seq<bool>)
    requires subset(la1, la2), f.wf(g), la1.len() == g.ntok(), la2.len() == g.ntok(), syms_ok(g, b)
    ensures subset(first_seq(g, f, b, la1), first_seq(g, f, b, la2))
    decreases b.len()
{
    if b.len() > 0 {
        lemma_syms_ok_drop(g, b);
        lemma_first_seq_mono(g, f, b.drop_first(), la1, la2);
        lemma_first_seq_len(g, f, b.drop_first(), la1);
        lemma_first_seq_len(g, f, b.drop_first(), la2);
    }
}

// ---- closure: the work list ----
// item k still has to be (re)processed: it is among the keys not yet consumed, or it is a dot-0 item whose bit is set
pub open spec fn pending(k: Key, keys: Seq<Key>, ki: int, zt: Seq<bool>) -> bool {
    (exists|j: int| ki <= j < keys.len() && keys[j] == k) || (k.1.0 == 0 && 0 <= k.0.0 < zt.len() && zt[k.0.0 as int])
}
pub open spec fn work_inv(g: &YaccGrammar, f: &Firsts, m0: IS, r: IS, keys: Seq<Key>, ki: int, zt: Seq<bool>) -> bool {
    &&& items_wf(g, m0) && items_wf(g, r) && sub(m0, r) && zt.len() == g.nprods() && 0 <= ki <= keys.len()
    &&& forall|k: Key| #[trigger] r.contains_key(k) ==> m0.contains_key(k) || k.1.0 == 0
    &&& forall|q: int| 0 <= q < zt.len() && #[trigger] zt[q] ==> r.contains_key((PIdx(q as $T), SIdx(0 as $T)))
    &&& forall|k: Key| #[trigger] r.contains_key(k) ==> pending(k, keys, ki, zt) || closed_item(g, f, r, k)
}
// r is below every closed item set that contains m0
pub open spec fn least_inv(g: &YaccGrammar, f: &Firsts, m0: IS, r: IS) -> bool {
    forall|jj: IS| items_wf(g, jj) && sub(m0, jj) && #[trigger] closed(g, f, jj) ==> sub(r, jj)
}
pub proof fn lemma_beta_ok(g: &YaccGrammar, k: Key)
    requires g.wf(), (k.0.0 as nat) < g.nprods(), k.1.0 < g.prods()[k.0.0 as int].len()
    ensures syms_ok(g, beta(g, k)), sym_ok(g, g.prods()[k.0.0 as int][k.1.0 as int])
{
    let pr = g.prods()[k.0.0 as int];
    assert forall|i: int| 0 <= i < beta(g, k).len() implies sym_ok(g, #[trigger] beta(g, k)[i]) by { assert(beta(g, k)[i] == pr[k.1.0 + 1 + i]); }
}
// one step of the scan over the symbols after the dot
pub proof fn lemma_first_seq_step(g: &YaccGrammar, f: &Firsts, pr: Seq<Symbol<$T>>, si: int, la: Seq<bool>)
    requires 0 <= si < pr.len()
    ensures first_seq(g, f, pr.subrange(si, pr.len() as int), la) == (match pr[si] {
        Symbol::Token(t) => single(g.ntok(), t.0 as int),
        Symbol::Rule(r) => if f.eps(r.0 as int) { or_seq(f.first(r.0 as int), first_seq(g, f, pr.subrange(si + 1, pr.len() as int), la)) } else { f.first(r.0 as int) },
    })
{
    let b = pr.subrange(si, pr.len() as int);
    assert(b[0] == pr[si]);
    assert(b.drop_first() =~= pr.subrange(si + 1, pr.len() as int));
}
// after adding/growing the dot-0 item kq: everything that was closed and did not change stays closed
pub proof fn lemma_closed_item_stable(g: &YaccGrammar, f: &Firsts, r0: IS, r1: IS, kq: Key, x: Key)
    requires r0.contains_key(x), closed_item(g, f, r0, x), x != kq, r1.dom() =~= r0.dom().insert(kq),
        forall|k: Key| r0.contains_key(k) && k != kq ==> r1[k] == r0[k], r0.contains_key(kq) ==> subset(r0[kq], r1[kq]),
    ensures closed_item(g, f, r1, x)
{
    if x.1.0 < g.prods()[x.0.0 as int].len() {
        if let Symbol::Rule(rr) = g.prods()[x.0.0 as int][x.1.0 as int] {
            assert(r1[x] == r0[x]);
            if nonempty(first_seq(g, f, beta(g, x), r1[x])) {
            assert forall|j: int| 0 <= j < g.rule_prods()[rr.0 as int].len() implies r1.contains_key((#[trigger] g.rule_prods()[rr.0 as int][j], SIdx(0 as $T)))
                && subset(first_seq(g, f, beta(g, x), r1[x]), r1[(g.rule_prods()[rr.0 as int][j], SIdx(0 as $T))]) by {
                let t = (g.rule_prods()[rr.0 as int][j], SIdx(0 as $T));
                assert(r0.contains_key(t) && subset(first_seq(g, f, beta(g, x), r0[x]), r0[t]));
                assert(r1.dom().contains(t));
                if t == kq { lemma_subset_trans(first_seq(g, f, beta(g, x), r0[x]), r0[t], r1[t]); } else { assert(r1[t] == r0[t]); }
            }
            }
        }
    }
}

impl Itemset {
    //@ctx goto: `self` is a well-formed item set of the grammar
    pub fn goto(&self, grm: &YaccGrammar, sym: &Symbol<$T>) -> (r: Itemset)
        requires grm.wf(), items_wf(grm, self.items.m()),
        ensures is_goto(grm, self.items.m(), *sym, r.items.m()), // OBL: C02.goto_is_the_lr1_transition C04.goto_is_the_lr1_transition
            items_wf(grm, r.items.m()),
    {
        //@probe
        let ghost m0 = self.items.m();
        //@body file=lrtable/src/lib/itemset.rs fn=goto
        //@after n=1 `^\s*if sym == &prod\[usize::from\(dot\)\] \{` =>>
            proof {
                // the key just added is new: two different items of m0 never advance to the same item
                assert forall|q: int| 0 <= q < ki0_ && (#[trigger] keys_@[q]).1.0 < grm.prods()[keys_@[q].0.0 as int].len() && grm.prods()[keys_@[q].0.0 as int][keys_@[q].1.0 as int] == *sym
                    implies newis.items.m().contains_key((keys_@[q].0, SIdx((keys_@[q].1.0 + 1) as $T))) && newis.items.m()[(keys_@[q].0, SIdx((keys_@[q].1.0 + 1) as $T))] == m0[keys_@[q]] by {
                    assert(keys_@[q] != keys_@[ki0_]);
                }
            }
        //@end
        //@rule n=1 `let mut newis = Itemset::new\(grm\);` => `let mut newis = Itemset::new(grm);`
        // dialect rule 5: `for (&(pidx, dot), ctx) in &self.items`
        //@rule n=1 `^(\s*)for \(&\(pidx, dot\), ctx\) in &self\.items \{$` =>>
        let keys_ = self.items.keys_vec();
        let mut ki_: usize = 0;
        while ki_ < keys_.len()
            invariant ki_ <= keys_@.len(), grm.wf(), m0 == self.items.m(), items_wf(grm, m0), keys_@.no_duplicates(),
                forall|k: Key| keys_@.contains(k) <==> m0.contains_key(k),
                items_wf(grm, newis.items.m()),
                forall|q: int| 0 <= q < ki_ && (#[trigger] keys_@[q]).1.0 < grm.prods()[keys_@[q].0.0 as int].len() && grm.prods()[keys_@[q].0.0 as int][keys_@[q].1.0 as int] == *sym
                    ==> newis.items.m().contains_key((keys_@[q].0, SIdx((keys_@[q].1.0 + 1) as $T))) && newis.items.m()[(keys_@[q].0, SIdx((keys_@[q].1.0 + 1) as $T))] == m0[keys_@[q]],
                forall|k2: Key| #[trigger] newis.items.m().contains_key(k2) ==> k2.1.0 > 0 && (exists|q: int| 0 <= q < ki_ && keys_@[q] == (k2.0, SIdx((k2.1.0 - 1) as $T)))
                    && (k2.1.0 - 1) < grm.prods()[k2.0.0 as int].len() && grm.prods()[k2.0.0 as int][k2.1.0 - 1] == *sym,
            decreases keys_@.len() - ki_,
        {
            //@probe
            let (pidx, dot) = keys_[ki_];
            let ghost ki0_ = ki_ as int;
            ki_ = ki_ + 1;
            proof { assert(keys_@.contains(keys_@[ki0_])); assert(m0.contains_key((pidx, dot))); }
            let ctx = self.items.idx(&(pidx, dot));
            let ghost nm0_ = newis.items.m();
        //@end
        //@rule n=1 `^(\s*)newis\s*$` =>>
        proof {
            let r = newis.items.m();
            assert forall|k: Key| #[trigger] m0.contains_key(k) && k.1.0 < grm.prods()[k.0.0 as int].len() && grm.prods()[k.0.0 as int][k.1.0 as int] == *sym
                implies r.contains_key((k.0, SIdx((k.1.0 + 1) as $T))) && r[(k.0, SIdx((k.1.0 + 1) as $T))] == m0[k] by {
                assert(keys_@.contains(k));
                let q = choose|q: int| 0 <= q < keys_@.len() && keys_@[q] == k;
                assert(keys_@[q].1.0 < grm.prods()[keys_@[q].0.0 as int].len());
            }
            assert forall|k2: Key| #[trigger] r.contains_key(k2) implies k2.1.0 > 0 && m0.contains_key((k2.0, SIdx((k2.1.0 - 1) as $T)))
                && (k2.1.0 - 1) < grm.prods()[k2.0.0 as int].len() && grm.prods()[k2.0.0 as int][k2.1.0 - 1] == *sym by {
                let q = choose|q: int| 0 <= q < ki_ && keys_@[q] == (k2.0, SIdx((k2.1.0 - 1) as $T));
                assert(keys_@.contains(keys_@[q]));
            }
        }
        newis
        //@end
        //@rule n=1 `if dot == grm\.prod_len\(pidx\) \{` => `if dot.0 == grm.prod_len(pidx).0 {`
        //@rule n=1 `if sym == &prod\[usize::from\(dot\)\] \{` => `if sym_eq(sym, &prod[usize::from(dot)]) {`
        //@rule n=1 `SIdx\(dot\.as_storaget\(\) \+ \(1 as \$T\)\)` => `SIdx(dot.as_storaget() + (1 as $T))`
        //@endbody
    }
}

pub proof fn lemma_tail_ok(g: &YaccGrammar, p: int, from: int)
    requires g.wf(), 0 <= p < g.nprods(), 0 <= from <= g.prods()[p].len()
    ensures syms_ok(g, g.prods()[p].subrange(from, g.prods()[p].len() as int))
{
    let pr = g.prods()[p];
    assert forall|i: int| 0 <= i < pr.subrange(from, pr.len() as int).len() implies sym_ok(g, #[trigger] pr.subrange(from, pr.len() as int)[i]) by { assert(pr.subrange(from, pr.len() as int)[i] == pr[from + i]); }
}
// picking the next work item: from the remaining keys, or the lowest set bit (which is cleared)
pub open spec fn picked(keys: Seq<Key>, ki0: int, ki1: int, zt0: Seq<bool>, zt1: Seq<bool>, k: Key) -> bool {
    ||| (ki1 == ki0 + 1 && 0 <= ki0 < keys.len() && keys[ki0] == k && zt1 == zt0)
    ||| (ki1 == ki0 && k.1.0 == 0 && 0 <= k.0.0 < zt0.len() && zt0[k.0.0 as int] && zt1 == zt0.update(k.0.0 as int, false))
}
// an item whose closure obligation is trivially or already met leaves the work list
pub proof fn lemma_processed(g: &YaccGrammar, f: &Firsts, m0: IS, r: IS, keys: Seq<Key>, ki0: int, ki1: int, zt0: Seq<bool>, zt1: Seq<bool>, k: Key)
    requires work_inv(g, f, m0, r, keys, ki0, zt0), picked(keys, ki0, ki1, zt0, zt1, k), keys.no_duplicates(), r.contains_key(k), closed_item(g, f, r, k)
    ensures work_inv(g, f, m0, r, keys, ki1, zt1)
{
    assert forall|x: Key| #[trigger] r.contains_key(x) implies pending(x, keys, ki1, zt1) || closed_item(g, f, r, x) by {
        if x != k && !closed_item(g, f, r, x) {
            assert(pending(x, keys, ki0, zt0));
            if exists|j: int| ki0 <= j < keys.len() && keys[j] == x {
                let j = choose|j: int| ki0 <= j < keys.len() && keys[j] == x;
                assert(ki1 <= j);
            }
        }
    }
}
// the state while the productions of the rule after k's dot are being added (the first pi of them done)
pub open spec fn rule_after(g: &YaccGrammar, k: Key) -> int { match g.prods()[k.0.0 as int][k.1.0 as int] { Symbol::Rule(r) => r.0 as int, Symbol::Token(_) => -1 } }
pub open spec fn step_inv(g: &YaccGrammar, f: &Firsts, m0: IS, r0: IS, r: IS, keys: Seq<Key>, ki: int, zt1: Seq<bool>, zt: Seq<bool>, k: Key, pi: int) -> bool {
    &&& items_wf(g, m0) && items_wf(g, r) && items_wf(g, r0) && sub(m0, r) && sub(r0, r) && zt.len() == g.nprods() && 0 <= ki <= keys.len()
    &&& r0.contains_key(k) && r.contains_key(k) && k.1.0 < g.prods()[k.0.0 as int].len() && 0 <= rule_after(g, k) < g.nrules() && 0 <= pi <= g.rule_prods()[rule_after(g, k)].len()
    &&& forall|x: Key| #[trigger] r.contains_key(x) ==> m0.contains_key(x) || x.1.0 == 0
    &&& forall|q: int| 0 <= q < zt.len() && #[trigger] zt[q] ==> r.contains_key((PIdx(q as $T), SIdx(0 as $T)))
    &&& forall|x: Key| #[trigger] r.contains_key(x) && x != k ==> pending(x, keys, ki, zt) || closed_item(g, f, r, x)
    &&& (pending(k, keys, ki, zt) || (r[k] == r0[k] && forall|j: int| 0 <= j < pi ==> r.contains_key((#[trigger] g.rule_prods()[rule_after(g, k)][j], SIdx(0 as $T)))
            && subset(first_seq(g, f, beta(g, k), r0[k]), r[(g.rule_prods()[rule_after(g, k)][j], SIdx(0 as $T))])))
}
pub proof fn lemma_pending_mono(x: Key, keys: Seq<Key>, ki: int, zta: Seq<bool>, ztb: Seq<bool>)
    requires pending(x, keys, ki, zta), zta.len() == ztb.len(), forall|q: int| 0 <= q < zta.len() && zta[q] ==> #[trigger] ztb[q]
    ensures pending(x, keys, ki, ztb)
{ }
pub proof fn lemma_step_init(g: &YaccGrammar, f: &Firsts, m0: IS, r: IS, keys: Seq<Key>, ki0: int, ki1: int, zt0: Seq<bool>, zt1: Seq<bool>, k: Key)
    requires work_inv(g, f, m0, r, keys, ki0, zt0), picked(keys, ki0, ki1, zt0, zt1, k), keys.no_duplicates(), r.contains_key(k),
        k.1.0 < g.prods()[k.0.0 as int].len(), 0 <= rule_after(g, k) < g.nrules(), g.wf(),
    ensures step_inv(g, f, m0, r, r, keys, ki1, zt1, zt1, k, 0)
{
    assert forall|x: Key| #[trigger] r.contains_key(x) && x != k implies pending(x, keys, ki1, zt1) || closed_item(g, f, r, x) by {
        if !closed_item(g, f, r, x) {
            assert(pending(x, keys, ki0, zt0));
            if exists|j: int| ki0 <= j < keys.len() && keys[j] == x {
                let j = choose|j: int| ki0 <= j < keys.len() && keys[j] == x;
                assert(ki1 <= j);
            }
        }
    }
    assert(sub(r, r)) by { assert forall|x: Key| #[trigger] r.contains_key(x) implies subset(r[x], r[x]) by { } }
}
pub proof fn lemma_step_done(g: &YaccGrammar, f: &Firsts, m0: IS, r0: IS, r: IS, keys: Seq<Key>, ki: int, zt1: Seq<bool>, zt: Seq<bool>, k: Key)
    requires step_inv(g, f, m0, r0, r, keys, ki, zt1, zt, k, g.rule_prods()[rule_after(g, k)].len() as int)
    ensures work_inv(g, f, m0, r, keys, ki, zt)
{
    assert forall|x: Key| #[trigger] r.contains_key(x) implies pending(x, keys, ki, zt) || closed_item(g, f, r, x) by {
        if x == k && !pending(k, keys, ki, zt) { assert(r[k] == r0[k]); }
    }
}
pub open spec fn kq_of(g: &YaccGrammar, k: Key, pi0: int) -> Key { (g.rule_prods()[rule_after(g, k)][pi0], SIdx(0 as $T)) }
pub open spec fn ctx_of(g: &YaccGrammar, f: &Firsts, r0: IS, k: Key) -> Seq<bool> { first_seq(g, f, beta(g, k), r0[k]) }
// one `add` of the production pi0 of the rule after k's dot, with lookaheads FIRST(beta_k r0[k])
pub proof fn lemma_add_step(g: &YaccGrammar, f: &Firsts, m0: IS, r0: IS, r1: IS, r2: IS, keys: Seq<Key>, ki: int, zt1: Seq<bool>, zt2: Seq<bool>, zt3: Seq<bool>, k: Key, pi0: int)
    requires g.wf(), f.wf(g), step_inv(g, f, m0, r0, r1, keys, ki, zt1, zt2, k, pi0), least_inv(g, f, m0, r1), pi0 < g.rule_prods()[rule_after(g, k)].len(),
        nonempty(ctx_of(g, f, r0, k)),
        !r1.contains_key(kq_of(g, k, pi0)) ==> r2 == r1.insert(kq_of(g, k, pi0), ctx_of(g, f, r0, k)), // OBLG: C02.close.every_production_of_the_rule_after_the_dot_is_added_with_its_lookaheads
        r1.contains_key(kq_of(g, k, pi0)) ==> r2 == r1.insert(kq_of(g, k, pi0), or_seq(r1[kq_of(g, k, pi0)], ctx_of(g, f, r0, k))), // OBLG: C02.close.every_production_of_the_rule_after_the_dot_is_added_with_its_lookaheads
        // a dot-0 item that is new or gained lookaheads is queued for (re)processing; nothing else is queued
        zt3.len() == zt2.len(),
        (!r1.contains_key(kq_of(g, k, pi0)) || r2[kq_of(g, k, pi0)] != r1[kq_of(g, k, pi0)]) ==> zt3[kq_of(g, k, pi0).0.0 as int], // OBLG: C02.close.an_item_that_gained_lookaheads_is_processed_again
        forall|q: int| 0 <= q < zt2.len() ==> (zt2[q] ==> #[trigger] zt3[q]) && (zt3[q] ==> zt2[q] || q == kq_of(g, k, pi0).0.0), // OBLG: C02.close.only_the_item_just_added_is_queued
    ensures step_inv(g, f, m0, r0, r2, keys, ki, zt1, zt3, k, pi0 + 1), least_inv(g, f, m0, r2)
{
    let rr = rule_after(g, k);
    let kq = (g.rule_prods()[rr][pi0], SIdx(0 as $T));
    let ctx = first_seq(g, f, beta(g, k), r0[k]);
    lemma_beta_ok(g, k);
    lemma_first_seq_len(g, f, beta(g, k), r0[k]);
    assert((kq.0.0 as nat) < g.nprods());
    assert(r2.dom() =~= r1.dom().insert(kq));
    assert(r2[kq].len() == g.ntok());
    assert(r1.contains_key(kq) ==> subset(r1[kq], r2[kq]));
    assert(subset(ctx, r2[kq]));
    assert(items_wf(g, r2)) by {
        assert forall|x: Key| #[trigger] r2.contains_key(x) implies (x.0.0 as nat) < g.nprods() && x.1.0 <= g.prods()[x.0.0 as int].len() && r2[x].len() == g.ntok() by {
            if x != kq { assert(r1.contains_key(x)); }
        }
    }
    assert(sub(r1, r2)) by { assert forall|x: Key| #[trigger] r1.contains_key(x) implies r2.contains_key(x) && subset(r1[x], r2[x]) by { if x != kq { assert(r2[x] == r1[x]); } } }
    assert(sub(m0, r2)) by { assert forall|x: Key| #[trigger] m0.contains_key(x) implies r2.contains_key(x) && subset(m0[x], r2[x]) by { assert(r1.contains_key(x)); lemma_subset_trans(m0[x], r1[x], r2[x]); } }
    assert(sub(r0, r2)) by { assert forall|x: Key| #[trigger] r0.contains_key(x) implies r2.contains_key(x) && subset(r0[x], r2[x]) by { assert(r1.contains_key(x)); lemma_subset_trans(r0[x], r1[x], r2[x]); } }
    // the other items
    assert forall|x: Key| #[trigger] r2.contains_key(x) && x != k implies pending(x, keys, ki, zt3) || closed_item(g, f, r2, x) by {
        if x == kq {
            if !r1.contains_key(kq) || r2[kq] != r1[kq] { assert(zt3[kq.0.0 as int]); } else { assert(r2 =~= r1); if pending(x, keys, ki, zt2) { lemma_pending_mono(x, keys, ki, zt2, zt3); } }
        } else {
            assert(r1.contains_key(x));
            if pending(x, keys, ki, zt2) { lemma_pending_mono(x, keys, ki, zt2, zt3); } else { lemma_closed_item_stable(g, f, r1, r2, kq, x); }
        }
    }
    // k itself
    if !pending(k, keys, ki, zt3) {
        assert(!pending(k, keys, ki, zt2)) by { if pending(k, keys, ki, zt2) { lemma_pending_mono(k, keys, ki, zt2, zt3); } }
        if k == kq { assert(!zt3[kq.0.0 as int]); assert(r2 =~= r1); }
        assert(r2[k] == r0[k]);
        assert forall|j: int| 0 <= j < pi0 + 1 implies r2.contains_key((#[trigger] g.rule_prods()[rr][j], SIdx(0 as $T))) && subset(ctx, r2[(g.rule_prods()[rr][j], SIdx(0 as $T))]) by {
            let t = (g.rule_prods()[rr][j], SIdx(0 as $T));
            if j < pi0 { assert(r1.contains_key(t)); if t == kq { lemma_subset_trans(ctx, r1[t], r2[t]); } else { assert(r2[t] == r1[t]); } }
        }
    }
    // minimality
    assert forall|jj: IS| items_wf(g, jj) && sub(m0, jj) && #[trigger] closed(g, f, jj) implies sub(r2, jj) by {
        assert(sub(r1, jj));
        assert(r1.contains_key(k));
        assert(jj.contains_key(k) && closed_item(g, f, jj, k));
        lemma_subset_trans(r0[k], r1[k], jj[k]);
        lemma_first_seq_mono(g, f, beta(g, k), r0[k], jj[k]);
        assert(nonempty(first_seq(g, f, beta(g, k), jj[k]))) by {
            let i = choose|i: int| 0 <= i < ctx.len() && #[trigger] ctx[i];
            assert(first_seq(g, f, beta(g, k), jj[k])[i]);
        }
        assert(jj.contains_key((g.rule_prods()[rr][pi0], SIdx(0 as $T))));
        lemma_subset_trans(ctx, first_seq(g, f, beta(g, k), jj[k]), jj[kq]);
        assert forall|x: Key| #[trigger] r2.contains_key(x) implies jj.contains_key(x) && subset(r2[x], jj[x]) by {
            if x == kq { if r1.contains_key(kq) { lemma_or_subset(r1[kq], ctx, jj[kq]); } } else { assert(r1.contains_key(x)); }
        }
    }
}

impl Itemset {
    //@ctx close: `self` is a well-formed item set (every lookahead vector has one bit per token); the FIRST sets have one bit per token
    #[verifier::exec_allows_no_decreases_clause]
    pub fn close(&self, grm: &YaccGrammar, firsts: &Firsts) -> (r: Itemset)
        requires grm.wf(), firsts.wf(grm), items_wf(grm, self.items.m()),
        ensures items_wf(grm, r.items.m()),
            sub(self.items.m(), r.items.m()), // OBL: C02.close.contains_the_core_items_with_their_lookaheads
            closed(grm, firsts, r.items.m()), // OBL: C02.close.is_closed_under_the_lr1_closure_rule C04.close.is_closed_under_the_lr1_closure_rule C16.close.is_closed_under_the_lr1_closure_rule
            least_inv(grm, firsts, self.items.m(), r.items.m()), // OBL: C02.close.adds_nothing_the_closure_rule_does_not_demand C16.close.adds_nothing_the_closure_rule_does_not_demand
    {
        //@probe
        let ghost m0 = self.items.m();
        //@body file=lrtable/src/lib/itemset.rs fn=close
        // (at the end of every round of the loop over the productions of the rule after the dot)
        //@atend n=1 `^\s*for ref_pidx in grm\.rule_to_prods\(s_ridx\)\.iter\(\) \{` =>>
                    proof { lemma_add_step(grm, firsts, m0, r0_, r1_, new_is.items.m(), keys_@, ki_ as int, zt1_, zt2_, zero_todos@, k_, pi0_); }
        //@end
        //@after n=1 `^\s*for sym in prod\.iter\(\)\.skip\(usize::from\(dot\) \+ 1\) \{` =>>
                proof {
                    if nullable && si_ == prod.len() { assert(prod@.subrange(si_ as int, prod@.len() as int) =~= Seq::<Symbol<$T>>::empty()); }
                }
        //@end
        //@after n=1 `^\s*for ref_pidx in grm\.rule_to_prods\(s_ridx\)\.iter\(\) \{` =>>
                proof { lemma_step_done(grm, firsts, m0, r0_, new_is.items.m(), keys_@, ki_ as int, zt1_, zero_todos@, k_); }
        //@end
        //@after n=1 `^\s*if let Symbol::Rule\(s_ridx\) = prod\[usize::from\(dot\)\] \{` =>>
            proof {
                if let Symbol::Token(_) = prod@[dot.0 as int] { lemma_processed(grm, firsts, m0, r0_, keys_@, ki0_, ki_ as int, zt0_, zero_todos@, k_); }
            }
        //@end
        //@rule n=1 `let mut keys_iter = self\.items\.keys\(\);.*$` => `let keys_ = self.items.keys_vec(); let mut ki_: usize = 0;`
        //@rule n=1 `^(\s*)loop \{$` =>>
        proof {
            assert(work_inv(grm, firsts, m0, new_is.items.m(), keys_@, 0, zero_todos@)) by {
                assert forall|k: Key| #[trigger] new_is.items.m().contains_key(k) implies pending(k, keys_@, 0, zero_todos@) by {
                    assert(keys_@.contains(k));
                    let j = choose|j: int| 0 <= j < keys_@.len() && keys_@[j] == k;
                }
            }
        }
        loop
            invariant_except_break grm.wf(), firsts.wf(grm), m0 == self.items.m(), keys_@.no_duplicates(), forall|k: Key| keys_@.contains(k) <==> m0.contains_key(k),
                new_ctx@.len() == grm.ntok(),
                work_inv(grm, firsts, m0, new_is.items.m(), keys_@, ki_ as int, zero_todos@),
                least_inv(grm, firsts, m0, new_is.items.m()),
            ensures items_wf(grm, new_is.items.m()), sub(m0, new_is.items.m()), closed(grm, firsts, new_is.items.m()), least_inv(grm, firsts, m0, new_is.items.m()),
        {
            //@probe
            let ghost r0_ = new_is.items.m();
            let ghost ki0_ = ki_ as int;
            let ghost zt0_ = zero_todos@;
        //@end
        //@rule n=1 `match keys_iter\.next\(\) \{` => `match keys_next(&keys_, &mut ki_) {`
        //@rule n=1 `Some\(&\(x, y\)\) => \{` => `Some((x, y)) => {`
        //@rule n=1 `match zero_todos\.iter_set_bits\(\.\.\)\.next\(\) \{` => `match zero_todos.first_set_bit() {`
        //@rule n=1 `^(\s*)None => break,$` =>>
                        None => {
                            proof {
                                // nothing is pending any more: every item is closed
                                assert forall|k: Key| #[trigger] new_is.items.m().contains_key(k) implies closed_item(grm, firsts, new_is.items.m(), k) by {
                                    assert(!pending(k, keys_@, ki_ as int, zero_todos@));
                                }
                            }
                            break;
                        }
        //@end
        //@rule n=1 `zero_todos\.set\(pidx\.into\(\), false\);` => `zero_todos.set(usize::from(pidx), false);`
        //@rule n=1 `^(\s*)let prod = grm\.prod\(pidx\);$` =>>
            let ghost k_ = (pidx, dot);
            proof {
                // the item being processed is an item of the set under construction
                assert(new_is.items.m().contains_key(k_)) by {
                    if ki_ > ki0_ { assert(keys_@.contains(keys_@[ki0_])); }
                }
            }
            let ghost zt1_ = zero_todos@;
            let prod = grm.prod(pidx);
        //@end
        //@rule n=1 `^(\s*)if dot == grm\.prod_len\(pidx\) \{\n(\s*)continue;` =>>
            if dot.0 == grm.prod_len(pidx).0 {
                proof { lemma_processed(grm, firsts, m0, r0_, keys_@, ki0_, ki_ as int, zt0_, zero_todos@, k_); }
                continue;
        //@end
        //@rule n=1 `^(\s*)if let Symbol::Rule\(s_ridx\) = prod\[usize::from\(dot\)\] \{$` =>>
            proof { lemma_beta_ok(grm, k_); }
            if let Symbol::Rule(s_ridx) = prod[usize::from(dot)] {
                let ghost la0_ = new_is.items.m()[k_];
                let ghost target_ = first_seq(grm, firsts, beta(grm, k_), la0_);
        //@end
        //@rule n=1 `let mut nullable = true;` => `let mut nullable = true; proof { lemma_first_seq_len(grm, firsts, beta(grm, k_), la0_); }`
        // dialect: `for sym in prod.iter().skip(usize::from(dot) + 1)` as an index loop
        //@rule n=1 `^(\s*)for sym in prod\.iter\(\)\.skip\(usize::from\(dot\) \+ 1\) \{$` =>>
                let mut si_: usize = usize::from(dot) + 1;
                while si_ < prod.len()
                    invariant_except_break nullable, dot.0 + 1 <= si_ <= prod@.len(),
                        target_ =~= or_seq(new_ctx@, first_seq(grm, firsts, prod@.subrange(si_ as int, prod@.len() as int), la0_)),
                    invariant grm.wf(), firsts.wf(grm), prod@ == grm.prods()[pidx.0 as int], (pidx.0 as nat) < grm.nprods(), new_ctx@.len() == grm.ntok(), la0_.len() == grm.ntok(), k_ == (pidx, dot),
                        target_ == first_seq(grm, firsts, beta(grm, k_), la0_), target_.len() == grm.ntok(), dot.0 < prod@.len(),
                    ensures new_ctx@.len() == grm.ntok(), nullable ==> target_ =~= or_seq(new_ctx@, la0_), !nullable ==> target_ =~= new_ctx@,
                    decreases prod@.len() - si_,
                {
                    //@probe
                    let sym = &prod[si_];
                    let ghost ctx0_ = new_ctx@;
                    let ghost rest_ = first_seq(grm, firsts, prod@.subrange(si_ as int + 1, prod@.len() as int), la0_);
                    proof {
                        lemma_first_seq_step(grm, firsts, prod@, si_ as int, la0_);
                        assert(sym_ok(grm, prod@[si_ as int]));
                        lemma_tail_ok(grm, pidx.0 as int, si_ as int + 1);
                        lemma_first_seq_len(grm, firsts, prod@.subrange(si_ as int + 1, prod@.len() as int), la0_);
                    }
                    si_ = si_ + 1;
        //@end
        //@rule n=1 `^(\s*)new_ctx\.set\(usize::from\(s_tidx\), true\);` =>>
                            new_ctx.set(usize::from(s_tidx), true);
                            proof { assert(new_ctx@ =~= or_seq(ctx0_, single(grm.ntok(), s_tidx.0 as int))); }
        //@end
        //@rule n=1 `^(\s*)new_ctx\.or\(firsts\.firsts\(s_ridx\)\);` =>>
                            new_ctx.or(firsts.firsts(s_ridx));
                            proof {
                                assert(new_ctx@ =~= or_seq(ctx0_, firsts.first(s_ridx.0 as int)));
                                if firsts.eps(s_ridx.0 as int) { lemma_or_assoc(ctx0_, firsts.first(s_ridx.0 as int), rest_); }
                            }
        //@end
        //@rule n=1 `new_ctx\.or\(&new_is\.items\[&\(pidx, dot\)\]\);` => `let ghost ctx1_ = new_ctx@; let la_vob_ = new_is.items.idx(&(pidx, dot)); new_ctx.or(la_vob_); proof { assert(la_vob_@ == la0_); assert forall|i: int| 0 <= i < ctx1_.len() implies new_ctx@[i] == (ctx1_[i] || la_vob_@[i]) by { }; assert(new_ctx@ =~= or_seq(ctx1_, la0_)); }`
        //@rule n=1 `^(\s*)if new_ctx\.iter_set_bits\(\.\.\)\.next\(\)\.is_none\(\) \{\n(\s*)continue;` =>>
                proof { assert(new_ctx@ =~= target_); }
                if new_ctx.first_set_bit().is_none() {
                    proof {
                        // no token can follow the rule after the dot: the closure rule demands nothing of this item
                        assert(!nonempty(first_seq(grm, firsts, beta(grm, k_), r0_[k_])));
                        lemma_processed(grm, firsts, m0, r0_, keys_@, ki0_, ki_ as int, zt0_, zero_todos@, k_);
                    }
                    continue;
        //@end
        //@rule n=1 `^(\s*)for ref_pidx in grm\.rule_to_prods\(s_ridx\)\.iter\(\) \{$` =>>
                proof { assert(new_ctx@ =~= target_); assert(nonempty(target_)); lemma_step_init(grm, firsts, m0, r0_, keys_@, ki0_, ki_ as int, zt0_, zero_todos@, k_); }
                let rps_ = grm.rule_to_prods(s_ridx);
                let mut pi_: usize = 0;
                while pi_ < rps_.len()
                    invariant pi_ <= rps_@.len(), grm.wf(), firsts.wf(grm), rps_@ == grm.rule_prods()[s_ridx.0 as int], (s_ridx.0 as nat) < grm.nrules(),
                        new_ctx@ == target_, target_ == first_seq(grm, firsts, beta(grm, k_), la0_), new_ctx@.len() == grm.ntok(), nonempty(target_),
                        r0_.contains_key(k_), la0_ == r0_[k_], k_ == (pidx, dot), dot.0 < grm.prods()[pidx.0 as int].len(), grm.prods()[pidx.0 as int][dot.0 as int] == Symbol::Rule(s_ridx),
                        step_inv(grm, firsts, m0, r0_, new_is.items.m(), keys_@, ki_ as int, zt1_, zero_todos@, k_, pi_ as int),
                        least_inv(grm, firsts, m0, new_is.items.m()),
                    decreases rps_@.len() - pi_,
                {
                    //@probe
                    let ref_pidx = &rps_[pi_];
                    let ghost pi0_ = pi_ as int;
                    pi_ = pi_ + 1;
                    let ghost r1_ = new_is.items.m();
                    let ghost zt2_ = zero_todos@;
        //@end
        //@endbody
    }
}
pub fn sym_eq(a: &Symbol<$T>, b: &Symbol<$T>) -> (r: bool) ensures r == (*a == *b)
{ match (a, b) { (Symbol::Rule(x), Symbol::Rule(y)) => x.0 == y.0, (Symbol::Token(x), Symbol::Token(y)) => x.0 == y.0, _ => false } }
//@use prelude/tail.rs
