//@unit c20_lex props=C20 widths=u8,u16,u32
//@use prelude/head.rs

#[verifier::external_body] pub struct Name { _x: usize }
#[verifier::external_body] pub struct RuleD { _x: usize }
pub struct LexParser { pub rules: Vec<RuleD> }
// `StorageT::try_from(n)`: succeeds exactly when n fits
pub fn try_from_usize(n: usize) -> (r: Result<$T, ()>)
    ensures n <= $TMAX ==> r == Ok::<$T, ()>(n as $T), n > $TMAX ==> r is Err
{ if n <= $TMAX as usize { Ok(n as $T) } else { Err(()) } }
// `.unwrap_or_else(|_| panic!("StorageT::try_from failed on {} (if StorageT is an unsigned integer type, this probably
// means that {} exceeds the type's maximum value)", ..))`: the documented refusal
pub fn unwrap_or_refuse(r: Result<$T, ()>) -> (v: $T)
    ensures r == Ok::<$T, ()>(v)
{ match r { Ok(v) => v, Err(_) => { refuse(); 0 } } }

impl LexParser {
    //@ctx rule_tok_id: the token id a lex rule gets is its position in the rule list
    fn rule_tok_id(&self, name: Option<Name>) -> (tok_id: $T)
        ensures tok_id as usize == self.rules@.len(), // OBL: C20.lex_rule_ids_are_lossless_or_the_lexer_is_refused
    {
        //@probe
        //@body file=lrlex/src/lib/parser.rs fn=parse_rule block=`^\s*let rules_len = self\.rules\.len\(\);` endx=`^\s*let rule = Rule::new\($`
        //@rule n=* `LexerTypesT::\$T::try_from\(rules_len\)` => `try_from_usize(rules_len)`
        //@rule n=* `try_from_usize\(rules_len\)\s*\.unwrap_or_else\(\|_\| panic!\("\$T::try_from[^;]*\)\);` => `unwrap_or_refuse(try_from_usize(rules_len));`
        //@rule n=* `panic!\("\$T::try_from[^;]*?rules_len, rules_len\)` => `{ refuse(); vpanic() }`
        //@endbody
        tok_id
    }
}
//@use prelude/tail.rs
