//@unit c03_preclines props=C03,C10 widths=u32
//@use prelude/head.rs
//@use prelude/cursor.rs

// The precedence directives of a yacc grammar (cfgrammar/src/lib/yacc/parser.rs, the last block of the directive
// loop of parse_declarations): one %left / %right / %nonassoc line.  Decides for C03 / C10: every token of the line
// that has no precedence yet gets the line's associativity and the current level - the same for all tokens of the
// line - and the next line's level is one higher; a token that already has a precedence keeps it (and is reported).
#[derive(Clone, Copy, PartialEq, Eq)] pub enum AssocKind { Left, Right, Nonassoc }
#[derive(Clone, Copy, PartialEq, Eq)] pub struct Precedence { pub level: u64, pub kind: AssocKind }
#[derive(Clone, Copy)]
pub enum YaccGrammarErrorKind { IllegalString, UnknownDeclaration, DuplicatePrecedence, Other }
pub struct YaccGrammarError { pub kind: YaccGrammarErrorKind, pub spans: Vec<Span> }
pub open spec fn err_ok(src: &Src, e: YaccGrammarError) -> bool { e.spans@.len() > 0 && spans_ok(src, e.spans@) }
impl StrBuf { pub uninterp spec fn id(&self) -> int; }
// HashMap<String, (Precedence, Span)> with its entry API.  An occupied entry hands out what is stored; the only thing done
// with a vacant one is `insert(v)`, so the stand-in is told which value that will be and accounts for it.
#[verifier::external_body] pub struct PrecMap { _x: usize }
#[verifier::external_body] pub struct PrecOcc { _x: usize }
#[verifier::external_body] pub struct PrecVac { _x: usize }
pub enum PrecEntry { Occupied(PrecOcc), Vacant(PrecVac) }
impl PrecMap {
    pub uninterp spec fn m(&self) -> Map<int, (Precedence, Span)>;
    #[verifier::external_body]
    pub fn entry(&mut self, n: StrBuf, pending: (Precedence, Span)) -> (r: PrecEntry)
        ensures
            old(self).m().contains_key(n.id()) ==> r is Occupied && final(self).m() == old(self).m() && r->Occupied_0.v() == old(self).m()[n.id()],
            !old(self).m().contains_key(n.id()) ==> r is Vacant && final(self).m() == old(self).m().insert(n.id(), pending) && r->Vacant_0.pending() == pending,
    { unimplemented!() }
}
impl PrecOcc { pub uninterp spec fn v(&self) -> (Precedence, Span); #[verifier::external_body] pub fn get(&self) -> (r: &(Precedence, Span)) ensures *r == self.v() { unimplemented!() } }
impl PrecVac { pub uninterp spec fn pending(&self) -> (Precedence, Span); #[verifier::external_body] pub fn insert(self, v: (Precedence, Span)) requires v == self.pending() { unimplemented!() } } // OBLG: C03.preclines.what_is_inserted_is_what_was_announced
#[verifier::external_body]
pub fn add_duplicate_occurrence(errs: &mut Vec<YaccGrammarError>, kind: YaccGrammarErrorKind, orig_span: Span, dup_span: Span) { unimplemented!() }
pub struct GrammarAST { pub precs: PrecMap }
pub struct YaccParser { pub src: Src, pub num_newlines: usize, pub ast: GrammarAST }
impl YaccParser {
    // contracts proved in unit c12_yacc
    #[verifier::external_body]
    fn mk_error(&self, k: YaccGrammarErrorKind, off: usize) -> (r: YaccGrammarError) requires self.src.ok(off as int) ensures err_ok(&self.src, r) { unimplemented!() }
    #[verifier::external_body]
    fn lookahead_is(&self, s: Lit, i: usize) -> (r: Option<usize>)
        requires self.src.ok(i as int),
        ensures r matches Some(j) ==> j == i + s.slen() && self.src.ok(j as int), (r is Some) == self.src.spec_starts_with(i as int, s),
    { unimplemented!() }
    #[verifier::external_body]
    fn parse_ws(&mut self, i0: usize, inc_newlines: bool) -> (r: Result<usize, YaccGrammarError>)
        requires old(self).src.ok(i0 as int), old(self).num_newlines <= i0,
        ensures final(self).src == old(self).src, final(self).ast == old(self).ast,
            r matches Ok(j) ==> i0 <= j && old(self).src.ok(j as int) && final(self).num_newlines <= j,
            r matches Err(e) ==> err_ok(&old(self).src, e),
    { unimplemented!() }
    #[verifier::external_body]
    fn parse_token(&self, i: usize) -> (r: Result<(usize, StrBuf, Span, bool), YaccGrammarError>)
        requires self.src.ok(i as int),
        ensures r matches Ok(t) ==> i < t.0 && self.src.ok(t.0 as int) && span_ok(&self.src, t.2), r matches Err(e) ==> err_ok(&self.src, e),
    { unimplemented!() }
}

// ---------------- specification ----------------
// the associativity the keyword at position i stands for
pub open spec fn kind_at(src: &Src, i: int) -> Option<AssocKind> {
    if src.spec_starts_with(i, spec_lit("%left"@, 5)) { Some(AssocKind::Left) }
    else if src.spec_starts_with(i, spec_lit("%right"@, 6)) { Some(AssocKind::Right) }
    else if src.spec_starts_with(i, spec_lit("%nonassoc"@, 9)) { Some(AssocKind::Nonassoc) }
    else { None }
}
// m1 is m0 plus tokens that all have the precedence p (tokens that had one keep it)
pub open spec fn line_added(m0: Map<int, (Precedence, Span)>, m1: Map<int, (Precedence, Span)>, p: Precedence) -> bool {
    &&& forall|k: int| #[trigger] m0.contains_key(k) ==> m1.contains_key(k) && m1[k] == m0[k]
    &&& forall|k: int| #[trigger] m1.contains_key(k) && !m0.contains_key(k) ==> m1[k].0 == p
}

impl YaccParser {
    //@ctx prec_line: the block at the end of the directive loop of parse_declarations, entered with the cursor `i` on a directive that is none of the others; `prec_level` counts the precedence lines seen so far
    fn prec_line(&mut self, i0: usize, prec_level0: u64, errs: &mut Vec<YaccGrammarError>) -> (r: Result<(usize, u64), YaccGrammarError>)
        requires old(self).src.ok(i0 as int), old(self).num_newlines <= i0, prec_level0 <= i0,
        ensures final(self).src == old(self).src,
            r matches Ok(t) ==> kind_at(&old(self).src, i0 as int) is Some
                && line_added(old(self).ast.precs.m(), final(self).ast.precs.m(), Precedence { level: prec_level0, kind: kind_at(&old(self).src, i0 as int)->Some_0 }), // OBL: C03.preclines.every_token_of_a_line_gets_the_lines_level_and_associativity C10.preclines.every_token_of_a_line_gets_the_lines_level_and_associativity
            r matches Ok(t) ==> t.1 == prec_level0 + 1 && i0 < t.0 && old(self).src.ok(t.0 as int), // OBL: C03.preclines.the_next_line_is_one_level_higher
            r is Err ==> (forall|k: int| #[trigger] old(self).ast.precs.m().contains_key(k) ==> final(self).ast.precs.m().contains_key(k) && final(self).ast.precs.m()[k] == old(self).ast.precs.m()[k]),
    {
        //@probe
        let mut i = i0;
        let mut prec_level = prec_level0;
        let ghost m0 = self.ast.precs.m();
        //@body file=cfgrammar/src/lib/yacc/parser.rs fn=parse_declarations block=`^\s*let k;$` end=`^\s*prec_level \+= 1;$`
        //@use prelude/cursor_rules.rs
        //@rule n=1 `^(\s*)let k;$` => `\1let k: usize;`
        //@rule n=1 `^(\s*)let kind;$` => `\1let kind: AssocKind;`
        //@rule n=1 `match self\.ast\.precs\.entry\(n\) \{` => `match self.ast.precs.entry(n, (Precedence { level: prec_level, kind }, span)) {`
        //@rule n=1 `\bEntry::Occupied\(` => `PrecEntry::Occupied(`
        //@rule n=1 `\bEntry::Vacant\(` => `PrecEntry::Vacant(`
        //@rule n=1 `add_duplicate_occurrence\(\s*errs,\s*((?:[^;()]|\([^()]*\))*?),?\s*\)(;?)` => `add_duplicate_occurrence(errs, \1)\2`
        //@rule n=1 `^(\s*)while i < self\.src\.len\(\) && num_newlines == self\.num_newlines \{$` =>>
                while i < self.src.len() && num_newlines == self.num_newlines
                    invariant self.src == old(self).src, self.src.ok(i as int), i0 < i, self.num_newlines <= i, prec_level == prec_level0, m0 == old(self).ast.precs.m(),
                        kind_at(&self.src, i0 as int) == Some(kind),
                        line_added(m0, self.ast.precs.m(), Precedence { level: prec_level0, kind }), // OBL: C03.preclines.tokens_so_far_have_the_lines_level_and_associativity
                    decreases self.src.slen() - i,
                {
                    //@probe
        //@end
        //@endbody
        Ok((i, prec_level))
    }
}
//@use prelude/tail.rs
